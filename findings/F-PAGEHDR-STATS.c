/* F-PAGEHDR-STATS witness: parquet_write_page_header serialises DataPageHeader.statistics, parquet_parse_page_header sets
 * has_statistics but skips the struct, so null_count / min / max do not survive the round trip.
 * Returns 1 iff the parsed statistics differ from the written ones. */
#include <stdint.h>
#include <stdio.h>
#include <string.h>
#include "thrift/parquet_types.h"
#include "core/buffer.h"
int main(void) {
    parquet_page_header_t w, r; memset(&w, 0, sizeof w);
    uint8_t mx[2] = {0x07, 0x00}, mn[2] = {0x01, 0x00};
    w.type = CARQUET_PAGE_DATA; w.uncompressed_page_size = 8; w.compressed_page_size = 8;
    w.data_page_header.num_values = 2; w.data_page_header.encoding = CARQUET_ENCODING_PLAIN;
    w.data_page_header.definition_level_encoding = CARQUET_ENCODING_RLE; w.data_page_header.repetition_level_encoding = CARQUET_ENCODING_RLE;
    w.data_page_header.has_statistics = true;
    w.data_page_header.statistics.has_null_count = true; w.data_page_header.statistics.null_count = 5;
    w.data_page_header.statistics.max_value = mx; w.data_page_header.statistics.max_value_len = 2;
    w.data_page_header.statistics.min_value = mn; w.data_page_header.statistics.min_value_len = 2;
    carquet_buffer_t b; carquet_buffer_init(&b); carquet_error_t err; memset(&err, 0, sizeof err);
    if (parquet_write_page_header(&w, &b, &err) != CARQUET_OK) return 2;
    size_t used = 0;
    if (parquet_parse_page_header(carquet_buffer_data(&b), carquet_buffer_size(&b), &r, &used, &err) != CARQUET_OK) return 2;
    const parquet_statistics_t* s = &r.data_page_header.statistics;
    printf("has_statistics %d, has_null_count %d null_count %lld, max_value_len %d, min_value_len %d (written: 1, 1, 5, 2, 2)\n",
           r.data_page_header.has_statistics, s->has_null_count, (long long)s->null_count, s->max_value_len, s->min_value_len);
    int ok = r.data_page_header.has_statistics && s->has_null_count && s->null_count == 5 && s->max_value_len == 2 && s->min_value_len == 2 &&
             s->max_value && s->min_value && memcmp(s->max_value, mx, 2) == 0 && memcmp(s->min_value, mn, 2) == 0;
    carquet_buffer_destroy(&b);
    return !ok;
}
