/* F-DELTA-BLOCKSHAPE witness: DELTA_BINARY_PACKED allows any block size that is a multiple of 128 and any mini-block count
 * whose quotient is a multiple of 32 (Encodings.md); parquet-rs writes INT64 columns with 256-value blocks of 4 x 64.
 * carquet_delta_decode_int32/int64 accept only block size <= 128 with <= 4 mini-blocks of <= 32 values and return
 * CARQUET_ERROR_DECODE for every other legal header.
 * Stream: block 256, 4 mini-blocks, 3 values, first 7; min delta 1, widths 1 0 0 0, stored deltas 0,1 -> 7, 8, 10.
 * Returns 1 iff carquet does not decode 7, 8, 10 with all 18 bytes consumed. */
#include <stdint.h>
#include <stdio.h>
#include <stddef.h>
#include <carquet/carquet.h>
carquet_status_t carquet_delta_decode_int64(const uint8_t*, size_t, int64_t*, int32_t, size_t*);
int main(void) {
    const uint8_t s[18] = { 0x80, 0x02, 0x04, 0x03, 0x0e,  0x02, 0x01, 0x00, 0x00, 0x00,  0x02, 0, 0, 0, 0, 0, 0, 0 };
    int64_t v[3] = { -1, -1, -1 }; size_t used = 0;
    carquet_status_t st = carquet_delta_decode_int64(s, sizeof s, v, 3, &used);
    printf("status %d, values %lld %lld %lld, consumed %zu (expected 0, 7 8 10, 18)\n", (int)st, (long long)v[0], (long long)v[1], (long long)v[2], used);
    return !(st == CARQUET_OK && v[0] == 7 && v[1] == 8 && v[2] == 10 && used == sizeof s);
}
