/* F-DICT-ATDATA witness: a column chunk whose dictionary page is the page `data_page_offset` points at, without the optional
 * `dictionary_page_offset` (layout of older writers; parquet-mr / Arrow walk the pages from the chunk start and accept it).
 * load_next_page_mmap / load_next_page_fread load a dictionary only when has_dictionary_page_offset is set and otherwise
 * demand a data page at data_page_offset: "Expected data page".
 * file_dict_at_data: OPTIONAL INT32, dictionary {7,8,9}, 3 levels def 1,0,1, RLE_DICTIONARY indices 2,0  => values 9, 7.
 * File by the independent reference writer, accepted and decoded by the reference reader.
 * Returns 1 iff carquet does not return the stored levels and values. */
#include <stdio.h>
#include <stdint.h>
#include <string.h>
#include <stdlib.h>
#include <carquet/carquet.h>
/* read column 0 of row group 0 in one read_batch call; returns the level count or -1 (open / get_column / read_batch error) */
static int64_t read_all(const unsigned char* file, size_t len, void* vals, int16_t* defs, int16_t* reps, int cap) {
    carquet_error_t err; memset(&err, 0, sizeof err);
    unsigned char* copy = malloc(len); memcpy(copy, file, len);
    carquet_reader_t* r = carquet_reader_open_buffer(copy, len, NULL, &err);
    if (!r) { printf("  open failed: %s\n", err.message); free(copy); return -1; }
    carquet_column_reader_t* cr = carquet_reader_get_column(r, 0, 0, &err);
    if (!cr) { printf("  get_column failed: %s\n", err.message); carquet_reader_close(r); free(copy); return -1; }
    int64_t n = carquet_column_read_batch(cr, vals, cap, defs, reps);
    carquet_column_reader_free(cr); carquet_reader_close(r); free(copy);
    return n;
}
static const unsigned char file_dict_at_data[125] = {
    0x50,0x41,0x52,0x31,0x15,0x04,0x15,0x18,0x15,0x18,0x4c,0x15,0x06,0x15,0x00,0x00,0x00,0x07,0x00,0x00,0x00,0x08,0x00,0x00,
    0x00,0x09,0x00,0x00,0x00,0x15,0x00,0x15,0x14,0x15,0x14,0x2c,0x15,0x06,0x15,0x10,0x15,0x06,0x15,0x06,0x00,0x00,0x02,0x00,
    0x00,0x00,0x03,0x05,0x02,0x03,0x02,0x00,0x15,0x02,0x19,0x2c,0x48,0x06,0x73,0x63,0x68,0x65,0x6d,0x61,0x15,0x02,0x00,0x15,
    0x02,0x25,0x02,0x18,0x01,0x76,0x00,0x16,0x06,0x19,0x1c,0x19,0x1c,0x26,0x00,0x1c,0x15,0x02,0x19,0x35,0x00,0x10,0x06,0x19,
    0x18,0x01,0x76,0x15,0x00,0x16,0x06,0x16,0x68,0x16,0x68,0x26,0x08,0x00,0x00,0x16,0x68,0x16,0x06,0x00,0x00,0x3d,0x00,0x00,
    0x00,0x50,0x41,0x52,0x31,
};

int main(void) {
    int32_t v[8]; int16_t d[8], r[8];
    memset(v, 0, sizeof v); memset(d, 0x55, sizeof d);
    int64_t n = read_all(file_dict_at_data, sizeof file_dict_at_data, v, d, r, 8);
    printf("dictionary page at data_page_offset: read_batch -> %lld (stored: 3 levels 1 0 1, values 9 7)\n", (long long)n);
    if (n != 3) return 1;
    if (d[0] != 1 || d[1] != 0 || d[2] != 1 || v[0] != 9 || v[1] != 7) return 1;
    return 0;
}
