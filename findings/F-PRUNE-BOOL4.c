/* F-PRUNE-BOOL4 — src/reader/statistics.c get_compare_fn maps CARQUET_PHYSICAL_BOOLEAN to compare_int32, which reads
 * 4 bytes from the probe and from min/max.  BOOLEAN statistics are 1-byte plain values (and a bool probe is 1 byte), so
 * carquet_reader_row_group_matches reads 3 bytes past each buffer (heap-buffer-overflow under ASan) and decides on
 * garbage.  Here the adjacent bytes are chosen so that the garbage decides: min = max = probe = true, yet x == true is
 * reported as cannot-match.  Exit status 1 iff the defect manifests (ASan aborts earlier with its own non-zero status
 * when the buffers are exact-size heap objects: run with BOOL4_HEAP=1). */
#include <carquet/carquet.h>
#include "reader/reader_internal.h"
#include <stdio.h>
#include <stdlib.h>
#include <string.h>

static carquet_reader_t R; static carquet_schema_t S; static parquet_schema_element_t elems[2];
static int32_t leaf_idx[1] = { 1 }; static parquet_row_group_t rg; static parquet_column_chunk_t chunk;

int main(void) {
    /* 1-byte values embedded in 4-byte cells so that the over-read stays inside our own memory */
    static uint8_t minc[4] = { 1, 0x00, 0, 0 }, maxc[4] = { 1, 0x00, 0, 0 }, probec[4] = { 1, 0x7f, 0, 0 };
    uint8_t *mn = minc, *mx = maxc, *pr = probec;
    if (getenv("BOOL4_HEAP")) { mn = malloc(1); mx = malloc(1); pr = malloc(1); *mn = *mx = *pr = 1; }
    elems[0].num_children = 1; elems[1].has_type = true; elems[1].type = CARQUET_PHYSICAL_BOOLEAN;
    S.elements = elems; S.num_elements = 2; S.leaf_indices = leaf_idx; S.num_leaves = 1;
    chunk.has_metadata = true; chunk.metadata.type = CARQUET_PHYSICAL_BOOLEAN; chunk.metadata.has_statistics = true;
    chunk.metadata.statistics.min_value = mn; chunk.metadata.statistics.min_value_len = 1;
    chunk.metadata.statistics.max_value = mx; chunk.metadata.statistics.max_value_len = 1;
    rg.columns = &chunk; rg.num_columns = 1;
    R.schema = &S; R.metadata.row_groups = &rg; R.metadata.num_row_groups = 1;
    bool mm = true;
    carquet_status_t s = carquet_reader_row_group_matches(&R, 0, 0, CARQUET_COMPARE_EQ, pr, 1, &mm);
    if (s == CARQUET_OK && !mm) {
        printf("BOOLEAN column with min = max = true, predicate x == true: reported as cannot-match (bytes behind the 1-byte values were compared)\n");
        return 1;
    }
    return 0;
}
