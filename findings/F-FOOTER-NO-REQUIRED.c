/* F-FOOTER-NO-REQUIRED witness: parquet_parse_file_metadata (src/thrift/parquet_types.c) accepts a FileMetaData struct that lacks its
 * required fields (version, schema, num_rows, row_groups) — even a lone Thrift STOP byte — so every carquet_reader_open* opens such
 * a "file" as a valid table with 0 rows and 0 columns.  Consequence for C18: carquet's own writer produces files with proper
 * prefixes of that form.  An INT32 REQUIRED column holding ..., 0, 1, 0x31524150 ("PAR1"), ... is stored PLAIN as
 *     00 00 00 00 | 01 00 00 00 | 50 41 52 31
 * A crash that cuts the file right behind these bytes leaves   ... 00 <footer length 1> "PAR1":  the "footer" is the single byte
 * 0x00 = STOP.  The truncated file opens without error as an empty table (silent loss of everything written) instead of being
 * rejected.  Returns 1 iff some open path accepts the proper prefix. */
#include <stdio.h>
#include <string.h>
#include <stdlib.h>
#include <unistd.h>
#include <carquet/carquet.h>
int main(void) {
    carquet_error_t err; memset(&err, 0, sizeof err);
    char path[] = "/tmp/f_footer_required_XXXXXX";
    int fd = mkstemp(path); if (fd < 0) return 2; close(fd);
    carquet_schema_t* sc = carquet_schema_create(&err);
    if (!sc || carquet_schema_add_column(sc, "a", CARQUET_PHYSICAL_INT32, NULL, CARQUET_REPETITION_REQUIRED, 0) != CARQUET_OK) return 2;
    carquet_writer_options_t wo; carquet_writer_options_init(&wo);
    wo.compression = CARQUET_COMPRESSION_UNCOMPRESSED;
    carquet_writer_t* w = carquet_writer_create(path, sc, &wo, &err);
    if (!w) return 2;
    static const int32_t v[4] = {0, 1, 0x31524150, 7};
    if (carquet_writer_write_batch(w, 0, v, 4, NULL, NULL) != CARQUET_OK) return 2;
    if (carquet_writer_close(w) != CARQUET_OK) return 2;
    carquet_schema_free(sc);
    static unsigned char buf[4096];
    FILE* f = fopen(path, "rb"); if (!f) return 2;
    size_t len = fread(buf, 1, sizeof buf, f); fclose(f);
    static const unsigned char pat[9] = {0x00, 0x01, 0x00, 0x00, 0x00, 'P', 'A', 'R', '1'};
    size_t k = 0;
    for (size_t i = 0; i + 9 <= len; i++) if (memcmp(buf + i, pat, 9) == 0) { k = i + 9; break; }
    if (k == 0 || k >= len) { printf("pattern not found in the written file (%zu bytes)\n", len); remove(path); return 2; }
    printf("complete file: %zu bytes; proper prefix of %zu bytes ends in 00 | 01 00 00 00 | PAR1\n", len, k);
    int accepted = 0;
    unsigned char* cut = malloc(k); memcpy(cut, buf, k);
    carquet_reader_t* r = carquet_reader_open_buffer(cut, k, NULL, &err);
    if (r) { printf("open_buffer ACCEPTS the prefix: %lld rows, %d columns, %d row groups\n", (long long)carquet_reader_num_rows(r), carquet_reader_num_columns(r), carquet_reader_num_row_groups(r)); accepted++; carquet_reader_close(r); }
    else printf("open_buffer rejects the prefix: %s\n", err.message);
    f = fopen(path, "wb"); if (!f) return 2; fwrite(cut, 1, k, f); fclose(f);
    for (int m = 0; m < 2; m++) {
        carquet_reader_options_t ro; carquet_reader_options_init(&ro); ro.use_mmap = (m == 1);
        memset(&err, 0, sizeof err);
        r = carquet_reader_open(path, &ro, &err);
        if (r) { printf("open(%s) ACCEPTS the prefix: %lld rows, %d columns\n", m ? "mmap" : "stdio", (long long)carquet_reader_num_rows(r), carquet_reader_num_columns(r)); accepted++; carquet_reader_close(r); }
        else printf("open(%s) rejects the prefix: %s\n", m ? "mmap" : "stdio", err.message);
    }
    free(cut); remove(path);
    return accepted ? 1 : 0;
}
