/* F-THRIFT-DELTA-WRAP: thrift_write_field_header computes the field-id delta in int16_t, so id - last wraps:
 * previous id 32764, id -32768 gives delta 4 and the SHORT form (0x45 for an i32 field) is written although the difference is
 * -65532 (the compact protocol allows the short form only for 1 <= id - last <= 15).  A reader that adds the
 * delta without 16-bit wrap-around (e.g. the Python implementation) reconstructs id 32768.
 * Exit status 1 iff the defect manifests. */
#include <stdio.h>
#include "thrift/thrift_encode.h"
#include "core/buffer.h"
int main(void) {
    carquet_buffer_t buf; thrift_encoder_t enc;
    carquet_buffer_init(&buf);
    thrift_encoder_init(&enc, &buf);
    thrift_write_struct_begin(&enc);
    thrift_write_field_header(&enc, 5, 32764);
    size_t before = buf.size;
    thrift_write_field_header(&enc, 5, -32768);
    size_t n = buf.size - before;
    printf("header for (last=32764, id=-32768): %zu byte(s), first 0x%02x\n", n, buf.data[before]);
    int bad = (n == 1);   /* short form; the long form is 1 + 3 bytes: 0x05 0xff 0xff 0x03 */
    carquet_buffer_destroy(&buf);
    return bad;
}
