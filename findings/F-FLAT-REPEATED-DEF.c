/* F-FLAT-REPEATED-DEF witness: a flat REPEATED column gets maximum definition level 0 from the builder
 * (src/metadata/schema.c carquet_schema_add_column: `(repetition == OPTIONAL) ? 1 : 0`) and from the writer
 * (src/writer/file_writer.c add_column, same formula), while the reader computes the textbook value 1
 * (file_reader.c: REPEATED adds 1 to definition and repetition level).  The writer therefore emits no definition-level
 * block for the column and the reader, expecting one, takes the first value bytes for its length prefix.
 * Three entries {10,20,30} with def {1,1,1}, rep {0,1,0} (records [10,20] and [30]) are written and read back.
 * Returns 1 iff they do not come back. */
#include <stdio.h>
#include <string.h>
#include <stdlib.h>
#include <unistd.h>
#include <carquet/carquet.h>
int main(void) {
    carquet_error_t err; memset(&err, 0, sizeof err);
    char path[] = "/tmp/f_flat_repeated_XXXXXX";
    int fd = mkstemp(path); if (fd < 0) return 2; close(fd);
    carquet_schema_t* sc = carquet_schema_create(&err);
    if (carquet_schema_add_column(sc, "x", CARQUET_PHYSICAL_INT32, NULL, CARQUET_REPETITION_REPEATED, 0) != CARQUET_OK) return 2;
    carquet_writer_options_t wo; carquet_writer_options_init(&wo);
    carquet_writer_t* w = carquet_writer_create(path, sc, &wo, &err);
    if (!w) { printf("writer_create failed: %s\n", err.message); return 2; }
    int32_t x[3] = {10, 20, 30}; int16_t def[3] = {1, 1, 1}, rep[3] = {0, 1, 0};
    if (carquet_writer_write_batch(w, 0, x, 3, def, rep) != CARQUET_OK) { printf("write_batch failed\n"); return 2; }
    if (carquet_writer_close(w) != CARQUET_OK) { printf("close failed\n"); return 2; }
    carquet_schema_free(sc);
    carquet_reader_t* r = carquet_reader_open(path, NULL, &err);
    if (!r) { printf("open failed: %s\n", err.message); remove(path); return 1; }
    carquet_column_reader_t* cr = carquet_reader_get_column(r, 0, 0, &err);
    if (!cr) { printf("get_column failed: %s\n", err.message); carquet_reader_close(r); remove(path); return 1; }
    int32_t got[4] = {0, 0, 0, 0}; int16_t gd[4] = {-1, -1, -1, -1}, gr[4] = {-1, -1, -1, -1};
    long long n = carquet_column_read_batch(cr, got, 4, gd, gr);
    printf("read_batch -> %lld; def %d %d %d (written 1 1 1), rep %d %d %d (written 0 1 0), values %d %d %d (written 10 20 30)\n", n, gd[0], gd[1], gd[2], gr[0], gr[1], gr[2], got[0], got[1], got[2]);
    int bad = n != 3;
    for (int i = 0; i < 3 && !bad; i++) if (gd[i] != def[i] || gr[i] != rep[i] || got[i] != x[i]) bad = 1;
    carquet_column_reader_free(cr); carquet_reader_close(r); remove(path);
    return bad;
}
