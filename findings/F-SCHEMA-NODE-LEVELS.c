/* F-SCHEMA-NODE-LEVELS witness: carquet_schema_node_max_def_level / _max_rep_level — documented as "the maximum definition
 * (repetition) level for a column", node must be a leaf — return only the node's own contribution
 * ((repetition == OPTIONAL) ? 1 : 0 and (repetition == REPEATED) ? 1 : 0, src/metadata/schema.c): ancestors are ignored and a
 * REPEATED leaf gets definition level 0.  The levels the reader uses internally (schema->max_def_levels[], file_reader.c
 * compute_levels) follow the textbook rule; the public accessors are the only way for a caller to learn them.
 * File (reference writer): schema { a: OPTIONAL group { b: REPEATED group { v: OPTIONAL INT32 } }, w: REPEATED INT64 }, no row group.
 * Textbook: v -> def 3, rep 1;  w -> def 1, rep 1.   Returns 1 iff an accessor disagrees. */
#include <stdio.h>
#include <string.h>
#include <carquet/carquet.h>
static const unsigned char file[] = {
    0x50,0x41,0x52,0x31,0x15,0x02,0x19,0x5c,0x48,0x06,0x73,0x63,0x68,0x65,0x6d,0x61,0x15,0x04,0x00,0x35,0x02,0x18,0x01,0x61,
    0x15,0x02,0x00,0x35,0x04,0x18,0x01,0x62,0x15,0x02,0x00,0x15,0x02,0x25,0x02,0x18,0x01,0x76,0x00,0x15,0x04,0x25,0x04,0x18,
    0x01,0x77,0x00,0x16,0x00,0x19,0x0c,0x00,0x34,0x00,0x00,0x00,0x50,0x41,0x52,0x31,
};
int main(void) {
    carquet_error_t err; memset(&err, 0, sizeof err);
    carquet_reader_t* r = carquet_reader_open_buffer(file, sizeof file, NULL, &err);
    if (!r) { printf("open failed: %s\n", err.message); return 2; }
    const carquet_schema_t* sc = carquet_reader_schema(r);
    int bad = 0;
    static const struct { const char* name; int def, rep; } want[2] = { {"v", 3, 1}, {"w", 1, 1} };
    for (int i = 0; i < carquet_schema_num_elements(sc); i++) {
        const carquet_schema_node_t* nd = carquet_schema_get_element(sc, i);
        if (!carquet_schema_node_is_leaf(nd)) continue;
        for (int k = 0; k < 2; k++) if (!strcmp(carquet_schema_node_name(nd), want[k].name)) {
            int d = carquet_schema_node_max_def_level(nd), p = carquet_schema_node_max_rep_level(nd);
            printf("leaf %s: accessor def %d rep %d, textbook def %d rep %d\n", want[k].name, d, p, want[k].def, want[k].rep);
            if (d != want[k].def || p != want[k].rep) bad = 1;
        }
    }
    carquet_reader_close(r);
    return bad;
}
