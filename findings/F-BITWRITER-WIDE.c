/* F-BITWRITER-WIDE witness: carquet_bit_writer_write_bits ORs (value << buffer_bits) into a 64-bit accumulator that is
 * drained only once it holds >= 56 bits; with up to 55 bits pending a write of more than 9 bits can exceed 64 and the top
 * bits of the value are lost.  Four 31-bit writes of 0x7fffffff must give 124 one-bits; the 4th write happens with 37 bits
 * pending (37+31 = 68 > 64) and loses its top 4 bits.  Returns 1 iff the written bytes differ from the expected ones. */
#include <stdint.h>
#include <stdio.h>
#include <string.h>
#include "core/bitpack.h"
int main(void) {
    uint8_t out[16]; memset(out, 0, sizeof out);
    carquet_bit_writer_t w;
    carquet_bit_writer_init(&w, out, sizeof out);
    for (int i = 0; i < 4; i++) carquet_bit_writer_write_bits(&w, 0x7fffffffu, 31);
    carquet_bit_writer_flush(&w);
    uint8_t expect[16] = {0xff,0xff,0xff,0xff,0xff,0xff,0xff,0xff,0xff,0xff,0xff,0xff,0xff,0xff,0xff,0x0f};
    int bad = memcmp(out, expect, 16) != 0 || carquet_bit_writer_bytes_written(&w) != 16;
    printf("bytes:"); for (int i = 0; i < 16; i++) printf(" %02x", out[i]); printf("  (expected 15 x ff, 0f)\n");
    return bad ? 1 : 0;
}
