/* F-DISPATCH-AVX512BW  (property C15)
 *
 * carquet_simd_dispatch_init() (src/simd/dispatch.c) installs every carquet_avx512_* kernel as soon as
 * cpu->has_avx512f is set.  Three of those kernels are written with AVX-512BW instructions:
 *   carquet_avx512_byte_stream_split_encode_float : _mm512_shuffle_epi8          (vpshufb zmm,  AVX512BW)
 *   carquet_avx512_unpack_bools                   : _mm512_maskz_set1_epi8       (vpbroadcastb zmm{k}{z}, AVX512BW)
 *   carquet_avx512_pack_bools                     : _mm512_test_epi8_mask, _mm512_maskz_loadu_epi8 (vptestmb, vmovdqu8, AVX512BW)
 * (and the whole file is built with -mavx512f -mavx512bw -mavx512vl, so the compiler may use BW/VL encodings anywhere
 * in it).  detect.c records has_avx512bw / has_avx512vl but the dispatcher never looks at them: on a CPU that reports
 * AVX-512F without AVX-512BW (Xeon Phi x200/x205 "Knights Landing/Mill": F, CD, ER, PF only) the selected kernels
 * raise #UD (SIGILL) instead of producing the scalar result.
 *
 * Witness: run the real dispatcher initialisation on the Knights Landing feature set (CPUID values found by the model
 * checker: leaf 7.0 EBX bit 16 set, bit 30 clear) and look at the installed pointers.  The kernels are not called
 * (the host may well support AVX-512BW).  Exit status 1 iff an AVX-512BW kernel is installed although BW was not
 * reported. */
#include <stdio.h>
#include <string.h>
#include "simd/dispatch.c"   /* g_dispatch is static: take the translation unit verbatim */

static carquet_cpu_info_t knl;
const carquet_cpu_info_t* carquet_get_cpu_info(void) {
    memset(&knl, 0, sizeof knl);
    knl.has_sse2 = knl.has_sse41 = knl.has_sse42 = knl.has_avx = knl.has_avx2 = true;
    knl.has_avx512f = true;          /* CPUID.7.0:EBX[16] */
    knl.has_avx512bw = false;        /* CPUID.7.0:EBX[30] */
    knl.has_avx512vl = false;        /* CPUID.7.0:EBX[31] */
    return &knl;
}

int main(void) {
    int bad = 0;
    carquet_simd_dispatch_init();
    if (g_dispatch.byte_split_encode_float == carquet_avx512_byte_stream_split_encode_float) { bad++; puts("byte_split_encode_float -> carquet_avx512_byte_stream_split_encode_float (vpshufb zmm: AVX512BW) without has_avx512bw"); }
    if (g_dispatch.unpack_bools == carquet_avx512_unpack_bools) { bad++; puts("unpack_bools -> carquet_avx512_unpack_bools (vpbroadcastb zmm{k}: AVX512BW) without has_avx512bw"); }
    if (g_dispatch.pack_bools == carquet_avx512_pack_bools) { bad++; puts("pack_bools -> carquet_avx512_pack_bools (vptestmb / vmovdqu8: AVX512BW) without has_avx512bw"); }
    return bad ? 1 : 0;
}
