/* F-DELTA-EMPTY witness: the DELTA_* encoders cannot represent the empty sequence.
 * carquet_delta_encode_int32/int64(n = 0) return OK with bytes_written == 0 -- not even the mandatory header
 * <block size> <mini-blocks> <total count = 0> <first value> -- and carquet's own carquet_delta_decode_int32 rejects those
 * 0 bytes (as does any DELTA_BINARY_PACKED reader); carquet_delta_length_encode / carquet_delta_strings_encode refuse
 * n = 0 with CARQUET_ERROR_INVALID_ARGUMENT.  Returns 1 iff decode(encode([])) fails. */
#include <stdint.h>
#include <stdio.h>
#include <stdlib.h>
#include <carquet/carquet.h>
#include "core/buffer.h"
carquet_status_t carquet_delta_encode_int32(const int32_t*, int32_t, uint8_t*, size_t, size_t*);
carquet_status_t carquet_delta_decode_int32(const uint8_t*, size_t, int32_t*, int32_t, size_t*);
carquet_status_t carquet_delta_length_encode(const carquet_byte_array_t*, int32_t, carquet_buffer_t*);
carquet_status_t carquet_delta_strings_encode(const carquet_byte_array_t*, int32_t, carquet_buffer_t*);
int main(void) {
    uint8_t buf[64]; size_t wr = 99, cons = 99; int32_t v[1] = {0}, o[1];
    carquet_status_t e = carquet_delta_encode_int32(v, 0, buf, sizeof buf, &wr);
    carquet_status_t d = carquet_delta_decode_int32(buf, wr, o, 0, &cons);
    carquet_byte_array_t ba[1] = {{0, 0}};
    carquet_buffer_t b; carquet_buffer_init(&b);
    carquet_status_t el = carquet_delta_length_encode(ba, 0, &b);
    carquet_status_t es = carquet_delta_strings_encode(ba, 0, &b);
    printf("delta encode(n=0): status %d, %zu bytes; decode of them: status %d; delta_length encode(n=0): %d; delta_strings encode(n=0): %d\n",
           (int)e, wr, (int)d, (int)el, (int)es);
    carquet_buffer_destroy(&b);
    return (e == CARQUET_OK && (wr == 0 || d != CARQUET_OK)) || el != CARQUET_OK || es != CARQUET_OK ? 1 : 0;
}
