/* F-SNAPPY-COPY1 (fixed in /repo by e5ca7a4; kept as a regression witness): carquet_snappy_decompress read the
 * offset byte of a copy-with-1-byte-offset element without checking ip < iend, so a stream whose last byte is such
 * a tag was read one byte past its end.  The input lives in an exact-size heap object: with the defect present the
 * AddressSanitizer build aborts (heap-buffer-overflow, exit status 99); without it the stream is rejected. */
#include <stdio.h>
#include <stdlib.h>
#include <stdint.h>
#include <carquet/error.h>
carquet_status_t carquet_snappy_decompress(const uint8_t*, size_t, uint8_t*, size_t, size_t*);
int main(void) {
    uint8_t* in = malloc(2); uint8_t* out = malloc(4); size_t n = 99;
    if (!in || !out) return 0;
    in[0] = 0x01;            /* preamble: 1 byte of output */
    in[1] = 0x01;            /* copy-1 tag (length 4, offset high bits 0); its offset byte would be in[2] */
    carquet_status_t st = carquet_snappy_decompress(in, 2, out, 4, &n);
    printf("status %d\n", (int)st);
    free(in); free(out);
    return st == CARQUET_OK;  /* accepting the truncated stream is wrong as well */
}
