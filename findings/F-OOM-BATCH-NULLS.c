/* F-OOM-BATCH-NULLS witness: carquet_batch_reader_next (src/reader/batch_reader.c) does not check the allocation of a column's null
 * bitmap (calloc) nor of the definition-level buffer (malloc).  When one of them fails the call still returns CARQUET_OK: the batch
 * has no null information (bitmap NULL, or all zero because the levels were never read), so NULL rows of an OPTIONAL column are
 * handed to the caller as ordinary values — silently wrong data instead of an error.
 * Allocation failure is injected into batch_reader.c only: the file is compiled into this program with malloc/calloc redirected
 * (the k-th allocation it makes fails, for every k).  Returns 1 iff some call reported OK but lost the NULL of row 1. */
#include <stdio.h>
#include <string.h>
#include <stdlib.h>
#include <unistd.h>
#include <carquet/carquet.h>
static long w_count, w_fail_at;
static void* w_malloc(size_t n) { if (++w_count == w_fail_at) return NULL; return malloc(n); }
static void* w_calloc(size_t a, size_t b) { if (++w_count == w_fail_at) return NULL; return calloc(a, b); }
#define malloc(n) w_malloc(n)
#define calloc(a, b) w_calloc(a, b)
#include "reader/batch_reader.c"
#undef malloc
#undef calloc

int main(void) {
    carquet_error_t err; memset(&err, 0, sizeof err);
    char path[] = "/tmp/f_oom_batch_nulls_XXXXXX";
    int fd = mkstemp(path); if (fd < 0) return 2; close(fd);
    carquet_schema_t* sc = carquet_schema_create(&err);
    if (!sc || carquet_schema_add_column(sc, "a", CARQUET_PHYSICAL_INT32, NULL, CARQUET_REPETITION_OPTIONAL, 0) != CARQUET_OK) return 2;
    carquet_writer_options_t wo; carquet_writer_options_init(&wo); wo.compression = CARQUET_COMPRESSION_UNCOMPRESSED;
    carquet_writer_t* w = carquet_writer_create(path, sc, &wo, &err);
    if (!w) return 2;
    static const int32_t v[2] = {10, 30}; static const int16_t def[3] = {1, 0, 1};          /* rows: 10, NULL, 30 */
    if (carquet_writer_write_batch(w, 0, v, 3, def, NULL) != CARQUET_OK || carquet_writer_close(w) != CARQUET_OK) return 2;
    carquet_schema_free(sc);
    int lost = 0;
    for (w_fail_at = 0; w_fail_at <= 12; w_fail_at++) {           /* 0 = fault-free */
        carquet_reader_t* r = carquet_reader_open(path, NULL, &err);
        if (!r) return 2;
        w_count = 0;
        carquet_batch_reader_config_t bc; carquet_batch_reader_config_init(&bc); bc.batch_size = 8; bc.num_threads = 1;
        carquet_batch_reader_t* br = carquet_batch_reader_create(r, &bc, &err);
        if (br) {
            carquet_row_batch_t* b = NULL;
            carquet_status_t st = carquet_batch_reader_next(br, &b);
            if (st == CARQUET_OK && b) {
                const void* data; const uint8_t* nulls; int64_t nv;
                if (carquet_row_batch_column(b, 0, &data, &nulls, &nv) == CARQUET_OK) {
                    int row1_null = nulls ? (nulls[0] >> 1) & 1 : 0;
                    printf("allocation #%ld of batch_reader.c fails: next() = OK, %lld rows, bitmap %s, row 1 %s\n", w_fail_at, (long long)nv,
                           nulls ? "present" : "NULL", row1_null ? "NULL (correct)" : "NOT NULL  <-- null lost");
                    if (nv == 3 && !row1_null) lost++;
                }
                carquet_row_batch_free(b);
            } else printf("allocation #%ld of batch_reader.c fails: next() = %d (error reported)\n", w_fail_at, (int)st);
            carquet_batch_reader_free(br);
        } else printf("allocation #%ld of batch_reader.c fails: create failed (error reported)\n", w_fail_at);
        carquet_reader_close(r);
    }
    remove(path);
    return lost ? 1 : 0;
}
