/* F-OOM-SCHEMA-NAME witness: carquet_schema_add_column / carquet_schema_add_group (src/metadata/schema.c) store
 * carquet_arena_strdup(name) without looking at the result.  When the arena has to take a new block for the name and that allocation
 * fails, the call still returns CARQUET_OK (add_group: a valid index): the column exists but has a NULL name — lookup by name no
 * longer finds it, carquet_schema_node_name (documented "never NULL") returns NULL, and a writer created from the schema dereferences
 * the NULL name.  The arena block is 64 KiB, so this needs > 64 KiB of names (here 70 columns with 1000-character names).
 * Allocation failure is injected into arena.c only (compiled into this program with malloc redirected; the k-th block allocation
 * fails, for every k).  Returns 1 iff some add_column reported OK and left a column without its name. */
#include <stdio.h>
#include <string.h>
#include <stdlib.h>
#include <carquet/carquet.h>
static long w_count, w_fail_at;
static void* w_malloc(size_t n) { if (++w_count == w_fail_at) return NULL; return malloc(n); }
#define malloc(n) w_malloc(n)
#include "core/arena.c"
#undef malloc
#define NCOLS 70
#define NAMELEN 1000
static char names[NCOLS][NAMELEN + 1];
int main(void) {
    for (int i = 0; i < NCOLS; i++) { memset(names[i], 'a' + i % 26, NAMELEN); names[i][0] = (char)('A' + i / 26); names[i][1] = (char)('a' + i % 26); names[i][NAMELEN] = 0; }
    int bad = 0;
    for (w_fail_at = 1; w_fail_at <= 4; w_fail_at++) {
        w_count = 0;
        carquet_error_t err; memset(&err, 0, sizeof err);
        carquet_schema_t* sc = carquet_schema_create(&err);
        if (!sc) { printf("arena block allocation #%ld fails: schema_create reports the error\n", w_fail_at); continue; }
        int ok = 1, c;
        for (c = 0; c < NCOLS && ok; c++) if (carquet_schema_add_column(sc, names[c], CARQUET_PHYSICAL_INT32, NULL, CARQUET_REPETITION_REQUIRED, 0) != CARQUET_OK) ok = 0;
        if (!ok) printf("arena block allocation #%ld fails: add_column #%d reports the error\n", w_fail_at, c - 1);
        else {
            for (c = 0; c < NCOLS; c++) {
                const char* nm = carquet_schema_node_name(carquet_schema_get_element(sc, 1 + c));
                if (carquet_schema_find_column(sc, names[c]) != c || nm == NULL) {
                    printf("arena block allocation #%ld fails: every add_column returned OK, but column %d has name %s and find_column() = %d\n",
                           w_fail_at, c, nm ? "(set)" : "NULL", carquet_schema_find_column(sc, names[c]));
                    bad++;
                }
            }
            if (!bad) printf("arena block allocation #%ld: not reached, schema intact\n", w_fail_at);
        }
        carquet_schema_free(sc);
    }
    return bad ? 1 : 0;
}
