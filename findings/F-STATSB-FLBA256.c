/* F-STATSB-FLBA256 — carquet_statistics_add_values() copies type_length bytes of a FIXED_LEN_BYTE_ARRAY value into the
 * builder's 256-byte min_value/max_value arrays without checking type_length <= 256.  With type_length 257 the copy
 * of max spills into min_len and the copy of min spills into max_value: build() then reports a min that is not the
 * (only) value of the column and has the wrong length; larger type lengths (> ~530) write past the heap object.
 * Exit status 1 iff the defect manifests. */
#include <carquet/carquet.h>
#include "thrift/parquet_types.h"
#include "core/arena.h"
#include <stdio.h>
#include <stdlib.h>
#include <string.h>
typedef struct carquet_statistics_builder carquet_statistics_builder_t;
carquet_statistics_builder_t* carquet_statistics_builder_create(carquet_physical_type_t type, int32_t type_length);
void carquet_statistics_builder_destroy(carquet_statistics_builder_t* b);
carquet_status_t carquet_statistics_add_values(carquet_statistics_builder_t* b, const void* values, int64_t n);
carquet_status_t carquet_statistics_build(const carquet_statistics_builder_t* b, carquet_arena_t* arena, parquet_statistics_t* stats);

int main(void) {
    enum { TL = 257 };
    static uint8_t v[TL];
    for (int i = 0; i < TL; i++) v[i] = (uint8_t)(i + 1);
    v[256] = 0x7e;                                              /* last byte distinct from the first */
    carquet_statistics_builder_t* b = carquet_statistics_builder_create(CARQUET_PHYSICAL_FIXED_LEN_BYTE_ARRAY, TL);
    if (!b) return 2;
    carquet_status_t s = carquet_statistics_add_values(b, v, 1);
    if (s != CARQUET_OK) { carquet_statistics_builder_destroy(b); return 0; }   /* rejecting the type length is a valid fix */
    parquet_statistics_t st;
    if (carquet_statistics_build(b, NULL, &st) != CARQUET_OK) return 2;
    int bad = 0;
    if (st.min_value && (st.min_value_len != TL || memcmp(st.min_value, v, TL) != 0)) {
        printf("min of a one-value FLBA(257) column: length %d, differs from the value: statistics storage overrun\n", st.min_value_len);
        bad = 1;
    }
    if (st.max_value && (st.max_value_len != TL || memcmp(st.max_value, v, TL) != 0)) {
        printf("max of a one-value FLBA(257) column: length %d, differs from the value\n", st.max_value_len);
        bad = 1;
    }
    free(st.min_value); free(st.max_value);
    carquet_statistics_builder_destroy(b);
    return bad;
}
