/* F-RLE-ZERORUN witness: a zero-length RLE run (header 0x00) is legal in the RLE/bit-packing hybrid and, like every RLE
 * run, is followed by its ceil(bit_width/8)-byte repeated value.  start_new_run() (carquet_rle_decoder_*,
 * carquet_rle_decode_all) and carquet_rle_decode_levels skip to the next header BEFORE consuming those value bytes, so
 * the value is parsed as the next run header and everything after it is mis-decoded.
 * Stream at bit width 3:  00 03 | 03 88 c6 fa  = empty RLE run (value 3), then one bit-packed group 0,1,..,7.
 * Returns 1 iff carquet does not return 0..7. */
#include <stdint.h>
#include <stdio.h>
#include "encoding/rle.h"
int main(void) {
    const uint8_t s[6] = {0x00, 0x03, 0x03, 0x88, 0xc6, 0xfa};
    uint32_t o[8] = {9, 9, 9, 9, 9, 9, 9, 9}; int16_t l[8] = {9, 9, 9, 9, 9, 9, 9, 9};
    int64_t n = carquet_rle_decode_all(s, sizeof s, 3, o, 8);
    int64_t m = carquet_rle_decode_levels(s, sizeof s, 3, l, 8);
    int bad = (n != 8) || (m != 8);
    printf("decode_all -> %lld values:", (long long)n);
    for (int i = 0; i < 8; i++) { printf(" %u", o[i]); if (o[i] != (uint32_t)i) bad = 1; }
    printf("\ndecode_levels -> %lld values:", (long long)m);
    for (int i = 0; i < 8; i++) { printf(" %d", l[i]); if (l[i] != i) bad = 1; }
    printf("\n(expected 8 values 0 1 2 3 4 5 6 7)\n");
    return bad;
}
