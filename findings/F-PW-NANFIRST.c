/* F-PW-NANFIRST — src/writer/page_writer.c update_statistics_float/_double seed min and max with the first value of the
 * page and afterwards update them with `v < min` / `v > max`.  When the first value is NaN both comparisons are false
 * for every later value, so min = max = NaN is written to the page header although the page holds ordinary numbers
 * (Parquet: NaN must not be written to min/max; a reader comparing against them prunes or mis-orders the page).
 * Exit status 1 iff the defect manifests. */
#include <carquet/carquet.h>
#include <math.h>
#include <stdio.h>
#include <string.h>
typedef struct carquet_page_writer carquet_page_writer_t;
carquet_page_writer_t* carquet_page_writer_create(carquet_physical_type_t type, carquet_encoding_t encoding, carquet_compression_t compression,
                                                  int16_t max_def_level, int16_t max_rep_level, int32_t type_length);
void carquet_page_writer_destroy(carquet_page_writer_t* w);
carquet_status_t carquet_page_writer_add_values(carquet_page_writer_t* w, const void* values, int64_t num_values, const int16_t* def_levels, const int16_t* rep_levels);
bool carquet_page_writer_get_statistics(const carquet_page_writer_t* w, const uint8_t** min_value, const uint8_t** max_value, size_t* value_size, int64_t* null_count);

int main(void) {
    int bad = 0;
    {
        float v[3] = { NAN, 1.0f, 2.0f };
        carquet_page_writer_t* w = carquet_page_writer_create(CARQUET_PHYSICAL_FLOAT, CARQUET_ENCODING_PLAIN, CARQUET_COMPRESSION_UNCOMPRESSED, 0, 0, 0);
        if (!w || carquet_page_writer_add_values(w, v, 3, NULL, NULL) != CARQUET_OK) return 2;
        const uint8_t *mn, *mx; size_t sz; int64_t nulls; float fmin, fmax;
        if (carquet_page_writer_get_statistics(w, &mn, &mx, &sz, &nulls)) {
            memcpy(&fmin, mn, 4); memcpy(&fmax, mx, 4);
            if (isnan(fmin) || isnan(fmax) || fmin > 1.0f || fmax < 2.0f) { printf("FLOAT page {NaN, 1, 2}: min=%f max=%f\n", fmin, fmax); bad = 1; }
        }
        carquet_page_writer_destroy(w);
    }
    {
        double v[2] = { NAN, -5.0 };
        carquet_page_writer_t* w = carquet_page_writer_create(CARQUET_PHYSICAL_DOUBLE, CARQUET_ENCODING_PLAIN, CARQUET_COMPRESSION_UNCOMPRESSED, 0, 0, 0);
        if (!w || carquet_page_writer_add_values(w, v, 2, NULL, NULL) != CARQUET_OK) return 2;
        const uint8_t *mn, *mx; size_t sz; int64_t nulls; double dmin, dmax;
        if (carquet_page_writer_get_statistics(w, &mn, &mx, &sz, &nulls)) {
            memcpy(&dmin, mn, 8); memcpy(&dmax, mx, 8);
            if (isnan(dmin) || isnan(dmax) || dmin > -5.0 || dmax < -5.0) { printf("DOUBLE page {NaN, -5}: min=%f max=%f\n", dmin, dmax); bad = 1; }
        }
        carquet_page_writer_destroy(w);
    }
    return bad;
}
