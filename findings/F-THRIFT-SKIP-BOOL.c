/* F-THRIFT-SKIP-BOOL witness: a PageHeader with an UNKNOWN field (id -2) of type list<bool> (2 elements, one byte each, as the
 * compact protocol prescribes for container elements) between the known fields 1 and 2.  thrift_skip() consumes nothing for
 * the two elements, so 01 00 is read as another field header and the running field id is lost: the short-form header of
 * field 2 (delta 4 from id -2) is mis-numbered and the header is rejected or mis-read.
 * Returns 1 iff carquet does not parse uncompressed_page_size = 10, compressed_page_size = 10, num_values = 1. */
#include <stdint.h>
#include <stdio.h>
#include <string.h>
#include "thrift/parquet_types.h"
int main(void) {
    const uint8_t h[] = {
        0x15, 0x00,                   /* 1: i32 type = DATA_PAGE */
        0x09, 0x03, 0x22, 0x01, 0x00, /* long-form header: list, id -2 (zig-zag 3); list<bool> of 2: true, false */
        0x45, 0x14,                   /* 2: i32 uncompressed_page_size = 10  (short form, delta 4 from -2) */
        0x15, 0x14,                   /* 3: i32 compressed_page_size = 10 */
        0x2c, 0x15, 0x02, 0x15, 0x00, 0x15, 0x06, 0x15, 0x06, 0x00,   /* 5: DataPageHeader {1, PLAIN, RLE, RLE} */
        0x00 };
    parquet_page_header_t ph; size_t used = 0; carquet_error_t err; memset(&err, 0, sizeof err);
    carquet_status_t s = parquet_parse_page_header(h, sizeof h, &ph, &used, &err);
    printf("status %d, used %zu of %zu, uncompressed %d, compressed %d, num_values %d\n", (int)s, used, sizeof h,
           ph.uncompressed_page_size, ph.compressed_page_size, ph.data_page_header.num_values);
    return !(s == CARQUET_OK && used == sizeof h && ph.uncompressed_page_size == 10 && ph.compressed_page_size == 10 && ph.data_page_header.num_values == 1);
}
