/* F-STATSB-LONG — carquet_statistics_add_byte_arrays() silently skips every value longer than the builder's
 * 256-byte min/max storage ("Skip if too large"), but carquet_statistics_build() still emits min/max (flagged
 * is_min_value_exact / is_max_value_exact) computed from the remaining values.  The emitted max is then smaller
 * than a value of the column (likewise min), i.e. the statistics are not bounds and a reader prunes matching data.
 * Exit status 1 iff the defect manifests. */
#include <carquet/carquet.h>
#include "thrift/parquet_types.h"
#include "core/arena.h"
#include <stdio.h>
#include <stdlib.h>
#include <string.h>
typedef struct carquet_statistics_builder carquet_statistics_builder_t;
carquet_statistics_builder_t* carquet_statistics_builder_create(carquet_physical_type_t type, int32_t type_length);
void carquet_statistics_builder_destroy(carquet_statistics_builder_t* b);
carquet_status_t carquet_statistics_add_byte_arrays(carquet_statistics_builder_t* b, const carquet_byte_array_t* values, int64_t n);
carquet_status_t carquet_statistics_build(const carquet_statistics_builder_t* b, carquet_arena_t* arena, parquet_statistics_t* stats);

static int lex(const uint8_t* a, size_t al, const uint8_t* b, size_t bl) {
    size_t n = al < bl ? al : bl;
    for (size_t i = 0; i < n; i++) if (a[i] != b[i]) return a[i] < b[i] ? -1 : 1;
    return (al > bl) - (al < bl);
}
int main(void) {
    static uint8_t small[1] = { 'm' };
    static uint8_t big[257];
    memset(big, 'z', sizeof big);                       /* "zzz...z" (257 bytes) > "m" */
    carquet_byte_array_t v[2] = { { small, 1 }, { big, 257 } };
    carquet_statistics_builder_t* b = carquet_statistics_builder_create(CARQUET_PHYSICAL_BYTE_ARRAY, 0);
    if (!b) return 2;
    if (carquet_statistics_add_byte_arrays(b, v, 2) != CARQUET_OK) return 2;
    parquet_statistics_t st;
    if (carquet_statistics_build(b, NULL, &st) != CARQUET_OK) return 2;
    int bad = 0;
    if (st.max_value && lex(st.max_value, (size_t)st.max_value_len, big, sizeof big) < 0) {
        printf("max_value (%d bytes, '%c...') < a 257-byte value of the column: statistics are not an upper bound\n", st.max_value_len, st.max_value[0]);
        bad = 1;
    }
    free(st.min_value); free(st.max_value);
    carquet_statistics_builder_destroy(b);
    return bad;
}
