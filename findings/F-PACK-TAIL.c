/* F-PACK-TAIL witness: carquet_bitpack_32 writes a WHOLE group (bit_width bytes) for a partial final group although it
 * reports (and carquet_packed_size() promises) only ceil(n*bit_width/8) bytes.  9 values at 3 bits need 4 bytes; bytes 4
 * and 5 of the destination are overwritten (with zeros).  Returns 1 iff bytes beyond the reported size were touched. */
#include <stdint.h>
#include <stdio.h>
#include <string.h>
#include "core/bitpack.h"
int main(void) {
    uint32_t v[9] = {1, 2, 3, 4, 5, 6, 7, 0, 5};
    uint8_t out[16];
    memset(out, 0xAA, sizeof out);
    size_t need = carquet_packed_size(9, 3);            /* 4 */
    size_t wr = carquet_bitpack_32(v, 9, 3, out);
    int touched = 0;
    for (size_t i = need; i < sizeof out; i++) if (out[i] != 0xAA) touched++;
    printf("packed_size=%zu written=%zu bytes touched beyond the reported size=%d\n", need, wr, touched);
    return (wr == need && touched > 0) ? 1 : 0;
}
