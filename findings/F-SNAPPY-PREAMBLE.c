/* F-SNAPPY-PREAMBLE: snappy_read_varint accepts a 5-byte preamble whose last byte carries bits above 2^32
 * (5th byte > 0x0F): the excess bits are shifted out silently, so 82 80 80 80 10 is read as length 2 although the
 * varint encodes 2 + 2^32.  The format limits the length to 2^32-1 (google/snappy rejects such a preamble).
 * Affects carquet_snappy_decompress and carquet_snappy_get_uncompressed_length.  Exit status 1 iff it manifests. */
#include <stdio.h>
#include <stdint.h>
#include <stddef.h>
#include <carquet/error.h>
carquet_status_t carquet_snappy_decompress(const uint8_t*, size_t, uint8_t*, size_t, size_t*);
carquet_status_t carquet_snappy_get_uncompressed_length(const uint8_t*, size_t, size_t*);
int main(void) {
    const uint8_t s[] = {0x82, 0x80, 0x80, 0x80, 0x10, 0x04, 'h', 'i'};   /* preamble, literal of 2 bytes */
    uint8_t out[8]; size_t n = 99, len = 99;
    carquet_status_t sl = carquet_snappy_get_uncompressed_length(s, sizeof s, &len);
    carquet_status_t sd = carquet_snappy_decompress(s, sizeof s, out, sizeof out, &n);
    printf("get_uncompressed_length: status %d length %zu; decompress: status %d size %zu\n", (int)sl, len, (int)sd, n);
    return (sl == CARQUET_OK || sd == CARQUET_OK) ? 1 : 0;
}
