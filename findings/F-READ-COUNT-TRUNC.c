/* F-READ-COUNT-TRUNC witness: carquet_read_next_page (src/reader/page_reader.c) truncates the 64-bit row count of
 * carquet_column_read_batch to int32_t BEFORE clamping it to the rows available in the page
 *     int32_t to_copy = (int32_t)max_values;   if (to_copy > available) to_copy = available;
 * so a "read everything" call with max_values >= 2^31 misbehaves although the column holds a handful of rows:
 *   max_values = 2^31 + 3  -> to_copy negative -> memcpy with a negative (huge) size, negative row counters
 *   max_values = 2^32 + 2  -> 2 rows are delivered, then the next page request sees count 0 and the read stops: 2 rows
 *                             are returned although 5 remain
 * The destination buffers are REAL mappings of the full size the call is entitled to ((2^31+3) / (2^32+2) values and
 * levels, MAP_NORESERVE), so the calls are legal under any reading of the API; only if the sandbox refuses such a mapping
 * the buffers fall back to the size of the rows that exist (which is all a correct implementation writes).
 * Each call runs in a child process with an alarm: a crash, a sanitizer abort or a hang counts as manifest.
 * Returns 1 iff the defect manifests. */
#define _GNU_SOURCE
#include <stdio.h>
#include <string.h>
#include <stdlib.h>
#include <stdint.h>
#include <unistd.h>
#include <sys/mman.h>
#include <sys/wait.h>
#include <carquet/carquet.h>

#define ROWS 5
static const int32_t X[ROWS] = {11, 22, 33, 44, 55};

static void* big(size_t bytes, size_t fallback, int* full) {
    void* p = mmap(NULL, bytes, PROT_READ | PROT_WRITE, MAP_PRIVATE | MAP_ANONYMOUS | MAP_NORESERVE, -1, 0);
    if (p != MAP_FAILED) { *full = 1; return p; }
    *full = 0; return calloc(1, fallback);
}

/* child: 0 = correct, 1 = wrong result */
static int attempt(const char* path, int64_t k) {
    carquet_error_t err; memset(&err, 0, sizeof err);
    carquet_reader_t* r = carquet_reader_open(path, NULL, &err);
    if (!r) return 3;
    carquet_column_reader_t* cr = carquet_reader_get_column(r, 0, 0, &err);
    if (!cr) return 3;
    int f1, f2;
    int32_t* vals = big((size_t)k * 4, (ROWS + 1) * 4, &f1);
    int16_t* defs = big((size_t)k * 2, (ROWS + 1) * 2, &f2);
    if (!vals || !defs) return 3;
    printf("  k = %lld: value buffer %s, level buffer %s\n", (long long)k, f1 ? "full size (MAP_NORESERVE)" : "sized for the rows that exist", f2 ? "full size (MAP_NORESERVE)" : "sized for the rows that exist");
    fflush(stdout);
    alarm(20);
    long long n = carquet_column_read_batch(cr, vals, k, defs, NULL);
    long long rem = carquet_column_remaining(cr);
    printf("  read_batch(%lld) -> %lld (expected %d), remaining() -> %lld (expected 0)\n", (long long)k, n, ROWS, rem);
    int bad = n != ROWS || rem != 0;
    for (int i = 0; i < ROWS && !bad; i++) if (vals[i] != X[i]) bad = 1;
    fflush(stdout);
    return bad;
}

int main(void) {
    carquet_error_t err; memset(&err, 0, sizeof err);
    char path[] = "/tmp/f_read_count_XXXXXX";
    int fd = mkstemp(path); if (fd < 0) return 2; close(fd);
    carquet_schema_t* sc = carquet_schema_create(&err);
    if (!sc || carquet_schema_add_column(sc, "x", CARQUET_PHYSICAL_INT32, NULL, CARQUET_REPETITION_REQUIRED, 0) != CARQUET_OK) return 2;
    carquet_writer_options_t wo; carquet_writer_options_init(&wo);
    carquet_writer_t* w = carquet_writer_create(path, sc, &wo, &err);
    if (!w) return 2;
    if (carquet_writer_write_batch(w, 0, X, ROWS, NULL, NULL) != CARQUET_OK || carquet_writer_close(w) != CARQUET_OK) return 2;
    carquet_schema_free(sc);
    static const int64_t K[3] = {2147483651LL /* 2^31+3 */, 4294967298LL /* 2^32+2 */, 2147483647LL /* 2^31-1: fine */};
    int manifest = 0;
    for (int i = 0; i < 3; i++) {
        fflush(stdout);
        pid_t pid = fork();
        if (pid < 0) { remove(path); return 2; }
        if (pid == 0) _exit(attempt(path, K[i]));
        int st = 0; waitpid(pid, &st, 0);
        int ok = WIFEXITED(st) && WEXITSTATUS(st) == 0;
        printf("k = %lld: %s\n", (long long)K[i], ok ? "correct" : WIFSIGNALED(st) ? "child killed by a signal (crash / hang)" : "wrong result or sanitizer abort");
        if (!ok) manifest = 1;
    }
    remove(path);
    return manifest;
}
