/* C05 — REPEATED column through the PUBLIC writer, validated by the independent reference reader (engine E2).
 * One REPEATED INT32 column `items` (flat list: max_def 1, max_rep 1), VR_N levels, written in write_batch calls of VR_B levels with
 * page size VR_PS (1 = every batch closes a page; large = one page).  EVERY legal pattern of definition levels (0 = empty list / 1 = element) and repetition
 * levels (0 = first level of a row / 1 = continuation) is explored (one per path, symx_choice); values concrete; the reference
 * reader must accept the file and hand back exactly the level sequences and the dense values that were written, with the chunk's
 * num_values = number of levels and the row count = number of levels with repetition level 0.  Added after the seeded change
 * C05-reset-keeps-rep-levels (repetition levels of earlier pages leaking into later pages of a chunk). */
#include "pq_common.h"
#include "ref_parquet_read.h"
#ifndef VR_N
#define VR_N 6
#endif
#ifndef VR_B
#define VR_B 3
#endif
#ifndef VR_PS
#define VR_PS 1
#endif
#define PATH "/mem/c05rep.parquet"
static uint8_t filebuf[8192];
static ref_pq_file rf; static ref_pq_column_data cd;

void harness(void) {
    static int16_t def[VR_N], rep[VR_N]; static int32_t vals[VR_N]; static uint8_t lv[2 * VR_N];
    /* the level pattern is chosen by symx_choice (one concrete pattern per path: bit i of `rp` = level i continues the list of
       level i-1, bit i of `dp` = level i is an empty list); values concrete and distinct */
    (void)lv;
    int rp = symx_choice(1 << VR_N, "rep_pattern"), dp = symx_choice(1 << VR_N, "empty_pattern");
    int nrows = 0, nvals = 0;
    for (int i = 0; i < VR_N; i++) {
        rep[i] = (int16_t)((rp >> i) & 1); def[i] = (int16_t)(((dp >> i) & 1) ? 0 : 1); vals[i] = 1000003 * (i + 1) - 7;
        if (i % VR_B == 0) symx_assume(rep[i] == 0);        /* batches (and with them pages and the file) begin at a row boundary */
        if (rep[i]) symx_assume(def[i] == 1 && def[i - 1] == 1);   /* a continuation level belongs to a non-empty list */
        nrows += rep[i] == 0; nvals += def[i] == 1;
    }
    carquet_error_t err; memset(&err, 0, sizeof err);
    carquet_schema_t* sc = carquet_schema_create(&err); symx_assume(sc != NULL);
    symx_assume(carquet_schema_add_column(sc, "items", CARQUET_PHYSICAL_INT32, NULL, CARQUET_REPETITION_REPEATED, 0) == CARQUET_OK);
    carquet_writer_options_t wo; carquet_writer_options_init(&wo);
    wo.page_size = VR_PS; wo.compression = CARQUET_COMPRESSION_UNCOMPRESSED;
    carquet_writer_t* w = carquet_writer_create(PATH, sc, &wo, &err); symx_assume(w != NULL);
    int voff = 0;
    for (int r = 0; r < VR_N; r += VR_B) {
        int take = r + VR_B <= VR_N ? VR_B : VR_N - r;
        symx_assume(carquet_writer_write_batch(w, 0, vals + voff, take, def + r, rep + r) == CARQUET_OK);   /* premise: every call returned OK */
        for (int i = r; i < r + take; i++) voff += def[i] == 1;
    }
    symx_assume(carquet_writer_close(w) == CARQUET_OK);
    carquet_schema_free(sc);
    size_t len = symx_file_get(PATH, filebuf, sizeof filebuf);
    SYMX_ASSERT(len != (size_t)-1 && len >= 12 && len < sizeof filebuf, "a file exists after close");

    ref_pq_open_opts ropts; memset(&ropts, 0, sizeof ropts);
    ropts.require_tiling = 1; ropts.crc_hard = 1; ropts.usize_hard = 1;
    int rc = ref_pq_open_ex(filebuf, len, &ropts, &rf);
    SYMX_ASSERT(rc == 0, "independent reference reader accepts the file with a REPEATED column (structure, sizes, counts, CRC)");
    SYMX_ASSERT(rf.n_leaves == 1 && rf.meta.n_row_groups == 1, "reference reader: one column, one row group");
    int md = -1, mr = -1;
    SYMX_ASSERT(ref_pq_leaf_levels(&rf, 0, &md, &mr) == 0 && md == 1 && mr == 1, "reference reader: REPEATED leaf has max_def 1 and max_rep 1");
    SYMX_ASSERT(rf.meta.num_rows == nrows && rf.meta.row_groups[0].num_rows == nrows, "reference reader: rows = levels with repetition level 0");
    SYMX_ASSERT(rf.meta.row_groups[0].columns[0].meta.num_values == VR_N, "reference reader: chunk num_values = number of levels");
    cd.arena = NULL; cd.arena_cap = 0;
    int rc2 = ref_pq_read_column(&rf, 0, 0, &cd);
    SYMX_ASSERT(rc2 == 0, "reference reader decodes the REPEATED column chunk");
    SYMX_ASSERT((int)cd.n_levels == VR_N && (int)cd.n_values == nvals && (int)cd.n_rows == nrows, "reference reader: level, value and row counts of the chunk");
    int k = 0;
    for (int i = 0; i < VR_N; i++) {
        SYMX_ASSERT(cd.rep[i] == rep[i], "reference reader: same repetition levels (list structure) on every page");
        SYMX_ASSERT(cd.def[i] == def[i], "reference reader: same definition levels");
        if (def[i] == 1) { SYMX_ASSERT((uint32_t)cd.val[k] == (uint32_t)vals[k], "reference reader: same value bits"); k++; }
    }
}
