/* F-PAGEIDX-MEMCMP — src/metadata/page_index.c carquet_column_index_page_might_match orders min/max with memcmp for every
 * physical type.  Numeric types are stored little-endian (and signed / IEEE), so the byte-wise order is not the order of
 * the type: an INT32 page with min = 1, max = 300 and the query range [256, 256] is reported as "cannot match"
 * (bytes of 256 = 00 01 00 00 sort before bytes of 1 = 01 00 00 00) although 256 lies inside the page range.
 * Exit status 1 iff the defect manifests. */
#include <carquet/carquet.h>
#include <stdio.h>
typedef struct carquet_column_index_builder carquet_column_index_builder_t;
carquet_column_index_builder_t* carquet_column_index_builder_create(carquet_physical_type_t type, int32_t type_length);
void carquet_column_index_builder_destroy(carquet_column_index_builder_t* b);
carquet_status_t carquet_column_index_add_page(carquet_column_index_builder_t* b, int64_t null_count, const void* min_value, int32_t min_value_len,
                                               const void* max_value, int32_t max_value_len, bool is_null_page);
carquet_status_t carquet_column_index_page_might_match(const carquet_column_index_builder_t* b, int32_t page_idx, const void* min_value, const void* max_value,
                                                       int32_t value_len, bool* might_match);
int main(void) {
    int bad = 0;
    carquet_column_index_builder_t* b = carquet_column_index_builder_create(CARQUET_PHYSICAL_INT32, 0);
    if (!b) return 2;
    int32_t pmin = 1, pmax = 300, q = 256;
    if (carquet_column_index_add_page(b, 0, &pmin, 4, &pmax, 4, false) != CARQUET_OK) return 2;
    bool mm = true;
    if (carquet_column_index_page_might_match(b, 0, &q, &q, 4, &mm) != CARQUET_OK) return 2;
    if (!mm) { printf("INT32 page [1,300], query [256,256]: reported as cannot-match\n"); bad = 1; }
    int32_t nmin = -5, nmax = -1;              /* negative numbers: sign ignored as well */
    if (carquet_column_index_add_page(b, 0, &nmin, 4, &nmax, 4, false) != CARQUET_OK) return 2;
    int32_t qlo = -3, qhi = 0x01000000;                 /* query [-3, 16777216] overlaps page [-5,-1] */
    mm = true;
    if (carquet_column_index_page_might_match(b, 1, &qlo, &qhi, 4, &mm) != CARQUET_OK) return 2;
    if (!mm) { printf("INT32 page [-5,-1], query [-3,16777216]: reported as cannot-match\n"); bad = 1; }
    carquet_column_index_builder_destroy(b);
    return bad;
}
