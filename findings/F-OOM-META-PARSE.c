/* F-OOM-META-PARSE witness: the footer parser (src/thrift/parquet_types.c) uses the result of carquet_arena_calloc / arena string
 * copies without checking it: rg->columns, metadata->schema, metadata->row_groups, key_value_metadata, encodings, path_in_schema,
 * encoding_stats are written through right after the allocation, names are stored as NULL.  The reader's arena starts with one 64 KiB
 * block; a footer that needs more (here 70 columns x 3 row groups: 3 x 70 x 320 bytes of column-chunk structs) makes the arena take a
 * second block in the middle of parsing, and when THAT allocation fails carquet_reader_open* crashes (NULL written through in
 * parse_column_chunk) instead of returning CARQUET_ERROR_OUT_OF_MEMORY.
 * Allocation failure is injected into arena.c only (compiled into this program with malloc redirected; the k-th block allocation
 * fails, for every k).  The crash is a SIGSEGV / sanitizer report = non-zero exit; returns 0 iff every failure is reported as an error. */
#include <stdio.h>
#include <string.h>
#include <stdlib.h>
#include <unistd.h>
#include <carquet/carquet.h>
static long w_count, w_fail_at;
static void* w_malloc(size_t n) { if (++w_count == w_fail_at) return NULL; return malloc(n); }
#define malloc(n) w_malloc(n)
#include "core/arena.c"
#undef malloc
#define NCOLS 70
#define NRGS 3
int main(void) {
    carquet_error_t err; memset(&err, 0, sizeof err);
    char path[] = "/tmp/f_oom_meta_parse_XXXXXX";
    int fd = mkstemp(path); if (fd < 0) return 2; close(fd);
    w_fail_at = 0;
    carquet_schema_t* sc = carquet_schema_create(&err); if (!sc) return 2;
    char nm[8];
    for (int c = 0; c < NCOLS; c++) { nm[0] = 'c'; nm[1] = (char)('0' + c / 10); nm[2] = (char)('0' + c % 10); nm[3] = 0; if (carquet_schema_add_column(sc, nm, CARQUET_PHYSICAL_INT32, NULL, CARQUET_REPETITION_REQUIRED, 0) != CARQUET_OK) return 2; }
    carquet_writer_options_t wo; carquet_writer_options_init(&wo); wo.compression = CARQUET_COMPRESSION_UNCOMPRESSED;
    carquet_writer_t* w = carquet_writer_create(path, sc, &wo, &err); if (!w) return 2;
    for (int g = 0; g < NRGS; g++) {
        if (g > 0 && carquet_writer_new_row_group(w) != CARQUET_OK) return 2;
        for (int c = 0; c < NCOLS; c++) { int32_t v = 1000 * g + c; if (carquet_writer_write_batch(w, c, &v, 1, NULL, NULL) != CARQUET_OK) return 2; }
    }
    if (carquet_writer_close(w) != CARQUET_OK) return 2;
    carquet_schema_free(sc);
    int wrong = 0;
    for (w_fail_at = 1; w_fail_at <= 3; w_fail_at++) {
        w_count = 0; memset(&err, 0, sizeof err);
        printf("arena block allocation #%ld fails during carquet_reader_open ...\n", w_fail_at); fflush(stdout);
        carquet_reader_t* r = carquet_reader_open(path, NULL, &err);          /* crashes here for the second block on the unpatched tree */
        if (r) {
            long cnt = w_count;
            printf("  opened (allocation #%ld %s): %lld rows, %d columns\n", w_fail_at, cnt >= w_fail_at ? "FAILED yet open succeeded" : "not reached", (long long)carquet_reader_num_rows(r), carquet_reader_num_columns(r));
            if (carquet_reader_num_rows(r) != NRGS || carquet_reader_num_columns(r) != NCOLS) wrong++;
            carquet_reader_close(r);
        } else printf("  open reports the error: %s\n", err.message);
    }
    remove(path);
    return wrong ? 1 : 0;
}
