/* F-DELTA-WIDE witness: DELTA_BINARY_PACKED mini-blocks wider than 32 bits are not bit-packed.
 * (a) INT64 {0, 2^32, 0, 2^32}: deltas +2^32, -2^32, +2^32, width of (delta - min) = 34 bits.  The specification packs 32 values of
 *     34 bits = 136 bytes; carquet stores each value in ceil(34/8) = 5 whole bytes = 160 bytes.
 * (b) INT32 {INT32_MAX, INT32_MIN, INT32_MAX}: carquet computes deltas in 64 bits (-(2^32-1), +(2^32-1)) instead of modulo
 *     2^32 and announces a 33-bit mini-block, which does not exist for INT32.
 * The independent decoder of /verif/ref (compiled in below) does not get the values back / rejects the stream.
 * Returns 1 iff one of the two streams is not decoded to the original values by the specification decoder. */
#include <stdint.h>
#include <stdio.h>
#include <string.h>
#include <carquet/carquet.h>
#include "ref_rle.c"
#include "ref_delta.c"
carquet_status_t carquet_delta_encode_int32(const int32_t*, int32_t, uint8_t*, size_t, size_t*);
carquet_status_t carquet_delta_encode_int64(const int64_t*, int32_t, uint8_t*, size_t, size_t*);
int main(void) {
    uint8_t buf[1024]; size_t wr = 0, nv = 0, cons = 0; int bad = 0;
    int64_t a[4] = {0, 4294967296LL, 0, 4294967296LL}, ao[4] = {0, 0, 0, 0};
    if (carquet_delta_encode_int64(a, 4, buf, sizeof buf, &wr) != CARQUET_OK) return 2;
    int rc = ref_delta_decode_i64(buf, wr, ao, 4, &nv, &cons);
    printf("int64: %zu bytes, width byte %u, spec decoder rc=%d -> %lld %lld %lld %lld (consumed %zu)\n", wr, buf[10], rc,
           (long long)ao[0], (long long)ao[1], (long long)ao[2], (long long)ao[3], cons);
    if (rc != 0 || memcmp(a, ao, sizeof a) != 0 || cons != wr) bad = 1;
    int32_t b[3] = {INT32_MAX, INT32_MIN, INT32_MAX}, bo[3] = {0, 0, 0};
    if (carquet_delta_encode_int32(b, 3, buf, sizeof buf, &wr) != CARQUET_OK) return 2;
    rc = ref_delta_decode_i32(buf, wr, bo, 3, &nv, &cons);
    printf("int32: %zu bytes, spec decoder rc=%d -> %d %d %d\n", wr, rc, bo[0], bo[1], bo[2]);
    if (rc != 0 || memcmp(b, bo, sizeof b) != 0 || cons != wr) bad = 1;
    return bad;
}
