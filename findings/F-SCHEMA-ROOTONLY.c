/* F-SCHEMA-ROOTONLY witness: a schema that consists of the root alone (no column) is reported with ONE column:
 * count_leaves (src/reader/file_reader.c) counts every element with num_children == 0, the root included, while
 * compute_levels returns early for num_elements <= 1; carquet_reader_num_columns / carquet_schema_num_columns return 1 and
 * column 0 is the root element.  carquet's own writer produces such a file for a schema without columns (builder, 0 x add_column).
 * Returns 1 iff the reader reports a column for the column-less schema it has just written. */
#include <stdio.h>
#include <string.h>
#include <stdlib.h>
#include <unistd.h>
#include <carquet/carquet.h>
int main(void) {
    carquet_error_t err; memset(&err, 0, sizeof err);
    char path[] = "/tmp/f_schema_rootonly_XXXXXX";
    int fd = mkstemp(path); if (fd < 0) return 2; close(fd);
    carquet_schema_t* sc = carquet_schema_create(&err);
    carquet_writer_options_t wo; carquet_writer_options_init(&wo);
    carquet_writer_t* w = carquet_writer_create(path, sc, &wo, &err);
    if (!w) { printf("writer refuses a schema without columns (%s): nothing to read back\n", err.message); carquet_schema_free(sc); remove(path); return 0; }
    if (carquet_writer_close(w) != CARQUET_OK) { carquet_schema_free(sc); remove(path); return 2; }
    printf("builder: %d columns, %d elements\n", carquet_schema_num_columns(sc), carquet_schema_num_elements(sc));
    carquet_schema_free(sc);
    carquet_reader_t* r = carquet_reader_open(path, NULL, &err);
    if (!r) { printf("open failed: %s\n", err.message); remove(path); return 2; }
    int n = carquet_reader_num_columns(r), m = carquet_schema_num_columns(carquet_reader_schema(r));
    printf("reader: carquet_reader_num_columns %d, carquet_schema_num_columns %d (expected 0)\n", n, m);
    carquet_reader_close(r); remove(path);
    return (n != 0 || m != 0);
}
