/* F-SNAPPY-LEFTOVER: carquet_snappy_decompress stops as soon as the declared uncompressed length has been produced
 * and returns CARQUET_OK without looking at the rest of the input, so a valid stream followed by arbitrary bytes
 * (or a declared length of 0 followed by anything) is accepted.  The format (and google/snappy, which requires the
 * input to be exhausted) treats such a stream as corrupt.  Exit status 1 iff the defect manifests. */
#include <stdio.h>
#include <stdint.h>
#include <stddef.h>
#include <carquet/error.h>
carquet_status_t carquet_snappy_decompress(const uint8_t*, size_t, uint8_t*, size_t, size_t*);
int main(void) {
    /* declared length 1, literal "A", then two surplus bytes */
    const uint8_t a[] = {0x01, 0x00, 'A', 0xDE, 0xAD};
    /* declared length 0, then a byte */
    const uint8_t b[] = {0x00, 0x0C};
    uint8_t out[8]; size_t n = 99;
    carquet_status_t sa = carquet_snappy_decompress(a, sizeof a, out, sizeof out, &n);
    carquet_status_t sb = carquet_snappy_decompress(b, sizeof b, out, sizeof out, &n);
    printf("valid stream + 2 surplus bytes: status %d; declared 0 + 1 surplus byte: status %d\n", (int)sa, (int)sb);
    return (sa == CARQUET_OK || sb == CARQUET_OK) ? 1 : 0;
}
