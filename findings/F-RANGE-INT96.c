/* F-RANGE-INT96 — src/metadata/statistics.c orders INT96 statistics by 32-bit words from the most significant one
 * (compare_int96, used by the builder and by carquet_statistics_compare), but carquet_statistics_range_overlaps has no
 * INT96 case and falls through to memcmp over the little-endian bytes.  Ranges that overlap in the builder's order are
 * reported as disjoint: statistics [ {1,0,0}, {1,0,5} ] and query [ {0,0,3}, {0,0,3} ] (words low..high) share the value
 * {0,0,3} in word order, yet memcmp sees query max (00.. first byte) < stats min (01.. first byte).
 * Exit status 1 iff the defect manifests. */
#include <carquet/carquet.h>
#include "thrift/parquet_types.h"
#include <stdio.h>
#include <string.h>
carquet_status_t carquet_statistics_compare(const parquet_statistics_t* stats, carquet_physical_type_t type, const void* value, size_t value_len, int* result);
carquet_status_t carquet_statistics_range_overlaps(const parquet_statistics_t* stats, carquet_physical_type_t type, const void* min_value, const void* max_value,
                                                   size_t value_len, bool* overlaps);
int main(void) {
    uint32_t smin[3] = { 1, 0, 0 }, smax[3] = { 1, 0, 5 }, q[3] = { 0, 0, 3 };
    parquet_statistics_t st; memset(&st, 0, sizeof st);
    st.min_value = (uint8_t*)smin; st.min_value_len = 12; st.max_value = (uint8_t*)smax; st.max_value_len = 12;
    int res = 99; bool ov = true;
    if (carquet_statistics_compare(&st, CARQUET_PHYSICAL_INT96, q, 12, &res) != CARQUET_OK) return 2;
    if (carquet_statistics_range_overlaps(&st, CARQUET_PHYSICAL_INT96, q, q, 12, &ov) != CARQUET_OK) return 2;
    if (res == 0 && !ov) {
        printf("INT96 value {0,0,3}: carquet_statistics_compare says inside [min,max], carquet_statistics_range_overlaps([v,v]) says disjoint\n");
        return 1;
    }
    return 0;
}
