/* F-PLAIN-BOOL-EMPTY witness: carquet_encode_plain_boolean(values, 0, buffer) returns CARQUET_ERROR_OUT_OF_MEMORY:
 * it asks carquet_buffer_advance() for 0 bytes, which returns NULL ("nothing to reserve"), and takes that for an allocation
 * failure.  Every other PLAIN encoder accepts 0 values.  page_writer.c calls it with num_non_null, so a BOOLEAN page whose
 * values are all NULL cannot be written.  Returns 1 iff encoding 0 booleans fails. */
#include <stdint.h>
#include <stdio.h>
#include "encoding/plain.h"
int main(void) {
    uint8_t dummy[1] = {0};
    carquet_buffer_t b; carquet_buffer_init(&b);
    carquet_status_t st = carquet_encode_plain_boolean(dummy, 0, &b);
    carquet_buffer_t c; carquet_buffer_init(&c);
    int32_t d32[1] = {0};
    carquet_status_t st32 = carquet_encode_plain_int32(d32, 0, &c);
    printf("encode_plain_boolean(n=0) -> %d (%s); encode_plain_int32(n=0) -> %d\n", (int)st, st == CARQUET_OK ? "OK" : "error", (int)st32);
    carquet_buffer_destroy(&b); carquet_buffer_destroy(&c);
    return st != CARQUET_OK ? 1 : 0;
}
