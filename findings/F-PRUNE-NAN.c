/* F-PRUNE-NAN — src/reader/statistics.c compare_float/compare_double return 0 ("equal") whenever an operand is NaN, and
 * carquet_reader_row_group_matches acts on that result:
 *  (a) probe NaN, operator != : cmp_min == 0 && cmp_max == 0 -> "cannot match", although x != NaN holds for every value;
 *  (b) min and/or max NaN (Parquet: such a bound must be ignored; carquet's own page writer produces them, F-PW-NANFIRST):
 *      `<`/`<=`... treat the NaN bound as equal to the probe, e.g. min = NaN, max = 9, probe 5, operator < -> "cannot match"
 *      although the group holds 1.0.
 * The reader/metadata structs are filled in directly (no file needed).  Exit status 1 iff the defect manifests. */
#include <carquet/carquet.h>
#include "reader/reader_internal.h"
#include <math.h>
#include <stdio.h>
#include <string.h>

static carquet_reader_t R; static carquet_schema_t S; static parquet_schema_element_t elems[2];
static int32_t leaf_idx[1] = { 1 }; static parquet_row_group_t rg; static parquet_column_chunk_t chunk;

static bool ask(float mn, float mx, carquet_compare_op_t op, float probe) {
    static float smin, smax;
    smin = mn; smax = mx;
    memset(&R, 0, sizeof R); memset(&S, 0, sizeof S); memset(elems, 0, sizeof elems); memset(&rg, 0, sizeof rg); memset(&chunk, 0, sizeof chunk);
    elems[0].num_children = 1; elems[1].has_type = true; elems[1].type = CARQUET_PHYSICAL_FLOAT;
    S.elements = elems; S.num_elements = 2; S.leaf_indices = leaf_idx; S.num_leaves = 1;
    chunk.has_metadata = true; chunk.metadata.type = CARQUET_PHYSICAL_FLOAT; chunk.metadata.has_statistics = true;
    chunk.metadata.statistics.min_value = (uint8_t*)&smin; chunk.metadata.statistics.min_value_len = 4;
    chunk.metadata.statistics.max_value = (uint8_t*)&smax; chunk.metadata.statistics.max_value_len = 4;
    rg.columns = &chunk; rg.num_columns = 1;
    R.schema = &S; R.metadata.row_groups = &rg; R.metadata.num_row_groups = 1;
    bool mm = true;
    if (carquet_reader_row_group_matches(&R, 0, 0, op, &probe, 4, &mm) != CARQUET_OK) return true;
    return mm;
}
int main(void) {
    int bad = 0;
    /* (a) the row group holds values in [1, 9]; every one of them is != NaN */
    if (!ask(1.0f, 9.0f, CARQUET_COMPARE_NE, NAN)) { printf("x != NaN on a row group with min 1, max 9: reported as cannot-match\n"); bad = 1; }
    /* (b) the row group holds 1.0 (and NaNs); its min was written as NaN and must be ignored */
    if (!ask(NAN, 9.0f, CARQUET_COMPARE_LT, 5.0f)) { printf("x < 5 on a row group holding 1.0 with min = NaN, max = 9: reported as cannot-match\n"); bad = 1; }
    if (!ask(1.0f, NAN, CARQUET_COMPARE_GT, 5.0f)) { printf("x > 5 on a row group holding 9.0 with min = 1, max = NaN: reported as cannot-match\n"); bad = 1; }
    return bad;
}
