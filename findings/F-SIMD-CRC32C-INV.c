/* F-SIMD-CRC32C-INV  (property C15)
 *
 * carquet_sse_crc32c() (src/simd/x86/sse_ops.c) feeds `crc` straight into the crc32 instructions and returns the
 * raw register, whereas its scalar definition scalar_crc32c() (src/simd/dispatch.c) conditions the value
 * (crc = ~crc on entry, return ~crc).  For every input with len >= 1 the two return different values, so
 * carquet_dispatch_crc32c() depends on whether the CPU reports SSE4.2.
 *
 * Witness: the CRC-32C check string "123456789" (standard check value 0xE3069283) and the 1-byte input {0x00}
 * found by the model checker.  Exit status 1 iff the SSE4.2 kernel and the scalar definition disagree. */
#include <stdio.h>
#include <stdint.h>
#include <stddef.h>
#include "simd/dispatch.c"   /* scalar_crc32c is static: take the translation unit verbatim */

int main(void) {
    static const uint8_t check[9] = {'1', '2', '3', '4', '5', '6', '7', '8', '9'};
    static const uint8_t zero[1] = {0};
    uint32_t s1 = scalar_crc32c(0, check, 9), v1 = carquet_sse_crc32c(0, check, 9);
    uint32_t s2 = scalar_crc32c(0, zero, 1), v2 = carquet_sse_crc32c(0, zero, 1);
    printf("\"123456789\": scalar_crc32c = 0x%08X (CRC-32C check value 0xE3069283), carquet_sse_crc32c = 0x%08X\n", s1, v1);
    printf("{0x00}     : scalar_crc32c = 0x%08X, carquet_sse_crc32c = 0x%08X\n", s2, v2);
    printf("with the conditioning applied by hand: ~carquet_sse_crc32c(~0, ...) = 0x%08X\n", ~carquet_sse_crc32c(~0u, check, 9));
    return (s1 != v1 || s2 != v2) ? 1 : 0;
}
