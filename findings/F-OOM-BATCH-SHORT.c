/* F-OOM-BATCH-SHORT witness: carquet_batch_reader_next (src/reader/batch_reader.c) asks every projected column for rows_to_read
 * rows but accepts any non-negative count.  When a page of ONE column fails to load part-way through the batch (allocation failure
 * in src/reader/page_reader.c; carquet_column_read_batch then returns the rows it already has), the call still returns CARQUET_OK:
 * that column has fewer values than the others, num_rows is taken from column 0, and from then on the columns are out of step —
 * every later batch pairs values of different rows.  No error is ever reported.
 * Allocation failure is injected into page_reader.c only (compiled into this program with malloc redirected; the k-th allocation it
 * makes fails, for every k).  Returns 1 iff some batch delivered with status OK has columns of different lengths. */
#include <stdio.h>
#include <string.h>
#include <stdlib.h>
#include <unistd.h>
#include <carquet/carquet.h>
static long w_count, w_fail_at;
static void* w_malloc(size_t n) { if (++w_count == w_fail_at) return NULL; return malloc(n); }
static void* w_calloc(size_t a, size_t b) { if (++w_count == w_fail_at) return NULL; return calloc(a, b); }
static void* w_realloc(void* p, size_t n) { if (++w_count == w_fail_at) return NULL; return realloc(p, n); }
#define malloc(n) w_malloc(n)
#define calloc(a, b) w_calloc(a, b)
#define realloc(p, n) w_realloc(p, n)
#include "reader/page_reader.c"
#undef malloc
#undef calloc
#undef realloc

int main(void) {
    carquet_error_t err; memset(&err, 0, sizeof err);
    char path[] = "/tmp/f_oom_batch_short_XXXXXX";
    int fd = mkstemp(path); if (fd < 0) return 2; close(fd);
    carquet_schema_t* sc = carquet_schema_create(&err);
    if (!sc || carquet_schema_add_column(sc, "a", CARQUET_PHYSICAL_INT32, NULL, CARQUET_REPETITION_REQUIRED, 0) != CARQUET_OK ||
        carquet_schema_add_column(sc, "b", CARQUET_PHYSICAL_INT64, NULL, CARQUET_REPETITION_REQUIRED, 0) != CARQUET_OK) return 2;
    carquet_writer_options_t wo; carquet_writer_options_init(&wo); wo.compression = CARQUET_COMPRESSION_UNCOMPRESSED; wo.page_size = 1;
    carquet_writer_t* w = carquet_writer_create(path, sc, &wo, &err);
    if (!w) return 2;
    static const int32_t a[4] = {1, 2, 3, 4}; static const int64_t b64[4] = {10, 20, 30, 40};
    /* page_size 1: every write_batch call closes a page -> two pages of two rows per column */
    if (carquet_writer_write_batch(w, 0, a, 2, NULL, NULL) != CARQUET_OK || carquet_writer_write_batch(w, 0, a + 2, 2, NULL, NULL) != CARQUET_OK ||
        carquet_writer_write_batch(w, 1, b64, 2, NULL, NULL) != CARQUET_OK || carquet_writer_write_batch(w, 1, b64 + 2, 2, NULL, NULL) != CARQUET_OK ||
        carquet_writer_close(w) != CARQUET_OK) return 2;
    carquet_schema_free(sc);
    int misaligned = 0;
    for (w_fail_at = 0; w_fail_at <= 24; w_fail_at++) {           /* 0 = fault-free */
        carquet_reader_t* r = carquet_reader_open(path, NULL, &err);
        if (!r) return 2;
        w_count = 0;
        carquet_batch_reader_config_t bc; carquet_batch_reader_config_init(&bc); bc.batch_size = 4; bc.num_threads = 1;
        carquet_batch_reader_t* br = carquet_batch_reader_create(r, &bc, &err);
        if (!br) return 2;
        for (int it = 0; it < 4; it++) {
            carquet_row_batch_t* b = NULL;
            carquet_status_t st = carquet_batch_reader_next(br, &b);
            if (st != CARQUET_OK || !b) { if (st != CARQUET_ERROR_END_OF_DATA) printf("allocation #%ld of page_reader.c fails: next() = %d (error reported)\n", w_fail_at, (int)st); break; }
            const void* d0; const void* d1; const uint8_t* n0; const uint8_t* n1; int64_t nv0 = -1, nv1 = -1;
            if (carquet_row_batch_column(b, 0, &d0, &n0, &nv0) != CARQUET_OK || carquet_row_batch_column(b, 1, &d1, &n1, &nv1) != CARQUET_OK) return 2;
            if (nv0 != nv1) { printf("allocation #%ld of page_reader.c fails: batch %d delivered OK with %lld values of column a and %lld of column b\n", w_fail_at, it, (long long)nv0, (long long)nv1); misaligned++; }
            carquet_row_batch_free(b);
        }
        carquet_batch_reader_free(br);
        carquet_reader_close(r);
    }
    remove(path);
    return misaligned ? 1 : 0;
}
