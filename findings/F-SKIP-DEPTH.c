#include <stdio.h>
#include <stdlib.h>
#include <string.h>
#include <stdint.h>
#include <signal.h>
#include <unistd.h>
#include <sys/wait.h>
#include "thrift/parquet_types.h"
/* F-SKIP-DEPTH witness: a page header whose unknown field 15 is a list of lists of lists ... (one level per 0x19 byte).
 * thrift_skip recurses once per level without any limit: a few hundred KiB of input overflow the stack. Returns 1 iff the parser crashes. */
int main(void) {
    size_t n = 4u << 20;
    uint8_t* b = malloc(n); memset(b, 0x19, n); b[0] = 0xF9;      /* field id 15 (unknown), type LIST; then list(1 x LIST) ... */
    pid_t p = fork();
    if (p == 0) {
        parquet_page_header_t h; size_t used = 0; carquet_error_t err; memset(&err, 0, sizeof err);
        carquet_status_t s = parquet_parse_page_header(b, n, &h, &used, &err);
        _exit(s == CARQUET_OK ? 2 : 0);      /* an error status is the right answer */
    }
    int st = 0; waitpid(p, &st, 0);
    if (WIFSIGNALED(st)) { printf("parser crashed with signal %d on %zu nested lists\n", WTERMSIG(st), n); return 1; }
    printf("parser returned (exit %d)\n", WEXITSTATUS(st));
    return WEXITSTATUS(st) == 2 ? 1 : 0;
}
