"""symx instruction decoder: turns the token lists of one LLVM function into python closures (once per function)."""
import struct
import z3
from ir import *
from symx import (Ptr, NULL, FuncCode, Violation, PathEnd, EngineLimit, mask, to_signed, bv, BVV, is_bool, as_bool, b2bv, M64)

CALL_SKIP = {'fastcc', 'ccc', 'coldcc', 'noundef', 'zeroext', 'signext', 'noalias', 'nonnull', 'nnan', 'ninf', 'nsz', 'arcp', 'contract', 'afn',
             'reassoc', 'fast', 'inreg', 'tail', 'notail', 'musttail'}
ARG_ATTRS = PARAM_ATTRS | {'align', 'dereferenceable', 'dereferenceable_or_null', 'byval', 'sret', 'inalloca', 'preallocated', 'elementtype'}
BINOPS = {'add', 'sub', 'mul', 'udiv', 'sdiv', 'urem', 'srem', 'and', 'or', 'xor', 'shl', 'lshr', 'ashr'}
FBINOPS = {'fadd', 'fsub', 'fmul', 'fdiv', 'frem'}
PTR_PRED = {'ult': 'slt', 'ule': 'sle', 'ugt': 'sgt', 'uge': 'sge'}
CASTS = {'trunc', 'zext', 'sext', 'bitcast', 'ptrtoint', 'inttoptr', 'fptrunc', 'fpext', 'fptoui', 'fptosi', 'uitofp', 'sitofp', 'addrspacecast'}


def f2bits(x, bits):
    try:
        return struct.unpack('<I', struct.pack('<f', x))[0] if bits == 32 else struct.unpack('<Q', struct.pack('<d', x))[0]
    except OverflowError:
        return (0x7f800000 if x > 0 else 0xff800000) if bits == 32 else (0x7ff0000000000000 if x > 0 else 0xfff0000000000000)
def bits2f(v, bits):
    return struct.unpack('<f', struct.pack('<I', v))[0] if bits == 32 else struct.unpack('<d', struct.pack('<Q', v))[0]
def fsort(bits): return z3.Float32() if bits == 32 else z3.Float64()
FP_HOOK = [None]     # set by run.py: Engine.need_fp (switches the solver to a logic with floating point)
def tofp(v, bits):
    if FP_HOOK[0] is not None: FP_HOOK[0]()
    return z3.fpBVToFP(bv(v, bits), fsort(bits))


def decode_function(E, fn):
    m = E.m
    fc = FuncCode(fn.name)
    fc.vararg = fn.vararg
    slots = {}
    def slot(name):
        i = slots.get(name)
        if i is None:
            i = len(slots); slots[name] = i
        return i
    for pt, pn in fn.params:
        fc.params.append(slot(pn))
    labels = fn.order
    lidx = {l: i for i, l in enumerate(labels)}
    fc.labels = labels

    def operand(p, ty):
        """-> (is_reg, slot_or_value)"""
        k, v = p.peek()
        if k == 'id' and v[0] == '%':
            p.next(); return True, slot(v)
        rt = m.resolve(ty)
        val = E.parse_const(p, ty)
        if val == ('zero',):
            if isinstance(rt, PtrTy): val = NULL
            elif isinstance(rt, (IntTy, FloatTy)): val = 0
            elif isinstance(rt, StructTy): val = [zero_of(t) for t in rt.els]
            elif isinstance(rt, (ArrTy, VecTy)): val = [zero_of(rt.el)] * rt.n
        return False, val

    def zero_of(t):
        rt = m.resolve(t)
        if isinstance(rt, PtrTy): return NULL
        if isinstance(rt, (IntTy, FloatTy)): return 0
        if isinstance(rt, StructTy): return [zero_of(x) for x in rt.els]
        return [zero_of(rt.el)] * rt.n

    # strip trailing instruction metadata (", !dbg !N", ", !llvm.access.group !M", ...) once; remember the !dbg id
    dbg_ids = {}
    for lab in labels:
        lst = fn.blocks[lab]
        for k_, toks in enumerate(lst):
            cut = None
            for ti in range(len(toks) - 1):
                if toks[ti] == ('sym', ',') and toks[ti + 1][0] == 'md' and not toks[ti + 1][1][1:].isdigit():
                    cut = ti; break
            if cut is not None:
                for tj in range(cut, len(toks) - 1):
                    if toks[tj] == ('md', '!dbg'): dbg_ids[(lab, k_)] = toks[tj + 1][1]; break
                lst[k_] = toks[:cut]
    # first pass: collect phis per block
    phis = {}       # block idx -> list of (dst slot, {pred idx: (isreg, val)})
    bodies = []; body_idxs = []
    for bi, lab in enumerate(labels):
        body = []; body_idx = []
        for k_, toks in enumerate(fn.blocks[lab]):
            if len(toks) > 2 and toks[1] == ('sym', '=') and toks[2] == ('kw', 'phi'):
                p = P(toks, 3)
                ty = m.parse_type(p)
                inc = {}
                while True:
                    p.expect('sym', '[')
                    ir_, val = operand(p, ty)
                    p.expect('sym', ','); lab2 = p.expect('id'); p.expect('sym', ']')
                    inc[lidx[lab2]] = (ir_, val)
                    if not p.accept('sym', ','): break
                phis.setdefault(bi, []).append((slot(toks[0][1]), inc))
            else:
                body.append(toks); body_idx.append(k_)
        bodies.append(body); body_idxs.append(body_idx)

    def edge(pred, succ):
        """precomputed phi moves for edge pred->succ"""
        lst = phis.get(succ)
        if not lst: return None
        return tuple((d, inc[pred][0], inc[pred][1]) for d, inc in lst)

    blocks = [None] * len(labels)
    fc.blocks = blocks

    def mk_jump(pred, tb):
        moves = edge(pred, tb)
        if moves is None:
            def j(fr, R):
                fr.prev = fr.bi; fr.bi = tb; fr.code = blocks[tb]; fr.ip = 0
        elif len(moves) == 1:
            d, isr, v = moves[0]
            def j(fr, R):
                R[d] = R[v] if isr else v
                fr.prev = fr.bi; fr.bi = tb; fr.code = blocks[tb]; fr.ip = 0
        else:
            def j(fr, R):
                vals = [(R[v] if isr else v) for d, isr, v in moves]
                i = 0
                for d, isr, v in moves:
                    R[d] = vals[i]; i += 1
                fr.prev = fr.bi; fr.bi = tb; fr.code = blocks[tb]; fr.ip = 0
        return j

    fc.dbg = [None] * len(labels)
    for bi, lab in enumerate(labels):
        code = []; dbg = []
        for j_, toks in enumerate(bodies[bi]):
            code.append(decode_inst(E, m, fc, toks, bi, slot, operand, lidx, mk_jump, zero_of))
            dbg.append(dbg_ids.get((lab, body_idxs[bi][j_])))
        blocks[bi] = code; fc.dbg[bi] = dbg
    fc.nregs = len(slots) + 1
    return fc


def decode_inst(E, m, fc, toks, bi, slot, operand, lidx, mk_jump, zero_of):
    p = P(toks)
    d = -1
    if p.peek()[0] == 'id' and p.peek(1) == ('sym', '='):
        d = slot(p.next()[1]); p.next()
    k, op = p.next()
    while op in ('tail', 'notail', 'musttail'): k, op = p.next()
    text = None

    # ---------------------------------------------------------------- terminators
    if op == 'br':
        if p.accept('kw', 'label'):
            j = mk_jump(bi, lidx[p.expect('id')])
            def f(st, fr, R):
                j(fr, R); return True
            return f
        ty = m.parse_type(p); cr, cv = operand(p, ty)
        p.expect('sym', ','); p.expect('kw', 'label'); t = p.expect('id'); p.expect('sym', ','); p.expect('kw', 'label'); fl = p.expect('id')
        jt = mk_jump(bi, lidx[t]); jf = mk_jump(bi, lidx[fl])
        def f(st, fr, R):
            c = R[cv] if cr else cv
            if type(c) is int:
                (jt if c & 1 else jf)(fr, R); return True
            taken, other = E.branch(st, as_bool(c))
            if other is not None:
                ofr = other.frames[-1]
                (jf if taken else jt)(ofr, ofr.R)
                E.work.append(other)
            (jt if taken else jf)(fr, R)
            return True
        return f
    if op == 'ret':
        ty = m.parse_type(p)
        if isinstance(ty, VoidTy):
            hasv = False; vr = False; vv = None
        else:
            hasv = True; vr, vv = operand(p, ty)
        def f(st, fr, R):
            rv = (R[vv] if vr else vv) if hasv else None
            if fr.allocas:
                mem = st.mem; owned = st.owned
                for oid in fr.allocas:
                    mem.pop(oid, None); owned.discard(oid)
            frames = st.frames
            frames.pop()
            if frames and fr.retslot >= 0:
                frames[-1].R[fr.retslot] = rv
            return True
        return f
    if op == 'unreachable':
        def f(st, fr, R):
            raise Violation('unreachable', 'reached an unreachable instruction in %s' % fc.name, E.model_dict(st))
        return f
    if op == 'switch':
        ty = m.parse_type(p); vr, vv = operand(p, ty); p.expect('sym', ','); p.expect('kw', 'label'); dflt = p.expect('id')
        bits = m.resolve(ty).bits
        p.expect('sym', '[')
        cases = []
        while not p.accept('sym', ']'):
            ct = m.parse_type(p); _, cval = operand(p, ct); p.expect('sym', ','); p.expect('kw', 'label'); cl = p.expect('id')
            cases.append((cval, mk_jump(bi, lidx[cl])))
        jd = mk_jump(bi, lidx[dflt])
        table = {}
        for cval, j in cases: table.setdefault(cval, j)
        def f(st, fr, R):
            v = R[vv] if vr else vv
            if type(v) is int:
                table.get(v, jd)(fr, R); return True
            feas = []
            nots = []
            for cval, j in cases:
                cond = v == BVV(cval, bits)
                nots.append(z3.Not(cond))
                mdl = E.check(st, cond)
                if mdl is not None: feas.append((cond, j, mdl))
            dc = z3.And(*nots) if nots else z3.BoolVal(True)
            mdl = E.check(st, dc)
            if mdl is not None: feas.append((dc, jd, mdl))
            if not feas: raise PathEnd('infeasible')
            for cond, j, mdl in feas[1:]:
                st2 = st.fork(); E.add_pc(st2, cond, mdl); fr2 = st2.frames[-1]; j(fr2, fr2.R); E.work.append(st2)
            E.add_pc(st, feas[0][0], feas[0][2]); feas[0][1](fr, R)
            return True
        return f

    # ---------------------------------------------------------------- memory
    if op == 'alloca':
        p.accept('kw', 'inalloca')
        ty = m.parse_type(p)
        sz = m.sizeof(ty)
        nr, nv = False, 1
        if p.accept('sym', ','):
            if p.peek() != ('kw', 'align'):
                nt = m.parse_type(p); nr, nv = operand(p, nt)
        name = "%s:alloca%d" % (fc.name, d)
        def f(st, fr, R):
            n = R[nv] if nr else nv
            if type(n) is not int: n = E.concretize(st, n, 'alloca count', 16)
            oid = st.alloc(sz * n, 'stack', name, None)
            fr.allocas.append(oid); R[d] = Ptr(oid, 0)
        return f
    if op == 'load':
        p.accept('kw', 'atomic'); p.accept('kw', 'volatile')
        ty = m.parse_type(p); p.expect('sym', ','); pt = m.parse_type(p); pr, pv = operand(p, pt)
        rt = m.resolve(ty); n = m.sizeof(rt)
        isptr = isinstance(rt, PtrTy)
        odd = isinstance(rt, IntTy) and rt.bits % 8 != 0
        bits = rt.bits if isinstance(rt, (IntTy, FloatTy)) else 64
        agg = isinstance(rt, (StructTy, ArrTy, VecTy))
        if agg:
            def f(st, fr, R):
                ptr = R[pv] if pr else pv
                R[d] = load_agg(E, m, st, ptr, rt)
            return f
        load = E.load; resolve = E.resolve; load_cells = E.load_cells
        def f(st, fr, R):
            ptr = R[pv] if pr else pv
            if ptr.__class__ is not Ptr: ptr = E.int_to_ptr(st, ptr)
            # fast path: concrete in-bounds offset
            o = st.mem.get(ptr.obj); off = ptr.off
            if o is not None and type(off) is int and 0 <= off and off + n <= o.size and o.kind not in ('freed', 'func') and o.arr is None and not E.mt:
                cells = o.data[off:off + n]
                v = 0; i = 0
                for c in cells:
                    if type(c) is int: v |= c << i
                    else: v = None; break
                    i += 8
                if v is None: v = load(st, ptr, n) if E.uninit_sym else load_cells(cells, n)
            else:
                v = load(st, ptr, n)
            if isptr:
                if v.__class__ is not Ptr: v = E.int_to_ptr(st, v)
            elif v.__class__ is Ptr:
                v = E.ptr_addr(v)
            if odd:
                if type(v) is int: v &= (1 << bits) - 1
                elif bits == 1: v = z3.Extract(0, 0, v) == BVV(1, 1)
                else: v = z3.Extract(bits - 1, 0, v)
            R[d] = v
        return f
    if op == 'store':
        p.accept('kw', 'atomic'); p.accept('kw', 'volatile')
        ty = m.parse_type(p); vr, vv = operand(p, ty); p.expect('sym', ','); pt = m.parse_type(p); pr, pv = operand(p, pt)
        rt = m.resolve(ty); n = m.sizeof(rt)
        isptr = isinstance(rt, PtrTy)
        odd = isinstance(rt, IntTy) and rt.bits % 8 != 0
        bits = rt.bits if isinstance(rt, (IntTy, FloatTy)) else 64
        if isinstance(rt, (StructTy, ArrTy, VecTy)):
            def f(st, fr, R):
                store_agg(E, m, st, R[pv] if pr else pv, rt, R[vv] if vr else vv)
            return f
        store = E.store
        def f(st, fr, R):
            v = R[vv] if vr else vv
            ptr = R[pv] if pr else pv
            if ptr.__class__ is not Ptr: ptr = E.int_to_ptr(st, ptr)
            if odd and type(v) is not int:
                v = b2bv(v, 8 * n) if is_bool(v) else z3.ZeroExt(8 * n - bits, v)
            elif is_bool(v):
                v = b2bv(v, 8 * n)
            if isptr and v.__class__ is not Ptr: v = E.int_to_ptr(st, v)
            store(st, ptr, v, n)
        return f
    if op == 'getelementptr':
        p.accept('kw', 'inbounds')
        bt = m.parse_type(p); p.expect('sym', ','); pt = m.parse_type(p); br_, bv_ = operand(p, pt)
        const_off = 0
        dyn = []     # (slot, elemsize, bits)
        t = bt; first = True
        while p.accept('sym', ','):
            p.accept('kw', 'inrange')
            it = m.parse_type(p); ir_, iv = operand(p, it)
            ibits = m.resolve(it).bits
            if first:
                es = m.sizeof(t); first = False
            else:
                rt = m.resolve(t)
                if isinstance(rt, StructTy):
                    assert not ir_
                    offs, _ = m.layout(rt); const_off += offs[iv]; t = rt.els[iv]; continue
                es = m.sizeof(rt.el); t = rt.el
            if ir_: dyn.append((iv, es, ibits))
            else: const_off += to_signed(iv, ibits) * es
        dyn = tuple(dyn)
        def f(st, fr, R):
            base = R[bv_] if br_ else bv_
            if base.__class__ is not Ptr: base = E.int_to_ptr(st, base)
            off = base.off
            sym = None
            if type(off) is not int: sym = off; off = 0
            off += const_off
            for sl, es, ibits in dyn:
                iv = R[sl]
                if type(iv) is int:
                    if iv >> (ibits - 1): iv -= 1 << ibits
                    off += iv * es
                else:
                    if is_bool(iv): iv = b2bv(iv, 64)
                    elif ibits < 64: iv = z3.SignExt(64 - ibits, iv)
                    term = iv * BVV(es, 64) if es != 1 else iv
                    sym = term if sym is None else sym + term
            if sym is None: R[d] = Ptr(base.obj, off)
            else: R[d] = Ptr(base.obj, z3.simplify(sym + BVV(off & M64, 64)) if off else sym)
        return f

    # ---------------------------------------------------------------- casts
    if op in CASTS:
        ty = m.parse_type(p); vr, vv = operand(p, ty); p.expect('kw', 'to'); tt = m.parse_type(p)
        frt = m.resolve(ty); trt = m.resolve(tt)
        if op in ('bitcast', 'addrspacecast'):
            if isinstance(frt, VecTy) or isinstance(trt, VecTy):
                def f(st, fr, R): raise EngineLimit('vector bitcast')
                return f
            def f(st, fr, R):
                R[d] = R[vv] if vr else vv
            return f
        if op == 'ptrtoint':
            tb = trt.bits
            def f(st, fr, R):
                v = R[vv] if vr else vv
                a = E.ptr_addr(v) if v.__class__ is Ptr else v
                if tb < 64: a = a & ((1 << tb) - 1) if type(a) is int else z3.Extract(tb - 1, 0, a)
                R[d] = a
            return f
        if op == 'inttoptr':
            fb = frt.bits
            def f(st, fr, R):
                v = R[vv] if vr else vv
                if v.__class__ is not Ptr and type(v) is not int and fb < 64: v = z3.ZeroExt(64 - fb, v)
                R[d] = E.int_to_ptr(st, v)
            return f
        if op in ('trunc', 'zext', 'sext'):
            fb = frt.bits; tb = trt.bits
            def f(st, fr, R):
                v = R[vv] if vr else vv
                if v.__class__ is Ptr: v = E.ptr_addr(v)
                if type(v) is int:
                    if op == 'trunc': r = v & ((1 << tb) - 1)
                    elif op == 'zext': r = v
                    else: r = to_signed(v, fb) & ((1 << tb) - 1)
                else:
                    if op == 'trunc':
                        if tb == 1: r = z3.Extract(0, 0, v) == BVV(1, 1)
                        else: r = z3.Extract(tb - 1, 0, v)
                    elif is_bool(v):
                        r = z3.If(v, BVV(1 if op == 'zext' else (1 << tb) - 1, tb), BVV(0, tb))
                    elif op == 'zext': r = z3.ZeroExt(tb - fb, v)
                    else: r = z3.SignExt(tb - fb, v)
                R[d] = r
            return f
        # float conversions
        fb = frt.bits; tb = trt.bits
        def f(st, fr, R):
            v = R[vv] if vr else vv
            if type(v) is int:
                if op in ('fpext', 'fptrunc'): r = f2bits(bits2f(v, fb), tb)
                elif op == 'uitofp': r = f2bits(float(v), tb)
                elif op == 'sitofp': r = f2bits(float(to_signed(v, fb)), tb)
                else:
                    x = bits2f(v, fb)
                    if x != x or x in (float('inf'), float('-inf')): r = 0
                    else: r = int(x) & ((1 << tb) - 1)
            else:
                RNE = z3.RNE(); RTZ = z3.RTZ()
                if op in ('fpext', 'fptrunc'): r = z3.fpToIEEEBV(z3.fpFPToFP(RNE, tofp(v, fb), fsort(tb)))
                elif op == 'uitofp': FP_HOOK[0] and FP_HOOK[0](); r = z3.fpToIEEEBV(z3.fpUnsignedToFP(RNE, b2bv(v, fb) if is_bool(v) else v, fsort(tb)))
                elif op == 'sitofp': FP_HOOK[0] and FP_HOOK[0](); r = z3.fpToIEEEBV(z3.fpSignedToFP(RNE, v, fsort(tb)))
                elif op == 'fptoui': r = z3.fpToUBV(RTZ, tofp(v, fb), z3.BitVecSort(tb))
                else: r = z3.fpToSBV(RTZ, tofp(v, fb), z3.BitVecSort(tb))
            R[d] = r
        return f

    # ---------------------------------------------------------------- arithmetic
    if op in BINOPS:
        while p.peek()[0] == 'kw' and p.peek()[1] in ('nsw', 'nuw', 'exact'): p.next()
        ty = m.parse_type(p); ar, av = operand(p, ty); p.expect('sym', ','); br_, bv_ = operand(p, ty)
        rt = m.resolve(ty)
        if isinstance(rt, VecTy):
            def f(st, fr, R): raise EngineLimit('vector arithmetic')
            return f
        bits = rt.bits; M = (1 << bits) - 1
        binop = E.binop
        if op == 'add':
            def f(st, fr, R):
                a = R[av] if ar else av; b = R[bv_] if br_ else bv_
                if type(a) is int and type(b) is int: R[d] = (a + b) & M
                else:
                    if a.__class__ is Ptr: a = E.ptr_addr(a)
                    if b.__class__ is Ptr: b = E.ptr_addr(b)
                    R[d] = binop(st, op, a, b, bits)
            return f
        if op == 'sub':
            def f(st, fr, R):
                a = R[av] if ar else av; b = R[bv_] if br_ else bv_
                if type(a) is int and type(b) is int: R[d] = (a - b) & M
                else:
                    if a.__class__ is Ptr: a = E.ptr_addr(a)
                    if b.__class__ is Ptr: b = E.ptr_addr(b)
                    R[d] = binop(st, op, a, b, bits)
            return f
        def f(st, fr, R):
            a = R[av] if ar else av; b = R[bv_] if br_ else bv_
            if a.__class__ is Ptr: a = E.ptr_addr(a)
            if b.__class__ is Ptr: b = E.ptr_addr(b)
            R[d] = binop(st, op, a, b, bits)
        return f
    if op == 'icmp':
        pred = p.next()[1]; ty = m.parse_type(p); ar, av = operand(p, ty); p.expect('sym', ','); br_, bv_ = operand(p, ty)
        rt = m.resolve(ty)
        bits = 64 if isinstance(rt, PtrTy) else rt.bits
        icmp = E.icmp
        def f(st, fr, R):
            a = R[av] if ar else av; b = R[bv_] if br_ else bv_
            if type(a) is int and type(b) is int:
                R[d] = icmp(pred, a, b, bits); return
            if a.__class__ is Ptr or b.__class__ is Ptr:
                if a.__class__ is Ptr and b.__class__ is Ptr:
                    if a.obj == b.obj:
                        # same object: addresses are base+offset with a base far from 0 and 2^64, so the (unsigned) address
                        # order is the SIGNED order of the offsets (an offset may be slightly negative, e.g. `limit - 7`)
                        ao, bo = a.off, b.off
                        if type(ao) is int: ao &= M64
                        if type(bo) is int: bo &= M64
                        R[d] = icmp(PTR_PRED.get(pred, pred), ao, bo, 64); return
                    if pred == 'eq': R[d] = 0; return
                    if pred == 'ne': R[d] = 1; return
                if a.__class__ is Ptr: a = E.ptr_addr(a)
                if b.__class__ is Ptr: b = E.ptr_addr(b)
            R[d] = icmp(pred, a, b, bits)
        return f
    if op == 'select':
        ct = m.parse_type(p); cr, cv = operand(p, ct); p.expect('sym', ','); ty = m.parse_type(p); ar, av = operand(p, ty); p.expect('sym', ','); ty2 = m.parse_type(p); br_, bv_ = operand(p, ty2)
        rt = m.resolve(ty)
        bits = rt.bits if isinstance(rt, (IntTy, FloatTy)) else 64
        def f(st, fr, R):
            c = R[cv] if cr else cv
            a = R[av] if ar else av; b = R[bv_] if br_ else bv_
            if type(c) is int:
                R[d] = a if c & 1 else b; return
            cond = as_bool(c)
            if a.__class__ is Ptr or b.__class__ is Ptr or type(a) is list or type(b) is list:
                if a.__class__ is Ptr and b.__class__ is Ptr and a.obj == b.obj:
                    R[d] = Ptr(a.obj, z3.If(cond, bv(a.off & M64 if type(a.off) is int else a.off, 64), bv(b.off & M64 if type(b.off) is int else b.off, 64))); return
                taken, other = E.branch(st, cond)
                if other is not None:
                    other.frames[-1].R[d] = b if taken else a
                    E.work.append(other)
                R[d] = a if taken else b
                return
            if bits == 1:
                A = as_bool(a) if type(a) is not int else z3.BoolVal(bool(a))
                B = as_bool(b) if type(b) is not int else z3.BoolVal(bool(b))
                R[d] = z3.If(cond, A, B); return
            if is_bool(a): a = b2bv(a, bits)
            if is_bool(b): b = b2bv(b, bits)
            R[d] = z3.If(cond, bv(a, bits), bv(b, bits))
        return f
    if op == 'freeze':
        ty = m.parse_type(p); vr, vv = operand(p, ty)
        def f(st, fr, R): R[d] = R[vv] if vr else vv
        return f
    if op in FBINOPS or op == 'fneg':
        while p.peek()[0] == 'kw' and p.peek()[1] in CALL_SKIP: p.next()
        ty = m.parse_type(p); ar, av = operand(p, ty)
        bits = m.resolve(ty).bits
        if op == 'fneg':
            sb = 1 << (bits - 1)
            def f(st, fr, R):
                a = R[av] if ar else av
                R[d] = a ^ sb if type(a) is int else a ^ BVV(sb, bits)
            return f
        p.expect('sym', ','); br_, bv_ = operand(p, ty)
        def f(st, fr, R):
            a = R[av] if ar else av; b = R[bv_] if br_ else bv_
            if type(a) is int and type(b) is int:
                x, y = bits2f(a, bits), bits2f(b, bits)
                try:
                    if op == 'fadd': r = x + y
                    elif op == 'fsub': r = x - y
                    elif op == 'fmul': r = x * y
                    elif op == 'fdiv': r = x / y if y != 0 else (float('nan') if x == 0 or x != x else float('inf') * (1 if (x > 0) == (str(y)[0] != '-') else -1))
                    else:
                        import math; r = math.fmod(x, y) if y != 0 else float('nan')
                except (OverflowError, ValueError):
                    r = float('nan')
                if bits == 32:
                    r = struct.unpack('<f', struct.pack('<I', f2bits(r, 32)))[0]
                R[d] = f2bits(r, bits); return
            A, B = tofp(a, bits), tofp(b, bits); RNE = z3.RNE()
            if op == 'fadd': r = z3.fpAdd(RNE, A, B)
            elif op == 'fsub': r = z3.fpSub(RNE, A, B)
            elif op == 'fmul': r = z3.fpMul(RNE, A, B)
            elif op == 'fdiv': r = z3.fpDiv(RNE, A, B)
            else: r = z3.fpRem(A, B)
            R[d] = z3.fpToIEEEBV(r)
        return f
    if op == 'fcmp':
        while p.peek()[0] == 'kw' and p.peek()[1] in CALL_SKIP: p.next()
        pred = p.next()[1]; ty = m.parse_type(p); ar, av = operand(p, ty); p.expect('sym', ','); br_, bv_ = operand(p, ty)
        bits = m.resolve(ty).bits
        def f(st, fr, R):
            a = R[av] if ar else av; b = R[bv_] if br_ else bv_
            if type(a) is int and type(b) is int:
                x, y = bits2f(a, bits), bits2f(b, bits)
                un = x != x or y != y
                base = pred[1:]
                if pred == 'true': r = True
                elif pred == 'false': r = False
                elif pred == 'ord': r = not un
                elif pred == 'uno': r = un
                else:
                    c = {'eq': x == y, 'gt': x > y, 'ge': x >= y, 'lt': x < y, 'le': x <= y, 'ne': x != y}[base]
                    r = (c and not un) if pred[0] == 'o' else (c or un)
                R[d] = int(r); return
            A, B = tofp(a, bits), tofp(b, bits)
            un = z3.Or(z3.fpIsNaN(A), z3.fpIsNaN(B))
            base = pred[1:]
            if pred == 'ord': c = z3.Not(un)
            elif pred == 'uno': c = un
            elif pred == 'true': c = z3.BoolVal(True)
            elif pred == 'false': c = z3.BoolVal(False)
            else:
                c0 = {'eq': lambda: z3.fpEQ(A, B), 'gt': lambda: z3.fpGT(A, B), 'ge': lambda: z3.fpGEQ(A, B), 'lt': lambda: z3.fpLT(A, B),
                      'le': lambda: z3.fpLEQ(A, B), 'ne': lambda: z3.Not(z3.fpEQ(A, B))}[base]()
                c = z3.And(c0, z3.Not(un)) if pred[0] == 'o' else z3.Or(c0, un)
            R[d] = c
        return f

    # ---------------------------------------------------------------- aggregates
    if op == 'extractvalue':
        ty = m.parse_type(p); vr, vv = operand(p, ty)
        idx = []
        while p.accept('sym', ','): idx.append(p.expect('int'))
        def f(st, fr, R):
            v = R[vv] if vr else vv
            for i in idx: v = v[i]
            R[d] = v
        return f
    if op == 'insertvalue':
        ty = m.parse_type(p); vr, vv = operand(p, ty); p.expect('sym', ','); et = m.parse_type(p); er, ev = operand(p, et)
        idx = []
        while p.accept('sym', ','): idx.append(p.expect('int'))
        rt = m.resolve(ty)
        def f(st, fr, R):
            v = R[vv] if vr else vv
            e = R[ev] if er else ev
            cur = list(v) if isinstance(v, (list, tuple)) else zero_of(rt)
            top = cur
            for i in idx[:-1]:
                cur[i] = list(cur[i]); cur = cur[i]
            cur[idx[-1]] = e
            R[d] = top
        return f

    # ---------------------------------------------------------------- calls
    if op == 'call':
        while p.peek()[0] == 'kw' and p.peek()[1] in CALL_SKIP: p.next()
        while p.peek()[0] == 'kw' and p.peek()[1] in ('dereferenceable', 'dereferenceable_or_null', 'align'):
            p.next()
            if p.peek() == ('sym', '('):
                p.next(); _skip(p)
        rty = m.parse_type(p)
        k, callee = p.next()
        creg = -1
        if k == 'id' and callee[0] == '%': creg = slot(callee)
        elif k != 'id':
            # e.g. bitcast (... @f to ...) call through constant expression
            p.i -= 1
            val = E.parse_const(p, rty)
            callee = E.fnobj.get(val.obj)
        p.expect('sym', '(')
        args = []
        if not p.accept('sym', ')'):
            while True:
                at = m.parse_type(p)
                while p.peek()[0] == 'kw' and p.peek()[1] in ARG_ATTRS:
                    kk, vv2 = p.next()
                    if p.peek() == ('sym', '('):
                        p.next(); _skip(p)
                    elif vv2 in ('align', 'dereferenceable', 'dereferenceable_or_null') and p.peek()[0] == 'int': p.next()
                if isinstance(at, MetaTy):
                    # metadata argument (llvm.dbg.*): ignore
                    while p.peek() not in (('sym', ','), ('sym', ')')): p.next()
                    args.append((False, None))
                else:
                    args.append(operand(p, at))
                if p.accept('sym', ')'): break
                p.expect('sym', ',')
        args = tuple(args)
        if creg < 0 and (callee.startswith('@llvm.dbg') or callee.startswith('@llvm.lifetime')):
            def f(st, fr, R): pass
            return f
        call = E.call
        in_module = creg < 0 and callee in E.m.funcs and callee not in E.overrides
        def f(st, fr, R):
            a = [(R[v] if isr else v) for isr, v in args]
            if creg >= 0:
                fp = R[creg]
                if fp.__class__ is not Ptr: fp = E.int_to_ptr(st, fp)
                name = E.fnobj.get(fp.obj)
                if name is None or fp.off != 0:
                    raise Violation('bad-call', 'indirect call through a non-function pointer %r' % (fp,), E.model_dict(st))
                call(st, fr, name, a, d)
                return True
            call(st, fr, callee, a, d)
            return True if (in_module or st.frames[-1] is not fr) else None
        return f
    if op == 'va_arg':
        def f(st, fr, R): raise EngineLimit('va_arg')
        return f
    if op in ('fence',):
        def f(st, fr, R): pass
        return f
    if op == 'atomicrmw':
        # %old = atomicrmw [volatile] <binop> <ty>* <ptr>, <ty> <val> <ordering>: one indivisible load + store in the engine's
        # interleaving model (instructions of one worker are never split; preemption points sit between instructions)
        p.accept('kw', 'volatile')
        rop = p.next()[1]
        pt = m.parse_type(p); pr, pv = operand(p, pt); p.expect('sym', ',')
        ty = m.parse_type(p); vr, vv = operand(p, ty)
        rt = m.resolve(ty); n = m.sizeof(rt)
        if not isinstance(rt, IntTy) or rt.bits % 8 != 0 or rop not in ('xchg', 'add', 'sub', 'and', 'or', 'xor', 'max', 'min', 'umax', 'umin', 'nand'):
            def f(st, fr, R): raise EngineLimit('atomicrmw %s on this type' % rop)
            return f
        w = rt.bits; mk = (1 << w) - 1
        def f(st, fr, R):
            ptr = R[pv] if pr else pv
            if ptr.__class__ is not Ptr: ptr = E.int_to_ptr(st, ptr)
            v = R[vv] if vr else vv
            old = E.load(st, ptr, n)
            if old.__class__ is Ptr: old = E.ptr_addr(old)
            if type(old) is int and type(v) is int:
                so, sv = to_signed(old, w), to_signed(v, w)
                new = {'xchg': v, 'add': (old + v) & mk, 'sub': (old - v) & mk, 'and': old & v, 'or': old | v, 'xor': old ^ v, 'nand': ~(old & v) & mk,
                       'max': old if so >= sv else v, 'min': old if so <= sv else v, 'umax': max(old, v), 'umin': min(old, v)}[rop]
            else:
                A, B = bv(old, w), bv(v, w)
                new = {'xchg': lambda: B, 'add': lambda: A + B, 'sub': lambda: A - B, 'and': lambda: A & B, 'or': lambda: A | B, 'xor': lambda: A ^ B, 'nand': lambda: ~(A & B),
                       'max': lambda: z3.If(A >= B, A, B), 'min': lambda: z3.If(A <= B, A, B), 'umax': lambda: z3.If(z3.UGE(A, B), A, B), 'umin': lambda: z3.If(z3.ULE(A, B), A, B)}[rop]()
            E.store(st, ptr, new, n)
            R[d] = old
        return f
    if op == 'cmpxchg':
        # %r = cmpxchg [weak] [volatile] <ty>* <ptr>, <ty> <cmp>, <ty> <new> <ord> <ord>  ->  { <ty>, i1 }  (never fails spuriously here)
        p.accept('kw', 'weak'); p.accept('kw', 'volatile')
        pt = m.parse_type(p); pr, pv = operand(p, pt); p.expect('sym', ',')
        ty = m.parse_type(p); cr, cv = operand(p, ty); p.expect('sym', ',')
        ty2 = m.parse_type(p); nr, nv = operand(p, ty2)
        rt = m.resolve(ty); n = m.sizeof(rt)
        if not isinstance(rt, IntTy) or rt.bits % 8 != 0:
            def f(st, fr, R): raise EngineLimit('cmpxchg on this type')
            return f
        w = rt.bits
        def f(st, fr, R):
            ptr = R[pv] if pr else pv
            if ptr.__class__ is not Ptr: ptr = E.int_to_ptr(st, ptr)
            c = R[cv] if cr else cv; nw = R[nv] if nr else nv
            old = E.load(st, ptr, n)
            if old.__class__ is Ptr: old = E.ptr_addr(old)
            if type(old) is int and type(c) is int:
                ok = old == c
                if ok: E.store(st, ptr, nw, n)
                R[d] = [old, 1 if ok else 0]
            else:
                cond = bv(old, w) == bv(c, w)
                E.store(st, ptr, z3.If(cond, bv(nw, w), bv(old, w)), n)
                R[d] = [old, cond]
        return f
    msg = 'unsupported instruction: ' + ' '.join(str(v) for k, v in toks[:8])
    def f(st, fr, R): raise EngineLimit(msg)
    return f


def _skip(p):
    depth = 1
    while depth:
        kk, vv = p.next()
        if (kk, vv) == ('sym', '('): depth += 1
        elif (kk, vv) == ('sym', ')'): depth -= 1
        elif kk == 'eof': break


def load_agg(E, m, st, ptr, rt):
    if isinstance(rt, StructTy):
        offs, _ = m.layout(rt)
        return [load_agg(E, m, st, Ptr(ptr.obj, ptr.off + o), m.resolve(t)) for o, t in zip(offs, rt.els)]
    if isinstance(rt, (ArrTy, VecTy)):
        es = m.sizeof(rt.el); ert = m.resolve(rt.el)
        return [load_agg(E, m, st, Ptr(ptr.obj, ptr.off + i * es), ert) for i in range(rt.n)]
    v = E.load(st, ptr, m.sizeof(rt))
    if isinstance(rt, PtrTy) and v.__class__ is not Ptr: v = E.int_to_ptr(st, v)
    return v


def store_agg(E, m, st, ptr, rt, val):
    if isinstance(rt, StructTy):
        offs, _ = m.layout(rt)
        for o, t, v in zip(offs, rt.els, val): store_agg(E, m, st, Ptr(ptr.obj, ptr.off + o), m.resolve(t), v)
        return
    if isinstance(rt, (ArrTy, VecTy)):
        es = m.sizeof(rt.el); ert = m.resolve(rt.el)
        for i in range(rt.n): store_agg(E, m, st, Ptr(ptr.obj, ptr.off + i * es), ert, val[i])
        return
    if isinstance(rt, PtrTy) and val.__class__ is not Ptr: val = E.int_to_ptr(st, val)
    E.store(st, ptr, val, m.sizeof(rt))
