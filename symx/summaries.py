"""Function summaries (assume-guarantee) for file-level symx runs.  Each summary replaces a function that is the SUBJECT of
another property's check and is listed as a stub in the evidence.

crc32: `carquet_crc32(data, len)` -> the real CRC-32 for concrete bytes; for symbolic bytes one fresh 32-bit symbol per distinct
tuple of byte expressions (functional consistency: the same bytes always give the same symbol).  Over-approximates (any value
for any data); a counterexample that needs an unattainable CRC fails native replay and is discarded as unconfirmed."""
import zlib, z3
from symx import Ptr, BVV, EngineLimit


def install(E, name):
    if name == 'crc32':
        memo = E.crc_memo
        keep = []          # keeps the simplified ASTs alive: z3 ids are only stable (hash-consing) while the AST is referenced
        def crc32(E, st, fr, a, d):
            ptr = a[0] if a[0].__class__ is Ptr else E.int_to_ptr(st, a[0]); ln = a[1]
            if type(ln) is not int: ln = E.concretize(st, ln, 'crc length', 64)
            if ln == 0: return 0
            cells = []
            for c in E.read_bytes(st, ptr, ln, 'crc32 read'):
                c = E.cell_bv(c)
                if type(c) is not int:
                    c = z3.simplify(c)                     # canonical form: the same byte reaches the CRC through different expressions
                    if z3.is_bv_value(c): c = c.as_long()
                    else: keep.append(c)
                cells.append(c)
            if all(type(c) is int for c in cells):
                return zlib.crc32(bytes(cells)) & 0xFFFFFFFF
            key = tuple(c if type(c) is int else ('s', c.get_id()) for c in cells)
            v = memo.get(key)
            if v is None:
                v = z3.BitVec('crc32#%d' % len(memo), 32); memo[key] = v
                st.syms.append(('crc32#%d' % (len(memo) - 1), v))
            return v
        E.overrides['@carquet_crc32'] = crc32
        E.overrides['@ref_crc32_ieee'] = crc32          # the reference reader's CRC of the same bytes is the same (uninterpreted) value
        return
    raise ValueError('unknown summary ' + name)
