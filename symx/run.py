#!/usr/bin/env python3
"""CLI: run.py <linked.ll> <entry> [--json out.json] [--max-paths N] [--max-steps N] [--timeout S] [--leaks] [--crc-summary]
Prints a JSON summary (paths, steps, queries, violations, limits, samples)."""
import sys, os, json, time, argparse
sys.path.insert(0, os.path.dirname(os.path.abspath(__file__)))
import ir, symx, z3


def jsonable(x):
    if isinstance(x, (int, str, float, type(None), bool)): return x
    if isinstance(x, (list, tuple)): return [jsonable(y) for y in x]
    if isinstance(x, dict): return {str(k): jsonable(v) for k, v in x.items()}
    return str(x)


def main():
    ap = argparse.ArgumentParser()
    ap.add_argument('ll'); ap.add_argument('entry')
    ap.add_argument('--json'); ap.add_argument('--max-paths', type=int, default=100000); ap.add_argument('--max-steps', type=int, default=3_000_000)
    ap.add_argument('--max-depth', type=int, default=120)
    ap.add_argument('--timeout', type=float, default=600); ap.add_argument('--leaks', action='store_true')
    ap.add_argument('--summaries', default=''); ap.add_argument('--samples', type=int, default=6)
    ap.add_argument('--fork-max', type=int, default=8)
    ap.add_argument('--stop-distinct', type=int, default=0)
    ap.add_argument('--uninit-symbolic', action='store_true')
    ap.add_argument('--fp-precise', action='store_true')
    a = ap.parse_args()
    t0 = time.time()
    mod = ir.parse_module(a.ll)
    eng = symx.Engine(mod, max_steps=a.max_steps, max_paths=a.max_paths, max_depth=a.max_depth, deadline=t0 + a.timeout)
    eng.stop_after = 1 if a.stop_distinct else 0; eng.stop_distinct = a.stop_distinct
    eng.uninit_sym = a.uninit_symbolic
    if a.fp_precise:
        import decode as _decode
        _decode.FP_HOOK[0] = eng.need_fp
    eng.check_leaks = a.leaks; eng.sample_cap = a.samples; eng.FORK_MAX = a.fork_max
    if a.summaries:
        import summaries
        for nm in a.summaries.split(','):
            summaries.install(eng, nm)
    tparse = time.time() - t0
    dt = eng.run(a.entry)
    # evaluate observations of sampled completed paths under their model so they can be compared with a native run
    out = {
        'entry': a.entry, 'paths': eng.paths, 'completed': eng.completed, 'steps': eng.total_steps, 'queries': eng.queries,
        'solver_s': round(eng.qtime, 3), 'wall_s': round(time.time() - t0, 3), 'parse_s': round(tparse, 3),
        'violations': eng.violations, 'limits': eng.limits[:20], 'n_limits': len(eng.limits),
        'samples': eng.completed_samples, 'functions': sorted(eng.fn_called), 'concretisations': eng.concretisations,
    }
    js = json.dumps(jsonable(out))
    if a.json:
        with open(a.json, 'w') as f: f.write(js)
    else:
        print(js)
    print("paths=%d completed=%d steps=%d queries=%d solver=%.1fs wall=%.1fs violations=%d limits=%d" % (
        eng.paths, eng.completed, eng.total_steps, eng.queries, eng.qtime, time.time() - t0, len(eng.violations), len(eng.limits)), file=sys.stderr)
    seen = set()
    for v in eng.violations:
        key = (v['kind'], v['msg'], v['where'])
        if key in seen: continue
        seen.add(key)
        print("VIOLATION", v['kind'], v['msg'], "@", v['where'], file=sys.stderr)
    for l in eng.limits[:5]:
        print("LIMIT", l['msg'], '@', l['where'], file=sys.stderr)


if __name__ == '__main__':
    main()
