"""symx environment models: libc memory/string functions, allocation (with fault fork), in-memory stdio and
open/fstat/mmap over the same model file system (with sink-fault forks), cpuid hooks, zlib/zstd contract stubs,
LLVM intrinsics and the harness API (symx_*).  Every model here is part of the claim of a check that uses it and
is listed in the evidence (`stubs`)."""
import z3, zlib
from symx import (Ptr, NULL, Violation, PathEnd, EngineLimit, mask, to_signed, bv, BVV, is_bool, as_bool, b2bv, M64, Tomb)

MAP_FAILED = Ptr(0xffffffff, 0xffffffff)


def install(E):
    X = E.ext
    def reg(*names):
        def deco(fn):
            for n in names: X['@' + n] = fn
            return fn
        return deco

    def P_(E, st, v):
        return v if v.__class__ is Ptr else E.int_to_ptr(st, v)

    def conc(E, st, v, what, limit=None):
        if type(v) is int: return v
        if is_bool(v): v = b2bv(v, 32)
        return E.concretize(st, v, what, limit, representative=('length' in what or 'size' in what or 'count' in what or 'capacity' in what))

    # ------------------------------------------------------------ memory
    @reg('malloc')
    def _malloc(E, st, fr, a, d): return E.malloc(st, a[0])
    @reg('calloc')
    def _calloc(E, st, fr, a, d):
        n = E.binop(st, 'mul', a[0], a[1], 64)
        return E.malloc(st, n, zero=True)
    @reg('realloc')
    def _realloc(E, st, fr, a, d):
        old = P_(E, st, a[0]); size = a[1]
        if old.obj == 0: return E.malloc(st, size)
        oo = st.mem.get(old.obj)
        if oo is None or oo.kind != 'heap' or old.off != 0:
            if oo is not None and oo.kind == 'freed': raise Violation('use-after-free', 'realloc of freed object %s' % oo.name, E.model_dict(st))
            raise Violation('bad-free', 'realloc of non-heap pointer', E.model_dict(st))
        newp = E.malloc(st, size)
        if newp.obj == 0: return newp          # failure leaves the old block intact
        oo = st.mem[old.obj]
        no = st.mem[newp.obj]
        cp = min(oo.size, no.size)
        no.data[:cp] = oo.data[:cp]
        st.mem[old.obj] = Tomb(oo.name); st.owned.discard(old.obj)
        return newp
    @reg('free')
    def _free(E, st, fr, a, d):
        E.free_obj(st, P_(E, st, a[0])); return 0

    def memcpy(E, st, fr, a, d):
        dst = P_(E, st, a[0]); src = P_(E, st, a[1]); n = conc(E, st, a[2], 'memcpy length', 16)
        if n:
            cells = E.read_bytes(st, src, n, 'memcpy read')
            E.write_bytes(st, dst, list(cells), 'memcpy write')
        return dst
    for nm in ('memcpy', 'memmove', '__memcpy_chk', '__memmove_chk'): X['@' + nm] = memcpy
    def memset(E, st, fr, a, d):
        dst = P_(E, st, a[0]); c = a[1]; n = conc(E, st, a[2], 'memset length', 16)
        if n:
            cb = (c & 0xFF) if type(c) is int else z3.Extract(7, 0, c)
            E.write_bytes(st, dst, [cb] * n, 'memset')
        return dst
    X['@memset'] = memset
    @reg('memcmp', 'bcmp')
    def _memcmp(E, st, fr, a, d):
        pa = P_(E, st, a[0]); pb = P_(E, st, a[1]); n = conc(E, st, a[2], 'memcmp length', 16)
        if n == 0: return 0
        ca = E.read_bytes(st, pa, n, 'memcmp read'); cb = E.read_bytes(st, pb, n, 'memcmp read')
        res = 0
        for i in reversed(range(n)):
            x = E.cell_bv(ca[i]); y = E.cell_bv(cb[i])
            if type(x) is int and type(y) is int:
                if x != y: res = 0xFFFFFFFF if x < y else 1
            else:
                Xv, Yv = bv(x, 8), bv(y, 8)
                res = z3.If(Xv == Yv, bv(res, 32), z3.If(z3.ULT(Xv, Yv), BVV(0xFFFFFFFF, 32), BVV(1, 32)))
        return res
    @reg('memchr')
    def _memchr(E, st, fr, a, d):
        ptr = P_(E, st, a[0]); c = conc(E, st, a[1], 'memchr byte') & 0xFF; n = conc(E, st, a[2], 'memchr length', 16)
        cells = E.read_bytes(st, ptr, n, 'memchr read') if n else []
        for i, cell in enumerate(cells):
            v = E.cell_bv(cell)
            if type(v) is not int: v = E.concretize(st, bv(v, 8), 'memchr cell', 4)
            if v == c: return Ptr(ptr.obj, ptr.off + i)
        return NULL
    @reg('strlen')
    def _strlen(E, st, fr, a, d):
        return len(E.cstring(st, P_(E, st, a[0])))
    def _str_find(E, st, a, last):
        # concrete C strings (E.cstring concretises symbolic bytes): first / last occurrence of the byte, the terminator included
        ptr = P_(E, st, a[0]); c = conc(E, st, a[1], 'strchr byte') & 0xFF
        cs = E.cstring(st, ptr)
        s_ = [(ord(x) if isinstance(x, str) else int(x)) & 0xFF for x in cs] + [0]
        idx = [k for k, x in enumerate(s_) if x == c]
        if not idx: return NULL
        return Ptr(ptr.obj, ptr.off + (idx[-1] if last else idx[0]))
    @reg('strchr')
    def _strchr(E, st, fr, a, d): return _str_find(E, st, a, False)
    @reg('strrchr')
    def _strrchr(E, st, fr, a, d): return _str_find(E, st, a, True)
    def sym_strcmp(E, st, pa, pb, limit=None):
        """byte-wise comparison; symbolic bytes fork on equal / different (and on NUL)"""
        oa = E.obj_of(st, pa, 'string read'); ob = E.obj_of(st, pb, 'string read')
        ia, ib = pa.off, pb.off
        if type(ia) is not int: ia = E.concretize(st, ia, 'string pointer offset', 64)
        if type(ib) is not int: ib = E.concretize(st, ib, 'string pointer offset', 64)
        k = 0
        while limit is None or k < limit:
            if ia + k >= oa.size or ib + k >= ob.size or ia + k < 0 or ib + k < 0:
                raise Violation('out-of-bounds', 'string comparison reads past the end of an object (unterminated string)', E.model_dict(st))
            x = E.cell_bv(oa.data[ia + k]) if oa.arr is None else E.arr_load(oa, ia + k, 1)
            y = E.cell_bv(ob.data[ib + k]) if ob.arr is None else E.arr_load(ob, ib + k, 1)
            if type(x) is int and type(y) is int:
                if x != y: return 0xFFFFFFFF if x < y else 1
                if x == 0: return 0
            else:
                X, Y = bv(x, 8), bv(y, 8)
                taken, other = E.branch(st, X == Y)
                if other is not None:
                    other.frames[-1].ip -= 1; E.work.append(other)       # the other side re-executes the call under its constraint
                if not taken:
                    return z3.If(z3.ULT(X, Y), BVV(0xFFFFFFFF, 32), BVV(1, 32))
                # equal: NUL ends the comparison
                if type(x) is int or type(y) is int:
                    if (x if type(x) is int else y) == 0: return 0
                else:
                    t2, o2 = E.branch(st, X == 0)
                    if o2 is not None:
                        o2.frames[-1].ip -= 1; E.work.append(o2)
                    if t2: return 0
            k += 1
            if k > 4096: raise EngineLimit('string too long')
        return 0
    @reg('strcmp')
    def _strcmp(E, st, fr, a, d):
        return sym_strcmp(E, st, P_(E, st, a[0]), P_(E, st, a[1]))
    @reg('strncmp')
    def _strncmp(E, st, fr, a, d):
        n = conc(E, st, a[2], 'strncmp n')
        x = E.cstring(st, P_(E, st, a[0]))[:n]; y = E.cstring(st, P_(E, st, a[1]))[:n]
        return 0 if x == y else (0xFFFFFFFF if x < y else 1)
    @reg('strdup')
    def _strdup(E, st, fr, a, d):
        src = P_(E, st, a[0]); sstr = E.cstring(st, src)
        p = E.malloc(st, len(sstr) + 1)
        if p.obj: E.write_bytes(st, p, list(E.read_bytes(st, src, len(sstr) + 1)))
        return p
    @reg('strncpy')
    def _strncpy(E, st, fr, a, d):
        dst = P_(E, st, a[0]); src = P_(E, st, a[1]); n = conc(E, st, a[2], 'strncpy n')
        sstr = E.cstring(st, src).encode('latin1')[:n]
        E.write_bytes(st, dst, list(sstr) + [0] * (n - len(sstr)))
        return dst
    @reg('strcpy')
    def _strcpy(E, st, fr, a, d):
        dst = P_(E, st, a[0]); sstr = E.cstring(st, P_(E, st, a[1])).encode('latin1')
        E.write_bytes(st, dst, list(sstr) + [0]); return dst
    @reg('snprintf', 'vsnprintf', '__snprintf_chk', '__vsnprintf_chk')
    def _snprintf(E, st, fr, a, d):
        # formatting is not the subject: writes a NUL-terminated EMPTY string when size > 0, returns 0
        dst = P_(E, st, a[0]); n = a[1]
        if dst.obj and (type(n) is not int or n > 0): E.write_bytes(st, dst, [0])
        return 0
    @reg('fprintf', 'printf', 'puts', 'fputs', 'perror', 'putchar', 'fputc')
    def _printf(E, st, fr, a, d): return 0
    @reg('abort', '__assert_fail', 'exit', '_exit')
    def _abort(E, st, fr, a, d):
        raise Violation('abort', 'abort/assert/exit called', E.model_dict(st))
    @reg('getenv')
    def _getenv(E, st, fr, a, d): return NULL
    @reg('log')
    def _log(E, st, fr, a, d):
        import math, struct
        v = a[0]
        if type(v) is not int: raise EngineLimit('log of symbolic value')
        x = struct.unpack('<d', struct.pack('<Q', v))[0]
        r = math.log(x) if x > 0 else float('nan')
        return struct.unpack('<Q', struct.pack('<d', r))[0]
    @reg('omp_get_max_threads', 'omp_get_num_threads')
    def _omp(E, st, fr, a, d): return 1
    @reg('omp_get_thread_num')
    def _omp0(E, st, fr, a, d): return 0
    @reg('__errno_location')
    def _errno(E, st, fr, a, d):
        oid = st.env.get('errno_obj')
        if oid is None:
            oid = st.alloc(4, 'global', 'errno', 0); st.env = dict(st.env); st.env['errno_obj'] = oid
        return Ptr(oid, 0)

    # ------------------------------------------------------------ harness API
    @reg('symx_make_symbolic')
    def _mksym(E, st, fr, a, d):
        ptr = P_(E, st, a[0]); size = conc(E, st, a[1], 'size'); nm = E.cstring(st, P_(E, st, a[2]))
        cells = []
        for i in range(size):
            v = z3.BitVec("%s[%d]" % (nm, i), 8); st.syms.append(("%s[%d]" % (nm, i), v)); cells.append(v)
        E.write_bytes(st, ptr, cells)
        return 0
    @reg('symx_assume')
    def _assume(E, st, fr, a, d):
        c = a[0]
        if type(c) is int:
            if not c: raise PathEnd('assume')
            return 0
        cond = as_bool(c) if (is_bool(c) or c.size() == 1) else c != 0
        h = E.holds_in_model(st, cond)
        if h is True:
            E.add_pc(st, cond); return 0
        mdl = E.check(st, cond)
        if mdl is None: raise PathEnd('assume')
        E.add_pc(st, cond, mdl); return 0
    @reg('symx_assert')
    def _assert(E, st, fr, a, d):
        c = a[0]
        if type(c) is int:
            if not c: raise Violation('assert', E.cstring(st, P_(E, st, a[1])), E.model_dict(st))
            return 0
        bad = z3.Not(as_bool(c)) if (is_bool(c) or c.size() == 1) else c == 0
        if E.holds_in_model(st, bad) is True:
            raise Violation('assert', E.cstring(st, P_(E, st, a[1])), E.model_dict(st))
        mdl = E.check(st, bad)
        if mdl is not None: raise Violation('assert', E.cstring(st, P_(E, st, a[1])), E.model_dict(st, mdl))
        st.env = dict(st.env); st.env['asserts'] = st.env.get('asserts', 0) + 1
        return 0
    @reg('symx_choice')
    def _choice(E, st, fr, a, d):
        n = conc(E, st, a[0], 'choice count'); nm = E.cstring(st, P_(E, st, a[1]))
        for k in range(1, n):
            st2 = st.fork(); st2.frames[-1].R[d] = k; st2.choices.append((nm, k)); E.work.append(st2)
        st.choices.append((nm, 0))
        return 0
    @reg('symx_observe')
    def _observe(E, st, fr, a, d):
        ptr = P_(E, st, a[0]); n = conc(E, st, a[1], 'observe size'); tag = E.cstring(st, P_(E, st, a[2]))
        cells = E.read_bytes(st, ptr, n, 'observe') if n else []
        st.obs.append((tag, [E.cell_bv(c) for c in cells]))
        return 0
    @reg('symx_observe_int')
    def _observe_int(E, st, fr, a, d):
        tag = E.cstring(st, P_(E, st, a[1]))
        st.obs.append((tag, [a[0]])); return 0
    @reg('symx_note')
    def _note(E, st, fr, a, d):
        st.notes.append(E.cstring(st, P_(E, st, a[0]))); return 0
    @reg('symx_fault_alloc')
    def _fault_alloc(E, st, fr, a, d):
        st.fault_alloc = int(a[0]) if type(a[0]) is int else 1; return 0      # n > 1: up to n failing allocations per path
    @reg('symx_fault_io')
    def _fault_io(E, st, fr, a, d):
        st.env = dict(st.env); st.env['io_fault'] = int(a[0]); return 0
    @reg('symx_alloc_failed')
    def _alloc_failed(E, st, fr, a, d): return st.failed_alloc
    @reg('symx_io_failed')
    def _io_failed(E, st, fr, a, d): return 1 if st.env.get('io_failed') else 0
    @reg('symx_check_leaks')
    def _leaks(E, st, fr, a, d):
        leaked = E.leaked_objects(st)
        if leaked:
            raise Violation('memory-leak', 'heap objects still allocated: %s' % ', '.join(leaked[:6]), E.model_dict(st))
        return 0
    @reg('symx_live_heap')
    def _live(E, st, fr, a, d):
        return sum(1 for o in st.mem.values() if o.kind == 'heap')
    @reg('symx_is_symbolic')
    def _issym(E, st, fr, a, d): return 0 if type(a[0]) is int else 1
    @reg('symx_file_put')
    def _fileput(E, st, fr, a, d):
        name = E.cstring(st, P_(E, st, a[0])); n = conc(E, st, a[2], 'file size')
        cells = list(E.read_bytes(st, P_(E, st, a[1]), n, 'file_put')) if n else []
        files = dict(st.env.get('files', {})); files[name] = cells
        st.env = dict(st.env); st.env['files'] = files
        return 0
    @reg('symx_file_size')
    def _filesize(E, st, fr, a, d):
        name = E.cstring(st, P_(E, st, a[0]))
        f = st.env.get('files', {}).get(name)
        return 0xffffffffffffffff if f is None else len(f)
    @reg('symx_file_get')
    def _fileget(E, st, fr, a, d):
        name = E.cstring(st, P_(E, st, a[0])); cap = conc(E, st, a[2], 'cap')
        f = st.env.get('files', {}).get(name)
        if f is None: return 0xffffffffffffffff
        if len(f) > cap: raise Violation('harness', 'symx_file_get: buffer too small', None)
        E.write_bytes(st, P_(E, st, a[1]), list(f))
        return len(f)
    @reg('symx_interfere')
    def _interfere(E, st, fr, a, d):
        st.env = dict(st.env); st.env['interfere'] = int(a[0]); return 0

    # ------------------------------------------------------------ lazy-initialisation races (C07): store log of an initialiser
    @reg('symx_store_log_begin')
    def _slb(E, st, fr, a, d):
        """start recording every store to a GLOBAL object (the stores of a lazy initialiser, in program order) and remember
        the globals' current contents"""
        E.logging = True
        st.env = dict(st.env); st.env['store_log'] = ()
        st.env['glob_snapshot'] = {oid: o.data[:] for oid, o in st.mem.items() if o.kind == 'global' and o.arr is None}
        return 0
    @reg('symx_store_log_end')
    def _sle(E, st, fr, a, d):
        log = st.env.get('store_log') or ()
        st.env = dict(st.env); st.env['store_log_done'] = log; st.env['store_log'] = None
        return len(log)
    @reg('symx_store_prefix')
    def _spf(E, st, fr, a, d):
        """reset the globals to the snapshot and apply the first k recorded stores: the state another thread has produced when it
        is k stores into the initialiser (x86-TSO: stores become visible in program order)"""
        k = conc(E, st, a[0], 'store prefix', 4096)
        snap = st.env['glob_snapshot']; log = st.env['store_log_done']
        for oid, data in snap.items():
            o = st.wobj(oid); o.data[:] = data
        for (oid, off, val, n) in log[:k]:
            E.store(st, Ptr(oid, off), val, n)
        # for the native replay: the same state expressed as (global symbol, bytes) resets and pokes
        def cells_hex(cells):
            return ''.join('%02x' % (c if type(c) is int else 0) for c in cells)
        touched = sorted({oid for (oid, off, val, n) in log})
        poke = {'reset': [(st.mem[oid].name, cells_hex(snap[oid])) for oid in touched if oid in snap],
                'stores': [(st.mem[oid].name, off, cells_hex([(val >> (8 * i)) & 0xFF for i in range(n)]) if type(val) is int else
                            (('fn:' + E.fnobj[val.obj]) if (val.__class__ is Ptr and val.obj in E.fnobj and val.off == 0) else ('00' * n if (val.__class__ is Ptr and val.obj == 0) else None)))
                           for (oid, off, val, n) in log[:k]]}
        st.env = dict(st.env); st.env['poke'] = poke
        return 0

    # ------------------------------------------------------------ stdio over the model file system
    def fstate(st, fp, what):
        o = st.mem.get(fp.obj)
        if fp.obj == 0: raise Violation('null-deref', '%s on NULL FILE*' % what, None)
        if o is None or o.kind == 'freed':
            raise Violation('use-after-free', '%s on a closed FILE*' % what, None)
        if o.kind != 'FILE': raise Violation('bad-pointer', '%s on a non-FILE object' % what, None)
        return st.env['fp:%d' % fp.obj]
    def fset(st, fp, fs):
        st.env = dict(st.env); st.env['fp:%d' % fp.obj] = fs
    def sink_op(E, st, kind):
        """one sink fault per path.  Returns None (operation succeeds) or the fault flavour injected into THIS operation.
        Operations on writable streams are numbered (io_ops) so that a native replay can fail the same one."""
        env = st.env
        if env.get('io_fail_now'):
            mode = env['io_fail_now']; opn = env.get('io_ops', 0) + 1
            st.env = dict(env); st.env['io_fail_now'] = None; st.env['io_failed'] = mode; st.env['io_fail_op'] = opn; st.env['io_ops'] = opn
            st.notes.append('sink fault %s injected at sink operation #%d' % (mode, opn))
            return mode
        if env.get('io_fault') and not env.get('io_failed'):
            for mode in (('fwrite', 'fwrite-deferred') if kind == 'fwrite' else (kind,)):
                st2 = st.fork(); st2.frames[-1].ip -= 1
                st2.env = dict(st2.env); st2.env['io_fail_now'] = mode
                E.work.append(st2)
        st.env = dict(st.env); st.env['io_ops'] = st.env.get('io_ops', 0) + 1
        return None

    @reg('fopen', 'fopen64')
    def _fopen(E, st, fr, a, d):
        name = E.cstring(st, P_(E, st, a[0])); mode = E.cstring(st, P_(E, st, a[1]))
        files = st.env.get('files', {})
        if 'r' in mode and name not in files: return NULL
        if name == '' or name.startswith('/nonexistent'): return NULL
        if 'w' in mode:
            files = dict(files); files[name] = []; st.env = dict(st.env); st.env['files'] = files
        oid = st.alloc(8, 'FILE', 'FILE(%s)' % name, 0)
        st.env = dict(st.env); st.env['fp:%d' % oid] = (name, 0, mode, False)   # (name, pos, mode, pending_error)
        return Ptr(oid, 0)
    @reg('symx_fopen_mem')
    def _fopen_mem(E, st, fr, a, d):
        return _fopen(E, st, fr, a, d)
    @reg('fclose')
    def _fclose(E, st, fr, a, d):
        fp = P_(E, st, a[0]); name, pos, mode, pend = fstate(st, fp, 'fclose')
        fail = sink_op(E, st, 'fclose') if ('w' in mode or 'a' in mode) else None
        st.mem[fp.obj] = Tomb('FILE(%s)' % name); st.owned.discard(fp.obj)
        if fail or pend: return 0xFFFFFFFF
        return 0
    @reg('fflush')
    def _fflush(E, st, fr, a, d):
        fp = P_(E, st, a[0])
        if fp.obj == 0: return 0
        name, pos, mode, pend = fstate(st, fp, 'fflush')
        fail = sink_op(E, st, 'fflush') if ('w' in mode or 'a' in mode) else None
        if pend:
            fset(st, fp, (name, pos, mode, False)); return 0xFFFFFFFF
        return 0xFFFFFFFF if fail else 0
    @reg('fwrite')
    def _fwrite(E, st, fr, a, d):
        ptr = P_(E, st, a[0]); sz = conc(E, st, a[1], 'fwrite size'); cnt = conc(E, st, a[2], 'fwrite count', 16); fp = P_(E, st, a[3])
        name, pos, mode, pend = fstate(st, fp, 'fwrite')
        nb = sz * cnt
        if nb == 0: return 0
        cells = E.read_bytes(st, ptr, nb, 'fwrite source')
        for c in cells:
            if c is None:
                raise Violation('uninit-to-sink', 'uninitialised byte written to the output file %s' % name, E.model_dict(st))
        kind = sink_op(E, st, 'fwrite')
        if kind == 'fwrite-deferred':
            fset(st, fp, (name, pos, mode, True)); return cnt        # bytes lost, error pending on the stream (reported by fflush/fclose)
        if kind == 'fwrite':
            return 0 if cnt == 1 else cnt - 1                          # short count
        files = dict(st.env['files']); data = list(files[name])
        if pos > len(data): data += [0] * (pos - len(data))
        data[pos:pos + nb] = cells
        files[name] = data
        st.env = dict(st.env); st.env['files'] = files; st.env['fp:%d' % fp.obj] = (name, pos + nb, mode, pend)
        return cnt
    @reg('fread')
    def _fread(E, st, fr, a, d):
        ptr = P_(E, st, a[0]); sz = conc(E, st, a[1], 'fread size'); cnt = conc(E, st, a[2], 'fread count', 16); fp = P_(E, st, a[3])
        name, pos, mode, pend = fstate(st, fp, 'fread')
        if st.env.get('interfere'):
            # Thread-modular interference on a stream shared with other workers of the parallel region: between this worker's
            # fseek and this fread another worker may have executed its own fseek/fread on the same FILE*, leaving the position
            # at any offset such a worker uses.  One interference per path; candidate positions = every position this stream
            # was ever sought to or left at in this run (plus 0 and EOF).  Only inside a parallel region and outside critical
            # sections / flockfile.  freads are numbered from the moment interference was enabled (native replay counts alike).
            k = st.env.get('freads_seen', 0) + 1
            eligible = E.in_parallel(st) and not st.env.get('in_critical')
            if st.env.get('interfere_now') is not None:
                pos = st.env['interfere_now']
                st.env = dict(st.env); st.env['interfere_now'] = None; st.env['interfered'] = (k, pos); st.env['freads_seen'] = k
                st.notes.append('interference: another worker moved the shared stream to offset %d before fread #%d' % (pos, k))
            else:
                if eligible and not st.env.get('interfered'):
                    cands = sorted(set(st.env.get('stream_positions:' + name, ())) | {0, len(st.env['files'][name])})
                    for p2 in cands:
                        if p2 == pos: continue
                        st2 = st.fork(); st2.frames[-1].ip -= 1; st2.env = dict(st2.env); st2.env['interfere_now'] = p2; E.work.append(st2)
                st.env = dict(st.env); st.env['freads_seen'] = k
        data = st.env['files'][name]
        nb = sz * cnt
        avail = max(0, len(data) - pos)
        got = min(nb, avail)
        items = got // sz if sz else 0
        got = items * sz
        if got:
            E.write_bytes(st, ptr, list(data[pos:pos + got]), 'fread destination')
        fset(st, fp, (name, pos + got, mode, pend))
        sp = 'stream_positions:' + name
        st.env[sp] = tuple(set(st.env.get(sp, ())) | {pos + got})
        return items
    @reg('fseek', 'fseeko', 'fseeko64')
    def _fseek(E, st, fr, a, d):
        fp = P_(E, st, a[0]); off = a[1]; wh = conc(E, st, a[2], 'whence')
        name, pos, mode, pend = fstate(st, fp, 'fseek')
        if type(off) is not int: off = E.concretize(st, off, 'fseek offset', 16, representative=True)
        off = to_signed(off, 64)
        size = len(st.env['files'][name])
        np_ = off if wh == 0 else (pos + off if wh == 1 else size + off)
        if np_ < 0: return 0xFFFFFFFF
        fset(st, fp, (name, np_, mode, pend))
        sp = 'stream_positions:' + name
        st.env[sp] = tuple(set(st.env.get(sp, ())) | {np_})
        return 0
    @reg('ftell', 'ftello', 'ftello64')
    def _ftell(E, st, fr, a, d):
        fp = P_(E, st, a[0]); name, pos, mode, pend = fstate(st, fp, 'ftell'); return pos
    @reg('remove', 'unlink')
    def _remove(E, st, fr, a, d):
        name = E.cstring(st, P_(E, st, a[0]))
        files = dict(st.env.get('files', {}))
        if name not in files: return 0xFFFFFFFF
        del files[name]; st.env = dict(st.env); st.env['files'] = files; return 0
    @reg('feof')
    def _feof(E, st, fr, a, d):
        fp = P_(E, st, a[0]); name, pos, mode, pend = fstate(st, fp, 'feof'); return int(pos >= len(st.env['files'][name]))
    @reg('ferror')
    def _ferror(E, st, fr, a, d): return 0

    # ------------------------------------------------------------ open / fstat / mmap
    @reg('open', 'open64')
    def _open(E, st, fr, a, d):
        name = E.cstring(st, P_(E, st, a[0]))
        if name not in st.env.get('files', {}): return 0xFFFFFFFF
        fd = st.env.get('next_fd', 3)
        st.env = dict(st.env); st.env['next_fd'] = fd + 1; st.env['fd:%d' % fd] = name
        return fd
    @reg('close')
    def _close(E, st, fr, a, d):
        fd = conc(E, st, a[0], 'fd')
        if st.env.get('fd:%d' % fd) is None: return 0xFFFFFFFF
        st.env = dict(st.env); st.env['fd:%d' % fd] = None; return 0
    @reg('fstat', 'fstat64', '__fxstat')
    def _fstat(E, st, fr, a, d):
        fd = conc(E, st, a[-2], 'fd'); buf = P_(E, st, a[-1])
        name = st.env.get('fd:%d' % fd)
        if name is None: return 0xFFFFFFFF
        size = len(st.env['files'][name])
        E.write_bytes(st, buf, [0] * 144)
        E.store(st, Ptr(buf.obj, buf.off + 24), 0o100644, 4)     # st_mode (regular file)
        E.store(st, Ptr(buf.obj, buf.off + 48), size, 8)         # st_size
        return 0
    @reg('mmap', 'mmap64')
    def _mmap(E, st, fr, a, d):
        ln = conc(E, st, a[1], 'mmap length'); fd = conc(E, st, to32(a[4]), 'fd')
        name = st.env.get('fd:%d' % (fd & 0xffffffff))
        if name is None or ln == 0: return MAP_FAILED
        data = st.env['files'][name]
        oid = st.alloc(ln, 'mmap', 'mmap(%s)' % name, 0)
        o = st.mem[oid]; n = min(ln, len(data)); o.data[:n] = data[:n]; o.ro = True
        return Ptr(oid, 0)
    def to32(v): return v
    @reg('munmap')
    def _munmap(E, st, fr, a, d):
        p = P_(E, st, a[0]); o = st.mem.get(p.obj)
        if o is None or o.kind != 'mmap' or p.off != 0:
            raise Violation('bad-free', 'munmap of something that is not a live mapping', E.model_dict(st))
        st.mem[p.obj] = Tomb(o.name); st.owned.discard(p.obj); return 0
    @reg('madvise', 'posix_madvise')
    def _madvise(E, st, fr, a, d): return 0

    # ------------------------------------------------------------ libomp runtime (clang -fopenmp lowering): ONE worker runs the region
    # (sequential schedule); iterations of a dynamic-schedule loop are handed out one at a time in an order chosen by a
    # symbolic fork (env 'omp_permute'), critical sections switch the stream-interference model off.
    @reg('__kmpc_global_thread_num')
    def _gtid(E, st, fr, a, d): return 0
    @reg('__kmpc_push_num_threads', '__kmpc_serialized_parallel', '__kmpc_end_serialized_parallel', '__kmpc_barrier', '__kmpc_for_static_fini',
         '__kmpc_push_proc_bind', '__kmpc_flush')
    def _knop(E, st, fr, a, d): return 0
    @reg('__kmpc_fork_call')
    def _fork_call(E, st, fr, a, d):
        micro = P_(E, st, a[2])
        name = E.fnobj.get(micro.obj)
        if name is None: raise EngineLimit('__kmpc_fork_call of unknown microtask')
        nworkers = st.env.get('omp_threads', 0)
        def worker_frame(state, tid):
            from symx import Frame
            fc = E.code_for(name)
            g = state.alloc(4, 'stack', 'omp.gtid%d' % tid, 0); b = state.alloc(4, 'stack', 'omp.btid%d' % tid, 0)
            state.mem[g].data[0] = tid
            nf = Frame(fc); nf.retslot = -1
            args = [Ptr(g, 0), Ptr(b, 0)] + list(a[3:])
            for i in range(len(fc.params)): nf.R[fc.params[i]] = args[i]
            nf.va = ('omp_region',); nf.allocas += [g, b]
            return nf
        if nworkers < 2 or st.threads is not None:
            # one worker runs the whole region (sequential schedule, iteration order optionally permuted)
            nf = worker_frame(st, 0)
            st.frames.append(nf)
            return Ellipsis
        # ---- pass 1 (on a scratch copy): run the region sequentially and record which iteration touches which bytes of the
        # objects that existed before the region; bytes touched by two iterations with at least one write (outside critical
        # sections) are the conflict set
        rec = st.fork()
        E.mt = True; E.mt_record = {}; E.mt_region_first_obj = rec.next_obj
        rec.env = dict(rec.env); rec.env['omp_region_id'] = rec.env.get('omp_region_id', 0) + 1
        depth = len(rec.frames) + 1
        rec.frames.append(worker_frame(rec, 0))
        try:
            E.run_nested(rec, depth)
        except (Violation, PathEnd, EngineLimit):
            pass
        log = E.mt_record; E.mt_record = None; E.mt = False
        watch = {}
        for oid, acc in log.items():
            o = st.mem.get(oid)
            if o is None or o.kind in ('func', 'FILE'): continue
            for i, (it1, lo1, hi1, w1, c1) in enumerate(acc):
                for (it2, lo2, hi2, w2, c2) in acc[i + 1:]:
                    if it1 != it2 and it1 >= 0 and it2 >= 0 and (w1 or w2) and lo1 < hi2 and lo2 < hi1 and not (c1 and c2):
                        watch.setdefault(oid, set()).add((max(lo1, lo2), min(hi1, hi2)))
        E.mt_watch = {k: sorted(v) for k, v in watch.items()}
        if E.mt_watch:
            st.notes.append('parallel region: cross-iteration conflicts on %s' % ', '.join('%s[%d..%d)' % (st.mem[k].name, v[0][0], v[-1][1]) for k, v in list(E.mt_watch.items())[:4]))
        E.race_objects = sorted({st.mem[k].name for k in E.mt_watch})
        # ---- pass 2: two workers, iterations handed out dynamically, preemption at dispatch_next and before every access to a
        # conflicting byte range (bounded number of preemptions per path)
        st.env = dict(st.env); st.env['omp_region_id'] = st.env.get('omp_region_id', 0) + 1
        st.master = st.frames
        st.threads = [[[worker_frame(st, t)], False, None] for t in range(nworkers)]
        st.cur = 0; st.frames = st.threads[0][0]; st.preempts = 0
        E.mt = True
        return Ellipsis
    def in_parallel(st):
        return any(f.va == ('omp_region',) for f in st.frames)
    E.in_parallel = in_parallel
    @reg('__kmpc_dispatch_init_4', '__kmpc_dispatch_init_4u', '__kmpc_dispatch_init_8')
    def _dinit(E, st, fr, a, d):
        lb, ub = a[3], a[4]
        if type(lb) is not int or type(ub) is not int: raise EngineLimit('symbolic OpenMP loop bounds')
        lo, hi = to_signed(lb, 32), to_signed(ub, 32)
        its = list(range(lo, hi + 1))
        st.env = dict(st.env)
        if st.threads is not None:
            # shared iteration queue of this loop instance: created by the first worker that arrives, reused by the others
            key = 'omp_q:%d:%d' % (st.env.get('omp_region_id', 0), st.env.get('omp_loopno:%d' % st.cur, 0))
            st.env['omp_loopno:%d' % st.cur] = st.env.get('omp_loopno:%d' % st.cur, 0) + 1
            st.env['omp_curq:%d' % st.cur] = key
            if key not in st.env: st.env[key] = tuple(its)
            return 0
        if st.env.get('omp_permute') and 2 <= len(its) <= 3:
            import itertools
            perms = list(itertools.permutations(its))
            for k, pm in enumerate(perms[1:], 1):
                st2 = st.fork(); st2.env = dict(st2.env); st2.env['omp_iters'] = list(pm); st2.choices.append(('omp_order', k)); E.work.append(st2)
            st.choices.append(('omp_order', 0))
        st.env['omp_iters'] = its
        return 0
    @reg('__kmpc_dispatch_next_4', '__kmpc_dispatch_next_4u', '__kmpc_dispatch_next_8')
    def _dnext(E, st, fr, a, d):
        if st.threads is not None:
            E.preempt_point(st)             # iteration boundary: the other worker may get the next iteration
            key = st.env['omp_curq:%d' % st.cur]
            its = st.env.get(key) or ()
            if not its: return 0
            i = its[0]
            st.env = dict(st.env); st.env[key] = its[1:]; st.env['omp_cur_iter'] = i
        else:
            its = st.env.get('omp_iters') or []
            if not its: return 0
            i = its[0]
            st.env = dict(st.env); st.env['omp_iters'] = its[1:]; st.env['omp_cur_iter'] = i
        E.store(st, P_(E, st, a[2]), 1 if len(its) == 1 else 0, 4)
        E.store(st, P_(E, st, a[3]), i & 0xffffffff, 4); E.store(st, P_(E, st, a[4]), i & 0xffffffff, 4); E.store(st, P_(E, st, a[5]), 1, 4)
        return 1
    @reg('__kmpc_critical', '__kmpc_critical_with_hint')
    def _crit(E, st, fr, a, d):
        # acquiring a lock is a scheduling point: the other modelled worker may get the critical section first (the ORDER in which
        # workers pass through critical sections is part of the schedule; no effect without symx_omp_threads)
        if st.threads is not None and not st.env.get('in_critical'): E.preempt_point(st)
        st.env = dict(st.env); st.env['in_critical'] = st.env.get('in_critical', 0) + 1; return 0
    @reg('__kmpc_end_critical')
    def _ecrit(E, st, fr, a, d):
        st.env = dict(st.env); st.env['in_critical'] = max(0, st.env.get('in_critical', 0) - 1); return 0
    @reg('flockfile')
    def _flock(E, st, fr, a, d):
        st.env = dict(st.env); st.env['in_critical'] = st.env.get('in_critical', 0) + 1; return 0
    @reg('funlockfile')
    def _funlock(E, st, fr, a, d):
        st.env = dict(st.env); st.env['in_critical'] = max(0, st.env.get('in_critical', 0) - 1); return 0
    @reg('symx_omp_threads')
    def _othreads(E, st, fr, a, d):
        st.env = dict(st.env); st.env['omp_threads'] = int(a[0]); return 0
    @reg('symx_omp_permute')
    def _permute(E, st, fr, a, d):
        st.env = dict(st.env); st.env['omp_permute'] = int(a[0]); return 0

    # ------------------------------------------------------------ cpuid hooks of the intrinsic models
    @reg('verif_cpuid_reg')
    def _cpuid(E, st, fr, a, d):
        key = 'cpuid:%r:%r:%r' % (a[0], a[1], a[2])
        v = st.env.get(key)
        if v is None:
            nm = 'cpuid_%s_%s_%s' % (a[0], a[1], a[2])
            v = z3.BitVec(nm, 32); st.syms.append((nm, v)); st.env = dict(st.env); st.env[key] = v
        return v
    @reg('verif_xgetbv')
    def _xgetbv(E, st, fr, a, d):
        v = z3.BitVec('xgetbv', 64); st.syms.append(('xgetbv', v)); return v

    # ------------------------------------------------------------ zlib / zstd contract stubs (libraries are outside every claim)
    def lib_result(E, st, nm, bits=64):
        v = z3.BitVec('%s#%d' % (nm, len(st.syms)), bits); st.syms.append(('%s#%d' % (nm, len(st.syms)), v)); return v
    # zlib streaming API as used by compression/gzip.c: contract stubs over the z_stream fields (x86-64 layout:
    # next_in 0, avail_in 8, total_in 16, next_out 24, avail_out 32, total_out 40)
    @reg('inflateInit2_', 'inflateInit_', 'deflateInit2_', 'deflateInit_')
    def _zinit(E, st, fr, a, d):
        r = lib_result(E, st, 'zlib_init', 32)
        E.add_pc(st, z3.Or(r == 0, r == BVV(0xFFFFFFFC, 32), r == BVV(0xFFFFFFFE, 32))); st.model = None    # Z_OK, Z_MEM_ERROR, Z_STREAM_ERROR
        return r
    @reg('inflateEnd', 'deflateEnd', 'inflateReset', 'deflateReset')
    def _zend(E, st, fr, a, d): return 0
    @reg('inflate', 'deflate')
    def _zrun(E, st, fr, a, d):
        strm = P_(E, st, a[0])
        nin = E.load(st, Ptr(strm.obj, strm.off + 0), 8); ain = conc(E, st, E.load(st, Ptr(strm.obj, strm.off + 8), 4), 'zlib avail_in size', 16)
        nout = E.load(st, Ptr(strm.obj, strm.off + 24), 8); aout = conc(E, st, E.load(st, Ptr(strm.obj, strm.off + 32), 4), 'zlib avail_out size', 16)
        nin = P_(E, st, nin); nout = P_(E, st, nout)
        if ain: E.read_bytes(st, nin, ain, 'zlib input')                 # the library may read all of the declared input
        produced = lib_result(E, st, 'zlib_produced', 32)
        E.add_pc(st, z3.ULE(produced, BVV(aout, 32))); st.model = None
        if aout:
            E.read_bytes(st, nout, aout, 'zlib output')                  # ... and write anywhere in the declared output
            cells = []
            for i in range(aout):
                v = z3.BitVec('zlib_out%d#%d' % (i, len(st.syms)), 8); st.syms.append((str(v), v)); cells.append(v)
            E.write_bytes(st, nout, cells)
        E.store(st, Ptr(strm.obj, strm.off + 8), 0, 4)
        E.store(st, Ptr(strm.obj, strm.off + 32), BVV(aout, 32) - produced, 4)
        E.store(st, Ptr(strm.obj, strm.off + 40), z3.ZeroExt(32, produced), 8)
        r = lib_result(E, st, 'zlib_status', 32)
        E.add_pc(st, z3.Or(r == 0, r == 1, r == BVV(0xFFFFFFFD, 32), r == BVV(0xFFFFFFFB, 32), r == BVV(0xFFFFFFFC, 32))); st.model = None
        return r
    @reg('ZSTD_compressBound', 'compressBound')
    def _cbound(E, st, fr, a, d):
        n = a[0]
        return (n + (n >> 8) + 64) & M64 if type(n) is int else n + z3.LShR(n, 8) + 64
    @reg('ZSTD_isError')
    def _ziserr(E, st, fr, a, d):
        v = a[0]
        if type(v) is int: return int(v > 0xffffffffffffff00)
        return z3.If(z3.UGT(v, BVV(0xffffffffffffff00, 64)), BVV(1, 32), BVV(0, 32))
    @reg('ZSTD_maxCLevel')
    def _zmax(E, st, fr, a, d): return 22
    @reg('ZSTD_createDCtx', 'ZSTD_createCCtx')
    def _zctx(E, st, fr, a, d): return E.malloc(st, 16)
    @reg('ZSTD_freeDCtx', 'ZSTD_freeCCtx')
    def _zfree(E, st, fr, a, d): E.free_obj(st, P_(E, st, a[0])); return 0
    def zstd_io(E, st, fr, a, d, dst_i, cap_i, src_i, len_i, nm):
        """contract: reads only src[0,len), writes at most cap bytes of dst, returns an error code or a size <= cap"""
        dst = P_(E, st, a[dst_i]); cap = conc(E, st, a[cap_i], 'capacity', 16); src = P_(E, st, a[src_i]); ln = conc(E, st, a[len_i], 'length', 16)
        if ln: E.read_bytes(st, src, ln, nm + ' source')
        r = lib_result(E, st, nm)
        E.add_pc(st, z3.Or(z3.ULE(r, BVV(cap, 64)), z3.UGT(r, BVV(0xffffffffffffff00, 64)))); st.model = None
        if cap:
            E.read_bytes(st, dst, cap, nm + ' destination')      # bounds/lifetime check of the full declared capacity
            cells = []
            for i in range(cap):
                v = z3.BitVec('%s_out%d#%d' % (nm, i, len(st.syms)), 8); st.syms.append((str(v), v)); cells.append(v)
            E.write_bytes(st, dst, cells)
        return r
    @reg('ZSTD_compress')
    def _zc(E, st, fr, a, d): return zstd_io(E, st, fr, a, d, 0, 1, 2, 3, 'ZSTD_compress')
    @reg('ZSTD_decompress')
    def _zd(E, st, fr, a, d): return zstd_io(E, st, fr, a, d, 0, 1, 2, 3, 'ZSTD_decompress')
    @reg('ZSTD_decompressDCtx', 'ZSTD_compressCCtx')
    def _zdd(E, st, fr, a, d): return zstd_io(E, st, fr, a, d, 1, 2, 3, 4, 'ZSTD_decompressDCtx')


def llvm_intrinsic(E, name):
    n = name[1:]
    X = E.ext
    if n.startswith('llvm.memcpy') or n.startswith('llvm.memmove'): return X['@memcpy']
    if n.startswith('llvm.memset'): return X['@memset']
    if n.startswith('llvm.dbg') or n.startswith('llvm.lifetime') or n.startswith('llvm.prefetch') or n in ('llvm.stackrestore', 'llvm.va_end', 'llvm.donothing') \
            or n.startswith('llvm.assume') or n.startswith('llvm.experimental.noalias') or n.startswith('llvm.va_'):
        return lambda E, st, fr, a, d: 0
    if n == 'llvm.stacksave': return lambda E, st, fr, a, d: NULL
    if n.startswith('llvm.expect'): return lambda E, st, fr, a, d: a[0]
    if n == 'llvm.trap':
        def trap(E, st, fr, a, d): raise Violation('abort', 'llvm.trap', E.model_dict(st))
        return trap
    def width():
        return int(n.rsplit('.i', 1)[1])
    if n.startswith('llvm.bswap'):
        w = width()
        def bswap(E, st, fr, a, d):
            v = a[0]
            if type(v) is int: return int.from_bytes(v.to_bytes(w // 8, 'little'), 'big')
            return z3.Concat(*[z3.Extract(8 * i + 7, 8 * i, v) for i in range(w // 8)])
        return bswap
    if n.startswith('llvm.ctpop'):
        w = width()
        def ctpop(E, st, fr, a, d):
            v = a[0]
            if type(v) is int: return bin(v).count('1')
            r = BVV(0, w)
            for i in range(w): r = r + z3.ZeroExt(w - 1, z3.Extract(i, i, v))
            return r
        return ctpop
    if n.startswith('llvm.cttz') or n.startswith('llvm.ctlz'):
        w = width(); tz = n.startswith('llvm.cttz')
        def ctz(E, st, fr, a, d):
            v = a[0]
            if type(v) is int:
                if v == 0: return w
                if tz: return (v & -v).bit_length() - 1
                return w - v.bit_length()
            r = BVV(w, w)
            rng = range(w - 1, -1, -1) if tz else range(w)
            for i in rng:
                r = z3.If(z3.Extract(i, i, v) == 1, BVV(i if tz else w - 1 - i, w), r)
            return r
        return ctz
    if n.startswith('llvm.fshl') or n.startswith('llvm.fshr'):
        w = width(); left = n.startswith('llvm.fshl')
        def fsh(E, st, fr, a, d):
            x, y, sh = a
            if type(x) is int and type(y) is int and type(sh) is int:
                sh %= w; cat = (x << w) | y
                return ((cat << sh) >> w) & mask(w) if left else (cat >> sh) & mask(w)
            X_, Y_, S_ = bv(x, w), bv(y, w), z3.URem(bv(sh, w), BVV(w, w))
            cat = z3.Concat(X_, Y_); S2 = z3.ZeroExt(w, S_)
            return z3.Extract(2 * w - 1, w, cat << S2) if left else z3.Extract(w - 1, 0, z3.LShR(cat, S2))
        return fsh
    for nm, fn in (('umin', lambda a, b: z3.If(z3.ULT(a, b), a, b)), ('umax', lambda a, b: z3.If(z3.UGT(a, b), a, b)),
                   ('smin', lambda a, b: z3.If(a < b, a, b)), ('smax', lambda a, b: z3.If(a > b, a, b))):
        if n.startswith('llvm.' + nm + '.'):
            w = width()
            def mm(E, st, fr, a, d, nm=nm, fn=fn, w=w):
                x, y = a
                if type(x) is int and type(y) is int:
                    if nm[0] == 'u': return min(x, y) if nm == 'umin' else max(x, y)
                    sx, sy = to_signed(x, w), to_signed(y, w)
                    return (min(sx, sy) if nm == 'smin' else max(sx, sy)) & mask(w)
                return fn(bv(x, w), bv(y, w))
            return mm
    if n.startswith('llvm.abs.'):
        w = width()
        def abs_(E, st, fr, a, d):
            x = a[0]
            if type(x) is int: return abs(to_signed(x, w)) & mask(w)
            return z3.If(x < 0, -x, x)
        return abs_
    if '.with.overflow.' in n:
        w = width(); kind = n.split('.')[1]
        def ovf(E, st, fr, a, d):
            x, y = a
            if type(x) is int and type(y) is int:
                if kind[0] == 'u':
                    r = x + y if 'add' in kind else (x - y if 'sub' in kind else x * y)
                    return [r & mask(w), int(r < 0 or r > mask(w))]
                sx, sy = to_signed(x, w), to_signed(y, w)
                r = sx + sy if 'add' in kind else (sx - sy if 'sub' in kind else sx * sy)
                return [r & mask(w), int(r < -(1 << (w - 1)) or r >= (1 << (w - 1)))]
            X_, Y_ = bv(x, w), bv(y, w)
            if kind == 'uadd': r = X_ + Y_; o = z3.ULT(r, X_)
            elif kind == 'usub': r = X_ - Y_; o = z3.ULT(X_, Y_)
            elif kind == 'umul':
                wide = z3.ZeroExt(w, X_) * z3.ZeroExt(w, Y_); r = z3.Extract(w - 1, 0, wide); o = z3.Extract(2 * w - 1, w, wide) != 0
            elif kind == 'sadd': r = X_ + Y_; o = z3.Not(z3.BVAddNoOverflow(X_, Y_, True)) if True else None; o = z3.Or(o, z3.Not(z3.BVAddNoUnderflow(X_, Y_)))
            elif kind == 'ssub': r = X_ - Y_; o = z3.Or(z3.Not(z3.BVSubNoOverflow(X_, Y_)), z3.Not(z3.BVSubNoUnderflow(X_, Y_, True)))
            else: r = X_ * Y_; o = z3.Or(z3.Not(z3.BVMulNoOverflow(X_, Y_, True)), z3.Not(z3.BVMulNoUnderflow(X_, Y_)))
            return [r, o]
        return ovf
    if n.startswith('llvm.usub.sat') or n.startswith('llvm.uadd.sat'):
        w = width(); add = 'uadd' in n
        def sat(E, st, fr, a, d):
            x, y = a
            if type(x) is int and type(y) is int:
                return min(x + y, mask(w)) if add else max(x - y, 0)
            X_, Y_ = bv(x, w), bv(y, w)
            return z3.If(z3.ULT(X_ + Y_, X_), BVV(mask(w), w), X_ + Y_) if add else z3.If(z3.ULT(X_, Y_), BVV(0, w), X_ - Y_)
        return sat
    if n.startswith('llvm.fabs'):
        w = 32 if n.endswith('f32') else 64
        def fabs(E, st, fr, a, d):
            x = a[0]
            return x & mask(w - 1) if type(x) is int else x & BVV(mask(w - 1), w)
        return fabs
    if n.startswith('llvm.fmuladd') or n.startswith('llvm.fma.'):
        # a*b+c; fmuladd leaves fusing to the target: the unfused form (two roundings) is what the x86-64 product build without
        # -mfma computes. Concrete operands are evaluated, symbolic ones go to z3's floating-point theory.
        w = 32 if n.endswith('f32') else 64
        def fmuladd(E, st, fr, a, d):
            import struct
            from decode import bits2f, f2bits, tofp
            x, y, c = a[0], a[1], a[2]
            if type(x) is int and type(y) is int and type(c) is int:
                def rnd(v):
                    return struct.unpack('<f', struct.pack('<I', f2bits(v, 32)))[0] if w == 32 else v
                try:
                    r = rnd(rnd(bits2f(x, w) * bits2f(y, w)) + bits2f(c, w))
                except (OverflowError, ValueError):
                    r = float('nan')
                return f2bits(r, w)
            RNE = z3.RNE()
            return z3.fpToIEEEBV(z3.fpAdd(RNE, z3.fpMul(RNE, tofp(x, w), tofp(y, w)), tofp(c, w)))
        return fmuladd
    if n.startswith('llvm.is.constant'): return lambda E, st, fr, a, d: 0
    if n.startswith('llvm.objectsize'): return lambda E, st, fr, a, d: M64
    return None
