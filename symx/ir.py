"""LLVM-14 textual IR (typed pointers) front end for symx: tokeniser, type parser, module parser.
Instructions are kept as token lists per basic block; symx.py decodes them once into closures."""
import re

class Ty: pass
class IntTy(Ty):
    __slots__ = ('bits',)
    def __init__(s, bits): s.bits = bits
    def __repr__(s): return "i%d" % s.bits
class FloatTy(Ty):
    __slots__ = ('bits',)
    def __init__(s, bits): s.bits = bits
    def __repr__(s): return "float" if s.bits == 32 else "double"
class VoidTy(Ty):
    def __repr__(s): return "void"
class PtrTy(Ty):
    __slots__ = ('to',)
    def __init__(s, to): s.to = to
    def __repr__(s): return "%r*" % (s.to,)
class ArrTy(Ty):
    __slots__ = ('n', 'el')
    def __init__(s, n, el): s.n = n; s.el = el
    def __repr__(s): return "[%d x %r]" % (s.n, s.el)
class StructTy(Ty):
    def __init__(s, els, packed=False, name=None): s.els = els; s.packed = packed; s.name = name; s._lay = None
    def __repr__(s): return s.name or ("{" + ", ".join(map(repr, s.els)) + "}")
class FuncTy(Ty):
    def __init__(s, ret, params, vararg): s.ret = ret; s.params = params; s.vararg = vararg
    def __repr__(s): return "%r (...)" % (s.ret,)
class NamedTy(Ty):
    __slots__ = ('name',)
    def __init__(s, name): s.name = name
    def __repr__(s): return s.name
class VecTy(Ty):
    def __init__(s, n, el): s.n = n; s.el = el
class LabelTy(Ty): pass
class MetaTy(Ty): pass

TOK = re.compile(r'''\s*(?:(c"(?:[^"\\]|\\[0-9A-Fa-f]{2}|\\\\)*")|("(?:[^"\\]|\\.)*")|([%@][-a-zA-Z$._0-9]+|[%@]"[^"]*")|(-?\d+\.\d+(?:e[+-]?\d+)?)|(0x[KMLHR]?[0-9A-Fa-f]+)|(-?\d+)|(\.\.\.)|([a-zA-Z_][a-zA-Z_0-9.]*)|(!\d+|![a-zA-Z_.0-9]*)|(#\d+)|(.))''')


def tokenize(line):
    out = []
    pos = 0
    n = len(line)
    while pos < n:
        m = TOK.match(line, pos)
        if not m: break
        pos = m.end()
        g = m.lastindex
        v = m.group(g)
        if g == 1: out.append(('cstr', v))
        elif g == 2: out.append(('str', v))
        elif g == 3: out.append(('id', v.replace('"', '')))
        elif g == 4: out.append(('flt', v))
        elif g == 5: out.append(('hex', v))
        elif g == 6: out.append(('int', int(v)))
        elif g == 7: out.append(('sym', '...'))
        elif g == 8: out.append(('kw', v))
        elif g == 9: out.append(('md', v))
        elif g == 10: out.append(('attr', v))
        else:
            if v == ';': break
            out.append(('sym', v))
    return out


class P:
    """token cursor"""
    __slots__ = ('t', 'i')
    def __init__(s, toks, i=0): s.t = toks; s.i = i
    def peek(s, k=0): return s.t[s.i + k] if s.i + k < len(s.t) else ('eof', None)
    def next(s):
        x = s.t[s.i] if s.i < len(s.t) else ('eof', None); s.i += 1; return x
    def accept(s, kind, val=None):
        k, v = s.peek()
        if k == kind and (val is None or v == val): s.i += 1; return True
        return False
    def expect(s, kind, val=None):
        k, v = s.next()
        assert k == kind and (val is None or v == val), "expected %s %s got %s %s in %s" % (kind, val, k, v, s.t)
        return v
    def eof(s): return s.i >= len(s.t)

PARAM_ATTRS = {'noundef', 'nocapture', 'readonly', 'writeonly', 'noalias', 'nonnull', 'signext', 'zeroext', 'immarg',
               'returned', 'inreg', 'nofree', 'readnone', 'nest', 'swiftself', 'allocalign', 'allocptr'}
FN_ATTRS = {'dso_local', 'internal', 'private', 'hidden', 'unnamed_addr', 'local_unnamed_addr', 'linkonce_odr', 'weak',
            'available_externally', 'external', 'common', 'weak_odr', 'linkonce', 'protected', 'default', 'fastcc', 'ccc', 'coldcc'}


class Module:
    def __init__(s):
        s.structs = {}
        s.globals = {}   # name -> (ty, init_tokens or None, const)
        s.funcs = {}     # name -> Func
        s.decls = {}
        s.order = []
        s.meta = {}      # !N -> metadata text (line tables: DILocation / DISubprogram / DILexicalBlock / DIFile)

    def parse_type(s, p):
        k, v = p.next()
        if k == 'kw':
            if v[0] == 'i' and v[1:].isdigit(): t = IntTy(int(v[1:]))
            elif v == 'float': t = FloatTy(32)
            elif v == 'double': t = FloatTy(64)
            elif v == 'void': t = VoidTy()
            elif v == 'opaque': t = StructTy([], name='opaque')
            elif v == 'x86_fp80': t = FloatTy(80)
            elif v == 'label': t = LabelTy()
            elif v == 'metadata': t = MetaTy()
            elif v == 'ptr': t = PtrTy(IntTy(8))
            else: raise ValueError("type? %s %s :: %s" % (k, v, p.t))
        elif k == 'id' and v[0] == '%': t = NamedTy(v)
        elif k == 'sym' and v == '[':
            n = p.expect('int'); p.expect('kw', 'x'); el = s.parse_type(p); p.expect('sym', ']'); t = ArrTy(n, el)
        elif k == 'sym' and v == '{':
            els = []
            if not p.accept('sym', '}'):
                while True:
                    els.append(s.parse_type(p))
                    if p.accept('sym', '}'): break
                    p.expect('sym', ',')
            t = StructTy(els)
        elif k == 'sym' and v == '<':
            if p.peek() == ('sym', '{'):
                p.next(); els = []
                if not p.accept('sym', '}'):
                    while True:
                        els.append(s.parse_type(p))
                        if p.accept('sym', '}'): break
                        p.expect('sym', ',')
                p.expect('sym', '>'); t = StructTy(els, packed=True)
            else:
                n = p.expect('int'); p.expect('kw', 'x'); el = s.parse_type(p); p.expect('sym', '>'); t = VecTy(n, el)
        else:
            raise ValueError("type? %s %s :: %s" % (k, v, p.t))
        while True:
            if p.accept('sym', '*'): t = PtrTy(t)
            elif p.peek() == ('sym', '('):
                p.next(); params = []; va = False
                if not p.accept('sym', ')'):
                    while True:
                        if p.accept('sym', '...'): va = True
                        else:
                            params.append(s.parse_type(p))
                            while p.peek()[0] == 'kw' and p.peek()[1] in PARAM_ATTRS: p.next()
                        if p.accept('sym', ')'): break
                        p.expect('sym', ',')
                t = FuncTy(t, params, va)
            else: break
        return t

    def resolve(s, t):
        while isinstance(t, NamedTy): t = s.structs[t.name]
        return t

    def sizeof(s, t):
        t = s.resolve(t)
        if isinstance(t, IntTy): return (t.bits + 7) // 8
        if isinstance(t, FloatTy): return t.bits // 8 if t.bits != 80 else 16
        if isinstance(t, PtrTy): return 8
        if isinstance(t, ArrTy): return t.n * s.sizeof(t.el)
        if isinstance(t, StructTy): return s.layout(t)[1]
        if isinstance(t, VecTy): return t.n * s.sizeof(t.el)
        raise ValueError("sizeof %r" % (t,))

    def alignof(s, t):
        t = s.resolve(t)
        if isinstance(t, IntTy): return min(8, max(1, 1 << ((t.bits + 7) // 8 - 1).bit_length()))
        if isinstance(t, FloatTy): return 16 if t.bits == 80 else t.bits // 8
        if isinstance(t, PtrTy): return 8
        if isinstance(t, ArrTy): return s.alignof(t.el)
        if isinstance(t, StructTy): return 1 if t.packed else max([s.alignof(e) for e in t.els] or [1])
        if isinstance(t, VecTy): return s.sizeof(t)
        raise ValueError

    def layout(s, t):
        if t._lay is not None: return t._lay
        off = 0; offs = []
        for e in t.els:
            a = 1 if t.packed else s.alignof(e)
            off = (off + a - 1) // a * a
            offs.append(off); off += s.sizeof(e)
        a = 1 if t.packed else max([s.alignof(e) for e in t.els] or [1])
        size = (off + a - 1) // a * a
        t._lay = (offs, size)
        return t._lay


class Func:
    def __init__(s, name, ret, params, vararg=False):
        s.name = name; s.ret = ret; s.params = params; s.vararg = vararg
        s.blocks = {}   # label -> list of token lists
        s.order = []
        s.code = None   # filled by the engine


def _skip_parens(p):
    depth = 1
    while depth:
        kk, vv = p.next()
        if (kk, vv) == ('sym', '('): depth += 1
        elif (kk, vv) == ('sym', ')'): depth -= 1
        elif kk == 'eof': break


def parse_module(path):
    m = Module()
    with open(path) as f:
        lines = f.read().split('\n')
    i = 0
    cur = None; curblk = None
    nlines = len(lines)
    while i < nlines:
        line = lines[i]; i += 1
        st = line.strip()
        if not st or st[0] == ';':
            continue
        if cur is None:
            c0 = st[0]
            if c0 == '%' and ' = type ' in st:
                name, rest = st.split(' = type ', 1)
                p = P(tokenize(rest))
                t = m.parse_type(p)
                if isinstance(t, StructTy): t.name = name
                m.structs[name] = t
                continue
            if c0 == '@':
                toks = tokenize(st); p = P(toks)
                name = p.expect('id'); p.expect('sym', '=')
                const = False; ok = False
                while not p.eof():
                    k, v = p.peek()
                    if k == 'kw' and v in ('global', 'constant'):
                        const = (v == 'constant'); p.next(); ok = True; break
                    if k == 'kw' and v == 'alias':
                        break
                    if k == 'sym' and v == '(':
                        p.next(); _skip_parens(p); continue
                    p.next()
                if not ok: continue
                ty = m.parse_type(p)
                init = p.t[p.i:]
                m.globals[name] = (ty, init, const)
                m.order.append(name)
                continue
            if c0 == '!' and ' = ' in st:
                k_, v_ = st.split(' = ', 1)
                if 'DILocation' in v_ or 'DIFile' in v_ or 'DISubprogram' in v_ or 'DILexicalBlock' in v_:
                    m.meta[k_] = v_
                continue
            if st.startswith('declare '):
                toks = tokenize(st)
                for k, v in toks:
                    if k == 'id' and v[0] == '@':
                        m.decls[v] = True; break
                continue
            if st.startswith('define '):
                toks = tokenize(st); p = P(toks); p.next()
                ret = None
                while True:
                    k, v = p.peek()
                    if k == 'kw' and (v in FN_ATTRS or v in PARAM_ATTRS):
                        p.next(); continue
                    if k == 'kw' and v in ('dereferenceable', 'dereferenceable_or_null', 'align'):
                        p.next()
                        if p.peek() == ('sym', '('): p.next(); _skip_parens(p)
                        elif p.peek()[0] == 'int': p.next()
                        continue
                    break
                ret = m.parse_type(p)
                name = p.expect('id'); p.expect('sym', '(')
                params = []; va = False
                if not p.accept('sym', ')'):
                    while True:
                        if p.accept('sym', '...'):
                            va = True
                        else:
                            pt = m.parse_type(p)
                            while p.peek()[0] == 'kw' or (p.peek() == ('sym', '(')):
                                k, v = p.next()
                                if (k, v) == ('sym', '('):
                                    _skip_parens(p)
                                elif v in ('align', 'dereferenceable', 'dereferenceable_or_null'):
                                    if p.peek()[0] == 'int': p.next()
                            pn = p.expect('id')
                            params.append((pt, pn))
                        if p.accept('sym', ')'): break
                        p.expect('sym', ',')
                cur = Func(name, ret, params, va); m.funcs[name] = cur
                curblk = None
                continue
            continue
        # inside function
        if st == '}':
            cur = None; continue
        mlab = re.match(r'^([-a-zA-Z$._0-9]+):', st)
        if mlab:
            curblk = '%' + mlab.group(1); cur.blocks[curblk] = []; cur.order.append(curblk); continue
        if curblk is None:
            # implicit entry label = number of unnamed params
            curblk = '%' + str(sum(1 for (_t, _n) in cur.params if re.fullmatch(r'%\d+', _n)))
            cur.blocks[curblk] = []; cur.order.append(curblk)
        if st.startswith('switch ') and ']' not in st:
            while True:
                nxt = lines[i].strip(); i += 1
                st += ' ' + nxt
                if nxt.startswith(']'): break          # "]" possibly followed by ", !dbg !N"
        cur.blocks[curblk].append(tokenize(st))
    return m


def source_location(m, dbg_id):
    """(file, line) of a !dbg id from the line tables, or None"""
    import re as _re
    t = m.meta.get(dbg_id)
    if not t or 'DILocation' not in t: return None
    ml = _re.search(r'line: (\d+)', t); line = int(ml.group(1)) if ml else 0
    sc = _re.search(r'scope: (!\d+)', t)
    cur = sc.group(1) if sc else None
    for _ in range(32):
        tt = m.meta.get(cur)
        if not tt: return None
        mf = _re.search(r'file: (!\d+)', tt)
        if mf:
            ft = m.meta.get(mf.group(1), '')
            fn = _re.search(r'filename: "([^"]*)"', ft)
            return (fn.group(1) if fn else '?', line)
        sc = _re.search(r'scope: (!\d+)', tt)
        if not sc: return None
        cur = sc.group(1)
    return None
