#!/usr/bin/env python3
"""symx — path-forking symbolic executor for clang-14 LLVM IR (typed pointers) on top of z3.

Values: python int (concrete, already masked to the IR width), z3 BitVecRef (symbolic), z3 BoolRef (symbolic i1),
Ptr(obj, off) (off int or z3 BV64), python list (aggregates).  Memory: objects with per-byte cells
(int | z3 BV8 | (value, k, n) = byte k of an n-byte symbolic value or pointer | None = uninitialised).
Every load/store/memcpy/free is checked against the object table; a satisfiable out-of-bounds condition is a
violation with a model.  Branches on symbolic conditions fork (DFS work list, incremental solver kept in sync with
the current path by push/pop)."""
import sys, time, struct, json, os
import z3
from ir import *

sys.setrecursionlimit(10000)
M64 = (1 << 64) - 1


class Ptr:
    __slots__ = ('obj', 'off')
    def __init__(s, obj, off): s.obj = obj; s.off = off
    def __repr__(s): return "Ptr(%s,%s)" % (s.obj, s.off)
NULL = Ptr(0, 0)


def mask(bits): return (1 << bits) - 1
def to_signed(v, bits): return v - (1 << bits) if v >> (bits - 1) else v
BVV = z3.BitVecVal
def bv(v, bits): return BVV(v, bits) if type(v) is int else v
def is_bool(v): return isinstance(v, z3.BoolRef)
def b2bv(v, bits=1):
    return z3.If(v, BVV(1, bits), BVV(0, bits))
def as_bool(v):
    """symbolic i1 -> z3 Bool"""
    if is_bool(v): return v
    return v == BVV(1, 1) if v.size() == 1 else (z3.Extract(0, 0, v) == BVV(1, 1))


class Obj:
    __slots__ = ('size', 'data', 'kind', 'name', 'ro', 'alloc_site', 'arr')
    def __init__(s, size, kind, name, fill=0):
        s.size = size; s.data = [fill] * size; s.kind = kind; s.name = name; s.ro = False; s.alloc_site = None; s.arr = None
    def clone(s):
        o = Obj.__new__(Obj); o.size = s.size; o.data = s.data[:] if s.arr is None else s.data; o.kind = s.kind; o.name = s.name; o.ro = s.ro; o.alloc_site = s.alloc_site
        o.arr = s.arr
        return o

class Tomb:
    """freed heap object marker (keeps double-free / use-after-free detectable without keeping the data)"""
    __slots__ = ('name', 'kind', 'size')
    def __init__(s, name): s.name = name; s.kind = 'freed'; s.size = 0


class Violation(Exception):
    def __init__(s, kind, msg, model=None): s.kind = kind; s.msg = msg; s.model = model
class PathEnd(Exception):
    def __init__(s, why='end'): s.why = why
class EngineLimit(Exception):
    def __init__(s, msg): s.msg = msg


class Frame:
    __slots__ = ('fn', 'R', 'bi', 'ip', 'prev', 'allocas', 'retslot', 'code', 'va')
    def __init__(s, fn):
        s.fn = fn; s.R = [None] * fn.nregs; s.bi = 0; s.ip = 0; s.prev = -1; s.allocas = []; s.retslot = -1
        s.code = fn.blocks[0]; s.va = None
    def clone(s):
        f = Frame.__new__(Frame); f.fn = s.fn; f.R = s.R[:]; f.bi = s.bi; f.ip = s.ip; f.prev = s.prev
        f.allocas = s.allocas[:]; f.retslot = s.retslot; f.code = s.code; f.va = s.va
        return f


class State:
    def __init__(s):
        s.mem = {}; s.owned = set(); s.pc = []; s.frames = []; s.next_obj = 1; s.steps = 0
        s.syms = []          # (name, z3 var) in creation order
        s.model = None       # a z3 model satisfying pc (or None = unknown)
        s.conc = {}          # z3 ast id -> concrete value chosen by a concretisation fork
        s.nallocs = 0; s.failed_alloc = 0; s.fault_alloc = False
        s.env = {}           # environment model state (files, fds, counters) — values copied on write
        s.obs = []           # observations (tag, bytes/ints) for translator validation
        s.notes = []
        s.choices = []
        s.depth_max = 0
        s.threads = None      # worker threads of a parallel region: list of [frames, done, skip]; s.frames is the current one's stack
        s.cur = 0; s.master = None; s.preempts = 0
    def fork(s):
        t = State.__new__(State)
        t.mem = dict(s.mem); t.owned = set(); s.owned = set()
        t.pc = s.pc[:]
        if s.threads is None:
            t.frames = [f.clone() for f in s.frames]; t.threads = None; t.master = None
        else:
            t.threads = [[[f.clone() for f in th[0]], th[1], th[2]] for th in s.threads]
            t.frames = t.threads[s.cur][0]
            t.master = [f.clone() for f in s.master]
        t.cur = s.cur; t.preempts = s.preempts
        t.next_obj = s.next_obj; t.steps = s.steps; t.syms = s.syms[:]; t.model = s.model; t.conc = dict(s.conc)
        t.nallocs = s.nallocs; t.failed_alloc = s.failed_alloc; t.fault_alloc = s.fault_alloc
        t.env = dict(s.env); t.obs = s.obs[:]; t.notes = s.notes[:]; t.choices = s.choices[:]; t.depth_max = s.depth_max
        return t
    def wobj(s, oid):
        if oid not in s.owned:
            s.mem[oid] = s.mem[oid].clone(); s.owned.add(oid)
        return s.mem[oid]
    def alloc(s, size, kind, name, fill=0):
        oid = s.next_obj; s.next_obj += 1
        s.mem[oid] = Obj(size, kind, name, fill); s.owned.add(oid)
        return oid


class FuncCode:
    def __init__(s, name): s.name = name; s.nregs = 0; s.blocks = []; s.labels = []; s.params = []; s.vararg = False; s.phis = {}


# ======================================================================================= engine
class Engine:
    FORK_MAX = 8          # symbolic offsets/sizes with at most this many feasible values are resolved by forking
    ITE_MAX = 600         # larger feasible ranges use if-then-else chains up to this many cells

    def __init__(s, mod, max_steps=3_000_000, max_paths=200000, max_depth=120, solver_timeout_ms=20000, deadline=None):
        s.m = mod
        # QF_ABV is the fast configuration, but it silently treats floating-point predicates as uninterpreted (over-approximation:
        # spurious paths that never reproduce natively). The first symbolic floating-point term of a run switches to QF_ABVFP.
        s.solver = z3.SolverFor('QF_ABV')
        s.solver_timeout_ms = solver_timeout_ms; s.fp_logic = False
        s.solver.set('timeout', solver_timeout_ms)
        s.spc = []            # constraints currently asserted in the solver (one push scope each)
        s.max_steps = max_steps; s.max_paths = max_paths; s.max_depth = max_depth
        s.deadline = deadline
        s.gaddr = {}; s.fnobj = {}; s.fcode = {}
        s.violations = []; s.paths = 0; s.completed = 0; s.queries = 0; s.qtime = 0.0; s.total_steps = 0
        s.limits = []         # engine-limit / inconclusive paths
        s.ext = {}            # external function models: name -> handler(eng, st, fr, args, dst) -> value | Ellipsis
        s.overrides = {}      # defined functions replaced by models (summaries)
        s.check_leaks = False
        s.work = []
        s.completed_samples = []
        s.sample_cap = 6
        s.sample_every = 0
        s.stop_after = 0; s.stop_distinct = 1
        s.fn_called = set()
        s.const_arrays = {}
        s.concretisations = {}
        s.logging = False
        s.uninit_sym = False  # opt-in: a read of never-written malloc'd bytes yields arbitrary (fresh symbolic) bytes instead of 0
        s.uninit_n = 0
        s.mt = False          # multi-threaded region active: accesses to watched (conflicting) objects are preemption points
        s.mt_record = None    # access recording pass: {oid: [(iter, lo, hi, is_write)]}
        s.mt_watch = {}       # oid -> list of (lo, hi) byte ranges with cross-iteration conflicts
        s.max_preempts = 1
        s.crc_memo = {}
        s.on_path_end = None
        import models
        models.install(s)

    # ------------------------------------------------------------------ solver
    def need_fp(s):
        """called when a symbolic IEEE term is created: from now on the solver must know the floating-point theory"""
        if s.fp_logic: return
        s.fp_logic = True
        s.solver = z3.SolverFor('QF_ABVFP'); s.solver.set('timeout', s.solver_timeout_ms)
        s.spc = []            # nothing is asserted in the new solver yet: the next sync re-asserts the path condition

    def sync(s, st):
        pc = st.pc; spc = s.spc
        n = min(len(pc), len(spc)); k = 0
        while k < n and pc[k] is spc[k]: k += 1
        if len(spc) > k:
            s.solver.pop(len(spc) - k); del spc[k:]
        for c in pc[k:]:
            s.solver.push(); s.solver.add(c); spc.append(c)

    def check(s, st, extra=None):
        """is pc (+ extra) satisfiable?  returns model or None; raises EngineLimit on unknown"""
        s.sync(st)
        s.queries += 1
        t0 = time.time()
        if extra is not None:
            s.solver.push(); s.solver.add(extra)
        r = s.solver.check()
        mdl = s.solver.model() if r == z3.sat else None
        if extra is not None:
            s.solver.pop()
        s.qtime += time.time() - t0
        if r == z3.unknown:
            raise EngineLimit('solver returned unknown (%s)' % s.solver.reason_unknown())
        return mdl

    def add_pc(s, st, c, model=None):
        st.pc.append(c)
        if model is not None: st.model = model
        elif st.model is not None:
            try:
                if not z3.is_true(st.model.eval(c, model_completion=True)): st.model = None
            except Exception:
                st.model = None

    def holds_in_model(s, st, c):
        if st.model is None: return None
        try:
            v = st.model.eval(c, model_completion=True)
        except Exception:
            return None
        if z3.is_true(v): return True
        if z3.is_false(v): return False
        return None

    def model_dict(s, st, mdl=None):
        if mdl is None:
            mdl = st.model if st.model is not None else s.check(st)
        if mdl is None: return None
        out = {}
        for name, v in st.syms:
            try:
                out[name] = mdl.eval(v, model_completion=True).as_long()
            except Exception:
                out[name] = 0
        return out

    def feasible_values(s, st, e, limit):
        """up to limit+1 distinct feasible values of bit-vector expression e under pc"""
        vals = []
        s.sync(st)
        s.solver.push()
        try:
            while len(vals) <= limit:
                s.queries += 1
                t0 = time.time(); r = s.solver.check(); s.qtime += time.time() - t0
                if r == z3.unknown: raise EngineLimit('solver unknown while enumerating values')
                if r != z3.sat: break
                v = s.solver.model().eval(e, model_completion=True).as_long()
                vals.append(v)
                s.solver.add(e != BVV(v, e.size()))
        finally:
            s.solver.pop()
        return vals

    def concretize(s, st, e, what, limit=None, representative=False):
        """resolve symbolic bit-vector e to a concrete value by forking over its feasible values (<= limit).
        representative=True: when there are more than `limit` feasible values, fork over a fixed set of representatives
        (the first values the solver proposes plus the unsigned minimum and maximum) instead of giving up; the restriction is
        recorded (engine.concretisations) and reported in the evidence as outside the claim."""
        eid = e.get_id()
        if eid in st.conc: return st.conc[eid]
        e2 = z3.simplify(e)
        if z3.is_bv_value(e2): return e2.as_long()
        limit = limit or s.FORK_MAX
        vals = s.feasible_values(st, e, limit)
        if not vals: raise PathEnd('infeasible')
        if len(vals) > limit:
            if not representative:
                raise EngineLimit('%s has more than %d feasible values' % (what, limit))
            lo, hi = s.bv_min(st, e), s.bv_max(st, e)
            vals = sorted(set(vals[:4] + [lo, hi]))
            s.concretisations[what] = s.concretisations.get(what, 0) + 1
        fr = st.frames[-1]
        for v in vals[1:]:
            st2 = st.fork(); st2.conc[eid] = v
            st2.frames[-1].ip -= 1          # re-execute the current instruction in the fork
            s.add_pc(st2, e == BVV(v, e.size())); st2.model = None
            s.work.append(st2)
        st.conc[eid] = vals[0]
        s.add_pc(st, e == BVV(vals[0], e.size())); st.model = None
        return vals[0]

    def bv_min(s, st, e, maximize=False):
        """unsigned minimum (maximum) of e under pc by binary search"""
        w = e.size(); lo, hi = 0, (1 << w) - 1
        s.sync(st)
        while lo < hi:
            mid = (lo + hi) // 2
            s.queries += 1
            s.solver.push()
            s.solver.add(z3.UGT(e, BVV(mid, w)) if maximize else z3.ULE(e, BVV(mid, w)))
            r = s.solver.check(); s.solver.pop()
            if r == z3.unknown: raise EngineLimit('solver unknown in min/max search')
            if maximize:
                if r == z3.sat: lo = mid + 1
                else: hi = mid
            else:
                if r == z3.sat: hi = mid
                else: lo = mid + 1
        return lo
    def bv_max(s, st, e): return s.bv_min(st, e, True)

    # ------------------------------------------------------------------ globals / constants
    def init_globals(s, st):
        m = s.m
        for name in m.order:
            ty, init, const = m.globals[name]
            oid = st.alloc(m.sizeof(ty), 'global', name)
            s.gaddr[name] = oid
        for name in list(m.funcs) + [n for n in m.decls if n not in m.funcs]:
            if name not in s.gaddr:
                oid = st.alloc(1, 'func', name); s.gaddr[name] = oid; s.fnobj[oid] = name
        for name in m.order:
            ty, init, const = m.globals[name]
            p = P(init)
            if p.peek()[0] == 'eof' or p.peek() == ('sym', ','):
                continue
            val = s.parse_const(p, ty)
            s.store_const(st, s.gaddr[name], 0, ty, val)
            if const: st.mem[s.gaddr[name]].ro = True

    def parse_const(s, p, ty):
        rt = s.m.resolve(ty)
        k, v = p.peek()
        if k == 'kw':
            if v == 'zeroinitializer': p.next(); return ('zero',)
            if v in ('undef', 'poison'): p.next(); return ('zero',)
            if v == 'null': p.next(); return NULL
            if v == 'true': p.next(); return 1
            if v == 'false': p.next(); return 0
            if v in ('getelementptr', 'bitcast', 'inttoptr', 'ptrtoint', 'add', 'sub'):
                return s.const_expr(p)
        if k == 'int':
            p.next(); return v & mask(rt.bits) if isinstance(rt, IntTy) else v
        if k in ('flt', 'hex'):
            p.next()
            if k == 'hex':
                h = v[2:]
                if h[0] in 'KMLHR': h = h[1:]
                bits = int(h, 16)
            else: bits = struct.unpack('<Q', struct.pack('<d', float(v)))[0]
            if isinstance(rt, FloatTy) and rt.bits == 32:
                d = struct.unpack('<d', struct.pack('<Q', bits))[0]
                try: return struct.unpack('<I', struct.pack('<f', d))[0]
                except OverflowError: return 0x7f800000 if d > 0 else 0xff800000
            return bits
        if k == 'cstr':
            p.next(); raw = v[2:-1]; out = []; i = 0
            while i < len(raw):
                if raw[i] == '\\':
                    if raw[i + 1] == '\\': out.append(92); i += 2
                    else: out.append(int(raw[i + 1:i + 3], 16)); i += 3
                else: out.append(ord(raw[i])); i += 1
            return out
        if k == 'sym' and v == '[':
            p.next(); els = []
            if not p.accept('sym', ']'):
                while True:
                    et = s.m.parse_type(p); els.append(s.parse_const(p, et))
                    if p.accept('sym', ']'): break
                    p.expect('sym', ',')
            return els
        if k == 'sym' and v in ('{', '<'):
            packed = False
            if v == '<':
                p.next(); packed = True
                if p.peek() != ('sym', '{'):
                    # vector constant
                    els = []
                    while True:
                        et = s.m.parse_type(p); els.append(s.parse_const(p, et))
                        if p.accept('sym', '>'): break
                        p.expect('sym', ',')
                    return els
            p.expect('sym', '{'); els = []
            if not p.accept('sym', '}'):
                while True:
                    et = s.m.parse_type(p); els.append(s.parse_const(p, et))
                    if p.accept('sym', '}'): break
                    p.expect('sym', ',')
            if packed: p.expect('sym', '>')
            return els
        if k == 'id' and v[0] == '@':
            p.next(); return Ptr(s.gaddr[v], 0)
        raise ValueError("const? %s %s for %r in %s" % (k, v, ty, p.t[max(0, p.i - 5):p.i + 5]))

    def const_expr(s, p):
        k, v = p.next()
        if v == 'getelementptr':
            p.accept('kw', 'inbounds'); p.expect('sym', '(')
            bt = s.m.parse_type(p); p.expect('sym', ',')
            pt = s.m.parse_type(p); base = s.parse_const(p, pt)
            idx = []
            while p.accept('sym', ','):
                p.accept('kw', 'inrange')
                it = s.m.parse_type(p); iv = s.parse_const(p, it)
                idx.append(to_signed(iv, s.m.resolve(it).bits))
            p.expect('sym', ')')
            off = s.gep_const(bt, idx)
            return Ptr(base.obj, base.off + off)
        if v in ('bitcast', 'inttoptr', 'ptrtoint'):
            p.expect('sym', '('); ft = s.m.parse_type(p); val = s.parse_const(p, ft); p.expect('kw', 'to'); tt = s.m.parse_type(p); p.expect('sym', ')')
            if v == 'ptrtoint' and isinstance(val, Ptr): return s.ptr_addr(val)
            if v == 'inttoptr' and isinstance(val, int): return Ptr(val >> 32, val & 0xffffffff) if val else NULL
            return val
        if v in ('add', 'sub'):
            while p.peek()[0] == 'kw' and p.peek()[1] in ('nsw', 'nuw'): p.next()
            p.expect('sym', '('); t1 = s.m.parse_type(p); a = s.parse_const(p, t1); p.expect('sym', ','); t2 = s.m.parse_type(p); b = s.parse_const(p, t2); p.expect('sym', ')')
            bits = s.m.resolve(t1).bits
            return (a + b if v == 'add' else a - b) & mask(bits)
        raise ValueError(v)

    def gep_const(s, bt, idx):
        off = 0; t = bt; first = True
        for i in idx:
            if first:
                off += i * s.m.sizeof(t); first = False
            else:
                rt = s.m.resolve(t)
                if isinstance(rt, StructTy):
                    offs, _ = s.m.layout(rt); off += offs[i]; t = rt.els[i]
                else:
                    off += i * s.m.sizeof(rt.el); t = rt.el
        return off

    def store_const(s, st, oid, off, ty, val):
        rt = s.m.resolve(ty)
        if val == ('zero',): return
        o = st.mem[oid]
        if isinstance(rt, (ArrTy, VecTy)):
            es = s.m.sizeof(rt.el)
            ert = s.m.resolve(rt.el)
            if isinstance(ert, IntTy) and es == 1 and all(type(e) is int for e in val):
                o.data[off:off + len(val)] = val
            else:
                for i, e in enumerate(val): s.store_const(st, oid, off + i * es, rt.el, e)
        elif isinstance(rt, StructTy):
            offs, _ = s.m.layout(rt)
            for e, o_, et in zip(val, offs, rt.els): s.store_const(st, oid, off + o_, et, e)
        else:
            n = s.m.sizeof(rt)
            if isinstance(val, Ptr):
                for i in range(8): o.data[off + i] = (val, i, 8)
            else:
                for i in range(n): o.data[off + i] = (val >> (8 * i)) & 0xFF

    # ------------------------------------------------------------------ memory
    def ptr_addr(s, p):
        if type(p.off) is int: return ((p.obj << 32) + p.off) & M64
        return BVV(p.obj << 32, 64) + p.off

    def int_to_ptr(s, st, v):
        if isinstance(v, Ptr): return v
        if type(v) is int:
            return Ptr(v >> 32, v & 0xffffffff) if v else NULL
        v2 = z3.simplify(v)
        if z3.is_bv_value(v2):
            a = v2.as_long(); return Ptr(a >> 32, a & 0xffffffff) if a else NULL
        hi = z3.simplify(z3.Extract(63, 32, v2))
        if z3.is_bv_value(hi):
            return Ptr(hi.as_long(), z3.simplify(z3.ZeroExt(32, z3.Extract(31, 0, v2))))
        raise EngineLimit('inttoptr of a symbolic address')

    def obj_of(s, st, ptr, what):
        oid = ptr.obj
        if oid == 0:
            raise Violation('null-deref', "%s through NULL pointer (+%s)" % (what, ptr.off), s.model_dict(st))
        o = st.mem.get(oid)
        if o is None:
            raise Violation('dead-object', "%s via pointer to a dead (returned stack frame) or invalid object #%d" % (what, oid), s.model_dict(st))
        k = o.kind
        if k == 'freed':
            raise Violation('use-after-free', "%s of freed heap object %s" % (what, o.name), s.model_dict(st))
        if k == 'func':
            raise Violation('bad-pointer', "%s of a function object" % what, s.model_dict(st))
        return o

    def resolve(s, st, ptr, n, what):
        """bounds/lifetime check; returns (obj, concrete offset) or (obj, ('sym', off_expr, lo, hi))"""
        o = s.obj_of(st, ptr, what)
        off = ptr.off
        if type(off) is int:
            if off < 0 or off + n > o.size:
                if off > (1 << 63): off -= 1 << 64
                raise Violation('out-of-bounds', "%s of %d byte(s) at offset %d of object '%s' (size %d)" % (what, n, off, o.name, o.size), s.model_dict(st))
            return o, off
        eid = off.get_id()
        if eid in st.conc:
            c = st.conc[eid]
            if c + n > o.size: raise Violation('out-of-bounds', "%s of %d byte(s) at offset %d of object '%s' (size %d)" % (what, n, c, o.name, o.size), s.model_dict(st))
            return o, c
        off2 = z3.simplify(off)
        if z3.is_bv_value(off2):
            return s.resolve(st, Ptr(ptr.obj, off2.as_long() if off2.as_long() < (1 << 63) else off2.as_long() - (1 << 64)), n, what)
        if o.size < n:
            raise Violation('out-of-bounds', "%s of %d byte(s) in object '%s' of size %d" % (what, n, o.name, o.size), s.model_dict(st))
        oob = z3.UGT(off2, BVV(o.size - n, 64))
        mdl = s.check(st, oob)
        if mdl is not None:
            badoff = mdl.eval(off2, model_completion=True).as_long()
            if badoff >> 63: badoff -= 1 << 64
            raise Violation('out-of-bounds', "%s of %d byte(s) at symbolic offset (e.g. %d) of object '%s' (size %d)" % (what, n, badoff, o.name, o.size), s.model_dict(st, mdl))
        # in bounds on every model: resolve by forking if few values, else ITE range
        vals = s.feasible_values(st, off2, s.FORK_MAX)
        if not vals: raise PathEnd('infeasible')
        if len(vals) <= s.FORK_MAX:
            for v in vals[1:]:
                st2 = st.fork(); st2.conc[eid] = v; st2.frames[-1].ip -= 1
                s.add_pc(st2, off == BVV(v, 64)); st2.model = None; s.work.append(st2)
            st.conc[eid] = vals[0]; s.add_pc(st, off == BVV(vals[0], 64)); st.model = None
            return o, vals[0]
        return o, ('sym', off2)

    def cell_bv(s, c):
        """memory cell -> z3 BV8 / int"""
        if c is None: return 0
        if type(c) is tuple:
            v, k, n = c
            if isinstance(v, Ptr):
                a = s.ptr_addr(v)
                if type(a) is int: return (a >> (8 * k)) & 0xFF
                return z3.Extract(8 * k + 7, 8 * k, a)
            return z3.Extract(8 * k + 7, 8 * k, v)
        return c

    def load_cells(s, cells, n):
        c0 = cells[0]
        if type(c0) is tuple and c0[1] == 0 and c0[2] == n:
            v = c0[0]; ok = True
            for i in range(1, n):
                c = cells[i]
                if type(c) is not tuple or c[0] is not v or c[1] != i: ok = False; break
            if ok: return v
        r = 0; allint = True
        for i, c in enumerate(cells):
            if type(c) is int: r |= c << (8 * i)
            elif c is None: pass
            else: allint = False; break
        if allint: return r
        parts = [bv(s.cell_bv(c), 8) for c in reversed(cells)]
        return z3.Concat(*parts) if n > 1 else parts[0]

    def load(s, st, ptr, n):
        if s.mt: s.mt_access(st, ptr, n, False)
        o, off = s.resolve(st, ptr, n, 'read')
        if o.arr is not None:
            return s.arr_load(o, off if type(off) is int else off[1], n)
        if type(off) is int:
            cells = o.data[off:off + n]
            if s.uninit_sym and o.kind == 'heap' and None in cells:
                # heap garbage: each never-written byte becomes one fresh symbolic byte, remembered in the object (stable on re-reads)
                wo = st.wobj(ptr.obj)
                for i in range(off, off + n):
                    if wo.data[i] is None:
                        s.uninit_n += 1
                        wo.data[i] = z3.BitVec('uninit%d_o%d_%d' % (s.uninit_n, ptr.obj, i), 8)
                cells = wo.data[off:off + n]
            return s.load_cells(cells, n)
        return s.load_sym(st, o, off[1], n)

    # ---- array-mode objects: large objects indexed by symbolic offsets (hash tables of the compressors) live in a z3 array
    def to_array_mode(s, o):
        arr = z3.K(z3.BitVecSort(64), BVV(0, 8))
        for i, c in enumerate(o.data):
            if c is None or (type(c) is int and c == 0): continue
            if type(c) is tuple and isinstance(c[0], Ptr): raise EngineLimit('pointer stored in an object that needs array mode')
            arr = z3.Store(arr, BVV(i, 64), bv(s.cell_bv(c), 8))
        o.arr = arr; o.data = ()

    def arr_load(s, o, off, n):
        base = BVV(off, 64) if type(off) is int else off
        parts = [z3.Select(o.arr, base + BVV(i, 64) if i else base) for i in reversed(range(n))]
        r = z3.Concat(*parts) if n > 1 else parts[0]
        r2 = z3.simplify(r)
        return r2.as_long() if z3.is_bv_value(r2) else r2

    def arr_store(s, o, off, val, n):
        base = BVV(off, 64) if type(off) is int else off
        arr = o.arr
        for i in range(n):
            b = BVV((val >> (8 * i)) & 0xFF, 8) if type(val) is int else (val if n == 1 else z3.Extract(8 * i + 7, 8 * i, val))
            arr = z3.Store(arr, base + BVV(i, 64) if i else base, b)
        o.arr = arr

    def load_sym(s, st, o, off, n):
        if o.ro and o.size > 64:
            return s.load_const_array(o, off, n)
        if o.size - n + 1 > s.ITE_MAX:
            if any(type(c) is tuple and isinstance(c[0], Ptr) for c in o.data):
                raise EngineLimit("symbolic-offset read over %d candidate offsets in '%s' (holds pointers)" % (o.size - n + 1, o.name))
            s.to_array_mode(o)
            return s.arr_load(o, off, n)
        res = None
        for c in range(o.size - n, -1, -1):
            v = s.load_cells(o.data[c:c + n], n)
            if isinstance(v, Ptr): raise EngineLimit('symbolic-offset load of a pointer')
            v = bv(v, 8 * n)
            res = v if res is None else z3.If(off == BVV(c, 64), v, res)
        return res

    def load_const_array(s, o, off, n):
        """read of a constant table at a symbolic offset: z3 array select (array built once per object)"""
        key = id(o.data)
        arr = s.const_arrays.get(key)
        if arr is None:
            arr = z3.K(z3.BitVecSort(64), BVV(0, 8))
            for i, c in enumerate(o.data):
                if c is None or (type(c) is int and c == 0): continue
                arr = z3.Store(arr, BVV(i, 64), bv(s.cell_bv(c), 8))
            s.const_arrays[key] = (arr, o.data)
        else:
            arr = arr[0]
        parts = [z3.Select(arr, off + BVV(i, 64)) for i in reversed(range(n))]
        return z3.Concat(*parts) if n > 1 else parts[0]

    def store(s, st, ptr, val, n):
        if s.mt: s.mt_access(st, ptr, n, True)
        o, off = s.resolve(st, ptr, n, 'write')
        if o.ro: raise Violation('write-to-const', "write to constant object %s" % o.name, s.model_dict(st))
        o = st.wobj(ptr.obj)
        if s.logging and o.kind == 'global' and type(off) is int:
            log = st.env.get('store_log')
            if log is not None:
                st.env = dict(st.env); st.env['store_log'] = log + ((ptr.obj, off, val, n),)
        if o.arr is not None:
            if isinstance(val, Ptr): raise EngineLimit('pointer store into an array-mode object')
            s.arr_store(o, off if type(off) is int else off[1], val, n); return
        d = o.data
        if type(off) is int:
            if type(val) is int:
                if n == 1: d[off] = val & 0xFF
                else:
                    for i in range(n): d[off + i] = (val >> (8 * i)) & 0xFF
            elif n == 1 and not isinstance(val, Ptr):
                d[off] = val
            else:
                for i in range(n): d[off + i] = (val, i, n)
            return
        off = off[1]
        if isinstance(val, Ptr): raise EngineLimit('symbolic-offset store of a pointer')
        if o.size - n + 1 > s.ITE_MAX:
            s.to_array_mode(o)
            s.arr_store(o, off, val, n); return
        for c in range(0, o.size - n + 1):
            cond = off == BVV(c, 64)
            for i in range(n):
                old = bv(s.cell_bv(d[c + i]), 8)
                nb = BVV((val >> (8 * i)) & 0xFF, 8) if type(val) is int else z3.Extract(8 * i + 7, 8 * i, val)
                d[c + i] = z3.If(cond, nb, old)

    def read_bytes(s, st, ptr, n, what='read'):
        """raw cells of n bytes (n concrete)"""
        if n == 0: return []
        if s.mt: s.mt_access(st, ptr, n, False)
        o, off = s.resolve(st, ptr, n, what)
        if type(off) is not int:
            off = s.concretize(st, off[1], 'buffer offset', 16, representative=True)
        if o.arr is not None:
            return [s.arr_load(o, off + i, 1) for i in range(n)]
        return o.data[off:off + n]

    def write_bytes(s, st, ptr, cells, what='write'):
        n = len(cells)
        if n == 0: return
        if s.mt: s.mt_access(st, ptr, n, True)
        o, off = s.resolve(st, ptr, n, what)
        if o.ro: raise Violation('write-to-const', "write to constant object %s" % o.name, s.model_dict(st))
        if type(off) is not int:
            off = s.concretize(st, off[1], 'buffer offset', 16, representative=True)
        o = st.wobj(ptr.obj)
        if o.arr is not None:
            for i, c in enumerate(cells): s.arr_store(o, off + i, bv(s.cell_bv(c), 8) if type(c) is not int else c, 1)
            return
        o.data[off:off + n] = cells

    def cstring(s, st, ptr, maxlen=4096):
        o = s.obj_of(st, ptr, 'string read'); out = []
        i = ptr.off
        if type(i) is not int: i = s.concretize(st, i, 'string pointer offset', 64)
        while True:
            if i >= o.size: raise Violation('out-of-bounds', 'unterminated string read past object %s' % o.name, s.model_dict(st))
            c = o.data[i]
            if c is None: c = 0
            if type(c) is not int: c = s.concretize(st, bv(s.cell_bv(c), 8), 'string byte', 256)
            if c == 0: break
            out.append(c); i += 1
            if len(out) > maxlen: raise EngineLimit('string too long')
        return bytes(out).decode('latin1')

    def free_obj(s, st, ptr):
        if ptr.obj == 0: return
        o = st.mem.get(ptr.obj)
        if o is not None and o.kind == 'freed':
            raise Violation('double-free', 'double free of %s' % o.name, s.model_dict(st))
        if o is None or o.kind != 'heap' or (type(ptr.off) is int and ptr.off != 0) or type(ptr.off) is not int:
            raise Violation('bad-free', 'free of non-heap or interior pointer %r (%s)' % (ptr, o.name if o else '?'), s.model_dict(st))
        st.mem[ptr.obj] = Tomb(o.name); st.owned.discard(ptr.obj)

    def malloc(s, st, size, zero=False, what='malloc'):
        if type(size) is not int:
            size = s.concretize(st, size, 'allocation size', max(16, s.FORK_MAX), representative=True)
        st.nallocs += 1
        if size > (1 << 24):
            st.notes.append('allocation of %d bytes refused (model: requests above 16 MiB fail)' % size)
            return NULL
        if st.fault_alloc:
            # allocations are numbered from the moment faults were enabled (the native replay shim counts the same way)
            env = st.env
            if env.get('fail_next_alloc'):
                k = env.get('fault_count', 0) + 1
                st.env = dict(env); st.env['fail_next_alloc'] = False; st.env['fault_count'] = k
                if st.failed_alloc == 0: st.failed_alloc = k          # index of the FIRST failure (symx_alloc_failed)
                st.env['failed_allocs'] = tuple(env.get('failed_allocs', ())) + (k,)
                st.notes.append('allocation #%d since faults were enabled (%d bytes) failed in %s' % (k, size, ' <- '.join(f.fn.name for f in reversed(st.frames[-6:]))))
                return NULL
            if len(env.get('failed_allocs', ())) < int(st.fault_alloc):
                # fault fork: this very allocation fails on the forked path (at most symx_fault_alloc(N) failures per path, N = 1 by default)
                st2 = st.fork(); st2.frames[-1].ip -= 1; st2.nallocs -= 1
                st2.env = dict(st2.env); st2.env['fail_next_alloc'] = True
                s.work.append(st2)
            st.env = dict(st.env); st.env['fault_count'] = st.env.get('fault_count', 0) + 1
        oid = st.alloc(size, 'heap', "heap#%d(%s,%dB)" % (st.nallocs, st.frames[-1].fn.name if st.frames else '?', size), 0 if zero else None)
        return Ptr(oid, 0)

    # ------------------------------------------------------------------ arithmetic helpers
    def binop(s, st, op, a, b, bits):
        if type(a) is int and type(b) is int:
            M = (1 << bits) - 1
            if op == 'add': return (a + b) & M
            if op == 'sub': return (a - b) & M
            if op == 'mul': return (a * b) & M
            if op == 'and': return a & b
            if op == 'or': return a | b
            if op == 'xor': return a ^ b
            if op == 'shl': return (a << b) & M if b < bits else 0
            if op == 'lshr': return a >> b if b < bits else 0
            if op == 'ashr': return (to_signed(a, bits) >> min(b, bits - 1)) & M
            if b == 0: raise Violation('div-by-zero', 'division by zero', s.model_dict(st))
            if op == 'udiv': return a // b
            if op == 'urem': return a % b
            sa, sb = to_signed(a, bits), to_signed(b, bits)
            q = abs(sa) // abs(sb); q = -q if (sa < 0) != (sb < 0) else q
            if op == 'sdiv': return q & M
            if op == 'srem': return (sa - q * sb) & M
            raise ValueError(op)
        if bits == 1:
            A = as_bool(a) if type(a) is not int else z3.BoolVal(bool(a))
            B = as_bool(b) if type(b) is not int else z3.BoolVal(bool(b))
            if op == 'and': return z3.And(A, B)
            if op == 'or': return z3.Or(A, B)
            if op in ('xor', 'add', 'sub'): return z3.Xor(A, B)
            raise EngineLimit('i1 %s' % op)
        # cheap identities keep expressions small
        if type(b) is int:
            if b == 0 and op in ('add', 'sub', 'or', 'xor', 'shl', 'lshr', 'ashr'): return a
            if op == 'and' and b == 0: return 0
            if op == 'mul' and b == 1: return a
            if op == 'mul' and b == 0: return 0
            if op == 'and' and b == (1 << bits) - 1: return a
        elif type(a) is int:
            if a == 0 and op in ('add', 'or', 'xor'): return b
            if a == 0 and op in ('and', 'mul', 'shl', 'lshr', 'ashr'): return 0
            if op == 'mul' and a == 1: return b
        A = BVV(a, bits) if type(a) is int else a
        B = BVV(b, bits) if type(b) is int else b
        if op == 'add': return A + B
        if op == 'sub': return A - B
        if op == 'mul': return A * B
        if op == 'and': return A & B
        if op == 'or': return A | B
        if op == 'xor': return A ^ B
        if op == 'shl': return A << B
        if op == 'lshr': return z3.LShR(A, B)
        if op == 'ashr': return A >> B
        if type(b) is not int or b == 0:
            mdl = s.check(st, B == 0)
            if mdl is not None: raise Violation('div-by-zero', 'division by zero', s.model_dict(st, mdl))
        if op == 'udiv': return z3.UDiv(A, B)
        if op == 'urem': return z3.URem(A, B)
        if op == 'sdiv': return A / B
        if op == 'srem': return z3.SRem(A, B)
        raise ValueError(op)

    def icmp(s, pred, a, b, bits):
        if type(a) is int and type(b) is int:
            if pred == 'eq': return int(a == b)
            if pred == 'ne': return int(a != b)
            if pred == 'ugt': return int(a > b)
            if pred == 'uge': return int(a >= b)
            if pred == 'ult': return int(a < b)
            if pred == 'ule': return int(a <= b)
            sa, sb = to_signed(a, bits), to_signed(b, bits)
            if pred == 'sgt': return int(sa > sb)
            if pred == 'sge': return int(sa >= sb)
            if pred == 'slt': return int(sa < sb)
            return int(sa <= sb)
        if bits == 1:
            A = as_bool(a) if type(a) is not int else z3.BoolVal(bool(a))
            B = as_bool(b) if type(b) is not int else z3.BoolVal(bool(b))
            if pred == 'eq': c = A == B
            elif pred == 'ne': c = z3.Xor(A, B)
            else: raise EngineLimit('icmp %s on i1' % pred)
        else:
            A = BVV(a, bits) if type(a) is int else a
            B = BVV(b, bits) if type(b) is int else b
            if pred == 'eq': c = A == B
            elif pred == 'ne': c = A != B
            elif pred == 'ugt': c = z3.UGT(A, B)
            elif pred == 'uge': c = z3.UGE(A, B)
            elif pred == 'ult': c = z3.ULT(A, B)
            elif pred == 'ule': c = z3.ULE(A, B)
            elif pred == 'sgt': c = A > B
            elif pred == 'sge': c = A >= B
            elif pred == 'slt': c = A < B
            else: c = A <= B
        c = z3.simplify(c)
        if z3.is_true(c): return 1
        if z3.is_false(c): return 0
        return c

    # ------------------------------------------------------------------ forking on conditions
    def branch(s, st, cond):
        """cond: z3 Bool.  Returns True/False for the side this state continues on; the other side (if feasible) is queued
        by the caller via the returned fork.  -> (taken, other_state or None)"""
        h = s.holds_in_model(st, cond)
        if h is True:
            mdl = s.check(st, z3.Not(cond))
            if mdl is None: return True, None
            st2 = st.fork(); s.add_pc(st2, z3.Not(cond), mdl); s.add_pc(st, cond)
            return True, st2
        if h is False:
            mdl = s.check(st, cond)
            if mdl is None: return False, None
            st2 = st.fork(); s.add_pc(st2, cond, mdl); s.add_pc(st, z3.Not(cond))
            return False, st2
        mt = s.check(st, cond)
        mf = s.check(st, z3.Not(cond))
        if mt is not None and mf is not None:
            st2 = st.fork(); s.add_pc(st2, z3.Not(cond), mf); s.add_pc(st, cond, mt)
            return True, st2
        if mt is not None: st.model = mt; return True, None
        if mf is not None: st.model = mf; return False, None
        raise PathEnd('infeasible')

    # ------------------------------------------------------------------ function decoding (once per function)
    def code_for(s, name):
        fc = s.fcode.get(name)
        if fc is None:
            fc = s.decode(s.m.funcs[name]); s.fcode[name] = fc
        return fc

    def decode(s, fn):
        import decode as dec
        return dec.decode_function(s, fn)

    # ------------------------------------------------------------------ calls
    def call(s, st, fr, callee, args, dslot):
        h = s.overrides.get(callee)
        if h is None and callee not in s.m.funcs:
            h = s.ext.get(callee)
            if h is None:
                if callee.startswith('@llvm.'):
                    import models
                    h = models.llvm_intrinsic(s, callee)
                if h is None:
                    raise EngineLimit('unmodelled external function %s' % callee)
                s.ext[callee] = h
        if h is not None:
            r = h(s, st, fr, args, dslot)
            if r is not Ellipsis and dslot >= 0:
                fr.R[dslot] = r
            return
        fc = s.fcode.get(callee)
        if fc is None: fc = s.code_for(callee)
        nf = Frame(fc); nf.retslot = dslot
        R = nf.R
        np_ = len(fc.params)
        for i in range(np_): R[fc.params[i]] = args[i]
        if fc.vararg: nf.va = args[np_:]
        if len(st.frames) >= s.max_depth:
            raise Violation('stack-depth', 'call depth exceeds %d (recursion depth grows with the input)' % s.max_depth, s.model_dict(st))
        st.frames.append(nf)
        if len(st.frames) > st.depth_max: st.depth_max = len(st.frames)
        s.fn_called.add(callee)

    # ------------------------------------------------------------------ worker threads of a parallel region (C07)
    def mt_access(s, st, ptr, n, is_write):
        """called before every memory access while a parallel region is modelled.
        recording pass: remember which loop iteration touched which bytes; exploration pass: an access to bytes on which two
        iterations conflict is a preemption point (bounded number of preemptions per path)."""
        oid = ptr.obj; off = ptr.off
        if type(off) is not int: return
        if s.mt_record is not None:
            if oid < s.mt_region_first_obj:
                s.mt_record.setdefault(oid, []).append((st.env.get('omp_cur_iter', -1), off, off + n, is_write, st.env.get('in_critical', 0)))
            return
        rng = s.mt_watch.get(oid)
        if not rng or st.threads is None or st.env.get('in_critical'): return
        for lo, hi in rng:
            if off < hi and off + n > lo:
                s.preempt_point(st); return

    def preempt_point(s, st):
        """fork a state in which the OTHER worker runs from here (the current instruction is re-executed when this worker resumes)"""
        if st.threads is None or st.preempts >= s.max_preempts: return
        th = st.threads[st.cur]
        fr = st.frames[-1]
        here = (id(fr.fn), fr.bi, fr.ip)
        if th[2] == here:
            th[2] = None; return            # resumed after having been preempted right here
        others = [i for i, t in enumerate(st.threads) if i != st.cur and not t[1]]
        if not others: return
        st2 = st.fork()
        st2.preempts += 1
        t2 = st2.threads[st2.cur]
        f2 = st2.frames[-1]; f2.ip -= 1
        t2[2] = (id(f2.fn), f2.bi, f2.ip + 1)
        st2.cur = others[0]; st2.frames = st2.threads[st2.cur][0]
        loc = None
        try:
            from ir import source_location
            did = fr.fn.dbg[fr.bi][fr.ip - 1]
            loc = source_location(s.m, did) if did else None
        except Exception:
            loc = None
        # how many times this source line was reached before on this path (any worker): lets the native replay delay the same arrival
        hk = 'hits:%s' % (loc,)
        st.env = dict(st.env); hit = st.env.get(hk, 0); st.env[hk] = hit + 1
        st2.env = dict(st2.env); st2.env[hk] = hit + 1
        st2.env['preempt_loc'] = (loc[0], loc[1], hit) if loc else None
        st2.notes.append('preemption #%d: worker %d interrupted in %s (%s) before a conflicting access, worker %d runs' % (st2.preempts, st.cur, fr.fn.name, '%s:%d' % loc if loc else '?', st2.cur))
        raise_switch = st2
        s.work.append(raise_switch)

    def thread_finished(s, st):
        """current worker returned from the microtask: implicit barrier, then the master continues"""
        st.threads[st.cur][1] = True
        rest = [i for i, t in enumerate(st.threads) if not t[1]]
        if rest:
            st.cur = rest[0]; st.frames = st.threads[st.cur][0]
            return
        st.frames = st.master; st.threads = None; st.master = None; st.cur = 0
        s.mt = bool(s.mt_record is not None)

    def run_nested(s, st, depth):
        """run st until its frame stack drops below depth (used by the access-recording pass); forks are dropped"""
        saved = s.work; s.work = []
        try:
            frames = st.frames
            while len(frames) >= depth:
                fr = frames[-1]; R = fr.R
                while True:
                    ins = fr.code[fr.ip]; fr.ip += 1; st.steps += 1
                    if ins(st, fr, R) is not None: break
                if st.steps > s.max_steps: break
        finally:
            s.work = saved

    # ------------------------------------------------------------------ run
    def run(s, entry, setup=None):
        st = State()
        s.init_globals(st)
        fc = s.code_for('@' + entry)
        st.frames.append(Frame(fc))
        if setup: setup(s, st)
        s.work = [st]
        t0 = time.time()
        stopped = None
        while s.work:
            if s.deadline and time.time() > s.deadline:
                stopped = 'time budget reached with %d states pending' % len(s.work); break
            if s.paths >= s.max_paths:
                stopped = 'path budget %d reached with %d states pending' % (s.max_paths, len(s.work)); break
            st = s.work.pop()
            try:
                s.exec_path(st)
            except Violation as v:
                s.violations.append({'kind': v.kind, 'msg': v.msg, 'model': v.model, 'where': s.where(st), 'notes': st.notes[-8:], 'choices': st.choices[:],
                                     'failed_alloc': st.failed_alloc, 'failed_allocs': list(st.env.get('failed_allocs', ())), 'io_failed': st.env.get('io_failed'), 'io_fail_op': st.env.get('io_fail_op'), 'interfered': st.env.get('interfered'), 'poke': st.env.get('poke'), 'preempt_loc': st.env.get('preempt_loc'), 'steps': st.steps})
            except PathEnd as e:
                if e.why == 'end':
                    s.finish_path(st)
            except EngineLimit as e:
                s.limits.append({'msg': e.msg, 'where': s.where(st)})
            except z3.Z3Exception as e:
                s.limits.append({'msg': 'z3 exception: %s' % e, 'where': s.where(st)})
            s.paths += 1
            if s.stop_after and len(s.violations) >= s.stop_after:
                kinds = {(v['kind'], v['where']) for v in s.violations}
                if len(kinds) >= s.stop_distinct or len(s.violations) >= 50 * s.stop_after:
                    break
        if stopped: s.limits.append({'msg': stopped, 'where': ''})
        return time.time() - t0

    def leaked_objects(s, st):
        """heap objects that are still allocated and NOT reachable from a global (thread-local caches and other still-reachable
        allocations are not leaks — the same rule LeakSanitizer applies in the native replay)"""
        mem = st.mem
        reach = set(); work = [oid for oid, o in mem.items() if o.kind == 'global']
        while work:
            oid = work.pop()
            o = mem.get(oid)
            if o is None or o.kind in ('freed', 'func') or o.arr is not None: continue
            for c in o.data:
                if type(c) is tuple and c[1] == 0 and c[0].__class__ is Ptr:
                    t = c[0].obj
                    if t not in reach and t in mem:
                        reach.add(t); work.append(t)
        return [o.name for oid, o in mem.items() if o.kind == 'heap' and oid not in reach]

    def finish_path(s, st):
        if s.check_leaks:
            leaked = s.leaked_objects(st)
            if leaked:
                s.violations.append({'kind': 'memory-leak', 'msg': 'heap objects still allocated at the end of the path: %s' % ', '.join(leaked[:6]),
                                     'model': s.model_dict(st), 'where': 'path end', 'notes': st.notes[-8:], 'choices': st.choices[:]})
                return
        s.completed += 1
        if s.on_path_end: s.on_path_end(s, st)
        if len(s.completed_samples) < s.sample_cap or (s.sample_every and s.completed % s.sample_every == 0 and len(s.completed_samples) < 4 * s.sample_cap):
            try:
                mdl = st.model if st.model is not None else s.check(st)
                if mdl is None: return
                def ev(c):
                    if type(c) is int: return c
                    if is_bool(c): return 1 if z3.is_true(mdl.eval(c, model_completion=True)) else 0
                    return mdl.eval(c, model_completion=True).as_long()
                obs = [(tag, [ev(c) for c in cells]) for tag, cells in st.obs]
                s.completed_samples.append({'inputs': s.model_dict(st, mdl), 'obs': obs, 'steps': st.steps, 'choices': st.choices[:], 'notes': st.notes[-6:],
                                            'failed_alloc': st.failed_alloc, 'failed_allocs': list(st.env.get('failed_allocs', ())), 'io_failed': st.env.get('io_failed'), 'io_fail_op': st.env.get('io_fail_op'), 'interfered': st.env.get('interfered'), 'poke': st.env.get('poke'), 'preempt_loc': st.env.get('preempt_loc')})
            except (EngineLimit, z3.Z3Exception):
                pass

    def where(s, st):
        return " <- ".join("%s:%s" % (f.fn.name, f.fn.labels[f.bi]) for f in reversed(st.frames[-5:]))

    def exec_path(s, st):
        max_steps = s.max_steps
        while True:
            frames = st.frames
            if not frames:
                if st.threads is not None:
                    s.thread_finished(st); continue
                break
            fr = frames[-1]
            R = fr.R
            n = 0
            try:
                while True:
                    ins = fr.code[fr.ip]; fr.ip += 1; n += 1
                    if ins(st, fr, R) is not None: break
            finally:
                st.steps += n; s.total_steps += n
            if st.steps > max_steps:
                raise Violation('step-bound', 'path exceeded the step bound of %d IR instructions (non-termination or work not proportional to input size)' % max_steps, s.model_dict(st))
        raise PathEnd('end')
