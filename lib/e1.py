"""Engine E1: CBMC on the real carquet translation units.

Per obligation: goto-cc compiles the harness together with the real .c files from /repo's current
working tree (same -D/-I/-m flags as the real build), cbmc is run with --slice-formula, per-loop
unwind bounds and unwinding assertions on a sweep of back ends; the first back end that returns a
definitive answer wins.  A harness ends with `VERIF_WITNESS();` (an assert(0)) that MUST come back
FAILED (vacuity guard); every other property must come back SUCCESS for the obligation to pass.
Counterexamples are replayed natively (gcc + ASan/UBSan build of the same sources) before they are
reported."""
import json, os, re, subprocess, threading, time
from common import *

CBMC_BASE = ['--slice-formula', '--object-bits', '12', '--unwinding-assertions', '--drop-unused-functions',
             '--no-malloc-may-fail', '--no-signed-overflow-check', '--no-undefined-shift-check']

BACKENDS = {
    'minisat': [],
    'cadical': ['--sat-solver', 'cadical'],
    'kissat': ['--external-sat-solver', 'kissat'],
    'cvc5': ['--cvc5'],
    'z3': ['--z3'],
}
# property classes (from the CBMC property id) that count as a violation of a carquet property
HARD_CLASSES = ('assertion', 'pointer_dereference', 'array_bounds', 'precondition', 'memory-leak', 'pointer_primitives',
                'division-by-zero', 'bounds', 'pointer', 'enum-range-check', 'NaN')
UB_NOTE_CLASSES = ('overflow', 'undefined-shift', 'pointer_arithmetic', 'pointer-arithmetic', 'conversion')


class E1:
    def __init__(self, name, harness, sources=(), defines=(), unwindset=None, unwind=None, backends=('cvc5', 'z3', 'minisat', 'kissat'),
                 timeout=300, bounds='', functions=(), includes_source=(), entry='harness', extra_cbmc=(), models=False,
                 assumptions=(), stubs=(), mem_gb=24, exclude=None, weight=1, no_slice=False, cvc5_int=False, ref=(), stub_realloc=True,
                 malloc_may_fail=False, cflags=()):
        self.name = name; self.harness = harness; self.sources = list(sources); self.defines = list(defines)
        self.unwindset = dict(unwindset or {}); self.unwind = unwind; self.backends = list(backends); self.timeout = timeout
        self.bounds = bounds; self.functions = list(functions); self.includes_source = list(includes_source)
        self.entry = entry; self.extra_cbmc = list(extra_cbmc); self.models = models
        self.assumptions = list(assumptions); self.stubs = list(stubs); self.mem_gb = mem_gb
        self.exclude = exclude  # known-finding id whose exclusion predicate (-DEXCLUDE_<id>) is compiled in when open
        self.weight = max(weight, len(backends)); self.no_slice = no_slice; self.cvc5_int = cvc5_int; self.ref = list(ref)
        self.stub_realloc = stub_realloc; self.malloc_may_fail = malloc_may_fail; self.cflags = list(cflags)
        self.engine = 'E1/cbmc'

    # ---- build
    def _compile(self, d, extra_defs=()):
        """goto-cc each TU separately (per-file -m flags as in CMakeLists.txt) and link."""
        incs = list(REAL_INCS) + ['-I' + os.path.join(VERIF, 'harness'), '-I' + os.path.join(VERIF, 'ref')]
        if self.models:
            incs = ['-I' + os.path.join(VERIF, 'models', 'immintrin')] + incs
        objs = []
        units = [(os.path.join(VERIF, self.harness), [f for s in self.includes_source for f in mflags_for(s)])]
        units += [(repo_path(s), mflags_for(s)) for s in self.sources]
        units += [(os.path.join(VERIF, 'ref', r), []) for r in self.ref]
        if self.stub_realloc:
            units.append((os.path.join(VERIF, 'harness', 'e1', 'stub_realloc.c'), []))
        for i, (src, mf) in enumerate(units):
            o = os.path.join(d, 'u%d.gb' % i)
            cmd = ['goto-cc', '-std=gnu11', '-DVERIF_CBMC'] + REAL_DEFS + incs + self.defines + list(extra_defs) + self.cflags + mf + ['-c', src, '-o', o]
            rc, out, err, _, _ = run(cmd, timeout=300)
            if rc != 0:
                return None, 'goto-cc failed on %s: %s' % (src, (err or out)[-1500:])
            objs.append(o)
        gb = os.path.join(d, 'prog.gb')
        rc, out, err, _, _ = run(['goto-cc', '--function', self.entry] + objs + ['-o', gb], timeout=300)
        if rc != 0:
            return None, 'goto-cc link failed: %s' % (err or out)[-1500:]
        return gb, ''

    def _cbmc_cmd(self, gb, backend, trace=False, prop=None):
        base = [f for f in CBMC_BASE if not (self.no_slice and f == '--slice-formula')]
        if self.malloc_may_fail:
            base = [f for f in base if f != '--no-malloc-may-fail'] + ['--malloc-may-fail', '--malloc-fail-null']
        cmd = ['cbmc', gb, '--function', self.entry] + base + BACKENDS[backend] + self.extra_cbmc + ['--json-ui']
        if self.unwind is not None:
            cmd += ['--unwind', str(self.unwind)]
        if self.unwindset:
            cmd += ['--unwindset', ','.join('%s:%d' % kv for kv in self.unwindset.items())]
        if trace:
            cmd += ['--trace']
        if prop:
            cmd += ['--property', prop]
        elif getattr(self, '_selected', None):
            for pid_ in self._selected:
                cmd += ['--property', pid_]
        return cmd

    def _env(self, backend):
        env = dict(os.environ)
        # cbmc writes the CNF for an external SAT solver to $TMPDIR and leaves it behind when it is killed (gigabytes):
        # keep it inside the obligation's scratch directory, which is always removed
        if getattr(self, '_scratch', None): env['TMPDIR'] = self._scratch
        if backend == 'cvc5' and self.cvc5_int:
            env['PATH'] = os.path.join(VERIF, 'bin', 'shim-cvc5-int') + ':' + env['PATH']
        return env

    def _select_properties(self, gb):
        """CBMC's built-in checks are FATAL: after a failed one every later property on that path is reported UNKNOWN.
        The UB-note classes (pointer arithmetic relations such as `ip + n > iend`, overflow, ...) must therefore not be
        checked at all, otherwise they mask real dereference failures further down.  List all properties and select
        those outside the UB-note classes (unwinding assertions are generated by symex and are always on)."""
        cmd = self._cbmc_cmd(gb, 'minisat') + ['--show-properties']
        self._selected = None
        rc, out, err, _, _ = run([c for c in cmd], timeout=300)
        try:
            js = json.loads(out)
        except Exception:
            return None
        sel = []; dropped = 0
        for e in js:
            for pr in e.get('properties', []):
                name = pr.get('name', '')
                cls = name.split('.')[-2] if name.count('.') >= 2 else name
                if cls in UB_NOTE_CLASSES or cls.replace('_', '-') in UB_NOTE_CLASSES:
                    dropped += 1; continue
                sel.append(name)
        self._dropped_ub = dropped
        return sel if dropped else None

    @staticmethod
    def _parse(out):
        try:
            js = json.loads(out)
        except Exception:
            # try to cut at the last complete json array
            return None, 'unparseable cbmc output: ' + out[-300:]
        res = None; msgs = []; status = None
        for e in js:
            if 'result' in e:
                res = e['result']
            elif 'messageText' in e:
                msgs.append(e['messageText'])
            elif 'cProverStatus' in e:
                status = e['cProverStatus']
        return (res, msgs, status), ''

    def _sweep(self, gb, deadline):
        """run all back ends in parallel; first definitive result wins."""
        procs = {}
        results = {}
        lock = threading.Lock()
        done = threading.Event()
        def worker(b):
            cmd = self._cbmc_cmd(gb, b)
            t0 = time.time()
            import resource
            lim = int(self.mem_gb * (1 << 30))
            def pre():
                os.setsid(); resource.setrlimit(resource.RLIMIT_AS, (lim, lim))
            p = subprocess.Popen(cmd, stdout=subprocess.PIPE, stderr=subprocess.PIPE, preexec_fn=pre, env=self._env(b))
            with lock:
                procs[b] = p
            try:
                out, err = p.communicate(timeout=max(1, deadline - time.time()))
                to = False
            except subprocess.TimeoutExpired:
                kill_proc(p); out, err = p.communicate(); to = True
            secs = time.time() - t0
            parsed, perr = (None, 'timeout') if to else self._parse(out.decode('utf-8', 'replace'))
            definitive = False
            if parsed and parsed[0] is not None:
                statuses = {r['status'] for r in parsed[0]}
                definitive = 'ERROR' not in statuses and bool(parsed[0])
            with lock:
                results[b] = (parsed, perr or (err.decode('utf-8', 'replace')[-300:] if not definitive else ''), secs, definitive, to)
                if definitive:
                    done.set()
        ths = [threading.Thread(target=worker, args=(b,), daemon=True) for b in self.backends]
        for t in ths: t.start()
        while any(t.is_alive() for t in ths):
            if done.wait(0.2):
                break
        with lock:
            for b, p in procs.items():
                if p.poll() is None:
                    kill_proc(p)
        for t in ths: t.join(5)
        winner = None
        for b in self.backends:
            if b in results and results[b][3]:
                if winner is None or results[b][2] < results[winner][2]:
                    winner = b
        return winner, results

    # ---- run
    def run(self, pid, open_finding_ids=()):
        t0 = time.time()
        d = scratch('cqv-e1-')
        self._scratch = d
        extra = []
        excluded = None
        for ex in ([self.exclude] if isinstance(self.exclude, str) else list(self.exclude or [])):
            if ex in open_finding_ids:
                extra.append('-DEXCLUDE_' + ex.replace('-', '_')); excluded = (excluded + ',' + ex) if excluded else ex
        gb, err = self._compile(d, extra)
        mk = lambda status, detail, **kw: Result(self.name, status, self.engine, detail, self.bounds + (' [excluding known finding %s]' % excluded if excluded else ''),
                                                 functions=self.functions, stubs=self.stubs + (['realloc: regrowth cut, asserted unreachable'] if self.stub_realloc else []),
                                                 assumptions=self.assumptions, secs=time.time() - t0, **kw)
        if gb is None:
            return mk('inconclusive', err)
        self._selected = self._select_properties(gb)
        winner, results = self._sweep(gb, t0 + self.timeout)
        bstat = {b: {'secs': round(r[2], 1), 'definitive': r[3], 'timed_out': r[4], 'err': r[1][:120]} for b, r in results.items()}
        if winner is None:
            return mk('inconclusive', 'no back end reached a verdict within %ds: %s' % (self.timeout, json.dumps(bstat)), stats={'backends': bstat, 'states': 0})
        (props, msgs, status), _, secs, _, _ = results[winner]
        nvars = next((m for m in msgs if 'variables' in m and 'clauses' in m), '')
        steps = 0
        for m in msgs:
            mm = re.search(r'size of program expression: (\d+) steps', m)
            if mm: steps = int(mm.group(1))
        witness_ok = False; failed = []; unwind_fail = []; notes = []; unknown = 0
        for r in props:
            desc = r.get('description', ''); st = r['status']; prop = r['property']
            cls = prop.split('.')[-2] if prop.count('.') >= 2 else prop
            if desc.startswith('WITNESS'):
                witness_ok = witness_ok or st == 'FAILURE'
                continue
            if st == 'SUCCESS':
                continue
            if st == 'UNKNOWN':
                unknown += 1; continue
            if cls == 'unwind' or 'unwinding assertion' in desc:
                unwind_fail.append(prop); continue
            if 'CUT:' in desc:
                unwind_fail.append(prop + ' ' + desc); continue
            if cls in UB_NOTE_CLASSES:
                notes.append('UB note %s: %s' % (prop, desc)); continue
            failed.append((prop, desc, r.get('sourceLocation', {})))
        stats = {'states': 1, 'transitions': steps, 'queries': len(props), 'solver_s': round(secs, 2), 'backend': winner,
                 'backends': bstat, 'formula': nvars[:80], 'properties_checked': len(props)}
        if failed:
            # get a trace for the first failing property and replay it natively
            prop, desc, loc = failed[0]
            inputs = self._trace_inputs(gb, winner, prop, t0 + self.timeout + 120)
            where = '%s:%s' % (loc.get('file', '?'), loc.get('line', '?'))
            rep = self._replay(pid, inputs, extra)
            payload = {'property': pid, 'obligation': self.name, 'engine': self.engine, 'failed_property': prop, 'description': desc,
                       'where': where, 'inputs': inputs, 'harness': self.harness, 'defines': self.defines + extra,
                       'native_replay': rep, 'all_failed': [(p, d_) for p, d_, _ in failed][:20]}
            path = save_replay(pid, self.name, payload)
            detail = '%s at %s; native replay: %s' % (desc, where, rep.get('verdict'))
            if rep.get('verdict') == 'reproduced':
                return mk('violation', detail, stats=stats, sample={'inputs': inputs, 'failed': desc, 'where': where}, replay=path, notes=notes)
            # not reproduced natively: memory-model level failure (e.g. out-of-object read that ASan's redzone does not see) or
            # harness/model artefact -> reported as unconfirmed, run is inconclusive for this obligation
            return mk('inconclusive', 'UNCONFIRMED counterexample (did not reproduce natively): ' + detail, stats=stats,
                      sample={'inputs': inputs, 'failed': desc, 'where': where}, replay=path, notes=notes)
        if unknown:
            return mk('inconclusive', '%d propert(ies) reported UNKNOWN by CBMC (masked by an earlier failed check) and no hard failure: not a pass' % unknown, stats=stats, notes=notes)
        if unwind_fail:
            return mk('inconclusive', 'unwinding bound too small: ' + ', '.join(unwind_fail[:5]), stats=stats, notes=notes)
        if not witness_ok:
            return mk('inconclusive', 'vacuity guard: the WITNESS assertion at the end of the harness was not reachable', stats=stats, notes=notes)
        return mk('pass', '', stats=stats, sample={'query': self.name, 'bounds': self.bounds, 'backend': winner, 'formula': nvars[:80]}, notes=notes)

    def _trace_inputs(self, gb, backend, prop, deadline):
        cmd = self._cbmc_cmd(gb, backend, trace=True, prop=prop)
        rc, out, err, secs, to = run(cmd, timeout=max(5, deadline - time.time()), mem_gb=self.mem_gb, env=self._env(backend))
        parsed, _ = self._parse(out)
        inputs = {}
        if not parsed or parsed[0] is None:
            return inputs
        for r in parsed[0]:
            if r['property'] != prop or 'trace' not in r:
                continue
            for s in r['trace']:
                if s.get('stepType') != 'assignment':
                    continue
                lhs = s.get('lhs', '')
                if not (lhs == 'IN' or lhs.startswith('IN.') or lhs.startswith('IN[')):
                    continue
                flatten_value(lhs, s.get('value', {}), inputs)
        return inputs

    def _replay(self, pid, inputs, extra_defs):
        """compile the same harness natively with -DREPLAY; nondet_in() returns the recorded inputs."""
        d = scratch('cqv-rp-')
        rf = os.path.join(d, 'replay_inputs.h')
        with open(rf, 'w') as f:
            f.write('/* generated from the CBMC counterexample */\nstruct in nondet_in(void) { struct in r; memset(&r, 0, sizeof r);\n')
            for lhs, v in inputs.items():
                f.write('  { unsigned long long t_ = %s; memcpy(&r%s, &t_, sizeof r%s); }\n' % (v, lhs[2:], lhs[2:]))
            f.write('  return r; }\n')
        srcs = [os.path.join(VERIF, self.harness), os.path.join(VERIF, 'harness', 'e1', 'replay_main.c')]
        # sources #included by the harness must not be linked twice
        lib, errs = native_lib(True)
        if lib is None:
            return {'verdict': 'replay-build-failed', 'error': str(errs[:1])}
        # build objects for the non-included sources from the archive; included ones clash -> link harness first, allow multiple definition
        srcs += [os.path.join(VERIF, 'ref', r) for r in self.ref]
        incs = ['-I' + d]
        if self.models:
            pass  # natively the real intrinsics are used
        r = native_build_and_run(srcs, 'replay', defs=['-DREPLAY', '-DREPLAY_FILE="replay_inputs.h"'] + self.defines + list(extra_defs) +
                                 ['-Wl,--allow-multiple-definition'] + [f for s in self.includes_source for f in mflags_for(s)],
                                 incs=incs, timeout=60)
        if not r.get('built'):
            return {'verdict': 'replay-build-failed', 'error': r.get('error', '')[-800:]}
        txt = (r['stdout'] + r['stderr'])
        bad = r['rc'] != 0 or 'ERROR: AddressSanitizer' in txt or 'runtime error' in txt or 'VERIF_ASSERT_FAILED' in txt
        return {'verdict': 'reproduced' if bad else 'not-reproduced', 'rc': r['rc'], 'output': txt[-1500:]}


def flatten_value(lhs, val, out):
    """turn a CBMC json trace value into {C lvalue suffix: C literal}"""
    lhs = re.sub(r'\[(\d+)[a-zA-Z]*\]', r'[\1]', lhs)
    if 'members' in val:
        for m in val['members']:
            if m['name'].startswith('$pad'): continue          # compiler-inserted struct padding: not a C member
            flatten_value(lhs + '.' + m['name'], m['value'], out)
    elif 'elements' in val:
        for e in val['elements']:
            flatten_value('%s[%s]' % (lhs, e['index']), e['value'], out)
    elif 'binary' in val:
        b = val['binary']
        out[lhs] = '0x%xULL' % int(b, 2) if b else '0'
    elif 'data' in val:
        d = val['data']
        if d in ('TRUE', 'true'): out[lhs] = '1'
        elif d in ('FALSE', 'false'): out[lhs] = '0'
