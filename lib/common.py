"""Shared plumbing for the carquet verification checks: paths, scratch dirs, subprocess
helpers, native (gcc/ASan) builds of /repo's current working tree, evidence writing and
known-findings handling.  Nothing here decides a property; deciding is done by the
solver-backed engines in e1.py (CBMC) and e2.py (symx)."""
import json, os, shutil, subprocess, sys, tempfile, time, hashlib, signal, threading
from concurrent.futures import ThreadPoolExecutor

VERIF = os.path.dirname(os.path.dirname(os.path.abspath(__file__)))
REPO = os.environ.get('VERIF_REPO', '/repo')
NCPU = int(os.environ.get('VERIF_JOBS', os.cpu_count() or 4))
SEED = int(os.environ.get('VERIF_SEED', '0') or 0)

# defines / include paths of the real x86-64 build (CMakeLists.txt, compile_commands.json)
REAL_DEFS = ['-DCARQUET_ARCH_X86', '-DCARQUET_ENABLE_SSE', '-DCARQUET_ENABLE_AVX2', '-DCARQUET_ENABLE_AVX512']
REAL_INCS = ['-I' + os.path.join(REPO, 'include'), '-I' + os.path.join(REPO, 'src')]
PER_FILE_MFLAGS = {
    'src/simd/x86/sse_ops.c': ['-msse4.2'],
    'src/simd/x86/avx2_ops.c': ['-mavx2', '-mbmi2'],
    'src/simd/x86/avx512_ops.c': ['-mavx512f', '-mavx512bw', '-mavx512vl'],
}
# every translation unit of the x86 library build (arm files are not part of it)
LIB_SOURCES = [
    'src/core/arena.c', 'src/core/bitpack.c', 'src/core/buffer.c', 'src/core/endian.c', 'src/core/error.c',
    'src/encoding/plain.c', 'src/encoding/rle.c', 'src/encoding/delta.c', 'src/encoding/delta_length.c',
    'src/encoding/delta_strings.c', 'src/encoding/dictionary.c', 'src/encoding/byte_stream_split.c',
    'src/compression/snappy.c', 'src/compression/lz4.c', 'src/compression/gzip.c', 'src/compression/zstd.c',
    'src/thrift/thrift_decode.c', 'src/thrift/thrift_encode.c', 'src/thrift/parquet_types.c',
    'src/metadata/schema.c', 'src/metadata/statistics.c', 'src/metadata/page_index.c', 'src/metadata/bloom_filter.c',
    'src/reader/file_reader.c', 'src/reader/mmap_reader.c', 'src/reader/page_reader.c', 'src/reader/column_reader.c',
    'src/reader/batch_reader.c', 'src/reader/row_group_reader.c', 'src/reader/statistics.c',
    'src/writer/page_writer.c', 'src/writer/column_writer.c', 'src/writer/row_group_writer.c', 'src/writer/file_writer.c',
    'src/simd/detect.c', 'src/simd/dispatch.c', 'src/simd/x86/sse_ops.c', 'src/simd/x86/avx2_ops.c', 'src/simd/x86/avx512_ops.c',
    'src/util/crc32.c', 'src/util/xxhash.c',
]

_scratch_dirs = []
_scratch_owner = {}
_procs_lock = threading.Lock()
_live_procs = set()


def scratch(prefix='cqv-'):
    base = os.environ.get('VERIF_SCRATCH', tempfile.gettempdir())
    d = tempfile.mkdtemp(prefix=prefix, dir=base)
    _scratch_dirs.append(d)
    _scratch_owner[d] = threading.get_ident()
    return d


def release_thread_scratch(keep_prefixes=('cqv-native-',)):
    """Remove the scratch directories created by the calling thread (one obligation = one thread) as soon as the obligation
    is done; shared build caches (native library) stay until the process exits."""
    me = threading.get_ident()
    for d, owner in list(_scratch_owner.items()):
        if owner == me and not os.path.basename(d).startswith(tuple(keep_prefixes)):
            shutil.rmtree(d, ignore_errors=True)
            _scratch_owner.pop(d, None)
            try:
                _scratch_dirs.remove(d)
            except ValueError:
                pass


def cleanup():
    with _procs_lock:
        procs = list(_live_procs)
    for p in procs:
        try:
            os.killpg(p.pid, signal.SIGKILL)
        except Exception:
            pass
    for d in _scratch_dirs:
        shutil.rmtree(d, ignore_errors=True)
    _scratch_dirs.clear()


def run(cmd, timeout=None, cwd=None, env=None, stdin=None, mem_gb=None):
    """Run a command in its own process group; returns (rc, stdout, stderr, seconds, timed_out)."""
    t0 = time.time()
    pre = None
    if mem_gb:
        import resource
        lim = int(mem_gb * (1 << 30))
        def pre():
            os.setsid()
            resource.setrlimit(resource.RLIMIT_AS, (lim, lim))
    else:
        pre = os.setsid
    p = subprocess.Popen(cmd, stdout=subprocess.PIPE, stderr=subprocess.PIPE, stdin=subprocess.PIPE if stdin is not None else subprocess.DEVNULL,
                         cwd=cwd, env=env, preexec_fn=pre)
    with _procs_lock:
        _live_procs.add(p)
    to = False
    try:
        out, err = p.communicate(input=stdin, timeout=timeout)
    except subprocess.TimeoutExpired:
        to = True
        try:
            os.killpg(p.pid, signal.SIGKILL)
        except Exception:
            pass
        out, err = p.communicate()
    finally:
        with _procs_lock:
            _live_procs.discard(p)
    return p.returncode, out.decode('utf-8', 'replace'), err.decode('utf-8', 'replace'), time.time() - t0, to


def kill_proc(p):
    try:
        os.killpg(p.pid, signal.SIGKILL)
    except Exception:
        pass


def repo_path(rel):
    return os.path.join(REPO, rel)


def mflags_for(rel):
    return PER_FILE_MFLAGS.get(rel, [])


def source_digest(rels):
    """sha256 over the current contents of the given /repo files (recorded in the evidence so a
    reader can see which tree the encoding was regenerated from)."""
    h = hashlib.sha256()
    for r in sorted(set(rels)):
        try:
            with open(repo_path(r), 'rb') as f:
                h.update(r.encode()); h.update(f.read())
        except OSError:
            h.update(('missing:' + r).encode())
    return h.hexdigest()[:16]


# ------------------------------------------------------------------ native builds (replay, findings)
_native_lock = threading.Lock()
_native_cache = {}


def native_lib(asan=True, extra_defs=()):
    """Compile the real library sources from /repo's working tree with gcc (optionally ASan+UBSan)
    into a static archive inside a scratch dir.  Used only to *replay* solver counterexamples and
    known-finding witnesses against an ordinary build; it never decides anything."""
    key = (asan, tuple(extra_defs))
    with _native_lock:
        if key in _native_cache:
            return _native_cache[key]
        d = scratch('cqv-native-')
        san = ['-fsanitize=address,undefined', '-fno-sanitize=nonnull-attribute', '-fno-sanitize-recover=undefined', '-fno-omit-frame-pointer'] if asan else []
        base = ['gcc', '-std=gnu11', '-O1', '-g', '-w', '-fopenmp'] + san + REAL_DEFS + REAL_INCS + list(extra_defs)
        def one(rel):
            o = os.path.join(d, rel.replace('/', '_') + '.o')
            rc, out, err, _, _ = run(base + mflags_for(rel) + ['-c', repo_path(rel), '-o', o], timeout=300)
            return rel, rc, err, o
        objs = []
        errors = []
        with ThreadPoolExecutor(NCPU) as ex:
            for rel, rc, err, o in ex.map(one, LIB_SOURCES):
                if rc != 0:
                    errors.append((rel, err[-2000:]))
                else:
                    objs.append(o)
        if errors:
            _native_cache[key] = (None, errors)
            return _native_cache[key]
        lib = os.path.join(d, 'libcq.a')
        run(['ar', 'rcs', lib] + objs, timeout=120)
        _native_cache[key] = (lib, [])
        return _native_cache[key]


def native_link_flags(asan=True):
    san = ['-fsanitize=address,undefined', '-fno-sanitize=nonnull-attribute', '-fno-sanitize-recover=undefined'] if asan else []
    return san + ['-fopenmp', '-lz', '-lzstd', '-lm', '-lpthread']


def native_build_and_run(csrcs, out_name, defs=(), incs=(), asan=True, args=(), timeout=120, env=None, link_lib=True, cwd=None):
    """Build a small program against the native library and run it.  Returns dict."""
    d = scratch('cqv-run-')
    exe = os.path.join(d, out_name)
    libs = []
    if link_lib:
        lib, errs = native_lib(asan)
        if lib is None:
            return {'built': False, 'error': 'native lib build failed: %r' % (errs[:1],)}
        libs = [lib]
    san = ['-fsanitize=address,undefined', '-fno-sanitize=nonnull-attribute', '-fno-sanitize-recover=undefined', '-fno-omit-frame-pointer'] if asan else []
    cmd = ['gcc', '-std=gnu11', '-O1', '-g', '-w'] + san + REAL_DEFS + REAL_INCS + ['-I' + os.path.join(VERIF, 'harness'), '-I' + os.path.join(VERIF, 'ref')] + list(incs) + list(defs) + list(csrcs) + libs + ['-o', exe] + native_link_flags(asan)
    rc, out, err, _, _ = run(cmd, timeout=600)
    if rc != 0:
        return {'built': False, 'error': err[-3000:]}
    e = dict(os.environ)
    e['ASAN_OPTIONS'] = 'detect_leaks=1:abort_on_error=0:exitcode=99'
    e['UBSAN_OPTIONS'] = 'print_stacktrace=0'
    if env:
        e.update(env)
    rc, out, err, secs, to = run([exe] + list(args), timeout=timeout, env=e, cwd=cwd or d)
    return {'built': True, 'rc': rc, 'stdout': out, 'stderr': err, 'timed_out': to, 'secs': secs}


# ------------------------------------------------------------------ known findings
def load_findings():
    p = os.path.join(VERIF, 'known_findings.json')
    if not os.path.exists(p):
        return []
    with open(p) as f:
        out = json.load(f).get('findings', [])
    # staging area used while a finding is being triaged: findings/<ID>.json (one entry per file); consolidated
    # into known_findings.json before a commit
    import glob
    seen = {x['id'] for x in out}
    for q in sorted(glob.glob(os.path.join(VERIF, 'findings', '*.json'))):
        try:
            with open(q) as f:
                e = json.load(f)
            if e.get('id') not in seen:
                out.append(e)
        except Exception:
            pass
    return out


def open_findings(pid):
    return [f for f in load_findings() if pid in f.get('properties', [f.get('property')]) and f.get('status') == 'open']


# ------------------------------------------------------------------ results and evidence
class Result:
    """Outcome of one obligation."""
    def __init__(self, name, status, engine, detail='', bounds='', stats=None, sample=None, replay=None,
                 functions=(), stubs=(), assumptions=(), secs=0.0, known=None, notes=()):
        self.name = name; self.status = status  # pass | violation | inconclusive | known
        self.engine = engine; self.detail = detail; self.bounds = bounds
        self.stats = stats or {}; self.sample = sample; self.replay = replay
        self.functions = list(functions); self.stubs = list(stubs); self.assumptions = list(assumptions)
        self.secs = secs; self.known = known; self.notes = list(notes)

    def to_json(self):
        return {k: v for k, v in self.__dict__.items() if v not in (None, [], {}, '')}


def write_evidence(pid, tier, results, wall, level='model_checking', extra=None, exhaustive=False):
    evdir = os.environ.get('VERIF_EVIDENCE_DIR') or os.path.join(VERIF, 'evidence')     # seeded-mutant evaluations redirect it
    os.makedirs(evdir, exist_ok=True)
    states = sum(int(r.stats.get('paths', r.stats.get('states', 1 if r.status != 'inconclusive' else 0))) for r in results)
    transitions = sum(int(r.stats.get('steps', r.stats.get('transitions', 0))) for r in results)
    validated = sum(int(r.stats.get('validated', 0)) for r in results)
    queries = sum(int(r.stats.get('queries', 0)) for r in results)
    solver_s = sum(float(r.stats.get('solver_s', 0)) for r in results)
    decided = [r for r in results if r.status in ('pass', 'violation', 'known')]
    inconc = [r for r in results if r.status == 'inconclusive']
    viol = [r for r in results if r.status == 'violation']
    functions = sorted({f for r in results for f in r.functions})
    stubs = sorted({f for r in results for f in r.stubs})
    assumptions = sorted({a for r in results for a in r.assumptions})
    samples = []
    for r in results:
        if r.sample is not None and len(samples) < 12:
            samples.append({'obligation': r.name, 'status': r.status, 'case': r.sample})
    if not samples:
        samples = [{'obligation': r.name, 'status': r.status, 'bounds': r.bounds} for r in results[:5]] or [{'note': 'no obligation ran'}]
    cov = {
        'states': max(states, 1), 'transitions': max(transitions, 1), 'traces_validated_against_impl': validated,
        'samples': samples,
        'obligations': len(results), 'decided': len(decided), 'discharged': len([r for r in results if r.status == 'pass']),
        'inconclusive': [{'obligation': r.name, 'why': r.detail[:300]} for r in inconc],
        'known_findings': [{'obligation': r.name, 'finding': r.known, 'what': r.detail[:300]} for r in results if r.status == 'known'],
        'queries': queries, 'solver_time_s': round(solver_s, 2),
        'functions_encoded': functions, 'stubs': stubs,
        'bounds': sorted({r.name + ': ' + r.bounds for r in results if r.bounds}),
        'per_obligation': [{'name': r.name, 'status': r.status, 'engine': r.engine, 'secs': round(r.secs, 2), 'stats': r.stats,
                            'notes': r.notes[:6]} for r in results],
        'exhaustive': bool(exhaustive),
        'explanation': 'states = symbolic paths completed (symx) or one per discharged CBMC query; transitions = IR instructions '
                       'executed symbolically (symx) or SSA steps / program-expression count reported by CBMC; every verdict is the '
                       'solver\'s over all values inside the stated bounds. Inconclusive obligations (timeout, memory, engine limit) are '
                       'listed and their bounds are NOT claimed.',
    }
    if extra:
        cov.update(extra)
    ev = {
        'property_id': pid, 'tier': tier, 'seed': SEED, 'level': level, 'coverage': cov,
        'assumptions': assumptions, 'wall_s': round(wall, 2), 'violations': len(viol),
    }
    path = os.path.join(evdir, pid + '.json')
    # one evidence file per property: a run of one tier keeps a compact record of the last run of the OTHER tier (measured by
    # that run, with its source digest and time), so that a quick run does not erase the trace of the last thorough one
    try:
        with open(path) as f:
            old = json.load(f)
        oc = old.get('coverage', {})
        if old.get('tier') != tier:
            cov['other_tier_last_run'] = {
                'tier': old.get('tier'), 'finished_utc': oc.get('finished_utc'), 'wall_s': old.get('wall_s'), 'violations': old.get('violations'),
                'obligations': oc.get('obligations'), 'discharged': oc.get('discharged'), 'decided': oc.get('decided'),
                'inconclusive': [x.get('obligation') for x in oc.get('inconclusive', [])][:40], 'inconclusive_count': len(oc.get('inconclusive', [])),
                'known_findings': sorted({x.get('finding') for x in oc.get('known_findings', []) if x.get('finding')}),
                'states': oc.get('states'), 'transitions': oc.get('transitions'), 'queries': oc.get('queries'), 'solver_time_s': oc.get('solver_time_s'),
                'source_digest': oc.get('source_digest'), 'partial_run_filter': oc.get('partial_run_filter')}
        elif oc.get('other_tier_last_run'):
            cov['other_tier_last_run'] = oc['other_tier_last_run']
    except Exception:
        pass
    cov['finished_utc'] = time.strftime('%Y-%m-%dT%H:%M:%SZ', time.gmtime())
    tmp = path + '.tmp'
    with open(tmp, 'w') as f:
        json.dump(ev, f, indent=1, default=str)
    os.replace(tmp, path)
    return path


def save_replay(pid, obligation, payload):
    d = os.path.join(os.environ.get('VERIF_REPLAY_DIR') or os.path.join(VERIF, 'replay'), pid)
    os.makedirs(d, exist_ok=True)
    p = os.path.join(d, obligation.replace('/', '_') + '.json')
    with open(p, 'w') as f:
        json.dump(payload, f, indent=1, default=str)
    return p


def log(*a):
    print(*a, flush=True)
