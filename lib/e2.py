"""Engine E2: symx — path-forking symbolic execution of clang-14 LLVM IR of the real carquet sources with z3.

Per obligation: clang compiles the harness and the real .c files from /repo's current working tree
(-O0 -disable-O0-optnone, real -D/-I/-m flags, intrinsic MODEL headers first on the include path), llvm-link,
opt -mem2reg, then symx explores every path within the stated bounds.  Violations are replayed against a native
gcc/ASan build of the same harness (harness/e2/symx_native.c) before being reported; a sample of completed paths is
replayed too and every observed byte must agree with what the engine computed (translator validation)."""
import json, os, time
from common import *

NATIVE_WRAPS = '-Wl,--wrap=fread,--wrap=malloc,--wrap=calloc,--wrap=realloc,--wrap=strdup,--wrap=fopen,--wrap=fwrite,--wrap=fflush,--wrap=fclose,--wrap=open,--wrap=remove'
BASE_STUBS = ['libc memory/string functions (symx/models.py)', 'malloc/calloc/realloc/free: engine object table']


class E2:
    def __init__(self, name, harness, sources=(), defines=(), entry='harness', max_paths=100000, max_steps=3_000_000, timeout=300,
                 bounds='', functions=(), stubs=(), assumptions=(), leaks=False, summaries=(), exclude=None, weight=1, validate=3,
                 ref=(), max_depth=120, fork_max=8, all_lib=False, opt=None, openmp=False, expect_paths_min=1, native_replay=True, mem_gb=12,
                 unconfirmed_ok_kinds=(), stop_distinct=6, uninit_symbolic=False, fp_precise=False):
        self.name = name; self.harness = harness; self.sources = list(sources); self.defines = list(defines); self.entry = entry
        self.max_paths = max_paths; self.max_steps = max_steps; self.timeout = timeout; self.bounds = bounds
        self.functions = list(functions); self.stubs = list(stubs); self.assumptions = list(assumptions); self.leaks = leaks
        self.summaries = list(summaries); self.exclude = exclude; self.weight = weight; self.validate = validate; self.ref = list(ref)
        self.openmp = openmp; self.max_depth = max_depth; self.fork_max = fork_max; self.all_lib = all_lib; self.opt = opt
        self.expect_paths_min = expect_paths_min; self.native_replay = native_replay; self.mem_gb = mem_gb
        self.engine = 'E2/symx'; self.stop_distinct = stop_distinct
        self.fp_precise = fp_precise       # solver logic with IEEE floats (slower); default: fp predicates on symbolic floats are uninterpreted (over-approximation)
        self.uninit_symbolic = uninit_symbolic     # reads of never-written malloc'd bytes are arbitrary; native replay fills malloc'd memory with a poison byte
        if all_lib:
            self.sources = [s for s in LIB_SOURCES if not s.startswith('src/simd/x86/')]

    def _build_ir(self, d, extra_defs):
        incs = ['-I' + os.path.join(VERIF, 'models', 'immintrin')] + REAL_INCS + ['-I' + os.path.join(VERIF, 'harness'), '-I' + os.path.join(VERIF, 'ref')]
        base = ['clang-14', '-std=gnu11', '-O0', '-Xclang', '-disable-O0-optnone', '-S', '-emit-llvm', '-w', '-fno-builtin', '-DVERIF_SYMX'] + (['-fopenmp', '-gline-tables-only'] if self.openmp else ['-D_OPENMP=201511']) + REAL_DEFS + incs + self.defines + list(extra_defs)
        units = [os.path.join(VERIF, self.harness)] + [repo_path(s) for s in self.sources] + [os.path.join(VERIF, 'ref', r) for r in self.ref]
        lls = []
        def one(iu):
            i, u = iu
            o = os.path.join(d, 'u%d.ll' % i)
            rel = os.path.relpath(u, REPO) if u.startswith(REPO) else ''
            rc, out, err, _, _ = run(base + mflags_for(rel) + [u, '-o', o], timeout=300)
            return rc, err, o, u
        from concurrent.futures import ThreadPoolExecutor
        with ThreadPoolExecutor(4) as ex:
            for rc, err, o, u in ex.map(one, list(enumerate(units))):
                if rc != 0:
                    return None, 'clang failed on %s: %s' % (u, err[-1500:])
                lls.append(o)
        l0 = os.path.join(d, 'linked0.ll'); l1 = os.path.join(d, 'linked.ll')
        rc, out, err, _, _ = run(['llvm-link-14', '-S'] + lls + ['-o', l0], timeout=300)
        if rc != 0:
            return None, 'llvm-link failed: ' + err[-1500:]
        passes = ['-mem2reg'] if not self.opt else self.opt
        rc, out, err, _, _ = run(['opt-14', '-S'] + passes + [l0, '-o', l1], timeout=300)
        if rc != 0:
            return None, 'opt failed: ' + err[-1500:]
        return l1, ''

    def run(self, pid, open_finding_ids=()):
        t0 = time.time()
        d = scratch('cqv-e2-')
        extra = []; excluded = None
        if self.exclude:
            for ex in (self.exclude if isinstance(self.exclude, (list, tuple)) else [self.exclude]):
                if ex in open_finding_ids:
                    extra.append('-DEXCLUDE_' + ex.replace('-', '_')); excluded = (excluded + ',' + ex) if excluded else ex
        mk = lambda status, detail, **kw: Result(self.name, status, self.engine, detail, self.bounds + (' [excluding known finding %s]' % excluded if excluded else ''),
                                                 functions=kw.pop('functions', self.functions), stubs=BASE_STUBS + self.stubs + ['summary: ' + s for s in self.summaries],
                                                 assumptions=self.assumptions, secs=time.time() - t0, **kw)
        ll, err = self._build_ir(d, extra)
        if ll is None:
            return mk('inconclusive', err)
        outj = os.path.join(d, 'out.json')
        cmd = ['python3-vt', os.path.join(VERIF, 'symx', 'run.py'), ll, self.entry, '--json', outj, '--max-paths', str(self.max_paths),
               '--max-steps', str(self.max_steps), '--timeout', str(max(5, self.timeout - (time.time() - t0) - 5)), '--max-depth', str(self.max_depth),
               '--fork-max', str(self.fork_max), '--samples', str(max(self.validate, 3))]
        if self.stop_distinct: cmd += ['--stop-distinct', str(self.stop_distinct)]
        if self.leaks: cmd.append('--leaks')
        if self.uninit_symbolic: cmd.append('--uninit-symbolic')
        if self.fp_precise: cmd.append('--fp-precise')
        if self.summaries: cmd += ['--summaries', ','.join(self.summaries)]
        rc, out, serr, secs, to = run(cmd, timeout=self.timeout + 30, mem_gb=self.mem_gb)
        if not os.path.exists(outj):
            return mk('inconclusive', 'symx did not finish (%s): %s' % ('timeout' if to else 'rc=%s' % rc, serr[-600:]))
        with open(outj) as f:
            res = json.load(f)
        conc_notes = ['symbolic %s concretised to representative values (first feasible values + min + max) on %d occasion(s): other values are outside the claim' % (k, v) for k, v in (res.get('concretisations') or {}).items()]
        stats = {'paths': res['paths'], 'completed': res['completed'], 'steps': res['steps'], 'queries': res['queries'], 'solver_s': res['solver_s'],
                 'states': res['completed'], 'transitions': res['steps']}
        functions = sorted(set(self.functions) | {f.lstrip('@') for f in res.get('functions', []) if not f.startswith('@ref_') and not f.startswith('@symx')})
        # ---- violations: dedupe, replay natively
        viol = res['violations']
        if viol:
            seen = {}
            for v in viol:
                seen.setdefault((v['kind'], v['msg'][:80], v['where'], v.get('failed_alloc'), str(v.get('failed_allocs') or ''), v.get('io_failed'), v.get('io_fail_op'), str(v.get('interfered')), str(v.get('preempt_loc'))), v)
            uniq = list(seen.values())
            # violations whose call site is listed by an OPEN known finding of this property are reported as KNOWN-FINDING
            # (after native confirmation); anything else is still a VIOLATION
            sigs = []
            for f in load_findings():
                if f.get('status') == 'open' and pid in f.get('properties', []):
                    for sg in f.get('signatures', []):
                        sigs.append((f['id'], sg))
            def known_id(v):
                for fid, sg in sigs:
                    if sg.get('kind') and sg['kind'] != v['kind']: continue
                    if sg.get('where') and sg['where'] not in v['where'].split(' <- ')[0]: continue
                    if sg.get('chain') and not all(c in v['where'] for c in sg['chain']): continue
                    if sg.get('msg') and sg['msg'] not in v['msg']: continue
                    return fid
                return None
            known_hits = [(known_id(v), v) for v in uniq]
            new_v = [v for k, v in known_hits if k is None]
            if not new_v and known_hits:
                # confirm one natively so that the KNOWN-FINDING line is about something that still reproduces
                fid, v = known_hits[0]
                rep = self._native(d, v, extra) if self.native_replay else {'verdict': 'not-replayed'}
                ids = sorted({k for k, _ in known_hits})
                return mk('known', '%s: %s @ %s [native: %s]' % (v['kind'], v['msg'], v['where'], rep.get('verdict')), stats=stats, known=','.join(ids),
                          sample={'inputs': compact(v.get('model')), 'kind': v['kind'], 'where': v['where']}, functions=functions)
            uniq = new_v + [v for k, v in known_hits if k is not None]
            confirmed = None; reports = []
            for v in uniq[:12]:
                rep = self._native(d, v, extra) if self.native_replay else {'verdict': 'not-replayed'}
                reports.append({'kind': v['kind'], 'msg': v['msg'], 'where': v['where'], 'replay': rep.get('verdict'), 'out': rep.get('output', '')[-400:]})
                if rep.get('verdict') == 'reproduced' and confirmed is None and known_id(v) is None:
                    confirmed = (v, rep)
            payload = {'property': pid, 'obligation': self.name, 'engine': self.engine, 'harness': self.harness, 'defines': self.defines + extra,
                       'violations': [{k: v[k] for k in ('kind', 'msg', 'where', 'model', 'choices', 'failed_alloc', 'failed_allocs', 'io_failed', 'io_fail_op', 'interfered', 'notes', 'poke', 'preempt_loc') if k in v} for v in uniq[:40]],
                       'native_replay': reports, 'total_violating_paths': len(viol)}
            path = save_replay(pid, self.name, payload)
            if confirmed:
                v, rep = confirmed
                return mk('violation', '%s: %s @ %s; native replay: reproduced (%d violating paths, %d distinct)' % (v['kind'], v['msg'], v['where'], len(viol), len(uniq)),
                          stats=stats, sample={'inputs': compact(v.get('model')), 'kind': v['kind'], 'msg': v['msg'], 'where': v['where']}, replay=path, functions=functions)
            v = uniq[0]
            return mk('inconclusive', 'UNCONFIRMED counterexample(s) (no native reproduction): %s: %s @ %s [%s]' % (v['kind'], v['msg'], v['where'], reports[0]['replay']),
                      stats=stats, sample={'inputs': compact(v.get('model')), 'kind': v['kind'], 'msg': v['msg']}, replay=path, functions=functions)
        if res['n_limits']:
            l = res['limits'][0]
            return mk('inconclusive', 'engine limit on %d path(s): %s @ %s' % (res['n_limits'], l['msg'], l['where']), stats=stats, functions=functions)
        if res['completed'] < self.expect_paths_min:
            return mk('inconclusive', 'vacuity guard: only %d path(s) reached the end of the harness (expected >= %d)' % (res['completed'], self.expect_paths_min), stats=stats, functions=functions)
        # ---- translator validation on sampled completed paths
        validated = 0; mism = None
        if self.native_replay:
            for smp in res['samples'][:self.validate]:
                rep = self._native(d, {'model': smp['inputs'], 'choices': smp['choices'], 'failed_alloc': smp.get('failed_alloc'), 'failed_allocs': smp.get('failed_allocs'), 'io_failed': smp.get('io_failed'), 'poke': smp.get('poke'), 'interfered': smp.get('interfered'),
                                       'io_fail_op': smp.get('io_fail_op')}, extra, expect_obs=smp['obs'])
                if rep.get('verdict') == 'agrees': validated += 1
                elif rep.get('verdict') in ('obs-mismatch', 'reproduced', 'replay-build-failed'):
                    mism = rep; break
        stats['validated'] = validated
        if mism:
            save_replay(pid, self.name + '.validation-mismatch', {'property': pid, 'obligation': self.name, 'sample': smp, 'native': mism})
            return mk('inconclusive', 'translator validation FAILED: native run of a completed path disagrees with the engine: %s' % mism.get('output', '')[-500:], stats=stats, functions=functions)
        smp = res['samples'][0] if res['samples'] else {}
        return mk('pass', '', stats=stats, functions=functions, notes=conc_notes,
                  sample={'completed_paths': res['completed'], 'one_path_inputs': compact(smp.get('inputs')), 'choices': smp.get('choices'), 'obs': compact_obs(smp.get('obs'))})

    def _preempt_exe(self, d, loc, extra_defs):
        fname, line, hit = loc
        if not fname.startswith(REPO): return None
        rel = os.path.relpath(fname, REPO)
        try:
            txt = open(fname).read()
        except OSError:
            return None
        patched = _inject_delay(txt, line, hit)
        if patched is None: return None
        pdir = os.path.join(d, 'preempt_%d_%d' % (line, hit)); os.makedirs(pdir, exist_ok=True)
        psrc = os.path.join(pdir, os.path.basename(fname))
        with open(psrc, 'w') as f: f.write(patched)
        lib, errs = native_lib(True)
        if lib is None: return None
        exe = os.path.join(pdir, 'native_preempt')
        cmd = ['gcc', '-std=gnu11', '-O1', '-g', '-w', '-fopenmp', '-fsanitize=address,undefined', '-fno-sanitize=nonnull-attribute', '-fno-sanitize-recover=undefined', '-fno-omit-frame-pointer'] + REAL_DEFS + REAL_INCS + \
              ['-I' + os.path.dirname(fname), '-I' + os.path.join(VERIF, 'harness'), '-I' + os.path.join(VERIF, 'ref'), '-DVERIF_NATIVE'] + self.defines + list(extra_defs) + mflags_for(rel) + \
              [os.path.join(VERIF, self.harness), os.path.join(VERIF, 'harness', 'e2', 'symx_native.c'), psrc] + [os.path.join(VERIF, 'ref', r) for r in self.ref] + \
              [lib, '-o', exe, '-no-pie', NATIVE_WRAPS] + native_link_flags(True)
        rc, out, err, _, _ = run(cmd, timeout=600)
        return exe if rc == 0 else None

    # ---- native replay
    _native_exe = None
    def _native(self, d, v, extra_defs, expect_obs=None):
        if self._native_exe is None:
            lib, errs = native_lib(True)
            if lib is None:
                return {'verdict': 'replay-build-failed', 'output': str(errs[:1])}
            exe = os.path.join(d, 'native_harness')
            cmd = ['gcc', '-std=gnu11', '-O1', '-g', '-w', '-fsanitize=address,undefined', '-fno-sanitize=nonnull-attribute', '-fno-sanitize-recover=undefined', '-fno-omit-frame-pointer'] + REAL_DEFS + REAL_INCS + \
                  ['-I' + os.path.join(VERIF, 'harness'), '-I' + os.path.join(VERIF, 'ref'), '-DVERIF_NATIVE'] + self.defines + list(extra_defs) + \
                  [os.path.join(VERIF, self.harness), os.path.join(VERIF, 'harness', 'e2', 'symx_native.c')] + [os.path.join(VERIF, 'ref', r) for r in self.ref] + \
                  [lib, '-o', exe, '-no-pie', NATIVE_WRAPS] + native_link_flags(True)
            rc, out, err, _, _ = run(cmd, timeout=600)
            if rc != 0:
                self._native_exe = False
                self._native_err = err[-1500:]
            else:
                self._native_exe = exe
        if self._native_exe is False:
            return {'verdict': 'replay-build-failed', 'output': self._native_err}
        exe_to_run = self._native_exe
        threads = '1'
        if v.get('preempt_loc'):
            # Forced-schedule replay of a preemption counterexample: the real code runs with two real OpenMP threads; the worker
            # that makes the recorded arrival at the recorded source line is delayed there (a sleep inserted in a COPY of that
            # source file, which is linked in front of the library), so the other worker runs through its iteration meanwhile.
            pe = self._preempt_exe(d, v['preempt_loc'], extra_defs)
            if pe is None:
                return {'verdict': 'not-replayable', 'output': 'could not build the delayed variant for %r' % (v['preempt_loc'],)}
            exe_to_run = pe; threads = '2'
        import tempfile
        tmp = tempfile.mkdtemp(prefix='fs', dir=d)
        inp = os.path.join(tmp, 'input.txt')
        with open(inp, 'w') as f:
            for k, val in (v.get('model') or {}).items():
                if '[' in k and not k.startswith('interfere') and ' ' not in k:
                    f.write('in %s %d\n' % (k, val))
            for nm, k in (v.get('choices') or []):
                f.write('choice %d\n' % k)
            if v.get('failed_allocs'):
                for k_ in v['failed_allocs']: f.write('failalloc %d\n' % k_)       # symx_fault_alloc(n > 1): several failures on one path
            elif v.get('failed_alloc'):
                f.write('failalloc %d\n' % v['failed_alloc'])
            if v.get('io_failed'):
                f.write('failio %d %s\n' % (v.get('io_fail_op') or 0, v['io_failed']))
            if v.get('interfered'):
                f.write('interfere %d %d\n' % (v['interfered'][0], v['interfered'][1]))
            if v.get('poke'):
                # state of ANOTHER thread's partial progress through an initialiser: written straight into the globals of the
                # native executable (addresses from nm; built -no-pie)
                rc_, nm_out, _, _, _ = run(['nm', self._native_exe], timeout=60)
                addr = {}
                for line in nm_out.splitlines():
                    parts = line.split()
                    if len(parts) == 3 and parts[1] in 'bBdDrRtT': addr.setdefault(parts[2], []).append(int(parts[0], 16))
                def sym_addr(name):
                    base = name.lstrip('@')
                    cands = addr.get(base) or addr.get(base.rsplit('.', 1)[0]) or []
                    return cands[0] if len(cands) == 1 else None
                ok = True
                for name, hexs in v['poke']['reset']:
                    a = sym_addr(name)
                    if a is None: ok = False; continue
                    f.write('reset %x %s\n' % (a, hexs or '00'))
                for name, off, hexs in v['poke']['stores']:
                    a = sym_addr(name)
                    if a is None or hexs is None: ok = False; continue
                    if hexs.startswith('fn:'):
                        fa = sym_addr(hexs[3:])
                        if fa is None: ok = False; continue
                        hexs = ''.join('%02x' % ((fa >> (8 * i)) & 0xFF) for i in range(8))
                    f.write('poke %x %s\n' % (a + off, hexs))
                if not ok:
                    return {'verdict': 'not-replayable', 'output': 'the partial-initialiser state contains stores that cannot be expressed natively (pointers to data objects / ambiguous symbols)'}
        env = dict(os.environ); env['SYMX_INPUT'] = inp; env['SYMX_TMP'] = tmp
        env['OMP_NUM_THREADS'] = threads; env['OMP_WAIT_POLICY'] = 'passive'; env['OMP_DYNAMIC'] = 'false'     # (1 thread:) the engine explores the sequential schedule of the OpenMP loops; real interleavings are C07's subject
        env['ASAN_OPTIONS'] = 'detect_leaks=%d:exitcode=99:allocator_may_return_null=1' % (1 if self.leaks else 0)
        if self.uninit_symbolic:
            # the counterexample chose garbage for never-written heap bytes: the replay cannot place those exact bytes, it fills every
            # malloc'd block with a poison byte instead (0x7f: large positive when read as an integer or index)
            env['ASAN_OPTIONS'] += ':max_malloc_fill_size=268435456:malloc_fill_byte=127'
        rc, out, err, secs, to = run([exe_to_run], timeout=60, env=env, cwd=tmp)
        txt = out + err
        if to:
            return {'verdict': 'reproduced' if expect_obs is None else 'obs-mismatch', 'output': 'native run timed out (hang) ' + txt[-300:]}
        bad = rc != 0 or 'ERROR: AddressSanitizer' in txt or 'runtime error' in txt or 'SYMX_ASSERT_FAILED' in txt or 'LeakSanitizer' in txt
        if expect_obs is None:
            return {'verdict': 'reproduced' if bad else 'not-reproduced', 'rc': rc, 'output': txt[-1500:]}
        if bad:
            return {'verdict': 'reproduced', 'rc': rc, 'output': 'native run of a path the engine completed cleanly failed: ' + txt[-1200:]}
        if 'SYMX_ASSUME_FALSE' in out:
            return {'verdict': 'obs-mismatch', 'output': 'native run violates an assumption the engine path satisfied'}
        got = []
        for line in out.splitlines():
            if line.startswith('OBS '):
                parts = line.split()
                got.append((parts[1], [int(x) for x in parts[2:]]))
        exp = [(t.replace(' ', '_'), [int(x) for x in vals]) for t, vals in expect_obs]
        if got != exp:
            return {'verdict': 'obs-mismatch', 'output': 'engine obs %r != native obs %r' % (exp[:6], got[:6])}
        return {'verdict': 'agrees'}


def _inject_delay(src_text, line, hit):
    lines = src_text.split('\n')
    if line < 1 or line > len(lines): return None
    inj = ('{ static int verif_arrivals_; extern int usleep(unsigned); '
           'if (__sync_fetch_and_add(&verif_arrivals_, 1) == %d) usleep(150000); } /* verif: forced preemption point */' % hit)
    lines.insert(line - 1, inj)
    return '\n'.join(lines)


def compact(model):
    """group name[i] bytes into hex strings for readable evidence"""
    if not model: return model
    groups = {}
    for k, v in model.items():
        if '[' in k:
            nm, idx = k.rsplit('[', 1)
            try:
                groups.setdefault(nm, {})[int(idx[:-1])] = v
            except ValueError:
                groups[k] = v
        else:
            groups[k] = v
    out = {}
    for nm, g in groups.items():
        if isinstance(g, dict):
            n = max(g) + 1
            out[nm] = ''.join('%02x' % (g.get(i, 0) & 0xff) for i in range(min(n, 256)))
        else:
            out[nm] = g
    return out


def compact_obs(obs):
    if not obs: return obs
    return [(t, v if len(v) <= 32 else v[:32] + ['...']) for t, v in obs[:12]]
