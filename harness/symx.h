/* Harness API of the symx engine (E2).  Under the engine these are intercepted by symx/models.py; natively
 * (replay / translator validation) they are implemented by harness/e2/symx_native.c, which reads the recorded
 * input bytes by name and prints observations. */
#ifndef SYMX_H
#define SYMX_H
#include <stdint.h>
#include <stddef.h>
#include <stdio.h>
#ifdef __cplusplus
extern "C" {
#endif
void symx_make_symbolic(void* p, size_t n, const char* name);   /* p[0..n) become fresh symbolic bytes "name[i]" */
void symx_assume(int cond);                                     /* drop paths where cond is false */
void symx_assert(int cond, const char* msg);                    /* violation (with model) if cond can be false */
int  symx_choice(int n, const char* name);                      /* forks: returns each of 0..n-1 on its own path */
void symx_observe(const void* p, size_t n, const char* tag);    /* record bytes (compared with the native run) */
void symx_observe_int(uint64_t v, const char* tag);
void symx_note(const char* msg);
void symx_fault_alloc(int on);      /* on: every later malloc/calloc/realloc forks a path on which it fails (one failure per path) */
void symx_fault_io(int on);         /* on: every later fwrite/fflush/fclose forks a path on which it fails (one failure per path) */
int  symx_alloc_failed(void);       /* index (1-based) of the allocation that failed on this path, 0 if none */
int  symx_io_failed(void);          /* 1 if a sink fault was injected on this path */
void symx_check_leaks(void);        /* violation if any heap object is still allocated */
int  symx_live_heap(void);
int  symx_is_symbolic(uint64_t v);
void symx_file_put(const char* name, const void* data, size_t n);   /* install a file in the model file system */
size_t symx_file_size(const char* name);                            /* (size_t)-1 if absent */
size_t symx_file_get(const char* name, void* buf, size_t cap);
void symx_interfere(int on);
void symx_omp_threads(int n);      /* n >= 2: parallel regions run with n modelled workers; preemption at iteration boundaries and before accesses to
                                     bytes on which two iterations conflict (found by a recording pass), at most one preemption per path */
void symx_omp_permute(int on);    /* on: iterations of OpenMP dynamic-schedule loops (<= 3) are run in every order (fork) */        /* on: fread sees a stream position moved arbitrarily by "another thread" */
/* lazy-initialisation races: record the stores an initialiser makes to globals, then restart from the state in which only the
 * first k of them are visible (another thread is k stores into the initialiser) */
void symx_store_log_begin(void);
int  symx_store_log_end(void);          /* number of recorded stores */
void symx_store_prefix(int k);
#ifdef __cplusplus
}
#endif
#define SYMX_ASSERT(c, msg) symx_assert((c) ? 1 : 0, msg)
#endif
