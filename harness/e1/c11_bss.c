/* C11/C12 — BYTE_STREAM_SPLIT float / double / generic width (engine E1).
 * Real code: src/encoding/byte_stream_split.c and the dispatcher src/simd/dispatch.c.
 * The float/double entry points go through carquet_dispatch_byte_split_*: the harness supplies carquet_get_cpu_info()
 * (the one function of src/simd/detect.c the dispatcher calls).
 *   default         every feature bit 0 -> the dispatcher selects its scalar kernels (scalar_byte_split_*)
 *   -DCPU_SYMBOLIC  every x86 feature bit symbolic -> whichever of the scalar / SSE4.2 / AVX2 / AVX-512 kernels the
 *                   dispatcher picks for that CPU (sources src/simd/x86/*.c compiled against the intrinsic model, models=True)
 * Oracle: ref_bss_encode / ref_bss_decode of /verif/ref.
 *   -DVKIND=0 float (4 bytes, as uint32 bit patterns: the API only moves bytes) | 1 double | 2 generic, width -DVW
 *   -DVN=<concrete value count>
 *   -DMODE=1  encode -> bytes == reference transposition, bytes_written == n*width; one byte less capacity -> refused
 *   -DMODE=2  decode of ANY n*width bytes == reference; a stream one byte short -> refused
 *   -DMODE=3  decode(encode(v)) == v
 */
#include "c11_common.h"
#include <carquet/carquet.h>
#include "ref_codecs.h"

#ifndef VKIND
#define VKIND 0
#endif
#ifndef VN
#define VN 5
#endif
#if VKIND == 0
#undef VW
#define VW 4
#elif VKIND == 1
#undef VW
#define VW 8
#elif !defined(VW)
#define VW 3
#endif
#define NB ((size_t)VN * VW)
#define NB1 (NB ? NB : 1)

carquet_status_t carquet_byte_stream_split_encode_float(const float*, int64_t, uint8_t*, size_t, size_t*);
carquet_status_t carquet_byte_stream_split_decode_float(const uint8_t*, size_t, float*, int64_t);
carquet_status_t carquet_byte_stream_split_encode_double(const double*, int64_t, uint8_t*, size_t, size_t*);
carquet_status_t carquet_byte_stream_split_decode_double(const uint8_t*, size_t, double*, int64_t);
carquet_status_t carquet_byte_stream_split_encode(const uint8_t*, int64_t, int32_t, uint8_t*, size_t, size_t*);
carquet_status_t carquet_byte_stream_split_decode(const uint8_t*, size_t, int32_t, uint8_t*, int64_t);

struct in {
    uint8_t v[NB1];          /* the values, VW bytes each */
    uint8_t cpu[9];          /* CPU_SYMBOLIC: feature bits */
};
struct in nondet_in(void);

static carquet_cpu_info_t g_cpu;       /* zero-initialised: no SIMD feature */
const carquet_cpu_info_t* carquet_get_cpu_info(void) { return &g_cpu; }

static carquet_status_t enc(const uint8_t* v, uint8_t* out, size_t cap, size_t* wr) {
#if VKIND == 0
    return carquet_byte_stream_split_encode_float((const float*)v, VN, out, cap, wr);
#elif VKIND == 1
    return carquet_byte_stream_split_encode_double((const double*)v, VN, out, cap, wr);
#else
    return carquet_byte_stream_split_encode(v, VN, VW, out, cap, wr);
#endif
}
static carquet_status_t dec(const uint8_t* in, size_t len, uint8_t* o) {
#if VKIND == 0
    return carquet_byte_stream_split_decode_float(in, len, (float*)o, VN);
#elif VKIND == 1
    return carquet_byte_stream_split_decode_double(in, len, (double*)o, VN);
#else
    return carquet_byte_stream_split_decode(in, len, VW, o, VN);
#endif
}

void harness(void) {
    struct in IN = nondet_in();
#ifdef CPU_SYMBOLIC
    g_cpu.has_sse2 = IN.cpu[0] & 1; g_cpu.has_sse41 = IN.cpu[1] & 1; g_cpu.has_sse42 = IN.cpu[2] & 1; g_cpu.has_avx = IN.cpu[3] & 1;
    g_cpu.has_avx2 = IN.cpu[4] & 1; g_cpu.has_avx512f = IN.cpu[5] & 1; g_cpu.has_avx512bw = IN.cpu[6] & 1;
    g_cpu.has_avx512vl = IN.cpu[7] & 1; g_cpu.has_avx512vbmi = IN.cpu[8] & 1;
#endif
    uint8_t rbuf[NB1]; size_t rlen = 0;
    uint8_t* vin = exact(IN.v, NB);
#if MODE == 1 || MODE == 3
    VERIF_ASSERT(ref_bss_encode(IN.v, VN, VW, rbuf, NB, &rlen) == REF_OK && rlen == NB, "harness: reference encodes");
    uint8_t* out = malloc(NB); VERIF_NOTNULL(out);
    size_t wr = (size_t)-1;
    VERIF_ASSERT(enc(vin, out, NB, &wr) == CARQUET_OK, "encoder returns OK with capacity == n*width");
    VERIF_ASSERT(wr == NB, "bytes_written == n*width");
    for (size_t i = 0; i < NB; i++) VERIF_ASSERT(out[i] == rbuf[i], "encoded bytes == reference byte-stream split");
#if MODE == 1 && VN > 0
    { uint8_t* sh = malloc(NB - 1); VERIF_NOTNULL(sh); size_t w2 = 0;
      VERIF_ASSERT(enc(vin, sh, NB - 1, &w2) != CARQUET_OK, "destination one byte too small is refused"); free(sh); }
#endif
#if MODE == 3
    uint8_t* o = malloc(NB); VERIF_NOTNULL(o);
    VERIF_ASSERT(dec(out, NB, o) == CARQUET_OK, "decoder returns OK");
    for (size_t i = 0; i < NB; i++) VERIF_ASSERT(o[i] == IN.v[i], "decode(encode(v)) == v");
    free(o);
#endif
    free(out);
#elif MODE == 2
    size_t nv = 0;
    VERIF_ASSERT(ref_bss_decode(IN.v, NB, VW, rbuf, NB, &nv) == REF_OK && nv == VN, "harness: reference decodes");
    uint8_t* o = malloc(NB); VERIF_NOTNULL(o);
    VERIF_ASSERT(dec(vin, NB, o) == CARQUET_OK, "decoder returns OK");
    for (size_t i = 0; i < NB; i++) VERIF_ASSERT(o[i] == rbuf[i], "decoded values == reference");
#if VN > 0
    { uint8_t* sh = exact(IN.v, NB - 1);
      VERIF_ASSERT(dec(sh, NB - 1, o) != CARQUET_OK, "stream one byte short is refused"); free(sh); }
#endif
    free(o);
#endif
    free(vin);
    VERIF_WITNESS();
}
#ifdef REPLAY
#include REPLAY_FILE
#endif
