/* C11/C12 — DELTA_BINARY_PACKED ENCODER, int32 and int64 (engine E1).
 * Real code: src/encoding/delta.c (carquet_delta_encode_int32/int64, delta_encoder_flush_block, write_uleb128,
 * zigzag_encode64, bit_width_required), src/core/bitpack.c (carquet_bitpack_32).
 * Oracle: ref_delta_decode_i32 / ref_delta_decode_i64 of /verif/ref (Parquet Encodings specification: block of 128 values,
 * 4 mini-blocks, zig-zag ULEB128 header/min delta, LSB-first bit-packed mini-blocks, arithmetic modulo 2^32 / 2^64).
 *   -DVT=32|64   -DVN=<concrete value count>
 *   -DVWIDE=<k>  positions 0..k-1 (spread over the sequence, see widx) carry arbitrary VT-bit values, every other position
 *                is previous + a symbolic signed 8-bit step (keeps long sequences tractable; VWIDE >= VN: all arbitrary)
 *   -DMODE=2     (with -DINCLUDE_IMPL: src/encoding/delta.c included to reach its static helpers) for EVERY 64-bit x:
 *                write_uleb128(x) == minimal ULEB128 of the specification (ref_uleb_write) and stays within 10 bytes,
 *                zigzag_encode64(x) == ref_zigzag64(x), bit_width_required(x) == number of significant bits of x.
 *                These are the three value-dependent pieces of the encoder; the rest of a block is carquet_bitpack_32 on
 *                32 values (obligations bitpack/pack_unpack_32/bw<w>/n32) and byte copies.
 *   -DMODE=1     encode -> reference decode == v, value count == n, bytes consumed by the reference == bytes_written,
 *                bytes_written <= capacity, nothing written outside the exact-size destination
 * The destination is an exact-size heap object of VCAP bytes (the API takes a raw pointer + capacity; 40 bytes minimum
 * demanded by the encoder + 14 per block + the mini-block bodies).
 *
 * Open findings compiled in with -DEXCLUDE_F_DELTA_WIDE / -DEXCLUDE_F_DELTA_EMPTY, see below. */
#include "c11_common.h"
#include <carquet/carquet.h>
#include "ref_codecs.h"
#ifdef INCLUDE_IMPL
#include "encoding/delta.c"          /* static helpers; resolved via -I<repo>/src */
#endif

#ifndef VT
#define VT 32
#endif
#ifndef VN
#define VN 3
#endif
#ifndef VWIDE
#define VWIDE VN
#endif
#define VNN (VN ? VN : 1)
#if VT == 32
typedef int32_t val_t; typedef uint32_t uval_t;
#define ENCODE carquet_delta_encode_int32
#define REFDEC ref_delta_decode_i32
#else
typedef int64_t val_t; typedef uint64_t uval_t;
#define ENCODE carquet_delta_encode_int64
#define REFDEC ref_delta_decode_i64
#endif
carquet_status_t carquet_delta_encode_int32(const int32_t* values, int32_t num_values, uint8_t* data, size_t data_capacity, size_t* bytes_written);
carquet_status_t carquet_delta_encode_int64(const int64_t* values, int32_t num_values, uint8_t* data, size_t data_capacity, size_t* bytes_written);

#define NDELTA (VN > 0 ? VN - 1 : 0)
#define NBLOCKS ((NDELTA + 127) / 128)
#define NMINI ((NDELTA + 31) / 32)
#ifndef VCAP
#define VCAP (40 + NBLOCKS * 14 + NMINI * 32 * 8)
#endif

struct in {
    val_t wide[VNN];     /* arbitrary values */
    int8_t step[VNN];    /* narrow steps */
    uint64_t x;          /* MODE 2 */
};
struct in nondet_in(void);

/* is position i one of the VWIDE arbitrary positions?  They are spread: first, last, and evenly in between. */
static int is_wide(int i) {
#if VWIDE >= VN
    (void)i; return 1;
#else
    if (VWIDE == 0) return 0;
    for (int k = 0; k < VWIDE; k++) {
        int pos = (VWIDE == 1) ? 0 : (int)(((long)k * (VN - 1)) / (VWIDE - 1));
        if (pos == i) return 1;
    }
    return 0;
#endif
}

static int bits_needed(uint64_t x) { int w = 0; while (x) { w++; x >>= 1; } return w; }

/* F-DELTA-WIDE trigger.  carquet computes deltas in 64-bit arithmetic (int32 input is sign-extended first, so its
 * deltas do not wrap at 32 bits), takes per block the signed minimum, and per mini-block the width of the largest
 * (delta - min).  Mini-blocks whose width is <= 32 are LSB-first bit-packed as the specification says; for a width w > 32
 * every value is stored in ceil(w/8) whole bytes instead.  That equals the specified bit-packing only when w is a
 * multiple of 8; and for INT32 a width above 32 is outside the format altogether (the specification computes INT32
 * deltas modulo 2^32, so no conforming reader accepts it).  The defect manifests iff some mini-block gets such a width. */
static int delta_wide_trigger(const val_t* v, int n) {
    int trig = 0;
    for (int b0 = 1; b0 < n; b0 += 128) {                    /* block = deltas of positions b0 .. b0+127 */
        int b1 = b0 + 128 < n ? b0 + 128 : n;
        int64_t mind = 0;
        for (int i = b0; i < b1; i++) {
            int64_t d = (int64_t)((uint64_t)(int64_t)v[i] - (uint64_t)(int64_t)v[i - 1]);
            if (i == b0 || d < mind) mind = d;
        }
        for (int m0 = b0; m0 < b1; m0 += 32) {
            int m1 = m0 + 32 < b1 ? m0 + 32 : b1;
            uint64_t mx = 0;
            for (int i = m0; i < m1; i++) {
                uint64_t a = ((uint64_t)(int64_t)v[i] - (uint64_t)(int64_t)v[i - 1]) - (uint64_t)mind;
                if (a > mx) mx = a;
            }
            int w = bits_needed(mx);
            if (w > 32 && (VT == 32 || (w % 8) != 0)) trig = 1;
        }
    }
    return trig;
}

/* width carquet's arithmetic gives the first mini-block (VN <= 33) */
static int first_width(const val_t* v, int n) {
    int64_t mind = 0; uint64_t mx = 0;
    for (int i = 1; i < n && i <= 32; i++) {
        int64_t d = (int64_t)((uint64_t)(int64_t)v[i] - (uint64_t)(int64_t)v[i - 1]);
        if (i == 1 || d < mind) mind = d;
    }
    for (int i = 1; i < n && i <= 32; i++) {
        uint64_t a = ((uint64_t)(int64_t)v[i] - (uint64_t)(int64_t)v[i - 1]) - (uint64_t)mind;
        if (a > mx) mx = a;
    }
    return bits_needed(mx);
}

#if MODE == 2
void harness(void) {
    struct in IN = nondet_in();
    uint8_t* o = malloc(10); VERIF_NOTNULL(o);            /* exact size of the longest 64-bit varint */
    uint8_t r[10]; size_t rp = 0;
    size_t k = write_uleb128(o, IN.x);
    VERIF_ASSERT(ref_uleb_write(IN.x, r, 10, &rp) == REF_OK, "harness: reference varint");
    VERIF_ASSERT(k == rp && k >= 1 && k <= 10, "varint length == minimal ULEB128 length");
    for (int i = 0; i < 10; i++) if ((size_t)i < k) VERIF_ASSERT(o[i] == r[i], "varint bytes == ULEB128 of the specification");
    VERIF_ASSERT(zigzag_encode64((int64_t)IN.x) == ref_zigzag64(IN.x), "zig-zag == specification");
    VERIF_ASSERT(bit_width_required(IN.x) == bits_needed(IN.x), "bit width == number of significant bits");
    free(o);
    VERIF_WITNESS();
}
#else
void harness(void) {
    struct in IN = nondet_in();
    val_t seq[VNN];
    for (int i = 0; i < VN; i++) {
        if (i == 0 || is_wide(i)) seq[i] = IN.wide[i];
        else seq[i] = (val_t)((uval_t)seq[i - 1] + (uval_t)(val_t)IN.step[i]);
    }
#ifdef EXCLUDE_F_DELTA_WIDE
    VERIF_ASSUME(!delta_wide_trigger(seq, VN));
#endif
#if defined(VWID) && VN >= 2
    /* case split (VN <= 33: one mini-block): this obligation covers the inputs whose mini-block width is exactly VWID */
    VERIF_ASSUME(first_width(seq, VN) == VWID);
#endif
    val_t* vin = (val_t*)exact(seq, (size_t)VN * sizeof(val_t));
    uint8_t* out = malloc(VCAP); VERIF_NOTNULL(out);
    size_t written = (size_t)-1;
    carquet_status_t st = ENCODE(vin, VN, out, VCAP, &written);
    VERIF_ASSERT(st == CARQUET_OK, "encoder returns OK");
    VERIF_ASSERT(written <= VCAP, "bytes_written within the capacity");
#if VN == 0 && defined(EXCLUDE_F_DELTA_EMPTY)
    /* open finding F-DELTA-EMPTY: for 0 values the encoder emits NOTHING (not even the 4-field header), which is not a
       DELTA_BINARY_PACKED stream: the reference decoder and carquet's own carquet_delta_decode_int32/64 reject it.
       The empty sequence is the only input of this obligation; what stays checked is that nothing is written. */
    VERIF_ASSERT(written == 0, "empty sequence: nothing emitted");
#else
    val_t o[VNN]; size_t nvals = (size_t)-1, cons = (size_t)-1;
    int rc = REFDEC(out, written, o, VN, &nvals, &cons);
    VERIF_ASSERT(rc == REF_OK, "reference decoder accepts the emitted stream");
    VERIF_ASSERT(nvals == VN, "header value count == n");
    VERIF_ASSERT(cons == written, "bytes_written == size of the stream (reference consumed all of it)");
    for (int i = 0; i < VN; i++) VERIF_ASSERT(o[i] == seq[i], "reference decode == v");
#endif
    free(out); free(vin);
    VERIF_WITNESS();
}
#endif
#ifdef REPLAY
#include REPLAY_FILE
#endif
