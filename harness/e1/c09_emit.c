/* C09/C10 — emission lemmas for the Snappy compressor (engine E1).  The end-to-end round-trip obligations (E2) reach inputs of
 * a few dozen bytes only, so match distances near the compressor's window limit never occur there.  These lemmas cover that
 * part compositionally: FOR EVERY (offset, len) the match finder may hand to snappy_emit_copy — offset in [1, SNAPPY_MAX_OFFSET]
 * (the window limit enforced by the match test in carquet_snappy_compress, taken from the source), len in [4, LMAX] — the
 * emitted bytes parse, per the Snappy format description, as copy elements whose lengths sum to len and whose offsets all
 * equal offset (so a decoder reproduces exactly the matched bytes).  MODE 2: literal headers decode to the literal length. */
#include "verif_e1.h"
#include "compression/snappy.c"      /* the real translation unit: static emit functions and the window constant */
#ifndef LMAX
#define LMAX 200
#endif
struct in { uint32_t offset; uint32_t len; uint8_t lit[70]; };
struct in nondet_in(void);

void harness(void) {
    struct in IN = nondet_in();
#if MODE == 1
    VERIF_ASSUME(IN.offset >= 1 && IN.offset <= SNAPPY_MAX_OFFSET);
    VERIF_ASSUME(IN.len >= 4 && IN.len <= LMAX);
    uint8_t out[3 * (LMAX / 60 + 3)];
    uint8_t* end = snappy_emit_copy(out, IN.offset, IN.len);
    size_t n = (size_t)(end - out), pos = 0; uint32_t total = 0;
    VERIF_ASSERT(n <= sizeof out, "emitted bytes within the scratch buffer");
    for (int k = 0; k < LMAX / 60 + 3 && pos < n; k++) {
        uint8_t tag = out[pos];
        uint32_t elen, eoff;
        if ((tag & 3) == 1) {            /* copy with 1-byte offset: len 4..11, 11-bit offset */
            VERIF_ASSERT(pos + 2 <= n, "copy-1 element complete");
            elen = 4 + ((tag >> 2) & 7); eoff = ((uint32_t)(tag >> 5) << 8) | out[pos + 1]; pos += 2;
        } else if ((tag & 3) == 2) {     /* copy with 2-byte offset: len 1..64 */
            VERIF_ASSERT(pos + 3 <= n, "copy-2 element complete");
            elen = 1 + (tag >> 2); eoff = out[pos + 1] | ((uint32_t)out[pos + 2] << 8); pos += 3;
        } else {
            VERIF_ASSERT(0, "emit_copy emits only copy elements with 1- or 2-byte offsets");
            return;
        }
        VERIF_ASSERT(eoff == IN.offset, "every emitted copy element carries the match offset (no truncation to the offset field width)");
        VERIF_ASSERT(eoff != 0, "offset 0 is invalid in the Snappy format");
        total += elen;
    }
    VERIF_ASSERT(pos == n && total == IN.len, "emitted copy elements cover exactly the match length");
#elif MODE == 3
    /* literal HEADERS for long literals: every length in [LLO, LHI] (the 1-, 2-, 3- and 4-byte length forms switch at 60, 256, 65536 and
       2^24 bytes); the literal bytes themselves are an arbitrary heap object, only the header and the end pointer are judged */
    VERIF_ASSUME(IN.len >= LLO && IN.len <= LHI);
    uint8_t* lit = malloc(IN.len); uint8_t* out = malloc((size_t)IN.len + 8);
    VERIF_NOTNULL(lit); VERIF_NOTNULL(out);
    uint8_t* end = snappy_emit_literal(out, lit, IN.len);
    uint8_t tag = out[0]; size_t hdr = 1; uint32_t l = 0; unsigned form = tag >> 2;
    VERIF_ASSERT((tag & 3) == 0, "literal tag");
    if (form < 60) l = form + 1;
    else { unsigned nb = form - 59; hdr = 1 + nb; for (unsigned k = 0; k < nb; k++) l |= (uint32_t)out[1 + k] << (8 * k); l += 1; }
    VERIF_ASSERT(l == IN.len, "literal header decodes to the literal length (format: stored value is length - 1, little endian)");
    VERIF_ASSERT((size_t)(end - out) == hdr + IN.len, "end pointer == header + literal bytes");
    free(lit); free(out);
#else
    VERIF_ASSUME(IN.len >= 1 && IN.len <= 70);
    uint8_t out[80];
    uint8_t* end = snappy_emit_literal(out, IN.lit, IN.len);
    uint8_t tag = out[0]; size_t hdr; uint32_t l;
    VERIF_ASSERT((tag & 3) == 0, "literal tag");
    if ((tag >> 2) < 60) { l = (tag >> 2) + 1; hdr = 1; }
    else { VERIF_ASSERT((tag >> 2) == 60, "one extra length byte for 61..256"); l = out[1] + 1u; hdr = 2; }
    VERIF_ASSERT(l == IN.len && (size_t)(end - out) == hdr + IN.len, "literal header decodes to the literal length");
    for (uint32_t i = 0; i < 70; i++) if (i < IN.len) VERIF_ASSERT(out[hdr + i] == IN.lit[i], "literal bytes copied");
#endif
    VERIF_WITNESS();
}
#ifdef REPLAY
#include REPLAY_FILE
#endif
