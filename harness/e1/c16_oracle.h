/* C16 — order oracles shared by the c16_*.c harnesses.  Written from the Parquet format specification
 * (sort orders of the physical types: signed for INT32/INT64, IEEE for FLOAT/DOUBLE, unsigned byte-wise
 * lexicographic for BYTE_ARRAY / FIXED_LEN_BYTE_ARRAY) and, where Parquet leaves the order open, from the order
 * carquet documents for its own statistics builder (INT96: three uint32 words, most significant word last in
 * memory; floating point: NaN sorts after every number).  Everything works on raw little-endian bytes / IEEE
 * bit patterns with integer arithmetic only — no floating-point operation and no carquet code is used. */
#ifndef C16_ORACLE_H
#define C16_ORACLE_H
#include <stdint.h>
#include <stddef.h>
#include <stdbool.h>

/* physical type numbering of the Parquet format (== carquet_physical_type_t) */
#define T_BOOL 0
#define T_I32 1
#define T_I64 2
#define T_I96 3
#define T_F32 4
#define T_F64 5
#define T_BA 6
#define T_FLBA 7

#define F32_QNAN 0x7fc00000u
#define F64_QNAN 0x7ff8000000000000ULL

static inline int o_sgn64(int64_t a, int64_t b) { return (a > b) - (a < b); }
static inline int o_sgnu64(uint64_t a, uint64_t b) { return (a > b) - (a < b); }
static inline uint64_t o_rd_le(const uint8_t* p, int n) { uint64_t v = 0; for (int i = n - 1; i >= 0; i--) v = (v << 8) | p[i]; return v; }
static inline void o_wr_le(uint8_t* p, int n, uint64_t v) { for (int i = 0; i < n; i++) p[i] = (uint8_t)(v >> (8 * i)); }

static inline bool o_f32_isnan(uint32_t u) { return (u & 0x7fffffffu) > 0x7f800000u; }
static inline bool o_f64_isnan(uint64_t u) { return (u & 0x7fffffffffffffffULL) > 0x7ff0000000000000ULL; }
/* strictly monotone integer key of a non-NaN IEEE value; -0.0 and +0.0 both map to 0 (they compare equal) */
static inline int64_t o_f32_key(uint32_t u) { int64_t m = (int64_t)(u & 0x7fffffffu); return (u >> 31) ? -m : m; }
static inline int64_t o_f64_key(uint64_t u) { int64_t m = (int64_t)(u & 0x7fffffffffffffffULL); return (u >> 63) ? -m : m; }

/* unsigned byte-wise lexicographic order, shorter string first when one is a prefix of the other */
static inline int o_cmp_lex(const uint8_t* a, size_t al, const uint8_t* b, size_t bl) {
    size_t n = al < bl ? al : bl;
    for (size_t i = 0; i < n; i++) if (a[i] != b[i]) return a[i] < b[i] ? -1 : 1;
    return (al > bl) - (al < bl);
}

/* three-way comparison of two values of physical type `t` given as plain-encoded bytes.
 * nan_last: floating point NaN compares after every number and equal to NaN (the statistics builder's
 * documented total order); without it the caller guarantees NaN-free operands (IEEE order). */
static inline int o_cmp(int t, const uint8_t* a, size_t al, const uint8_t* b, size_t bl, bool nan_last) {
    switch (t) {
    case T_BOOL: return o_sgn64(a[0], b[0]);
    case T_I32: return o_sgn64((int32_t)(uint32_t)o_rd_le(a, 4), (int32_t)(uint32_t)o_rd_le(b, 4));
    case T_I64: return o_sgn64((int64_t)o_rd_le(a, 8), (int64_t)o_rd_le(b, 8));
    case T_I96:
        for (int w = 2; w >= 0; w--) { uint64_t x = o_rd_le(a + 4 * w, 4), y = o_rd_le(b + 4 * w, 4); if (x != y) return x < y ? -1 : 1; }
        return 0;
    case T_F32: { uint32_t x = (uint32_t)o_rd_le(a, 4), y = (uint32_t)o_rd_le(b, 4);
        if (nan_last) { bool nx = o_f32_isnan(x), ny = o_f32_isnan(y); if (nx || ny) return (int)nx - (int)ny; }
        return o_sgn64(o_f32_key(x), o_f32_key(y)); }
    case T_F64: { uint64_t x = o_rd_le(a, 8), y = o_rd_le(b, 8);
        if (nan_last) { bool nx = o_f64_isnan(x), ny = o_f64_isnan(y); if (nx || ny) return (int)nx - (int)ny; }
        return o_sgn64(o_f64_key(x), o_f64_key(y)); }
    default: return o_cmp_lex(a, al, b, bl);
    }
}
static inline bool o_isnan(int t, const uint8_t* a) {
    return t == T_F32 ? o_f32_isnan((uint32_t)o_rd_le(a, 4)) : t == T_F64 ? o_f64_isnan(o_rd_le(a, 8)) : false;
}
/* plain-encoded width of the fixed-width types */
static inline int o_width(int t, int type_length) {
    switch (t) { case T_BOOL: return 1; case T_I32: case T_F32: return 4; case T_I64: case T_F64: return 8; case T_I96: return 12;
                 case T_FLBA: return type_length; default: return 0; }
}
/* predicate "x op p" for a three-way comparison result c = cmp(x, p); op numbering of carquet_compare_op_t
 * (EQ, NE, LT, LE, GT, GE) */
static inline bool o_op_holds(int op, int c) {
    switch (op) { case 0: return c == 0; case 1: return c != 0; case 2: return c < 0; case 3: return c <= 0; case 4: return c > 0; default: return c >= 0; }
}
#endif
