/* C11/C12 — RLE / bit-packing hybrid ENCODER, inductive obligations (engine E1): every length, every run structure.
 * Real code: src/encoding/rle.c (carquet_rle_encoder_init / _put / _flush, emit_pending_run, flush_rle, flush_bitpack,
 * write_varint, encoder_append), src/core/bitpack.c (carquet_bitpack8_32), src/core/buffer.c (carquet_buffer_append).
 *
 * The encoder is a state machine; its state between two calls is
 *     B   bytes already appended to the output buffer (always a sequence of COMPLETE runs),
 *     L   bitpack_buffer[0 .. bitpack_count): literals of an unfinished bit-packed group, bitpack_count <= 7,
 *     p^r the pending run: repeat_count copies of prev_value (has_prev),
 * and it stands for the value sequence  M(state) = decode(B) ++ L ++ p^r.   Obligations (bit width -DVBW concrete, everything
 * else symbolic, r up to 2^31-2):
 *   -DMODE=1  STEP:  from ANY state satisfying the invariant INV, put(x) appends bytes T that parse (specification grammar)
 *             into complete runs with   runs(T) ++ L' ++ p'^r'  ==  L ++ p^r ++ [x],  and INV holds again.
 *   -DMODE=2  FLUSH: from ANY state satisfying INV, flush() appends T with runs(T) == L ++ p^r followed by at most 7
 *             padding values, all inside the final bit-packed group, which also holds a real value (so a reader that
 *             takes exactly |L|+r values consumes every byte: reported size == stream size); nothing stays pending.
 *   -DMODE=3  INIT:  carquet_rle_encoder_init establishes INV with M = empty, buffer untouched.
 *   -DMODE=4  BUFFER: carquet_buffer_append(buf, d, k) on a buffer holding ANY s bytes: size s+k, old bytes intact, new
 *             bytes == d (so the bytes a call appends do not depend on what is already in the buffer, which is why
 *             STEP/FLUSH may start from an empty buffer).
 * By induction over the calls  init; put(v0); ...; put(v_{n-1}); flush  (what carquet_rle_encode_all and
 * carquet_rle_encode_levels do, checked end-to-end for small n by c11_rle.c) the emitted stream is a sequence of complete
 * runs whose values are v, for EVERY n.  The step from "runs(T1) ++ runs(T2)" to "decode(T1 ++ T2)" is the grammar of the
 * format (encoded-data := <run>*, each run self-delimiting), not something about carquet.
 *
 * Oracle: the run grammar of the Parquet Encodings specification spelled out here (header varint; odd: bit-packed run of
 * (h>>1) groups of 8 values; even: RLE run of h>>1 copies of a ceil(bw/8)-byte little-endian value), with the
 * reference primitives ref_uleb32_read / ref_bitunpack_lsb of /verif/ref for varints and bit order.
 * Sequences are compared through ONE symbolic index (all positions at once) because r is not bounded by the harness. */
#include "c11_common.h"
#include <carquet/carquet.h>
#include "encoding/rle.h"
#include "ref_codecs.h"

#ifndef VBW
#define VBW 3
#endif
#ifndef BUFCAP
#error "BUFCAP required"
#endif
#define MAXRUNS 4
#define RMAX 0x7ffffffeLL

struct in {
    uint32_t bp[8];
    uint8_t c;              /* bitpack_count */
    uint32_t p; int64_t r; uint8_t has_prev;
    uint32_t x;
    uint64_t idx;           /* the universally quantified position */
    uint8_t old[BUFCAP]; uint8_t add[8]; uint8_t s, k;   /* MODE 4 */
};
struct in nondet_in(void);

/* ---- specification side: the runs contained in T */
struct run { int rle; uint64_t count; uint32_t value; uint32_t lit[8]; };
static int nruns; static struct run runs[MAXRUNS];
static int parse_runs(const uint8_t* t, size_t len) {
    size_t pos = 0; nruns = 0;
    const int vbytes = (VBW + 7) / 8;
    for (int k = 0; k < MAXRUNS + 1; k++) {
        if (pos >= len) break;
        if (nruns >= MAXRUNS) return -1;
        uint32_t h;
        if (ref_uleb32_read(t, len, &pos, &h) != REF_OK) return -1;
        if (h & 1u) {
            if ((h >> 1) != 1) return -1;                     /* this harness handles one group per run (what carquet emits) */
            if (len - pos < (size_t)VBW) return -1;
            size_t cons = 0;
            if (ref_bitunpack_lsb(t + pos, VBW, VBW, runs[nruns].lit, 8, &cons) != REF_OK) return -1;
            runs[nruns].rle = 0; runs[nruns].count = 8; pos += VBW;
        } else {
            if (len - pos < (size_t)vbytes) return -1;
            uint32_t v = 0;
            for (int b = 0; b < vbytes; b++) v |= (uint32_t)t[pos + b] << (8 * b);
            if (VBW < 32 && (v >> VBW) != 0) return -1;       /* repeated value must fit the width */
            runs[nruns].rle = 1; runs[nruns].count = h >> 1; runs[nruns].value = v; pos += vbytes;
        }
        nruns++;
    }
    return pos == len ? 0 : -1;
}
static uint64_t runs_len(void) { uint64_t n = 0; for (int i = 0; i < MAXRUNS; i++) if (i < nruns) n += runs[i].count; return n; }
static uint32_t runs_at(uint64_t idx) {                       /* idx < runs_len() */
    uint64_t off = 0; uint32_t res = 0; int done = 0;
    for (int i = 0; i < MAXRUNS; i++) if (i < nruns && !done) {
        if (idx < off + runs[i].count) { res = runs[i].rle ? runs[i].value : runs[i].lit[(idx - off) & 7]; done = 1; }
        off += runs[i].count;
    }
    return res;
}

static int inv(const carquet_rle_encoder_t* e, const carquet_buffer_t* b) {
    return e->buffer == b && e->bit_width == VBW && e->status == CARQUET_OK &&
           e->bitpack_count >= 0 && e->bitpack_count <= 7 && e->bitpack_total == e->bitpack_count &&
           (e->has_prev ? (e->repeat_count >= 1 && e->repeat_count <= RMAX + 1) : (e->repeat_count == 0 && e->bitpack_count == 0));
}

void harness(void) {
    struct in IN = nondet_in();
    const uint32_t mask = VBW >= 32 ? 0xffffffffu : ((1u << VBW) - 1u);
    carquet_buffer_t buf; out_init(&buf);
#if MODE == 4
    VERIF_ASSUME(IN.s <= BUFCAP - 8 && IN.k <= 8);
    for (int i = 0; i < BUFCAP; i++) if (i < IN.s) buf.data[i] = IN.old[i];
    buf.size = IN.s;
    uint8_t* d = exact(IN.add, IN.k);
    VERIF_ASSERT(carquet_buffer_append(&buf, d, IN.k) == CARQUET_OK, "append returns OK");
    VERIF_ASSERT(buf.size == (size_t)IN.s + IN.k, "size grows by k");
    for (int i = 0; i < BUFCAP; i++) {
        if (i < IN.s) VERIF_ASSERT(buf.data[i] == IN.old[i], "bytes already in the buffer are untouched");
        else if (i < IN.s + IN.k) VERIF_ASSERT(buf.data[i] == IN.add[i - IN.s], "appended bytes == data");
    }
    free(d);
#elif MODE == 3
    carquet_rle_encoder_t e;
    carquet_rle_encoder_init(&e, &buf, VBW);
    VERIF_ASSERT(inv(&e, &buf) && !e.has_prev && buf.size == 0, "init establishes the invariant with nothing pending, nothing emitted");
#else
    /* ---- ANY state satisfying INV */
    carquet_rle_encoder_t e;
    memset(&e, 0, sizeof e);
    e.buffer = &buf; e.bit_width = VBW; e.status = CARQUET_OK;
    e.has_prev = IN.has_prev & 1; e.prev_value = IN.p; e.repeat_count = IN.r;
    e.bitpack_count = IN.c; e.bitpack_total = IN.c;
    for (int i = 0; i < 8; i++) { e.bitpack_buffer[i] = IN.bp[i]; VERIF_ASSUME(IN.bp[i] <= mask); }
    VERIF_ASSUME(IN.p <= mask && IN.x <= mask);
    VERIF_ASSUME(inv(&e, &buf) && IN.r <= RMAX);
    const uint64_t c = IN.c, r = (uint64_t)IN.r;
#if MODE == 1
    carquet_status_t st = carquet_rle_encoder_put(&e, IN.x);
    const uint64_t elen = c + r + 1;                          /* L ++ p^r ++ [x] */
#else
    carquet_status_t st = carquet_rle_encoder_flush(&e);
    const uint64_t elen = c + r;                              /* L ++ p^r */
#endif
    VERIF_ASSERT(st == CARQUET_OK, "call returns OK");
    VERIF_ASSERT(parse_runs(buf.data, buf.size) == 0, "appended bytes are a sequence of complete, well-formed runs");
    const uint64_t rl = runs_len();
#if MODE == 1
    VERIF_ASSERT(inv(&e, &buf) && e.has_prev, "invariant re-established");
    const uint64_t c2 = (uint64_t)e.bitpack_count, r2 = (uint64_t)e.repeat_count;
    VERIF_ASSERT(rl + c2 + r2 == elen, "no value lost or invented: |runs(T)| + |L'| + r' == |L| + r + 1");
    VERIF_ASSUME(IN.idx < elen);
    uint32_t expect = IN.idx < c ? IN.bp[IN.idx & 7] : (IN.idx < c + r ? IN.p : IN.x);
    uint32_t actual = IN.idx < rl ? runs_at(IN.idx) : (IN.idx < rl + c2 ? e.bitpack_buffer[(IN.idx - rl) & 7] : e.prev_value);
    VERIF_ASSERT(actual == expect, "runs(T) ++ L' ++ p'^r' == L ++ p^r ++ [x] at every position");
#else
    VERIF_ASSERT(e.bitpack_count == 0 && e.bitpack_total == 0 && e.repeat_count == 0 && e.status == CARQUET_OK, "nothing stays pending after flush");
    VERIF_ASSERT(rl >= elen && rl - elen <= 7, "runs(T) holds every pending value plus at most 7 padding values");
    if (nruns > 0) {
        VERIF_ASSERT(elen > rl - runs[nruns - 1].count, "the final run holds a real value: a reader of |L|+r values consumes every byte");
        VERIF_ASSERT(rl == elen || !runs[nruns - 1].rle, "padding only inside a final bit-packed group");
    } else VERIF_ASSERT(elen == 0, "nothing emitted only when nothing was pending");
    VERIF_ASSUME(IN.idx < elen);
    uint32_t expect = IN.idx < c ? IN.bp[IN.idx & 7] : IN.p;
    VERIF_ASSERT(runs_at(IN.idx) == expect, "runs(T) == L ++ p^r at every position");
#endif
#endif
    carquet_buffer_destroy(&buf);
    VERIF_WITNESS();
}
#ifdef REPLAY
#include REPLAY_FILE
#endif
