#include <stdlib.h>
/* verification stub: first allocation is a malloc; regrowth is asserted unreachable within the bound */
void *realloc(void *p, size_t n) {
  if (p == 0) { void *q = malloc(n); __CPROVER_assume(q != 0); return q; }
  __CPROVER_assert(0, "CUT: buffer regrowth reached within bound");
  __CPROVER_assume(0);
  return 0;
}
