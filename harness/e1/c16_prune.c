/* C16 — row-group pruning obligations (engine E1).  Real code: src/reader/statistics.c (carquet_reader_column_statistics,
 * carquet_reader_row_group_matches, carquet_reader_filter_row_groups) and carquet_reader_num_row_groups of
 * src/reader/file_reader.c.  No file is parsed: the harness builds the carquet_reader_t / schema / row-group metadata
 * directly (one leaf column) and gives every row group its own symbolic statistics.
 *   -DTYPE=<Parquet physical type>  -DNRG=<row groups>  -DLEN=<FLBA type_length | max BYTE_ARRAY length, lengths symbolic 0..LEN>
 *   -DMODE=1 row_group_matches + column_statistics on every group     -DMODE=2 filter_row_groups, output array of -DMAXI entries
 *   -DNANMODE=1 FLOAT/DOUBLE probe is NaN    -DNANMODE=2 min and/or max may be NaN (Parquet: such a bound must be ignored)
 * Per row group a symbolic `layout` decides where the statistics live:
 *   0 min_value/max_value   1 deprecated min/max   2 both (same bytes)   3 has_statistics=false   4 has_metadata=false
 *   5 only min_value   6 min_value + deprecated max   7 the row group has no column chunk (num_columns = 0)
 * Oracle (c16_oracle.h): x is a symbolic value of the row group, assumed min <= x <= max in the type's order (statistics are
 * true bounds); if "x op probe" holds the group must be reported as might-match.  Absent statistics => might-match.
 * filter_row_groups must return exactly the ascending list of the groups row_group_matches reports, cut at max_indices. */
#include "verif_e1.h"
#include <carquet/carquet.h>
#include "reader/reader_internal.h"
#include "c16_oracle.h"

#ifndef TYPE
#define TYPE T_I32
#endif
#ifndef NRG
#define NRG 1
#endif
#ifndef LEN
#define LEN 3
#endif
#ifndef MAXI
#define MAXI NRG
#endif
#ifndef NANMODE
#define NANMODE 0
#endif
#ifdef EXCLUDE_F_PRUNE_NAN
/* known finding F-PRUNE-NAN: the pruning code neither ignores NaN min/max nor handles a NaN probe (x != NaN pruned).
   With the finding excluded the NaN obligations fall back to the NaN-free input class. */
#undef NANMODE
#define NANMODE 0
#endif
#define VARLEN (TYPE == T_BA)
#define W (TYPE == T_BOOL ? 1 : TYPE == T_I32 || TYPE == T_F32 ? 4 : TYPE == T_I64 || TYPE == T_F64 ? 8 : TYPE == T_I96 ? 12 : (LEN ? LEN : 1))
#define ISFLT (TYPE == T_F32 || TYPE == T_F64)

/* packed: CBMC reports struct padding as `$padN` members in its traces, which the replay generator of lib/e1.py cannot
   write back into a C initialiser; without padding every counterexample replays */
struct __attribute__((packed)) grp {
    uint8_t min[W], max[W], x[W];
    uint8_t lmin, lmax, lx;         /* BYTE_ARRAY lengths (0..LEN) */
    uint8_t layout;
    uint8_t has_nulls; int64_t nulls;
    uint8_t min_nan, max_nan;       /* NANMODE 2 */
};
struct __attribute__((packed)) in {
    struct grp g[NRG];
    uint8_t probe[W]; uint8_t lprobe;
    uint8_t op;
};
struct in nondet_in(void);

static uint8_t* heap_copy(const uint8_t* src, size_t n) {      /* exact-size heap object */
    uint8_t* p = malloc(n); VERIF_NOTNULL(p);
    for (size_t i = 0; i < n; i++) p[i] = src[i];
    return p;
}

void harness(void) {
    struct in IN = nondet_in();
    VERIF_ASSUME(IN.op <= 5);
    size_t lp = VARLEN ? IN.lprobe : W;
    VERIF_ASSUME(lp <= (VARLEN ? LEN : W));
#if NANMODE == 1
    o_wr_le(IN.probe, W, TYPE == T_F32 ? F32_QNAN : F64_QNAN);
#else
    if (ISFLT) VERIF_ASSUME(!o_isnan(TYPE, IN.probe));
#endif
    uint8_t* probe = heap_copy(IN.probe, lp);

    /* ---- reader with one leaf column of TYPE */
    static carquet_reader_t R; static carquet_schema_t S;
    static parquet_schema_element_t elems[2];
    static int32_t leaf_idx[1] = { 1 };
    static parquet_row_group_t rgs[NRG];
    static parquet_column_chunk_t chunks[NRG];
    memset(&R, 0, sizeof R); memset(&S, 0, sizeof S); memset(elems, 0, sizeof elems); memset(rgs, 0, sizeof rgs); memset(chunks, 0, sizeof chunks);
    elems[0].num_children = 1;
    elems[1].has_type = true; elems[1].type = (carquet_physical_type_t)TYPE; elems[1].type_length = TYPE == T_FLBA ? LEN : 0;
    S.elements = elems; S.num_elements = 2; S.leaf_indices = leaf_idx; S.num_leaves = 1;
    R.schema = &S; R.metadata.row_groups = rgs; R.metadata.num_row_groups = NRG; R.is_open = true;

    uint8_t* bmin[NRG]; uint8_t* bmax[NRG]; bool present[NRG]; bool x_matches[NRG];
    for (int g = 0; g < NRG; g++) {
        struct grp* G = &IN.g[g];
#ifdef BADLEN
        /* file-supplied statistics of the WRONG size for a fixed-width column (a malformed or hostile footer): min/max are exact-size heap
           objects of 1..W bytes; such statistics bound nothing - the calls must stay inside them (CBMC bounds checks) and keep the group */
        size_t lmin = G->lmin, lmax = G->lmax, lx = W;
        VERIF_ASSUME(lmin >= 1 && lmin <= W && lmax >= 1 && lmax <= W && (lmin < W || lmax < W));
#else
        size_t lmin = VARLEN ? G->lmin : W, lmax = VARLEN ? G->lmax : W, lx = VARLEN ? G->lx : W;
        VERIF_ASSUME(lmin <= (VARLEN ? LEN : W) && lmax <= (VARLEN ? LEN : W) && lx <= (VARLEN ? LEN : W));
#endif
        VERIF_ASSUME(G->layout <= 7);
        bool lo_ignored = false, hi_ignored = false;
#if NANMODE == 2
        if (G->min_nan) { o_wr_le(G->min, W, TYPE == T_F32 ? F32_QNAN : F64_QNAN); lo_ignored = true; }
        if (G->max_nan) { o_wr_le(G->max, W, TYPE == T_F32 ? F32_QNAN : F64_QNAN); hi_ignored = true; }
#endif
        if (ISFLT) VERIF_ASSUME((lo_ignored || !o_isnan(TYPE, G->min)) && (hi_ignored || !o_isnan(TYPE, G->max)) && !o_isnan(TYPE, G->x));
        /* statistics are true bounds of the row group's value x (a NaN bound says nothing and is ignored, as Parquet prescribes) */
#ifdef BADLEN
        x_matches[g] = true;                 /* statistics of the wrong size say nothing: the group must be kept whatever it holds */
#else
        if (!lo_ignored) VERIF_ASSUME(o_cmp(TYPE, G->min, lmin, G->x, lx, false) <= 0);
        if (!hi_ignored) VERIF_ASSUME(o_cmp(TYPE, G->x, lx, G->max, lmax, false) <= 0);
        x_matches[g] = o_op_holds(IN.op, o_cmp(TYPE, G->x, lx, IN.probe, lp, false));
#endif
#if NANMODE == 1
        x_matches[g] = IN.op == 1;           /* IEEE: x != NaN holds for every x, every other comparison with NaN is false */
#endif
        bmin[g] = heap_copy(G->min, lmin); bmax[g] = heap_copy(G->max, lmax);
        parquet_column_chunk_t* c = &chunks[g];
        parquet_statistics_t* st = &c->metadata.statistics;
        c->has_metadata = G->layout != 4;
        c->metadata.type = (carquet_physical_type_t)TYPE;
        c->metadata.num_values = 1000 + g;
        c->metadata.has_statistics = G->layout != 3;
        st->has_null_count = G->has_nulls != 0; st->null_count = G->nulls;
        if (G->layout == 0 || G->layout == 2 || G->layout == 5 || G->layout == 6) { st->min_value = bmin[g]; st->min_value_len = (int32_t)lmin; }
        if (G->layout == 0 || G->layout == 2) { st->max_value = bmax[g]; st->max_value_len = (int32_t)lmax; }
        if (G->layout == 1 || G->layout == 2) { st->min_deprecated = bmin[g]; st->min_deprecated_len = (int32_t)lmin; }
        if (G->layout == 1 || G->layout == 2 || G->layout == 6) { st->max_deprecated = bmax[g]; st->max_deprecated_len = (int32_t)lmax; }
        rgs[g].columns = c; rgs[g].num_columns = G->layout == 7 ? 0 : 1; rgs[g].num_rows = 1000 + g;
        /* a zero-length binary cannot be told from an absent one in carquet's metadata structs */
        present[g] = G->layout <= 2 && lmin > 0 && lmax > 0;
#ifdef EXCLUDE_F_PRUNE_BOOL4
        /* known finding: BOOLEAN min/max/probe (1 byte each) are compared as 4-byte integers */
        if (TYPE == T_BOOL) VERIF_ASSUME(!present[g]);
#endif
    }

    bool L[NRG];
    for (int g = 0; g < NRG; g++) {
        struct grp* G = &IN.g[g];
        bool mm = false;
        carquet_status_t s = carquet_reader_row_group_matches(&R, g, 0, (carquet_compare_op_t)IN.op, probe, (int32_t)lp, &mm);
        L[g] = mm || s != CARQUET_OK;
        if (G->layout == 7) VERIF_ASSERT(s != CARQUET_OK && mm, "missing column chunk: error status, still might-match");
        else VERIF_ASSERT(s == CARQUET_OK, "row_group_matches succeeds");
        if (!present[g]) VERIF_ASSERT(mm, "absent statistics always mean might-match");
        if (x_matches[g]) VERIF_ASSERT(mm, "a row group that contains a matching value is reported as might-match");
#if MODE == 1
        carquet_column_statistics_t cs;
        s = carquet_reader_column_statistics(&R, g, 0, &cs);
        if (G->layout == 7) { VERIF_ASSERT(s != CARQUET_OK, "missing column chunk is an error"); continue; }
        VERIF_ASSERT(s == CARQUET_OK, "column_statistics succeeds");
        VERIF_ASSERT(cs.has_min_max == present[g], "min/max are reported iff given in the new or in the deprecated fields");
        if (cs.has_min_max) {
            VERIF_ASSERT(cs.min_value == bmin[g] && cs.max_value == bmax[g], "reported min/max are the stored min/max (not swapped)");
#ifndef BADLEN
            VERIF_ASSERT((size_t)cs.min_value_size == (VARLEN ? G->lmin : W) && (size_t)cs.max_value_size == (VARLEN ? G->lmax : W), "reported sizes are the stored sizes");
#endif
        }
        if (G->layout <= 2 || G->layout == 5 || G->layout == 6) {
            VERIF_ASSERT(cs.has_null_count == (G->has_nulls != 0), "null_count presence passes through");
            if (cs.has_null_count) VERIF_ASSERT(cs.null_count == G->nulls, "null_count passes through");
            VERIF_ASSERT(cs.num_values == 1000 + g, "num_values passes through");
        }
#endif
    }
#if MODE == 1
    {   /* out-of-range indices are errors, never a crash */
        carquet_column_statistics_t cs; bool mm = false;
        VERIF_ASSERT(carquet_reader_column_statistics(&R, NRG, 0, &cs) != CARQUET_OK, "row group index out of range is rejected");
        VERIF_ASSERT(carquet_reader_column_statistics(&R, -1, 0, &cs) != CARQUET_OK, "negative row group index is rejected");
        VERIF_ASSERT(carquet_reader_column_statistics(&R, 0, 1, &cs) != CARQUET_OK, "column index out of range is rejected");
        VERIF_ASSERT(carquet_reader_row_group_matches(&R, 0, 1, (carquet_compare_op_t)IN.op, probe, (int32_t)lp, &mm) != CARQUET_OK && mm, "bad column: error and might-match");
    }
#endif
#if MODE == 2
    int32_t* out = malloc(sizeof(int32_t) * MAXI); VERIF_NOTNULL(out);     /* exact size: writing entry MAXI is out of bounds */
    int32_t n = carquet_reader_filter_row_groups(&R, 0, (carquet_compare_op_t)IN.op, probe, (int32_t)lp, out, MAXI);
#if MAXI == 0
    VERIF_ASSERT(n <= 0, "max_indices 0: nothing can be returned");
#else
    int32_t want[NRG + 1]; int32_t nw = 0;
    for (int g = 0; g < NRG; g++) if (L[g] && nw < MAXI) want[nw++] = g;
    VERIF_ASSERT(n == nw, "filter_row_groups returns min(max_indices, number of might-match groups)");
    for (int i = 0; i < nw && i < n; i++) VERIF_ASSERT(out[i] == want[i], "filter_row_groups returns the ascending list of might-match groups");
    /* no false negative among the first groups: every group with a matching value that fits under the cap is listed */
    int listed = 0;
    for (int g = 0; g < NRG; g++) {
        bool in_list = false;
        for (int i = 0; i < n && i < MAXI; i++) if (out[i] == g) in_list = true;
        if (x_matches[g] && listed < MAXI) VERIF_ASSERT(in_list, "a row group with a matching value is in the list unless the cap was reached");
        if (in_list) listed++;
    }
#endif
    free(out);
#endif
    for (int g = 0; g < NRG; g++) { free(bmin[g]); free(bmax[g]); }
    free(probe);
    VERIF_WITNESS();
}
#ifdef REPLAY
#include REPLAY_FILE
#endif
