/* C14 — CRC-32 obligations (engine E1).  Real code: src/util/crc32.c (slicing-by-8, tables filled lazily by
 * crc32_init_tables on the first call).  The real translation unit is #included so that the static tables, the
 * static init and the static worker are reachable; carquet_crc32 / carquet_crc32_update are the exported
 * wrappers (x86 build: no hardware path, both call crc32_slicing_by_8).
 *
 * Oracle: the bit-at-a-time reflected CRC-32 of IEEE 802.3 / RFC 1952 (polynomial 0xEDB88320, register preset
 * to all ones, result complemented) written below; it uses no table and shares nothing with carquet.
 *
 * -DMODE  obligation                 other -D
 *   1     L1  table entries          K = table 0..7 (all 256 entries, concrete evaluation of the real init)
 *   2     L2  GF(2)-linearity        K = table
 *   3     L3  tail path              LEN 0..7, OFF 0..7 (buffer offset inside the heap object), symbolic crc
 *   4     L4  one 8-byte step        LANES = bit mask of the data bytes that are symbolic (others 0), REGLANES = bit
 *                                    mask of the bytes of the incoming register (= ~crc) that are symbolic (others 0), OFF
 *   5     L5  update composes        LA, LB (|a|, |b|), SYMMASK (symbolic bytes of a||b), ORACLE: also compare with the oracle
 *   6     monolithic                 LEN, OFF, SYMMASK: carquet_crc32(buf, LEN) == oracle; bytes selected by SYMMASK
 *                                    symbolic (default all), the others fixed non-zero constants
 *   8     real 8-byte step additive  raw(v^e) == raw(v) ^ raw(e), raw(r,d) = ~update(~r, d, 8); XLANE: lane of e (-1 = all)
 *  10     reference composes         LA, LB
 *  11     L4 all single lanes        OFF (one query for the 4 register lanes and the 8 data lanes)
 *   9     oracle step additive       same for the bitwise oracle (turns the linearity argument into linear algebra)
 *   7     lazy init                  first call initialises, tables are not touched by later calls        */
#include "verif_e1.h"
#include "util/crc32.c"   /* resolved via -I<repo>/src */

#ifndef MODE
#define MODE 3
#endif
#ifndef K
#define K 0
#endif
#ifndef LEN
#define LEN 4
#endif
#ifndef OFF
#define OFF 0
#endif
#ifndef LANES
#define LANES 1
#endif
#ifndef REGLANES
#define REGLANES 0
#endif
#ifndef XLANE
#define XLANE (-1)
#endif
#ifndef SYMMASK
#define SYMMASK 0xFFFFFFu
#endif
#ifndef LA
#define LA 1
#endif
#ifndef LB
#define LB 1
#endif
#define MAXB 24

/* ---------------------------------------------------------------- oracle (IEEE 802.3 / RFC 1952 sect. 8) */
/* raw register transition for one message byte, bit at a time, least significant bit first */
static uint32_t o_reg_byte(uint32_t reg, uint8_t b) {
    reg ^= (uint32_t)b;
    for (int i = 0; i < 8; i++) reg = (reg & 1u) ? ((reg >> 1) ^ 0xEDB88320u) : (reg >> 1);
    return reg;
}
/* zlib convention: crc32(crc, p, n); pass 0 to start */
static uint32_t o_crc32_update(uint32_t crc, const uint8_t* p, size_t n) {
    uint32_t reg = crc ^ 0xFFFFFFFFu;
    for (size_t i = 0; i < n; i++) reg = o_reg_byte(reg, p[i]);
    return reg ^ 0xFFFFFFFFu;
}
/* definition of slicing table k: register after message byte v followed by k zero bytes, register preset 0 */
static uint32_t o_table_entry(int k, uint32_t v) {
    uint32_t reg = o_reg_byte(0, (uint8_t)v);
    for (int z = 0; z < k; z++) reg = o_reg_byte(reg, 0);
    return reg;
}

struct in {
    uint8_t bytes[MAXB];
    uint8_t bytes2[8];
    uint32_t crc, crc2;
    uint8_t a, b;
    uint8_t regb[4];
};
struct in nondet_in(void);

/* copy n symbolic bytes to offset OFF of an exact-size heap object (any access outside [OFF, OFF+n) that leaves
   the object is a bounds violation; the bytes below OFF are a canary checked for not being read into the result
   by construction: they are never initialised from IN) */
static uint8_t* place(const uint8_t* src, size_t n) {
    uint8_t* obj = malloc(OFF + n ? OFF + n : 1);
    VERIF_NOTNULL(obj);
    for (size_t i = 0; i < OFF; i++) obj[i] = 0xA5;
    for (size_t i = 0; i < n; i++) obj[OFF + i] = src[i];
    return obj;
}

void harness(void) {
    struct in IN = nondet_in();
#if MODE == 1
    /* L1: run the real initialiser (concrete), compare all 256 entries of table K with the bitwise definition */
    VERIF_ASSERT(crc32_tables_initialized == 0, "tables start uninitialised");
    crc32_init_tables();
    VERIF_ASSERT(crc32_tables_initialized == 1, "init marks the tables initialised");
    for (int i = 0; i < 256; i++)
        VERIF_ASSERT(crc32_tables[K][i] == o_table_entry(K, (uint32_t)i), "table entry == CRC register after byte i and K zero bytes");
#elif MODE == 2
    /* L2: table K is GF(2)-linear in its index */
    crc32_init_tables();
    VERIF_ASSERT(crc32_tables[K][0] == 0, "T[0] == 0");
    VERIF_ASSERT(crc32_tables[K][IN.a ^ IN.b] == (crc32_tables[K][IN.a] ^ crc32_tables[K][IN.b]), "T[a^b] == T[a]^T[b]");
#elif MODE == 3
    /* L3: byte-at-a-time tail (length < 8) from every incoming crc, buffer at offset OFF */
    uint8_t* obj = place(IN.bytes, LEN);
    uint32_t got = carquet_crc32_update(IN.crc, obj + OFF, LEN);
    VERIF_ASSERT(got == o_crc32_update(IN.crc, IN.bytes, LEN), "tail path == bitwise CRC-32 for every incoming crc");
    free(obj);
#elif MODE == 4
    /* L4: one 8-byte slicing step == eight bitwise byte steps; only the data bytes selected by LANES are symbolic */
    uint8_t d[8];
    for (int i = 0; i < 8; i++) d[i] = ((LANES >> i) & 1) ? IN.bytes[i] : 0;
    uint32_t reg = 0;
    for (int j = 0; j < 4; j++) if ((REGLANES >> j) & 1) reg |= (uint32_t)IN.regb[j] << (8 * j);
    uint32_t c0 = ~reg;   /* update() complements the incoming value: the register entering the step is `reg` */
    uint8_t* obj = place(d, 8);
    uint32_t got = carquet_crc32_update(c0, obj + OFF, 8);
    VERIF_ASSERT(got == o_crc32_update(c0, d, 8), "8-byte slicing step == eight bitwise byte steps");
    free(obj);
#elif MODE == 5
    /* L5: incremental update composes (and, with -DORACLE, equals the reference on the concatenation); bytes of
       a||b selected by SYMMASK are symbolic, the others fixed constants */
    uint8_t d[MAXB];
    for (int i = 0; i < LA + LB; i++) d[i] = ((SYMMASK >> i) & 1) ? IN.bytes[i] : (uint8_t)(i * 37 + 11);
    uint8_t* a = place(d, LA);
    uint8_t* ab = malloc(LA + LB ? LA + LB : 1);
    VERIF_NOTNULL(ab);
    for (int i = 0; i < LA + LB; i++) ab[i] = d[i];
    uint8_t* b = malloc(LB ? LB : 1);
    VERIF_NOTNULL(b);
    for (int i = 0; i < LB; i++) b[i] = d[LA + i];
    uint32_t ca = carquet_crc32(a + OFF, LA);
    uint32_t inc = carquet_crc32_update(ca, b, LB);
    VERIF_ASSERT(inc == carquet_crc32(ab, LA + LB), "update(crc(a), b) == crc(a||b)");
#ifdef ORACLE
    VERIF_ASSERT(inc == o_crc32_update(0, d, LA + LB), "update(crc(a), b) == reference CRC-32 of a||b");
#endif
    VERIF_ASSERT(carquet_crc32_update(0, a + OFF, LA) == ca, "crc(a) == update(0, a)");
    VERIF_ASSERT(carquet_crc32_update(ca, b, 0) == ca, "update with no bytes is the identity");
    free(a); free(ab); free(b);
#elif MODE == 6
    /* monolithic: every byte string of length LEN */
    uint8_t d[MAXB];
    for (int i = 0; i < LEN; i++) d[i] = ((SYMMASK >> i) & 1) ? IN.bytes[i] : (uint8_t)(i * 37 + 11);
    uint8_t* obj = place(d, LEN);
    VERIF_ASSERT(carquet_crc32(obj + OFF, LEN) == o_crc32_update(0, d, LEN), "carquet_crc32 == IEEE 802.3 CRC-32");
    free(obj);
#elif MODE == 7
    /* lazy initialisation: the first call fills the tables, a later call leaves them alone (same answer twice) */
    uint8_t* obj = place(IN.bytes, LEN);
    VERIF_ASSERT(crc32_tables_initialized == 0, "tables start uninitialised");
    uint32_t r1 = carquet_crc32(obj + OFF, LEN);
    VERIF_ASSERT(crc32_tables_initialized == 1, "first call initialises");
    uint32_t t7 = crc32_tables[7][255], t0 = crc32_tables[0][1];
    uint32_t r2 = carquet_crc32(obj + OFF, LEN);
    VERIF_ASSERT(r1 == r2, "same answer on the second call");
    VERIF_ASSERT(crc32_tables[7][255] == t7 && crc32_tables[0][1] == t0 && t0 == 0x77073096u, "tables unchanged by later calls");
    /* RFC 1952 / ITU-T V.42 check value */
    static const uint8_t chk[9] = {'1','2','3','4','5','6','7','8','9'};
    VERIF_ASSERT(carquet_crc32(chk, 9) == 0xCBF43926u, "check value CRC(\"123456789\") == 0xCBF43926");
    VERIF_ASSERT(o_crc32_update(0, chk, 9) == 0xCBF43926u, "oracle reproduces the published check value");
    free(obj);
#elif MODE == 8
    /* the real 8-byte step is additive over GF(2) in (register, data): raw(v ^ e) == raw(v) ^ raw(e) for every v
       (32-bit register + 8 data bytes, all symbolic) and every e; XLANE < 0: e arbitrary, XLANE 0..3: e has only
       register byte XLANE non-zero, XLANE 4..11: e has only data byte XLANE-4 non-zero */
    uint8_t e[8]; uint32_t er;
#if XLANE < 0
    for (int i = 0; i < 8; i++) e[i] = IN.bytes2[i];
    er = IN.crc2;
#else
    for (int i = 0; i < 8; i++) e[i] = (XLANE - 4 == i) ? IN.a : 0;
    er = (XLANE < 4) ? (uint32_t)IN.a << (8 * (XLANE & 3)) : 0u;
#endif
    uint8_t x[8]; for (int i = 0; i < 8; i++) x[i] = IN.bytes[i] ^ e[i];
    uint8_t* p1 = place(IN.bytes, 8); uint8_t* p2 = place(e, 8); uint8_t* px = place(x, 8);
    uint32_t f1 = ~carquet_crc32_update(~IN.crc, p1 + OFF, 8);
    uint32_t f2 = ~carquet_crc32_update(~er, p2 + OFF, 8);
    uint32_t fx = ~carquet_crc32_update(~(IN.crc ^ er), px + OFF, 8);
    VERIF_ASSERT(fx == (f1 ^ f2), "real 8-byte step: raw(v ^ e) == raw(v) ^ raw(e)");
    free(p1); free(p2); free(px);
#elif MODE == 10
    /* the reference itself composes in the zlib convention (so update == reference for every incoming crc implies L5) */
    uint32_t oa = o_crc32_update(0, IN.bytes, LA);
    VERIF_ASSERT(o_crc32_update(oa, IN.bytes + LA, LB) == o_crc32_update(0, IN.bytes, LA + LB), "reference: update(crc(a), b) == crc(a||b)");
#elif MODE == 11
    /* L4, all twelve single lanes in one query: only one byte of (register, data) non-zero at a time */
    for (int lane = 0; lane < 12; lane++) {
        uint8_t d[8];
        for (int i = 0; i < 8; i++) d[i] = (lane - 4 == i) ? IN.a : 0;
        uint32_t reg = (lane < 4) ? (uint32_t)IN.a << (8 * (lane & 3)) : 0u;
        uint8_t* obj = place(d, 8);
        VERIF_ASSERT(carquet_crc32_update(~reg, obj + OFF, 8) == o_crc32_update(~reg, d, 8), "8-byte step == bitwise on a single non-zero lane");
        free(obj);
    }
#elif MODE == 9
    /* the bitwise register transition over 8 bytes is additive over GF(2) in (register, data) */
    uint8_t x[8]; for (int i = 0; i < 8; i++) x[i] = IN.bytes[i] ^ IN.bytes2[i];
    uint32_t g1 = ~o_crc32_update(~IN.crc, IN.bytes, 8);
    uint32_t g2 = ~o_crc32_update(~IN.crc2, IN.bytes2, 8);
    uint32_t gx = ~o_crc32_update(~(IN.crc ^ IN.crc2), x, 8);
    VERIF_ASSERT(gx == (g1 ^ g2), "bitwise 8-byte transition: raw(r1^r2, d1^d2) == raw(r1,d1) ^ raw(r2,d2)");
#endif
    VERIF_WITNESS();
}
#ifdef REPLAY
#include REPLAY_FILE
#endif
