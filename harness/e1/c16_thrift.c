/* C16 — the Thrift Statistics struct <-> parquet_statistics_t field mapping (engine E1).  Real code: the static
 * parse_statistics / write_statistics of src/thrift/parquet_types.c (#included verbatim) with thrift_decode.c / thrift_encode.c.
 * A swapped min/max or a new-vs-deprecated mix-up here would turn true bounds in the file into false ones in memory.
 *   -DFIELDS=<bit mask: 1 max (deprecated, id 1) | 2 min (deprecated, id 2) | 4 null_count (3) | 8 distinct_count (4) |
 *             16 max_value (5) | 32 min_value (6)>       concrete per query
 *   -DNULLS / -DDISTINCT  concrete counts in -64..63 (one-byte zig-zag varints)
 *   -DLEN=<length of the max binaries; the min binaries are one byte longer (unequal lengths)>
 *   -DMODE=1 parse: the compact-protocol bytes are laid out here from the Thrift specification, payload bytes symbolic
 *   -DMODE=2 write: write_statistics output must equal that layout
 * Oracle: Thrift compact protocol (field header = (id delta << 4) | wire type, binary = 8 with ULEB128 length, i64 = 6 as
 * zig-zag varint, stop = 0) and parquet.thrift's field ids; shares no code with carquet. */
#include "verif_e1.h"
#include <carquet/carquet.h>
#include "thrift/parquet_types.c"        /* resolved through -I<repo>/src, i.e. the tree under check */

/* STUB: the arena is replaced by malloc + memcpy.  carquet_arena_alloc_aligned aligns on the absolute block address, which
   makes every offset into its 64 KiB block symbolic for CBMC (each later byte read becomes a 64 Ki-way case split); where the
   copies live is irrelevant to the field <-> slot mapping checked here. */
void* carquet_arena_memdup(carquet_arena_t* arena, const void* src, size_t size) {
    (void)arena; void* p = malloc(size); if (p) memcpy(p, src, size); return p;
}

#ifndef FIELDS
#define FIELDS 63
#endif
#ifndef LEN
#define LEN 3
#endif
#define LMAX LEN
#define LMIN (LEN + 1)

struct in {
    uint8_t maxd[LMAX], mind[LMIN], maxv[LMAX], minv[LMIN];
};
/* the two counts are concrete (a symbolic varint makes the byte layout symbolic and the query explode; the varint codec
   itself is not the subject here, the field <-> slot mapping is) */
#ifndef NULLS
#define NULLS 37
#endif
#ifndef DISTINCT
#define DISTINCT (-9)
#endif
struct in nondet_in(void);

static size_t put_bin(uint8_t* o, size_t pos, int id, int* last, const uint8_t* p, size_t n) {
    o[pos++] = (uint8_t)(((id - *last) << 4) | 8); *last = id;
    o[pos++] = (uint8_t)n;                                   /* n < 128 */
    for (size_t i = 0; i < n; i++) o[pos++] = p[i];
    return pos;
}
static size_t put_i64(uint8_t* o, size_t pos, int id, int* last, int8_t v) {
    o[pos++] = (uint8_t)(((id - *last) << 4) | 6); *last = id;
    o[pos++] = (uint8_t)(((uint8_t)v << 1) ^ (uint8_t)(v >> 7)) & 0x7f;   /* zig-zag of a value in -64..63 */
    return pos;
}
/* reference encoding of the Statistics struct */
static size_t layout(uint8_t* o, const struct in* I) {
    size_t pos = 0; int last = 0;
    if (FIELDS & 1) pos = put_bin(o, pos, 1, &last, I->maxd, LMAX);
    if (FIELDS & 2) pos = put_bin(o, pos, 2, &last, I->mind, LMIN);
    if (FIELDS & 4) pos = put_i64(o, pos, 3, &last, (int8_t)NULLS);
    if (FIELDS & 8) pos = put_i64(o, pos, 4, &last, (int8_t)DISTINCT);
    if (FIELDS & 16) pos = put_bin(o, pos, 5, &last, I->maxv, LMAX);
    if (FIELDS & 32) pos = put_bin(o, pos, 6, &last, I->minv, LMIN);
    o[pos++] = 0;
    return pos;
}
static bool same(const uint8_t* a, const uint8_t* b, size_t n) { for (size_t i = 0; i < n; i++) if (a[i] != b[i]) return false; return true; }

void harness(void) {
    struct in IN = nondet_in();
    uint8_t tmp[4 * (LEN + 4) + 8];
    size_t n = layout(tmp, &IN);
#if MODE == 1
    uint8_t* buf = malloc(n); VERIF_NOTNULL(buf);              /* exact-size input */
    for (size_t i = 0; i < n; i++) buf[i] = tmp[i];
    carquet_arena_t arena; memset(&arena, 0, sizeof arena);   /* only handed to the stubbed carquet_arena_memdup below */
    thrift_decoder_t dec; thrift_decoder_init(&dec, buf, n);
    parquet_statistics_t st;
    parse_statistics(&dec, &arena, &st);
    VERIF_ASSERT(!thrift_decoder_has_error(&dec), "well-formed Statistics parses without error");
    VERIF_ASSERT(thrift_decoder_remaining(&dec) == 0, "the whole struct is consumed");
    if (FIELDS & 1) VERIF_ASSERT(st.max_deprecated && st.max_deprecated_len == LMAX && same(st.max_deprecated, IN.maxd, LMAX), "field 1 -> max (deprecated)");
    else VERIF_ASSERT(st.max_deprecated == 0, "field 1 absent -> no deprecated max");
    if (FIELDS & 2) VERIF_ASSERT(st.min_deprecated && st.min_deprecated_len == LMIN && same(st.min_deprecated, IN.mind, LMIN), "field 2 -> min (deprecated)");
    else VERIF_ASSERT(st.min_deprecated == 0, "field 2 absent -> no deprecated min");
    if (FIELDS & 4) VERIF_ASSERT(st.has_null_count && st.null_count == NULLS, "field 3 -> null_count");
    else VERIF_ASSERT(!st.has_null_count, "field 3 absent -> no null_count");
    if (FIELDS & 8) VERIF_ASSERT(st.has_distinct_count && st.distinct_count == DISTINCT, "field 4 -> distinct_count");
    else VERIF_ASSERT(!st.has_distinct_count, "field 4 absent -> no distinct_count");
    if (FIELDS & 16) VERIF_ASSERT(st.max_value && st.max_value_len == LMAX && same(st.max_value, IN.maxv, LMAX), "field 5 -> max_value");
    else VERIF_ASSERT(st.max_value == 0, "field 5 absent -> no max_value");
    if (FIELDS & 32) VERIF_ASSERT(st.min_value && st.min_value_len == LMIN && same(st.min_value, IN.minv, LMIN), "field 6 -> min_value");
    else VERIF_ASSERT(st.min_value == 0, "field 6 absent -> no min_value");
    free(st.max_deprecated); free(st.min_deprecated); free(st.max_value); free(st.min_value);
    free(buf);
#else
    parquet_statistics_t st; memset(&st, 0, sizeof st);
    uint8_t *a = malloc(LMAX), *b = malloc(LMIN), *c = malloc(LMAX), *d = malloc(LMIN);
    VERIF_NOTNULL(a); VERIF_NOTNULL(b); VERIF_NOTNULL(c); VERIF_NOTNULL(d);
    memcpy(a, IN.maxd, LMAX); memcpy(b, IN.mind, LMIN); memcpy(c, IN.maxv, LMAX); memcpy(d, IN.minv, LMIN);
    if (FIELDS & 1) { st.max_deprecated = a; st.max_deprecated_len = LMAX; }
    if (FIELDS & 2) { st.min_deprecated = b; st.min_deprecated_len = LMIN; }
    if (FIELDS & 4) { st.has_null_count = true; st.null_count = NULLS; }
    if (FIELDS & 8) { st.has_distinct_count = true; st.distinct_count = DISTINCT; }
    if (FIELDS & 16) { st.max_value = c; st.max_value_len = LMAX; }
    if (FIELDS & 32) { st.min_value = d; st.min_value_len = LMIN; }
    carquet_buffer_t out; carquet_buffer_init(&out);
    thrift_encoder_t enc; thrift_encoder_init(&enc, &out);
    write_statistics(&enc, &st);
    VERIF_ASSERT(enc.status == CARQUET_OK, "write_statistics succeeds");
    VERIF_ASSERT(out.size == n, "serialized Statistics has the reference length");
    VERIF_ASSERT(out.size != n || same(out.data, tmp, n), "serialized Statistics equals the reference encoding (min/max and new/deprecated fields in their own slots)");
    carquet_buffer_destroy(&out);
    free(a); free(b); free(c); free(d);
#endif
    VERIF_WITNESS();
}
#ifdef REPLAY
#include REPLAY_FILE
#endif
