/* C16 — page-writer statistics obligations (engine E1).  Real code: src/writer/page_writer.c.
 *   -DTYPE=<1 INT32 | 2 INT64 | 4 FLOAT | 5 DOUBLE>   -DN=<rows>  -DN1=<rows in the first add call, rest in a second>
 *   -DMODE=1  the static update_statistics_{i32,i64,float,double} called directly on a zeroed writer
 *             (page_writer.c is #included verbatim: -DINCLUDE_IMPL)
 *   -DMODE=2  public path: carquet_page_writer_create / _add_values (OPTIONAL column, concrete null pattern
 *             -DDEFPAT=<bit i set = row i present>) / _get_statistics / _finalize; the Thrift page header is parsed back with
 *             the independent reference reader (ref_thrift.c) and its Statistics struct is checked.
 *             -DNOFINALIZE stops after _get_statistics: used for FLOAT/DOUBLE, where (once NaNs are skipped, as Parquet asks)
 *             the presence of statistics depends on the data, which makes the header layout symbolic and the query intractable;
 *             the header serialisation is type-agnostic (min_max_size raw bytes) and is covered by the INT32/INT64 instances
 * Oracle (c16_oracle.h).  Integers: min <= v <= max.  Floating point, weakest defensible reading (Parquet convention):
 * for every non-NaN value v NOT (v < min) and NOT (v > max) under IEEE comparison (-0.0 == +0.0), and min/max are not NaN
 * when a non-NaN value exists; NaN values themselves are exempt.  NaN = canonical quiet NaN chosen by a symbolic flag. */
#include "verif_e1.h"
#include <carquet/carquet.h>
#include "c16_oracle.h"
#ifdef INCLUDE_IMPL
#include "writer/page_writer.c"      /* resolved through -I<repo>/src, i.e. the tree under check */
#else
#include "ref_thrift.h"
typedef struct carquet_page_writer carquet_page_writer_t;
carquet_page_writer_t* carquet_page_writer_create(carquet_physical_type_t type, carquet_encoding_t encoding, carquet_compression_t compression,
                                                  int16_t max_def_level, int16_t max_rep_level, int32_t type_length);
void carquet_page_writer_destroy(carquet_page_writer_t* w);
carquet_status_t carquet_page_writer_add_values(carquet_page_writer_t* w, const void* values, int64_t num_values, const int16_t* def_levels, const int16_t* rep_levels);
carquet_status_t carquet_page_writer_finalize(carquet_page_writer_t* w, const uint8_t** page_data, size_t* page_size, int32_t* uncompressed_size, int32_t* compressed_size);
void carquet_page_writer_set_crc(carquet_page_writer_t* w, bool enabled);
bool carquet_page_writer_get_statistics(const carquet_page_writer_t* w, const uint8_t** min_value, const uint8_t** max_value, size_t* value_size, int64_t* null_count);
#endif

#ifndef TYPE
#define TYPE T_I32
#endif
#ifndef N
#define N 3
#endif
#ifndef N1
#define N1 N
#endif
#ifndef DEFPAT
#define DEFPAT ((1 << N) - 1)
#endif
#define W (TYPE == T_I32 || TYPE == T_F32 ? 4 : 8)
#define ISFLT (TYPE == T_F32 || TYPE == T_F64)

struct in {
    uint8_t v[N][W];        /* plain-encoded values of the present rows, in order */
    uint8_t isnan[N];       /* FLOAT/DOUBLE: value i is the canonical quiet NaN */
};
struct in nondet_in(void);

/* min/max (W bytes each) bound the n values at vals (n*W bytes) */
static void check_bounds(const uint8_t* mn, const uint8_t* mx, const uint8_t* vals, int n) {
    bool any_number = false;
    for (int i = 0; i < n; i++) {
        const uint8_t* v = vals + (size_t)i * W;
        if (ISFLT) {
            if (o_isnan(TYPE, v)) continue;                /* NaN values are exempt */
            any_number = true;
            if (!o_isnan(TYPE, mn)) VERIF_ASSERT(o_cmp(TYPE, v, W, mn, W, false) >= 0, "no non-NaN value is below min (IEEE order)");
            if (!o_isnan(TYPE, mx)) VERIF_ASSERT(o_cmp(TYPE, v, W, mx, W, false) <= 0, "no non-NaN value is above max (IEEE order)");
        } else {
            VERIF_ASSERT(o_cmp(TYPE, mn, W, v, W, false) <= 0, "min <= every value");
            VERIF_ASSERT(o_cmp(TYPE, v, W, mx, W, false) <= 0, "every value <= max");
        }
    }
    if (ISFLT && any_number) {
        VERIF_ASSERT(!o_isnan(TYPE, mn), "min is not NaN when the page holds a non-NaN value");
        VERIF_ASSERT(!o_isnan(TYPE, mx), "max is not NaN when the page holds a non-NaN value");
    }
}

void harness(void) {
    struct in IN = nondet_in();
    /* number of present rows */
    int nn = 0;
    for (int i = 0; i < N; i++) if ((DEFPAT >> i) & 1) nn++;
    uint8_t* vals = malloc((size_t)nn * W); VERIF_NOTNULL(vals);   /* exact-size heap array of the present values */
    for (int i = 0; i < nn; i++) {
#if TYPE == T_F32
        if (IN.isnan[i]) o_wr_le(IN.v[i], 4, F32_QNAN); else VERIF_ASSUME(!o_isnan(TYPE, IN.v[i]));
#elif TYPE == T_F64
        if (IN.isnan[i]) o_wr_le(IN.v[i], 8, F64_QNAN); else VERIF_ASSUME(!o_isnan(TYPE, IN.v[i]));
#endif
        memcpy(vals + (size_t)i * W, IN.v[i], W);
    }
    bool any_number = false;                                       /* a page of NaNs only may carry no min/max at all */
    for (int i = 0; i < nn; i++) if (!o_isnan(TYPE, vals + (size_t)i * W)) any_number = true;
#ifdef EXCLUDE_F_PW_NANFIRST
    /* known finding F-PW-NANFIRST: a NaN as the first value of a page freezes min = max = NaN for every later number.
       Excluded input class: first value NaN and some later value not NaN. */
    if (ISFLT && nn > 1 && o_isnan(TYPE, vals)) {
        bool later_number = false;
        for (int i = 1; i < nn; i++) if (!o_isnan(TYPE, vals + (size_t)i * W)) later_number = true;
        VERIF_ASSUME(!later_number);
    }
#endif
#if MODE == 1
    carquet_page_writer_t* w = calloc(1, sizeof *w); VERIF_NOTNULL(w);
#if TYPE == T_I32
#define UPD(p, k) update_statistics_i32(w, (const int32_t*)(p), (k))
#elif TYPE == T_I64
#define UPD(p, k) update_statistics_i64(w, (const int64_t*)(p), (k))
#elif TYPE == T_F32
#define UPD(p, k) update_statistics_float(w, (const float*)(p), (k))
#else
#define UPD(p, k) update_statistics_double(w, (const double*)(p), (k))
#endif
    UPD(vals, N1);
#if N1 < N
    UPD(vals + (size_t)N1 * W, N - N1);
#endif
    VERIF_ASSERT(w->has_min_max || !any_number, "non-vacuity: statistics are tracked once a number (non-NaN value) was added");
    if (w->has_min_max) {
        VERIF_ASSERT(w->min_max_size == W, "min/max have the width of the type");
        check_bounds(w->min_value, w->max_value, vals, N);
    }
    free(w);
#else
    int16_t* defs = malloc(sizeof(int16_t) * N); VERIF_NOTNULL(defs);
    for (int i = 0; i < N; i++) defs[i] = (int16_t)((DEFPAT >> i) & 1);
    carquet_page_writer_t* w = carquet_page_writer_create((carquet_physical_type_t)TYPE, CARQUET_ENCODING_PLAIN, CARQUET_COMPRESSION_UNCOMPRESSED, 1, 0, 0);
    VERIF_NOTNULL(w);
    carquet_page_writer_set_crc(w, false);
    VERIF_ASSERT(carquet_page_writer_add_values(w, vals, N, defs, 0) == CARQUET_OK, "add_values succeeds");
    const uint8_t *mn = 0, *mx = 0; size_t sz = 0; int64_t nulls = -1;
    bool have = carquet_page_writer_get_statistics(w, &mn, &mx, &sz, &nulls);
    VERIF_ASSERT(have || !any_number, "non-vacuity: statistics exist once the page has a number (non-null, non-NaN value)");
    VERIF_ASSERT(!have || nn > 0, "no statistics for a page without values");
    if (have) {
        VERIF_ASSERT(sz == W, "min/max have the width of the type");
        VERIF_ASSERT(nulls == N - nn, "null_count equals the number of null rows");
        check_bounds(mn, mx, vals, nn);
    }
#ifndef NOFINALIZE
    /* the serialized page header carries the same statistics */
    const uint8_t* page = 0; size_t page_size = 0; int32_t unc = -1, comp = -1;
    VERIF_ASSERT(carquet_page_writer_finalize(w, &page, &page_size, &unc, &comp) == CARQUET_OK, "finalize succeeds");
    VERIF_ASSERT(page != 0 && comp >= 0 && (size_t)comp <= page_size, "page = header + body");
    size_t hdr_len = page_size - (size_t)comp;
    ref_tc_reader r; ref_tc_reader_init(&r, page, hdr_len, 0);
    int16_t last = 0, id = 0; uint8_t ty = 0; int32_t i32v = 0;
    bool seen_dph = false, seen_stats = false, seen_min = false, seen_max = false, seen_nulls = false;
    for (int guard = 0; guard < 8; guard++) {                   /* PageHeader */
        VERIF_ASSERT(ref_tc_read_field(&r, &last, &id, &ty, 0) == REF_OK, "page header field parses");
        if (ty == REF_TC_STOP) break;
        if (id == 5 && ty == REF_TC_STRUCT) {                      /* DataPageHeader */
            seen_dph = true;
            int16_t last2 = 0, id2 = 0; uint8_t ty2 = 0;
            for (int g2 = 0; g2 < 8; g2++) {
                VERIF_ASSERT(ref_tc_read_field(&r, &last2, &id2, &ty2, 0) == REF_OK, "data page header field parses");
                if (ty2 == REF_TC_STOP) break;
                if (id2 == 1 && ty2 == REF_TC_I32) { VERIF_ASSERT(ref_tc_read_i32(&r, &i32v) == REF_OK && i32v == N, "num_values == rows"); }
                else if (id2 == 5 && ty2 == REF_TC_STRUCT) {       /* Statistics */
                    seen_stats = true;
                    int16_t last3 = 0, id3 = 0; uint8_t ty3 = 0;
                    for (int g3 = 0; g3 < 10; g3++) {
                        VERIF_ASSERT(ref_tc_read_field(&r, &last3, &id3, &ty3, 0) == REF_OK, "statistics field parses");
                        if (ty3 == REF_TC_STOP) break;
                        if (ty3 == REF_TC_BINARY) {
                            ref_span_t s; VERIF_ASSERT(ref_tc_read_binary(&r, &s) == REF_OK, "binary parses");
                            VERIF_ASSERT(s.len == W, "header min/max have the width of the type");
                            /* fields 1/2 are the deprecated max/min, 5/6 max_value/min_value */
                            if (id3 == 5 || id3 == 1) { seen_max = true; VERIF_ASSERT(have && memcmp(page + s.off, mx, W) == 0, "header max == tracked max"); check_bounds(have ? mn : page + s.off, page + s.off, vals, nn); }
                            else if (id3 == 6 || id3 == 2) { seen_min = true; VERIF_ASSERT(have && memcmp(page + s.off, mn, W) == 0, "header min == tracked min"); check_bounds(page + s.off, have ? mx : page + s.off, vals, nn); }
                            else VERIF_ASSERT(0, "unexpected binary field in Statistics");
                        } else if (id3 == 3 && ty3 == REF_TC_I64) {
                            int64_t nc; VERIF_ASSERT(ref_tc_read_i64(&r, &nc) == REF_OK, "null_count parses");
                            seen_nulls = true; VERIF_ASSERT(nc == N - nn, "header null_count equals the number of null rows");
                        } else VERIF_ASSERT(ref_tc_skip(&r, ty3, 0) == REF_OK, "skip");
                    }
                } else VERIF_ASSERT(ref_tc_skip(&r, ty2, 0) == REF_OK, "skip");
            }
        } else VERIF_ASSERT(ref_tc_skip(&r, ty, 0) == REF_OK, "skip");
    }
    VERIF_ASSERT(r.pos == hdr_len, "header ends where the body begins");
    VERIF_ASSERT(seen_dph, "data page header present");
    VERIF_ASSERT(seen_stats == have, "non-vacuity: header carries statistics iff they were tracked");
    if (seen_stats) VERIF_ASSERT(seen_min && seen_max && seen_nulls, "statistics carry min, max and null_count");
#endif
    carquet_page_writer_destroy(w);
    free(defs);
#endif
    free(vals);
    VERIF_WITNESS();
}
#ifdef REPLAY
#include REPLAY_FILE
#endif
