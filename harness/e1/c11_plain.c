/* C11/C12 — PLAIN encoding, all physical types (engine E1).
 * Real code: src/encoding/plain.c, src/core/buffer.c (src/core/endian.h inline).
 * Oracle: ref_plain_* of /verif/ref (written from the Parquet Encodings specification).
 *   -DTYPE=<carquet_physical_type_t>  0 BOOLEAN 1 INT32 2 INT64 3 INT96 4 FLOAT 5 DOUBLE 6 BYTE_ARRAY 7 FIXED_LEN_BYTE_ARRAY
 *   -DN=<concrete value count>   -DW=<FLBA width / maximal BYTE_ARRAY string length>
 *   -DMODE=1  carquet-encode -> bytes == reference encoding, reference-decode == v, buffer size == spec size   (C12, C11 half)
 *   -DMODE=2  reference-encode -> carquet typed decoder == v, returned consumed bytes == stream size; one byte
 *             short -> -1                                                                                         (C12)
 *   -DMODE=3  carquet-encode -> carquet generic decoder carquet_decode_plain(type) == v, consumed == written      (C11)
 * FLOAT/DOUBLE are handled as uint32/uint64 bit patterns (the API only memcpy's them), so NaN payloads are covered.
 * Every buffer handed to carquet is an exact-size heap object. */
#include "c11_common.h"
#include <carquet/carquet.h>
#include "encoding/plain.h"
#include "ref_codecs.h"

#ifndef VTYPE
#define VTYPE 1
#endif
#ifndef VN
#define VN 3
#endif
#ifndef VW
#define VW 3
#endif
#define VNN (VN ? VN : 1)

#if VTYPE == 0
typedef uint8_t elem_t;
#define ESZ 1
#elif VTYPE == 1 || VTYPE == 4
typedef uint32_t elem_t;
#define ESZ 4
#elif VTYPE == 2 || VTYPE == 5
typedef uint64_t elem_t;
#define ESZ 8
#elif VTYPE == 3
typedef carquet_int96_t elem_t;
#define ESZ 12
#elif VTYPE == 7
typedef struct { uint8_t b[VW]; } elem_t;
#define ESZ VW
#else
typedef struct { uint8_t b[VW]; } elem_t; /* BYTE_ARRAY: VW = maximal length, len[] holds the actual one */
#define ESZ VW
#endif

struct in {
    elem_t v[VNN];
    uint8_t len[VNN];       /* BYTE_ARRAY only: symbolic lengths 0..VW */
};
struct in nondet_in(void);

/* maximal encoded size inside the bounds */
#if VTYPE == 0
#define ENC_MAX ((VN + 7) / 8)
#elif VTYPE == 6
#define ENC_MAX (VN * (4 + VW))
#else
#define ENC_MAX (VN * ESZ)
#endif

/* carquet encoder of the selected type; v is an exact-size heap array of VN elements */
static carquet_status_t cq_encode(const elem_t* v, const carquet_byte_array_t* ba, carquet_buffer_t* out) {
#if VTYPE == 0
    return carquet_encode_plain_boolean((const uint8_t*)v, VN, out);
#elif VTYPE == 1
    return carquet_encode_plain_int32((const int32_t*)v, VN, out);
#elif VTYPE == 2
    return carquet_encode_plain_int64((const int64_t*)v, VN, out);
#elif VTYPE == 3
    return carquet_encode_plain_int96(v, VN, out);
#elif VTYPE == 4
    return carquet_encode_plain_float((const float*)v, VN, out);
#elif VTYPE == 5
    return carquet_encode_plain_double((const double*)v, VN, out);
#elif VTYPE == 6
    (void)v; return carquet_encode_plain_byte_array(ba, VN, out);
#else
    return carquet_encode_plain_fixed_byte_array((const uint8_t*)v, VN, VW, out);
#endif
}

/* reference encoder: writes into out[0..cap) */
static int ref_encode(const struct in* I, uint8_t* out, size_t cap, size_t* len) {
#if VTYPE == 0
    return ref_plain_encode_bool((const uint8_t*)I->v, VN, out, cap, len);
#elif VTYPE == 1 || VTYPE == 4
    return ref_plain_encode_u32((const uint32_t*)I->v, VN, out, cap, len);
#elif VTYPE == 2 || VTYPE == 5
    return ref_plain_encode_u64((const uint64_t*)I->v, VN, out, cap, len);
#elif VTYPE == 3
    return ref_plain_encode_int96((const uint32_t*)I->v, VN, out, cap, len);
#elif VTYPE == 7
    return ref_plain_encode_flba((const uint8_t*)I->v, VN, VW, out, cap, len);
#else
    ref_span_t sp[VNN];
    for (int i = 0; i < VN; i++) { sp[i].off = (uint32_t)(i * VW); sp[i].len = I->len[i]; }
    return ref_plain_encode_byte_array((const uint8_t*)I->v, sizeof I->v, sp, VN, out, cap, len);
#endif
}

void harness(void) {
    struct in IN = nondet_in();
#if VTYPE == 6
    for (int i = 0; i < VN; i++) VERIF_ASSUME(IN.len[i] <= VW);
#endif
    /* ---- the values as exact-size heap objects */
    elem_t* v = (elem_t*)exact(IN.v, (size_t)VN * sizeof(elem_t));
    carquet_byte_array_t* ba = 0;
#if VTYPE == 6
    ba = malloc(VNN * sizeof *ba); VERIF_NOTNULL(ba);
    for (int i = 0; i < VN; i++) { ba[i].data = exact(IN.v[i].b, IN.len[i]); ba[i].length = IN.len[i]; }
#endif
    /* ---- reference encoding (the specification's byte image) */
    uint8_t rbuf[ENC_MAX + 1]; size_t rlen = 0;
    VERIF_ASSERT(ref_encode(&IN, rbuf, ENC_MAX, &rlen) == REF_OK, "harness: reference encoder accepts the input");

#if MODE == 1 || MODE == 3
    carquet_buffer_t buf; out_init(&buf);
    carquet_status_t st = cq_encode(v, ba, &buf);
#if defined(EXCLUDE_F_PLAIN_BOOL_EMPTY) && VTYPE == 0 && VN == 0
    /* open finding F-PLAIN-BOOL-EMPTY: carquet_encode_plain_boolean(count 0) returns CARQUET_ERROR_OUT_OF_MEMORY
       (carquet_buffer_advance(buf, 0) returns NULL).  The empty sequence is the only input of this obligation; what
       stays checked is that the refusal is clean (nothing emitted). */
    if (st != CARQUET_OK) {
        VERIF_ASSERT(buf.size == 0, "refused empty sequence leaves the buffer empty");
        carquet_buffer_destroy(&buf); free(v);
        VERIF_WITNESS();
        return;
    }
#endif
    VERIF_ASSERT(st == CARQUET_OK, "encoder returns OK");
    VERIF_ASSERT(buf.size == rlen, "bytes written == size of the PLAIN encoding");
    uint8_t* enc = exact(buf.data, buf.size);    /* exact-size copy of what was emitted (buf.data may be NULL when size 0) */
#endif
#if MODE == 1
    for (size_t i = 0; i < rlen; i++) VERIF_ASSERT(enc[i] == rbuf[i], "emitted bytes == reference PLAIN encoding");
    /* independent decoder returns the values and consumes everything */
    size_t cons = 0;
#if VTYPE == 0
    uint8_t o[VNN];
    VERIF_ASSERT(ref_plain_decode_bool(enc, buf.size, o, VN, &cons) == REF_OK && cons == buf.size, "reference decoder accepts, consumed == written");
    for (int i = 0; i < VN; i++) VERIF_ASSERT(o[i] == (IN.v[i] != 0), "reference decode == v");
#elif VTYPE == 1 || VTYPE == 4
    uint32_t o[VNN];
    VERIF_ASSERT(ref_plain_decode_u32(enc, buf.size, o, VN, &cons) == REF_OK && cons == buf.size, "reference decoder accepts, consumed == written");
    for (int i = 0; i < VN; i++) VERIF_ASSERT(o[i] == IN.v[i], "reference decode == v");
#elif VTYPE == 2 || VTYPE == 5
    uint64_t o[VNN];
    VERIF_ASSERT(ref_plain_decode_u64(enc, buf.size, o, VN, &cons) == REF_OK && cons == buf.size, "reference decoder accepts, consumed == written");
    for (int i = 0; i < VN; i++) VERIF_ASSERT(o[i] == IN.v[i], "reference decode == v");
#elif VTYPE == 3
    uint32_t o[3 * VNN];
    VERIF_ASSERT(ref_plain_decode_int96(enc, buf.size, o, VN, &cons) == REF_OK && cons == buf.size, "reference decoder accepts, consumed == written");
    for (int i = 0; i < VN; i++) for (int k = 0; k < 3; k++) VERIF_ASSERT(o[3 * i + k] == IN.v[i].value[k], "reference decode == v");
#elif VTYPE == 7
    uint8_t o[VNN * VW];
    VERIF_ASSERT(ref_plain_decode_flba(enc, buf.size, VW, o, VN, &cons) == REF_OK && cons == buf.size, "reference decoder accepts, consumed == written");
    for (int i = 0; i < VN; i++) for (int k = 0; k < VW; k++) VERIF_ASSERT(o[i * VW + k] == IN.v[i].b[k], "reference decode == v");
#else
    ref_span_t sp[VNN];
    VERIF_ASSERT(ref_plain_decode_byte_array_inplace(enc, buf.size, VN, sp, &cons) == REF_OK && cons == buf.size, "reference decoder accepts, consumed == written");
    for (int i = 0; i < VN; i++) {
        VERIF_ASSERT(sp[i].len == IN.len[i], "reference decode: length == original");
        for (int k = 0; k < VW; k++) if (k < IN.len[i]) VERIF_ASSERT(enc[sp[i].off + k] == IN.v[i].b[k], "reference decode == v");
    }
#endif
    free(enc); carquet_buffer_destroy(&buf);
#endif

#if MODE == 2 || MODE == 3
    /* decoder side.  MODE 2 decodes the reference stream with the typed decoder, MODE 3 carquet's own output with
       the generic entry point */
#if MODE == 2
    uint8_t* src = exact(rbuf, rlen); size_t srclen = rlen;
#else
    uint8_t* src = enc; size_t srclen = buf.size;
#endif
    int64_t r;
#if VTYPE == 6
    carquet_byte_array_t* o = malloc(VNN * sizeof *o); VERIF_NOTNULL(o);
#else
    elem_t* o = malloc((size_t)VNN * sizeof(elem_t)); VERIF_NOTNULL(o);
#endif
#if MODE == 3
    r = carquet_decode_plain(src, srclen, (carquet_physical_type_t)VTYPE, VW, o, VN);
#elif VTYPE == 0
    r = carquet_decode_plain_boolean(src, srclen, (uint8_t*)o, VN);
#elif VTYPE == 1
    r = carquet_decode_plain_int32(src, srclen, (int32_t*)o, VN);
#elif VTYPE == 2
    r = carquet_decode_plain_int64(src, srclen, (int64_t*)o, VN);
#elif VTYPE == 3
    r = carquet_decode_plain_int96(src, srclen, o, VN);
#elif VTYPE == 4
    r = carquet_decode_plain_float(src, srclen, (float*)o, VN);
#elif VTYPE == 5
    r = carquet_decode_plain_double(src, srclen, (double*)o, VN);
#elif VTYPE == 6
    r = carquet_decode_plain_byte_array(src, srclen, o, VN);
#else
    r = carquet_decode_plain_fixed_byte_array(src, srclen, (uint8_t*)o, VN, VW);
#endif
    VERIF_ASSERT(r == (int64_t)srclen, "decoder reports consumed bytes == encoded size");
    for (int i = 0; i < VN; i++) {
#if VTYPE == 0
        VERIF_ASSERT(o[i] == (IN.v[i] != 0), "decode == v (0/1)");
#elif VTYPE == 6
        VERIF_ASSERT(o[i].length == IN.len[i], "decoded length == original");
        VERIF_ASSERT(IN.len[i] == 0 || (o[i].data >= src && o[i].data + o[i].length <= src + srclen), "decoded value lies inside the input");
        for (int k = 0; k < VW; k++) if (k < IN.len[i]) VERIF_ASSERT(o[i].data[k] == IN.v[i].b[k], "decode == v");
#else
        VERIF_ASSERT(memcmp(&o[i], &IN.v[i], sizeof(elem_t)) == 0, "decode == v (bit pattern)");
#endif
    }
#if MODE == 2 && VN > 0
    /* a stream that is one byte short must be refused, not read past its end */
    if (srclen > 0) {
        uint8_t* sh = exact(src, srclen - 1);
        int64_t r2;
#if VTYPE == 0
        r2 = carquet_decode_plain_boolean(sh, srclen - 1, (uint8_t*)o, VN);
#elif VTYPE == 6
        r2 = carquet_decode_plain_byte_array(sh, srclen - 1, o, VN);
#else
        r2 = carquet_decode_plain(sh, srclen - 1, (carquet_physical_type_t)VTYPE, VW, o, VN);
#endif
        VERIF_ASSERT(r2 == -1, "truncated PLAIN stream is refused");
        free(sh);
    }
#endif
    free(o); free(src);
#if MODE == 3
    carquet_buffer_destroy(&buf);
#endif
#endif
#if VTYPE == 6
    for (int i = 0; i < VN; i++) free(ba[i].data);
    free(ba);
#endif
    free(v);
    VERIF_WITNESS();
}
#ifdef REPLAY
#include REPLAY_FILE
#endif
