/* C13 — leaf codecs of carquet's Thrift compact protocol (engine E1).
 * Real code: src/thrift/thrift_encode.c, src/thrift/thrift_decode.c, src/core/buffer.c, src/core/endian.h.
 * Oracle: written here from thrift/doc/specs/thrift-compact-protocol.md (ULEB128 varints, zig-zag ints,
 * field header short form dddd tttt for 1 <= delta <= 15 else 0000 tttt + zig-zag varint id, list header
 * ssss tttt for size < 15 else 1111 tttt + varint size, binary = varint length + bytes, double = 8 bytes
 * little endian).  Mode 4 additionally feeds the decoder with the output of /verif/ref/ref_thrift.c.
 *
 * -DMODE  obligation                                             other -D
 *   1     varint u64: write == ULEB128, read back, consumed==produced
 *   2     zig-zag ints: write_iW == ULEB(zigzag(v)), read back          W = 8 | 16 | 32 | 64
 *   3     field header write == reference form, read back (all last id, id, type; bools in header)
 *   4     decoder on reference-encoded field headers, short and long (and padded-varint long) form
 *   5     list/set header, symbolic size >= 0 and element type; reader accepts iff size <= remaining
 *   6     binary (and string via strlen) of LEN symbolic bytes         LEN 0..6
 *   7     double (non-NaN bit patterns, see README: CBMC does not keep NaN payloads)
 *   8     stand-alone bool and struct begin/end/stop bookkeeping
 *   9     struct nesting guard: K <= 36 nested struct frames opened on the decoder (bytes: K struct field headers) with a field
 *         read in each: beyond THRIFT_MAX_NESTING the decoder reports an error and never indexes outside last_field_id[]
 *         (CBMC's array-bounds checks on the real code are the memory-safety oracle); then all frames are closed          */
#include "verif_e1.h"
#include "thrift/thrift_encode.h"
#include "thrift/thrift_decode.h"
#include "core/buffer.h"
#if MODE == 4
#include "ref_thrift.h"
#endif

#ifndef W
#define W 64
#endif
#ifndef LEN
#define LEN 2
#endif
#define MAXOUT 16      /* no obligation produces more than 12 bytes */
#define FILL 24        /* payload bytes that follow a list header */
/* assert, then continue only on the passing side (keeps later assertions from being re-examined on dead paths) */
#define CHECK(c, msg) do { bool c_ = (c); VERIF_ASSERT(c_, msg); VERIF_ASSUME(c_); } while (0)

/* ---------------------------------------------------------------- oracle (compact protocol specification) */
static size_t o_uleb(uint64_t v, uint8_t* out) {
    size_t n = 0;
    while (v >= 0x80) { out[n++] = (uint8_t)(v | 0x80); v >>= 7; }
    out[n++] = (uint8_t)v;
    return n;
}
/* zig-zag as defined by the specification, on the mathematical value: n >= 0 -> 2n, n < 0 -> -2n-1 */
static uint64_t o_zigzag(int64_t n) { return n >= 0 ? (uint64_t)n * 2u : ((uint64_t)(-(n + 1)) * 2u) + 1u; }
static size_t o_field_header(int last, int id, unsigned type, int force_long, uint8_t* out) {
    int delta = id - last;                    /* mathematical difference, no 16-bit wrap */
    if (!force_long && delta >= 1 && delta <= 15) { out[0] = (uint8_t)((delta << 4) | type); return 1; }
    out[0] = (uint8_t)type;
    return 1 + o_uleb(o_zigzag(id), out + 1);
}
static size_t o_list_header(uint32_t size, unsigned type, uint8_t* out) {
    if (size < 15) { out[0] = (uint8_t)((size << 4) | type); return 1; }
    out[0] = (uint8_t)(0xF0 | type);
    return 1 + o_uleb(size, out + 1);
}

struct in {
    uint64_t u64;
    int64_t i64;
    int16_t last, id;
    uint8_t type, form, pad;
    int32_t size;
    uint8_t b[8];
    uint8_t boolv;
};
struct in nondet_in(void);

/* encoder on a fresh growable buffer */
static carquet_buffer_t BUF;
static thrift_encoder_t ENC;
#ifdef WRAPBUF
/* caller-provided storage: MAXOUT bytes wrapped (non-owning, never regrown) and emptied */
static void enc_start(void) {
    uint8_t* mem = malloc(MAXOUT); VERIF_NOTNULL(mem);
    carquet_buffer_init_wrap(&BUF, mem, MAXOUT); carquet_buffer_clear(&BUF); thrift_encoder_init(&ENC, &BUF);
}
static void enc_done(void) { free(BUF.data); }
#else
/* growable buffer: the first append allocates CARQUET_BUFFER_DEFAULT_CAPACITY (4096) bytes through realloc */
static void enc_start(void) { carquet_buffer_init(&BUF); thrift_encoder_init(&ENC, &BUF); }
static void enc_done(void) { carquet_buffer_destroy(&BUF); }
#endif
/* the n produced bytes as an exact-size heap object (any read past them is a bounds violation) */
static uint8_t* exact_copy(const uint8_t* src, size_t n) {
    uint8_t* p = malloc(n ? n : 1);
    VERIF_NOTNULL(p);
    for (size_t i = 0; i < (MODE == 5 ? MAXOUT + FILL : MAXOUT); i++) if (i < n) p[i] = src[i];
    return p;
}
static void expect_bytes(const uint8_t* want, size_t n) {
    VERIF_ASSERT(ENC.status == CARQUET_OK, "encoder reports no error");
    VERIF_ASSERT(BUF.size == n, "number of bytes written == reference encoding");
    for (size_t i = 0; i < MAXOUT; i++) if (i < n) VERIF_ASSERT(BUF.data[i] == want[i], "bytes written == reference encoding");
}

void harness(void) {
    struct in IN = nondet_in();
    uint8_t want[MAXOUT + FILL]; size_t wn;
    thrift_decoder_t dec;
    enc_start();
#if MODE == 1
    thrift_write_varint(&ENC, IN.u64);
    wn = o_uleb(IN.u64, want);
    expect_bytes(want, wn);
    uint8_t* in = exact_copy(BUF.data, BUF.size);
    thrift_decoder_init(&dec, in, BUF.size);
    uint64_t back = thrift_read_varint(&dec);
    CHECK(dec.status == CARQUET_OK && back == IN.u64, "varint reads back");
    CHECK(dec.reader.pos == BUF.size, "bytes consumed == bytes produced");
    free(in);
#elif MODE == 2
    int64_t v;
#if W == 8
    v = (int8_t)IN.i64;  thrift_write_byte(&ENC, (int8_t)v);  want[0] = (uint8_t)(int8_t)v; wn = 1;
#elif W == 16
    v = (int16_t)IN.i64; thrift_write_i16(&ENC, (int16_t)v);  wn = o_uleb(o_zigzag(v), want);
#elif W == 32
    v = (int32_t)IN.i64; thrift_write_i32(&ENC, (int32_t)v);  wn = o_uleb(o_zigzag(v), want);
#else
    v = IN.i64;          thrift_write_i64(&ENC, v);           wn = o_uleb(o_zigzag(v), want);
#endif
    expect_bytes(want, wn);
    CHECK(wn <= (W == 8 ? 1 : W == 16 ? 3 : W == 32 ? 5 : 10), "encoded size within the type's maximum");
    uint8_t* in = exact_copy(BUF.data, BUF.size);
    thrift_decoder_init(&dec, in, BUF.size);
#if W == 8
    int64_t back = thrift_read_byte(&dec);
#elif W == 16
    int64_t back = thrift_read_i16(&dec);
#elif W == 32
    int64_t back = thrift_read_i32(&dec);
#else
    int64_t back = thrift_read_i64(&dec);
#endif
    CHECK(dec.status == CARQUET_OK && back == v, "integer reads back");
    CHECK(dec.reader.pos == BUF.size, "bytes consumed == bytes produced");
    free(in);
#elif MODE == 3
    /* every previous id, id and wire type 1..13; the previous id is planted in the struct frame */
    VERIF_ASSUME(IN.type >= 1 && IN.type <= 13);
#ifdef EXCLUDE_F_THRIFT_DELTA_WRAP
    VERIF_ASSUME((int)IN.id - (int)IN.last >= -32768);   /* id - last representable in 16 bits */
#endif
    thrift_write_struct_begin(&ENC);
    CHECK(ENC.nesting_level == 1 && ENC.last_field_id[0] == 0, "struct begin opens a frame with last id 0");
    ENC.last_field_id[0] = IN.last;
    thrift_write_field_header(&ENC, IN.type, IN.id);
    wn = o_field_header(IN.last, IN.id, IN.type, 0, want);
    expect_bytes(want, wn);
    CHECK(ENC.last_field_id[0] == IN.id, "writer remembers the id");
    uint8_t* in = exact_copy(BUF.data, BUF.size);
    thrift_decoder_init(&dec, in, BUF.size);
    thrift_read_struct_begin(&dec);
    dec.last_field_id[0] = IN.last;
    thrift_type_t t = 0; int16_t id = 0;
    bool more = thrift_read_field_begin(&dec, &t, &id);
    CHECK(more && dec.status == CARQUET_OK, "field header accepted");
    CHECK((int)t == IN.type && id == IN.id, "type and id read back");
    CHECK(dec.last_field_id[0] == IN.id, "reader remembers the id");
    CHECK(dec.reader.pos == BUF.size, "bytes consumed == bytes produced");
    if (IN.type == THRIFT_TYPE_TRUE || IN.type == THRIFT_TYPE_FALSE) {
        bool bv = thrift_read_bool(&dec);
        CHECK(bv == (IN.type == THRIFT_TYPE_TRUE), "bool carried by the field header");
        CHECK(dec.reader.pos == BUF.size && dec.status == CARQUET_OK, "bool in header consumes no byte");
    }
    free(in);
#elif MODE == 4
    /* reference-encoded header -> carquet decoder.  form 0: short when legal else long; 1: long; 2: long with the
       id varint padded to `pad` bytes (non-minimal ULEB128, legal) */
    VERIF_ASSUME(IN.type >= 1 && IN.type <= 13);
    VERIF_ASSUME(IN.form <= 2);
    ref_tc_writer w; ref_tc_writer_init(&w, want, MAXOUT, 0);
    int16_t rl = IN.last;
    if (IN.form <= 1) {
        VERIF_ASSUME(ref_tc_write_field(&w, &rl, IN.id, IN.type, IN.form == 1) == 0);
        /* both oracles agree on the bytes */
        uint8_t w2[MAXOUT]; size_t n2 = o_field_header(IN.last, IN.id, IN.type, IN.form == 1, w2);
        CHECK(n2 == w.pos, "harness oracle and ref_thrift agree on the size");
        for (size_t i = 0; i < MAXOUT; i++) if (i < n2) CHECK(w2[i] == want[i], "harness oracle and ref_thrift agree on the bytes");
    } else {
        VERIF_ASSUME(IN.pad >= 3 && IN.pad <= 5);
        VERIF_ASSUME(ref_tc_write_byte(&w, IN.type) == 0);
        VERIF_ASSUME(ref_tc_write_uvarint_padded(&w, o_zigzag(IN.id), IN.pad) == 0);
    }
    wn = w.pos;
    uint8_t* in = exact_copy(want, wn);
    thrift_decoder_init(&dec, in, wn);
    thrift_read_struct_begin(&dec);
    dec.last_field_id[0] = IN.last;
    thrift_type_t t = 0; int16_t id = 0;
    bool more = thrift_read_field_begin(&dec, &t, &id);
    CHECK(more && dec.status == CARQUET_OK, "reference field header accepted");
    CHECK((int)t == IN.type && id == IN.id, "type and id as encoded by the reference");
    CHECK(dec.reader.pos == wn, "whole header consumed, nothing more");
    if (IN.type == THRIFT_TYPE_TRUE || IN.type == THRIFT_TYPE_FALSE)
        CHECK(thrift_read_bool(&dec) == (IN.type == THRIFT_TYPE_TRUE) && dec.reader.pos == wn, "bool carried by the field header");
    /* a STOP byte ends the struct */
    free(in);
    uint8_t* stop = malloc(1); VERIF_NOTNULL(stop); stop[0] = 0;
    thrift_decoder_init(&dec, stop, 1);
    thrift_read_struct_begin(&dec);
    CHECK(!thrift_read_field_begin(&dec, &t, &id) && t == THRIFT_TYPE_STOP && dec.status == CARQUET_OK && dec.reader.pos == 1, "STOP ends the field list");
    free(stop);
#elif MODE == 5
    /* list (and set) header for EVERY size 0..INT32_MAX and element type; FILL payload bytes follow the header */
    VERIF_ASSUME(IN.size >= 0);
    VERIF_ASSUME(IN.type >= 1 && IN.type <= 13);
    if (IN.form) thrift_write_set_begin(&ENC, IN.type, IN.size); else thrift_write_list_begin(&ENC, IN.type, IN.size);
    wn = o_list_header((uint32_t)IN.size, IN.type, want);
    expect_bytes(want, wn);
    CHECK(wn <= 6, "list header at most 6 bytes");
    for (int i = 0; i < FILL; i++) want[wn + i] = 0x55;
    uint8_t* in = exact_copy(want, wn + FILL);
    thrift_decoder_init(&dec, in, wn + FILL);
    thrift_type_t t = 0; int32_t cnt = -1;
    if (IN.form) thrift_read_set_begin(&dec, &t, &cnt); else thrift_read_list_begin(&dec, &t, &cnt);
    CHECK(dec.reader.pos == wn, "header bytes consumed == produced");
    CHECK((int)t == IN.type, "element type reads back");
    if (IN.size <= FILL) CHECK(dec.status == CARQUET_OK && cnt == IN.size, "size reads back when the payload can hold it");
    else CHECK(dec.status != CARQUET_OK && cnt == 0, "size larger than the remaining bytes is refused (documented guard)");
    free(in);
#elif MODE == 6
    /* binary of LEN symbolic bytes; string = bytes up to the first NUL */
    uint8_t* src = malloc(LEN + 1); VERIF_NOTNULL(src);
    for (int i = 0; i < LEN; i++) src[i] = IN.b[i];
    src[LEN] = 0;
    size_t slen = 0; while (slen < LEN && IN.b[slen] != 0) slen++;
    size_t n = IN.form ? slen : LEN;
    if (IN.form) thrift_write_string(&ENC, (const char*)src); else thrift_write_binary(&ENC, src, LEN);
    want[0] = (uint8_t)n; wn = 1;
    for (size_t i = 0; i < LEN; i++) if (i < n) want[wn++] = IN.b[i];
    expect_bytes(want, wn);
    uint8_t* in = exact_copy(BUF.data, BUF.size);
    thrift_decoder_init(&dec, in, BUF.size);
    if (IN.boolv) {
        int32_t ln = -1;
        const uint8_t* p = thrift_read_binary(&dec, &ln);
        CHECK(dec.status == CARQUET_OK && ln == (int32_t)n, "binary length reads back");
        CHECK(p == in + 1, "binary data points just behind the length");
        for (size_t i = 0; i < LEN; i++) if (i < n) CHECK(p[i] == IN.b[i], "binary bytes read back");
    } else {
        char* s = thrift_read_string_alloc(&dec);
        VERIF_NOTNULL(s);
        CHECK(dec.status == CARQUET_OK, "string accepted");
        for (size_t i = 0; i < LEN; i++) if (i < n) CHECK((uint8_t)s[i] == IN.b[i], "string bytes read back");
        CHECK(s[n] == 0, "string copy is NUL-terminated");
        free(s);
    }
    CHECK(dec.reader.pos == BUF.size, "bytes consumed == bytes produced");
    free(in); free(src);
    /* NULL string is written as the empty string */
    enc_done(); enc_start();
    thrift_write_string(&ENC, NULL);
    CHECK(ENC.status == CARQUET_OK && BUF.size == 1 && BUF.data[0] == 0, "NULL string == empty string");
#elif MODE == 7
    VERIF_ASSUME((IN.u64 & 0x7fffffffffffffffULL) <= 0x7ff0000000000000ULL);   /* not NaN */
    double d; memcpy(&d, &IN.u64, 8);
    thrift_write_double(&ENC, d);
    for (int i = 0; i < 8; i++) want[i] = (uint8_t)(IN.u64 >> (8 * i));
    expect_bytes(want, 8);
    uint8_t* in = exact_copy(BUF.data, BUF.size);
    thrift_decoder_init(&dec, in, BUF.size);
    double back = thrift_read_double(&dec);
    uint64_t bb; memcpy(&bb, &back, 8);
    CHECK(dec.status == CARQUET_OK && bb == IN.u64, "double reads back bit-exactly");
    CHECK(dec.reader.pos == 8, "bytes consumed == bytes produced");
    free(in);
    /* a 7-byte input is refused without reading */
    uint8_t* sh = malloc(7); VERIF_NOTNULL(sh);
    thrift_decoder_init(&dec, sh, 7);
    (void)thrift_read_double(&dec);
    CHECK(dec.status == CARQUET_ERROR_THRIFT_TRUNCATED && dec.reader.pos == 0, "truncated double refused");
    free(sh);
#elif MODE == 8
    /* stand-alone bool; struct frames: begin resets the last id of the new frame, end writes STOP and restores the
       outer frame's last id, so deltas continue correctly after a nested struct */
    bool bv = IN.boolv & 1;
    thrift_write_bool(&ENC, bv);
    CHECK(ENC.status == CARQUET_OK && BUF.size == 1, "stand-alone bool is one byte");
    uint8_t* in = exact_copy(BUF.data, BUF.size);
    thrift_decoder_init(&dec, in, 1);
    CHECK(thrift_read_bool(&dec) == bv && dec.status == CARQUET_OK && dec.reader.pos == 1, "stand-alone bool reads back");
    free(in);
    enc_done(); enc_start();
    VERIF_ASSUME(IN.id >= 1 && IN.id <= 15 && IN.last >= 1 && IN.last <= 15);
    thrift_write_struct_begin(&ENC);
    thrift_write_field_header(&ENC, THRIFT_TYPE_STRUCT, IN.id);        /* outer field `id`, a struct */
    thrift_write_struct_begin(&ENC);
    thrift_write_field_header(&ENC, THRIFT_TYPE_I32, IN.last);         /* inner field `last` */
    thrift_write_i32(&ENC, 1);
    thrift_write_struct_end(&ENC);
    thrift_write_field_header(&ENC, THRIFT_TYPE_TRUE, (int16_t)(IN.id + 1));   /* outer field id+1: delta 1 */
    thrift_write_struct_end(&ENC);
    want[0] = (uint8_t)((IN.id << 4) | 12); want[1] = (uint8_t)((IN.last << 4) | 5); want[2] = 2; want[3] = 0;
    want[4] = 0x11; want[5] = 0;
    expect_bytes(want, 6);
    CHECK(ENC.nesting_level == 0, "all frames closed");
    in = exact_copy(BUF.data, BUF.size);
    thrift_decoder_init(&dec, in, BUF.size);
    thrift_type_t t; int16_t id;
    thrift_read_struct_begin(&dec);
    CHECK(thrift_read_field_begin(&dec, &t, &id) && t == THRIFT_TYPE_STRUCT && id == IN.id, "outer field");
    thrift_read_struct_begin(&dec);
    CHECK(thrift_read_field_begin(&dec, &t, &id) && t == THRIFT_TYPE_I32 && id == IN.last, "inner field");
    CHECK(thrift_read_i32(&dec) == 1, "inner value");
    CHECK(!thrift_read_field_begin(&dec, &t, &id), "inner STOP");
    thrift_read_struct_end(&dec);
    CHECK(thrift_read_field_begin(&dec, &t, &id) && t == THRIFT_TYPE_TRUE && id == IN.id + 1, "delta continues from the outer frame");
    CHECK(thrift_read_bool(&dec) == true, "bool from header");
    CHECK(!thrift_read_field_begin(&dec, &t, &id), "outer STOP");
    thrift_read_struct_end(&dec);
    CHECK(dec.status == CARQUET_OK && dec.reader.pos == BUF.size && dec.nesting_level == 0, "bytes consumed == bytes produced");
    free(in);
#elif MODE == 9
#ifdef KNEST
    unsigned k = KNEST;                     /* one nesting depth per obligation (the symbolic-depth form takes ~10 min) */
#else
    unsigned k = IN.type; VERIF_ASSUME(k <= 36);
#endif
    /* the byte sequence a deeply nested unknown struct presents: field 1 of type STRUCT, k times; then symbolic bytes */
    uint8_t* in = malloc(40); VERIF_NOTNULL(in);
    for (unsigned i = 0; i < 40; i++) in[i] = i < k ? 0x1C : IN.b[i & 7];
    thrift_decoder_init(&dec, in, 40);
    thrift_type_t t; int16_t id;
    unsigned opened = 0;
    for (unsigned i = 0; i <= k; i++) {
        thrift_read_struct_begin(&dec);
        if (dec.status != CARQUET_OK) break;
        opened++;
        CHECK(dec.nesting_level >= 1 && dec.nesting_level <= THRIFT_MAX_NESTING, "open frames never exceed the decoder's frame array");
        if (i < k) { bool more = thrift_read_field_begin(&dec, &t, &id); CHECK(!more || (t == THRIFT_TYPE_STRUCT && id == 1) || dec.status != CARQUET_OK, "nested struct field header"); }
    }
    CHECK(opened <= THRIFT_MAX_NESTING, "nesting deeper than THRIFT_MAX_NESTING is refused with an error");
    CHECK(k < THRIFT_MAX_NESTING ? dec.status == CARQUET_OK : true, "nesting within the limit is accepted");
    (void)thrift_read_field_begin(&dec, &t, &id);          /* a field header at the deepest level (symbolic bytes) */
    for (unsigned i = 0; i < opened; i++) thrift_read_struct_end(&dec);
    CHECK(dec.nesting_level >= 0 && dec.nesting_level <= THRIFT_MAX_NESTING, "frame counter stays inside the array after closing");
    free(in);
#endif
    enc_done();
    VERIF_WITNESS();
}
#ifdef REPLAY
#include REPLAY_FILE
#endif
