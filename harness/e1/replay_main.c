/* native replay entry: runs the harness once on the recorded counterexample */
void harness(void);
int main(void) { harness(); return 0; }
