/* C11/C12 — raw LSB-first bit packing (engine E1).
 * Real code: src/core/bitpack.c (carquet_bitpack_32 / carquet_bitunpack_32, the 8-value kernels carquet_bitpack8_32,
 * carquet_bitunpack8_32, carquet_bitunpack8_{1..8}bit + carquet_get_bitunpack8_fn, carquet_bit_writer_*, carquet_bit_reader_*).
 * Oracle: ref_bitpack_lsb / ref_bitunpack_lsb / ref_bitpack64_lsb / ref_bitunpack64_lsb of /verif/ref.
 *   -DVBW=<bit width 0..32 (MODE 7/8: 0..64)>  -DVN=<concrete value count>
 *   -DMODE=1  carquet_bitpack_32(v, n, bw) into an exact-size ceil(n*bw/8) object: bytes == reference packing of v mod 2^bw,
 *             returned size == ceil(n*bw/8)                                                                  [C12, C11]
 *   -DMODE=2  carquet_bitunpack_32 on an exact-size object holding ANY ceil(n*bw/8) bytes (incl. non-zero padding bits)
 *             == reference unpack, returned size == ceil(n*bw/8)                                             [C12]
 *   -DMODE=3  round trip unpack(pack(v)) == v mod 2^bw with both byte counts equal                           [C11]
 *   -DMODE=4  8-value kernels: bitpack8_32 == reference, bitunpack8_32 and (bw<=8) the table entry
 *             carquet_get_bitunpack8_fn(bw) / carquet_bitunpack8_<bw>bit == reference, on exact bw-byte objects [C11, C12]
 *   -DMODE=5  bit writer: n x write_bits(v[i], bw) (+ flush) into an exact-size object == reference packing   [C11, C12]
 *   -DMODE=6  bit reader: n x read_bits(bw) from ANY exact-size byte object == reference unpack; has_more /
 *             remaining_bits bookkeeping                                                                      [C11, C12]
 *   -DMODE=7  write_bits64 / read_bits64 (bw 0..64) round trip and == reference 64-bit packing                [C11, C12]
 *   -DMODE=8  write_bit / read_bit: n single bits == reference packing at width 1                             [C11, C12]
 */
#include "c11_common.h"
#include "core/bitpack.h"
#include "ref_codecs.h"

#ifndef VBW
#define VBW 3
#endif
#ifndef VN
#define VN 9
#endif
#if MODE == 4
#undef VN
#define VN 8
#endif
#define VNN (VN ? VN : 1)
#define NBYTES (((size_t)VN * VBW + 7) / 8)
#define NB1 (NBYTES ? NBYTES : 1)

struct in {
    uint32_t v[VNN];
    uint64_t w[VNN];
    uint8_t bytes[NB1];
};
struct in nondet_in(void);

void harness(void) {
    struct in IN = nondet_in();
#if MODE != 7
    const uint32_t mask = VBW >= 32 ? 0xffffffffu : ((1u << VBW) - 1u);
    uint32_t vm[VNN];                    /* what the stream can represent: v mod 2^bw */
    for (int i = 0; i < VN; i++) vm[i] = IN.v[i] & mask;
    uint8_t rbuf[NB1]; size_t rlen = 0;
    VERIF_ASSERT(ref_bitpack_lsb(vm, VN, VBW, rbuf, NBYTES, &rlen) == REF_OK && rlen == NBYTES, "harness: reference packs");
#endif

#if MODE == 1 || MODE == 3
    uint32_t* vin = (uint32_t*)exact(IN.v, (size_t)VN * 4);
#if defined(EXCLUDE_F_PACK_TAIL)
    /* open finding F-PACK-TAIL: for n % 8 != 0 the last partial group is written as a WHOLE group (bw bytes) although only
       ceil((n%8)*bw/8) bytes are reported.  With the finding excluded the output object has room for whole groups and
       the surplus bytes are required to be the zero padding of the group. */
    const size_t osz = ((size_t)VN + 7) / 8 * VBW;
#else
    const size_t osz = NBYTES;
#endif
    uint8_t* out = malloc(osz); VERIF_NOTNULL(out);
    size_t wr = carquet_bitpack_32(vin, VN, VBW, out);
    VERIF_ASSERT(wr == NBYTES, "bytes written == ceil(n*bw/8)");
    for (size_t i = 0; i < NBYTES; i++) VERIF_ASSERT(out[i] == rbuf[i], "packed bytes == reference LSB-first packing");
    for (size_t i = NBYTES; i < osz; i++) VERIF_ASSERT(out[i] == 0, "bytes of the padded final group beyond the reported size are 0");
#if MODE == 3
    uint8_t* pin = exact(out, NBYTES);
    uint32_t* o = malloc((size_t)VNN * 4); VERIF_NOTNULL(o);
    size_t rd = carquet_bitunpack_32(pin, VN, VBW, o);
    VERIF_ASSERT(rd == wr, "bytes consumed == bytes written");
    for (int i = 0; i < VN; i++) VERIF_ASSERT(o[i] == vm[i], "unpack(pack(v)) == v");
    free(o); free(pin);
#endif
    free(out); free(vin);
#elif MODE == 2
    uint8_t* pin = exact(IN.bytes, NBYTES);
    uint32_t* o = malloc((size_t)VNN * 4); VERIF_NOTNULL(o);
    uint32_t ro[VNN]; size_t rc = 0;
    VERIF_ASSERT(ref_bitunpack_lsb(IN.bytes, NBYTES, VBW, ro, VN, &rc) == REF_OK, "harness: reference unpacks");
    size_t rd = carquet_bitunpack_32(pin, VN, VBW, o);
    VERIF_ASSERT(rd == rc && rd == NBYTES, "bytes consumed == ceil(n*bw/8)");
    for (int i = 0; i < VN; i++) VERIF_ASSERT(o[i] == ro[i], "unpacked values == reference");
    free(o); free(pin);
#elif MODE == 4
    uint8_t* out = malloc(VBW); VERIF_NOTNULL(out);
    uint32_t* vin = (uint32_t*)exact(IN.v, 32);
    carquet_bitpack8_32(vin, VBW, out);
    for (size_t i = 0; i < NBYTES; i++) VERIF_ASSERT(out[i] == rbuf[i], "bitpack8_32 == reference");
    uint8_t* pin = exact(IN.bytes, VBW);
    uint32_t ro[8]; size_t rc = 0;
    VERIF_ASSERT(ref_bitunpack_lsb(IN.bytes, VBW, VBW, ro, 8, &rc) == REF_OK, "harness: reference unpacks");
    uint32_t* o = malloc(32); VERIF_NOTNULL(o);
    carquet_bitunpack8_32(pin, VBW, o);
    for (int i = 0; i < 8; i++) VERIF_ASSERT(o[i] == ro[i], "bitunpack8_32 == reference");
    carquet_bitunpack8_fn f = carquet_get_bitunpack8_fn(VBW);
#if VBW >= 1 && VBW <= 8
    VERIF_ASSERT(f != 0, "fast path registered for widths 1..8");
    for (int i = 0; i < 8; i++) o[i] = ~ro[i];
    f(pin, o);
    for (int i = 0; i < 8; i++) VERIF_ASSERT(o[i] == ro[i], "specialised bitunpack8_<bw>bit == reference");
#else
    VERIF_ASSERT(f == 0, "no fast path outside 1..8");
#endif
    VERIF_ASSERT(carquet_get_bitpack8_fn(VBW) == 0, "documented: no specialised pack kernels");
    free(o); free(pin); free(vin); free(out);
#elif MODE == 5
    uint8_t* out = malloc(NBYTES); VERIF_NOTNULL(out);
    carquet_bit_writer_t w;
    carquet_bit_writer_init(&w, out, NBYTES);
#ifdef EXCLUDE_F_BITWRITER_WIDE
    /* open finding F-BITWRITER-WIDE: write_bits ORs value << buffer_bits into a 64-bit accumulator that is only drained
       once it holds >= 56 bits, so a write with buffer_bits + num_bits > 64 silently drops the top
       buffer_bits + num_bits - 64 bits of the value.  Excluded: exactly the values whose dropped bits are not all 0. */
    { int b = 0;
      for (int i = 0; i < VN; i++) {
          if (b + VBW > 64) VERIF_ASSUME((vm[i] >> (64 - b)) == 0);
          b += VBW; if (b >= 56) b %= 8;
      } }
#endif
    for (int i = 0; i < VN; i++) carquet_bit_writer_write_bits(&w, IN.v[i], VBW);
    carquet_bit_writer_flush(&w);
    VERIF_ASSERT(carquet_bit_writer_bytes_written(&w) == NBYTES, "bytes written == ceil(n*bw/8)");
    for (size_t i = 0; i < NBYTES; i++) VERIF_ASSERT(out[i] == rbuf[i], "bit writer output == reference LSB-first packing");
    free(out);
#elif MODE == 6
    uint8_t* pin = exact(IN.bytes, NBYTES);
    uint32_t ro[VNN]; size_t rc = 0;
    VERIF_ASSERT(ref_bitunpack_lsb(IN.bytes, NBYTES, VBW, ro, VN, &rc) == REF_OK, "harness: reference unpacks");
    carquet_bit_reader_t r;
    carquet_bit_reader_init(&r, pin, NBYTES);
    VERIF_ASSERT(carquet_bit_reader_remaining_bits(&r) == NBYTES * 8, "remaining_bits at start");
    for (int i = 0; i < VN; i++) {
        VERIF_ASSERT(VBW == 0 || carquet_bit_reader_has_more(&r), "has_more while values remain");
        uint32_t x = carquet_bit_reader_read_bits(&r, VBW);
        VERIF_ASSERT(x == ro[i], "read_bits == reference unpack");
        VERIF_ASSERT(carquet_bit_reader_remaining_bits(&r) == NBYTES * 8 - (size_t)(i + 1) * VBW, "remaining_bits decreases by bw");
    }
    VERIF_ASSERT(carquet_bit_reader_has_more(&r) == (NBYTES * 8 > (size_t)VN * VBW), "has_more == unread (padding) bits left");
    free(pin);
#elif MODE == 7
    const uint64_t mask64 = VBW >= 64 ? ~0ULL : ((1ULL << VBW) - 1ULL);
    uint64_t wm[VNN];
    for (int i = 0; i < VN; i++) wm[i] = IN.w[i] & mask64;
    uint8_t rbuf[NB1]; size_t rlen = 0;
    VERIF_ASSERT(ref_bitpack64_lsb(wm, VN, VBW, rbuf, NBYTES, &rlen) == REF_OK && rlen == NBYTES, "harness: reference packs");
    uint8_t* out = malloc(NBYTES); VERIF_NOTNULL(out);
    carquet_bit_writer_t w;
    carquet_bit_writer_init(&w, out, NBYTES);
#ifdef EXCLUDE_F_BITWRITER_WIDE
    { int b = 0;   /* write_bits64 = write_bits(low 32) ; write_bits(high, bw-32) for bw > 32 */
      for (int i = 0; i < VN; i++) {
          int parts[2] = { VBW > 32 ? 32 : VBW, VBW > 32 ? VBW - 32 : 0 };
          uint64_t val[2] = { VBW > 32 ? (wm[i] & 0xffffffffu) : wm[i], VBW > 32 ? (wm[i] >> 32) : 0 };
          for (int k = 0; k < 2; k++) if (parts[k]) {
              if (b + parts[k] > 64) VERIF_ASSUME((val[k] >> (64 - b)) == 0);
              b += parts[k]; if (b >= 56) b %= 8;
          }
      } }
#endif
    for (int i = 0; i < VN; i++) carquet_bit_writer_write_bits64(&w, IN.w[i], VBW);
    carquet_bit_writer_flush(&w);
    VERIF_ASSERT(carquet_bit_writer_bytes_written(&w) == NBYTES, "bytes written == ceil(n*bw/8)");
    for (size_t i = 0; i < NBYTES; i++) VERIF_ASSERT(out[i] == rbuf[i], "write_bits64 output == reference 64-bit LSB-first packing");
    /* reader on ANY bytes */
    uint8_t* pin = exact(IN.bytes, NBYTES);
    uint64_t ro[VNN]; size_t rc = 0;
    VERIF_ASSERT(ref_bitunpack64_lsb(IN.bytes, NBYTES, VBW, ro, VN, &rc) == REF_OK, "harness: reference unpacks");
    carquet_bit_reader_t r;
    carquet_bit_reader_init(&r, pin, NBYTES);
    for (int i = 0; i < VN; i++) VERIF_ASSERT(carquet_bit_reader_read_bits64(&r, VBW) == ro[i], "read_bits64 == reference unpack");
    free(pin); free(out);
#elif MODE == 8
    uint8_t* out = malloc(NBYTES); VERIF_NOTNULL(out);
    carquet_bit_writer_t w;
    carquet_bit_writer_init(&w, out, NBYTES);
    for (int i = 0; i < VN; i++) carquet_bit_writer_write_bit(&w, (int)IN.v[i]);
    carquet_bit_writer_flush(&w);
    VERIF_ASSERT(carquet_bit_writer_bytes_written(&w) == NBYTES, "bytes written == ceil(n/8)");
    for (size_t i = 0; i < NBYTES; i++) VERIF_ASSERT(out[i] == rbuf[i], "write_bit output == reference packing at width 1");
    carquet_bit_reader_t r;
    carquet_bit_reader_init(&r, out, NBYTES);
    for (int i = 0; i < VN; i++) VERIF_ASSERT(carquet_bit_reader_read_bit(&r) == (int)vm[i], "read_bit returns the bits in order");
    for (size_t k = (size_t)VN; k < NBYTES * 8; k++) VERIF_ASSERT(carquet_bit_reader_read_bit(&r) == 0, "padding bits are 0");
    VERIF_ASSERT(carquet_bit_reader_read_bit(&r) == -1, "read_bit at the end of data returns -1");
    free(out);
#endif
    VERIF_WITNESS();
}
#ifdef REPLAY
#include REPLAY_FILE
#endif
