/* C10 / C08 — Snappy and LZ4 block decompressors (engine E1).
 * Real code: src/compression/snappy.c (carquet_snappy_decompress, carquet_snappy_get_uncompressed_length),
 *            src/compression/lz4.c (carquet_lz4_decompress).
 * Oracles:   /verif/ref/ref_snappy.c, ref_lz4.c (decoders and script-driven encoders written from
 *            google/snappy format_description.txt and lz4 doc/lz4_Block_format.md), plus, for Snappy, a data-free
 *            element walker written here from the same document; it classifies a stream (valid / valid prefix
 *            followed by left-over input / ends in a bare copy-1 tag / over-long preamble / invalid), is asserted
 *            consistent with ref_snappy_decode, and supplies the exclusion predicates of the known findings.
 *
 * -DCODEC 0 Snappy, 1 LZ4.   -DL input length (concrete).   -DCAP largest output capacity (capacity symbolic 0..CAP).
 * -DMODE 1  safety on arbitrary bytes (C08): no out-of-bounds access, OK => reported size <= capacity
 *        2  differential against the reference decoder (C10 a)
 *        3  independent-encoder direction (C10): reference script encoder -> carquet decoder, -DNE elements,
 *           -DLITMAX / -DCPMAX largest literal / copy length per element, -DKINDS optional fixed kinds (decimal
 *           digits, element 0 first; Snappy 0 literal 1 copy-1 2 copy-2 3 copy-4)                               */
#include "verif_e1.h"
#include <carquet/error.h>
#include "ref_codecs.h"

carquet_status_t carquet_snappy_decompress(const uint8_t* src, size_t src_size, uint8_t* dst, size_t dst_capacity, size_t* dst_size);
carquet_status_t carquet_snappy_get_uncompressed_length(const uint8_t* src, size_t src_size, size_t* length);
carquet_status_t carquet_lz4_decompress(const uint8_t* src, size_t src_size, uint8_t* dst, size_t dst_capacity, size_t* dst_size);

#ifndef CODEC
#define CODEC 0
#endif
#ifndef MODE
#define MODE 1
#endif
#ifndef L
#define L 4
#endif
#ifndef CAP
#define CAP 16
#endif
#ifndef NE
#define NE 2
#endif
#ifndef LITMAX
#define LITMAX 3
#endif
#ifndef CPMAX
#define CPMAX 12
#endif
#define LITTOT (NE * LITMAX)
#define EXPCAP (NE * (LITMAX > CPMAX ? LITMAX : CPMAX))
#define STREAMCAP (5 + NE * (5 + LITMAX) + 8)

/* ---------------------------------------------------------------- Snappy element walker (format_description.txt) */
enum { W_INVALID = 0, W_VALID = 1, W_LEFTOVER = 2, W_COPY1_AT_END = 3, W_PREAMBLE_OVERLONG = 4 };
static unsigned o_le(const uint8_t* p, unsigned k) { unsigned v = 0; for (unsigned i = 0; i < k; i++) v |= (unsigned)p[i] << (8 * i); return v; }
static int o_snappy_walk(const uint8_t* s, size_t n, size_t cap) {
    uint64_t declared = 0, produced = 0; size_t pos = 0; int i;
    for (i = 0; i < 5; i++) {
        if (pos >= n) return W_INVALID;
        uint8_t b = s[pos++];
        if (i == 4 && (b & 0x7F) > 0x0F) return (b & 0x80) ? W_INVALID : W_PREAMBLE_OVERLONG;   /* value needs more than 32 bits */
        declared |= (uint64_t)(b & 0x7F) << (7 * i);
        if (!(b & 0x80)) break;
    }
    if (i == 5) return W_INVALID;
    if (declared > cap) return W_INVALID;
    while (pos < n) {
        if (produced == declared) return W_LEFTOVER;        /* a complete valid stream, then more input */
        uint8_t tag = s[pos++]; unsigned kind = tag & 3; uint64_t len;
        if (kind == 0) {
            len = (uint64_t)(tag >> 2) + 1;
            if (len > 60) {
                unsigned extra = (unsigned)len - 60;
                if (extra > n - pos) return W_INVALID;
                len = (uint64_t)o_le(s + pos, extra) + 1; pos += extra;
            }
            if (len > n - pos || len > declared - produced) return W_INVALID;
            pos += len; produced += len;
        } else {
            unsigned opb = kind == 1 ? 1 : kind == 2 ? 2 : 4;
            len = kind == 1 ? 4 + ((tag >> 2) & 7) : (uint64_t)(tag >> 2) + 1;
            if (kind == 1 && pos == n) return W_COPY1_AT_END;  /* copy-1 tag is the last input byte: its offset byte is missing */
            if (opb > n - pos) return W_INVALID;
            uint64_t off = o_le(s + pos, opb); pos += opb;
            if (kind == 1) off |= (uint64_t)(tag >> 5) << 8;
            if (off == 0 || off > produced || len > declared - produced) return W_INVALID;
            produced += len;
        }
    }
    return produced == declared ? W_VALID : W_INVALID;
}

struct in {
    uint8_t s[L ? L : 1];
    uint8_t cap;
    /* MODE 3 */
    uint8_t kind[NE], form[NE];
    uint8_t len[NE];
    uint8_t offlo[NE], offhi[NE];     /* bytes only: no padding members in the replayed struct */
    uint8_t lit[LITTOT ? LITTOT : 1];
    uint8_t tail[STREAMCAP];          /* MODE 3: arbitrary bytes behind the end of the compressed stream */
};
struct in nondet_in(void);

static carquet_status_t run_carquet(const uint8_t* in, size_t n, uint8_t* out, size_t cap, size_t* got) {
#if CODEC == 0
    return carquet_snappy_decompress(in, n, out, cap, got);
#else
    return carquet_lz4_decompress(in, n, out, cap, got);
#endif
}
/* exact-size heap copy */
static uint8_t* exact(const uint8_t* src, size_t n, size_t nmax) {
    uint8_t* p = malloc(n);
    VERIF_NOTNULL(p);
    for (size_t i = 0; i < nmax; i++) if (i < n) p[i] = src[i];
    return p;
}

void harness(void) {
    struct in IN = nondet_in();
#if MODE == 1 || MODE == 2
    size_t cap = IN.cap;
    VERIF_ASSUME(cap <= CAP);
    uint8_t* in = exact(IN.s, L, L);
#if MODE == 1
    uint8_t* out = malloc(cap);                     /* exact-size output object */
    VERIF_NOTNULL(out);
#else
    /* MODE 2 reads the output back: an object of symbolic size makes CBMC's array post-processing explode, so the object
       has the fixed size CAP, the capacity passed is the symbolic cap <= CAP, and the bytes above cap are a canary
       (writes above the capacity are already excluded, for exactly these inputs, by the MODE 1 obligations) */
    uint8_t* out = malloc(CAP + 1);
    VERIF_NOTNULL(out);
    for (size_t i = 0; i <= CAP; i++) out[i] = (uint8_t)(0xC3 ^ i);
#endif
#if CODEC == 0
    int w = o_snappy_walk(IN.s, L, cap);
#ifdef EXCLUDE_F_SNAPPY_COPY1
    VERIF_ASSUME(w != W_COPY1_AT_END);
#endif
#endif
    size_t got = (size_t)-1;
    carquet_status_t st = run_carquet(in, L, out, cap, &got);
    if (st == CARQUET_OK) VERIF_ASSERT(got <= cap, "OK => reported size <= capacity");
#if MODE == 2
    for (size_t i = 0; i <= CAP; i++) if (i >= cap) VERIF_ASSERT(out[i] == (uint8_t)(0xC3 ^ i), "bytes above the capacity untouched");
#endif
#if MODE == 1
#if CODEC == 0
    size_t hdr = (size_t)-1;
    carquet_status_t sh = carquet_snappy_get_uncompressed_length(in, L, &hdr);
    if (st == CARQUET_OK) VERIF_ASSERT(sh == CARQUET_OK && hdr == got, "decompressed size == size announced by get_uncompressed_length");
#endif
#else /* MODE 2 */
    uint8_t ro[CAP + 1]; size_t rn = (size_t)-1;
#if CODEC == 0
    int rc = ref_snappy_decode(IN.s, L, ro, cap, &rn);
    /* the two spec-derived oracles agree on validity */
    VERIF_ASSERT((w == W_VALID) == (rc == REF_OK), "oracle consistency: walker and reference decoder agree on validity");
#ifdef EXCLUDE_F_SNAPPY_LEFTOVER
    VERIF_ASSUME(w != W_LEFTOVER);
#endif
#ifdef EXCLUDE_F_SNAPPY_PREAMBLE
    VERIF_ASSUME(w != W_PREAMBLE_OVERLONG);
#endif
    if (rc == REF_OK) {
        VERIF_ASSERT(st == CARQUET_OK, "reference accepts => carquet accepts");
        VERIF_ASSERT(got == rn, "same decompressed size");
        for (size_t i = 0; i < CAP; i++) if (i < rn) VERIF_ASSERT(out[i] == ro[i], "same decompressed bytes");
    } else {
        VERIF_ASSERT(st != CARQUET_OK, "reference rejects => carquet rejects");
    }
    /* the preamble reader alone */
    uint32_t rl = 0; size_t rh = 0; size_t hdr = (size_t)-1;
    int rcl = ref_snappy_uncompressed_length(IN.s, L, &rl, &rh);
    carquet_status_t sh = carquet_snappy_get_uncompressed_length(in, L, &hdr);
    VERIF_ASSERT((sh == CARQUET_OK) == (rcl == REF_OK), "get_uncompressed_length accepts exactly the valid preambles");
    if (rcl == REF_OK) VERIF_ASSERT(hdr == rl, "get_uncompressed_length returns the preamble value");
#else
    /* LZ4 block.  Compared: every stream the block format defines (reference accepts) and every stream it clearly
       rules out (offset 0, offset beyond the output, truncated sequence, output overflow).  NOT compared: the empty
       input (no token at all) and a block that stops right after a match, i.e. lacks the final literals-only
       sequence -- carquet is lenient there like many decoders; its output must then equal the reference's output
       for the same block completed by an empty final sequence (token 0x00). */
    int rc = ref_lz4_block_decode(IN.s, L, ro, cap, &rn, 0);
    if (rc == REF_OK) {
        VERIF_ASSERT(st == CARQUET_OK, "reference accepts => carquet accepts");
        VERIF_ASSERT(got == rn, "same decompressed size");
        for (size_t i = 0; i < CAP; i++) if (i < rn) VERIF_ASSERT(out[i] == ro[i], "same decompressed bytes");
    } else if (st == CARQUET_OK) {
#if L == 0
        VERIF_ASSERT(got == 0, "empty input: nothing produced");
#else
        uint8_t s2[L + 1]; for (int i = 0; i < L; i++) s2[i] = IN.s[i]; s2[L] = 0x00;
        size_t rn2 = (size_t)-1;
        int rc2 = ref_lz4_block_decode(s2, L + 1, ro, cap, &rn2, 0);
        VERIF_ASSERT(rc2 == REF_OK, "carquet accepts a stream the reference rejects only when the final literals-only sequence is missing");
        VERIF_ASSERT(got == rn2, "same decompressed size (block completed by an empty final sequence)");
        for (size_t i = 0; i < CAP; i++) if (i < rn2) VERIF_ASSERT(out[i] == ro[i], "same decompressed bytes (block completed by an empty final sequence)");
#endif
    }
#endif
#endif
    free(in); free(out);
#elif MODE == 3
    uint8_t stream[STREAMCAP], expect[EXPCAP]; size_t sl = 0, el = 0;
    for (int i = 0; i < STREAMCAP; i++) stream[i] = IN.tail[i];
#ifdef KINDS
    { unsigned k = KINDS; for (int i = NE - 1; i >= 0; i--) { VERIF_ASSUME(IN.kind[i] == k % 10); k /= 10; } }
#endif
#if CODEC == 0
    ref_snappy_elem_t sc[NE];
    for (int i = 0; i < NE; i++) {
        sc[i].kind = IN.kind[i]; sc[i].form = IN.form[i]; sc[i].len = IN.len[i]; sc[i].offset = (uint16_t)(IN.offlo[i] | (IN.offhi[i] << 8));
        VERIF_ASSUME(IN.kind[i] <= 3);
        VERIF_ASSUME(IN.form[i] <= 4);                            /* literal length in the tag or in 1..4 bytes (non-minimal forms are legal) */
        VERIF_ASSUME(IN.len[i] <= (IN.kind[i] == 0 ? LITMAX : CPMAX));
    }
#ifdef LIT0      /* focused shape: first element = literal of exactly LIT0 bytes, second = copy of CPMIN..CPMAX bytes (offsets stay symbolic) */
    VERIF_ASSUME(IN.kind[0] == 0 && IN.len[0] == LIT0 && IN.form[0] == 0);
    VERIF_ASSUME(NE < 2 || (IN.kind[1] != 0 && IN.len[1] >= CPMIN));
#endif
    VERIF_ASSUME(ref_snappy_encode_script(sc, NE, IN.lit, LITTOT, stream, STREAMCAP, &sl, expect, EXPCAP, &el) == REF_OK);
#else
    ref_lz4_seq_t sc[NE];
    for (int i = 0; i < NE; i++) {
        sc[i].lit_len = IN.len[i]; sc[i].match_len = IN.form[i]; sc[i].offset = (uint16_t)(IN.offlo[i] | (IN.offhi[i] << 8));
        VERIF_ASSUME(IN.len[i] <= LITMAX && IN.form[i] <= CPMAX);
    }
#ifdef LIT0      /* focused shape: first sequence = exactly LIT0 literals + a match of CPMIN..CPMAX bytes (offset symbolic), then the final literals */
    VERIF_ASSUME(IN.len[0] == LIT0 && IN.form[0] >= CPMIN);
#endif
    VERIF_ASSUME(ref_lz4_encode_script(sc, NE, IN.lit, LITTOT, stream, STREAMCAP, &sl, expect, EXPCAP, &el) == REF_OK);
#endif
    VERIF_ASSUME(sl <= STREAMCAP && el <= EXPCAP);
    /* objects of fixed size (a symbolic-size object that is read back makes CBMC's array post-processing explode):
       the input object holds the stream followed by ARBITRARY bytes, so a decision or output that depended on a
       read behind src_size would differ for some value of them; the output object carries a canary above the
       expected size.  (Exact-size objects for arbitrary inputs: MODE 1.) */
    uint8_t* in = exact(stream, STREAMCAP, STREAMCAP);
    uint8_t* out = malloc(EXPCAP + 1);
    VERIF_NOTNULL(out);
    for (size_t i = 0; i <= EXPCAP; i++) out[i] = (uint8_t)(0xC3 ^ i);
    size_t got = (size_t)-1;
    carquet_status_t st = run_carquet(in, sl, out, el, &got);
    VERIF_ASSERT(st == CARQUET_OK, "stream built by the reference encoder is accepted");
    VERIF_ASSERT(got == el, "decompressed size == expected size");
    for (size_t i = 0; i <= EXPCAP; i++) {
        if (i < el) VERIF_ASSERT(out[i] == expect[i], "decompressed bytes == expected bytes");
        else VERIF_ASSERT(out[i] == (uint8_t)(0xC3 ^ i), "bytes above the expected size untouched");
    }
    free(in); free(out);
#endif
    VERIF_WITNESS();
}
#ifdef REPLAY
#include REPLAY_FILE
#endif
