/* C11/C12 — dictionary encoding (engine E1).
 * Real code: src/encoding/dictionary.c (carquet_dictionary_encode_{int32,int64,float,double,byte_array}, dict_builder_*,
 * dict_hash, bit_width_for_count), src/core/buffer.c, src/core/endian.h.
 *   -DVKIND=0 int32 | 1 int64 | 2 float | 3 double (bit patterns) | 4 byte_array (lengths symbolic 0..VW)
 *   -DVN=<values, concrete>  -DVD=<upper bound on distinct values assumed (pigeonhole: at most VD different values)>
 *   -DMODE=1  ENCODER, with carquet_rle_encode_all replaced by a FUNCTION SUMMARY (records indices / bit width, appends an
 *             arbitrary 0..4-byte blob; the real one is the subject of rle/...): the dictionary page is the PLAIN encoding
 *             (ref_plain_decode_*) of the distinct values in first-occurrence order without duplicates, every index is
 *             inside the dictionary and dictionary[index[i]] == v[i], the index page is <bit width byte> ++ hybrid data,
 *             the bit width is the one handed to the RLE encoder and is large enough for the largest index.
 * The dictionary DECODERS are exercised by c12_rle_dec.c (VT 4/5) on specification index streams. */
#include "c11_common.h"
#include <carquet/carquet.h>
#include "encoding/rle.h"
#include "ref_codecs.h"

#ifndef VKIND
#define VKIND 0
#endif
#ifndef VN
#define VN 4
#endif
#ifndef VD
#define VD 3
#endif
#ifndef VW
#define VW 2
#endif
#define VNN (VN ? VN : 1)
#if VKIND == 0 || VKIND == 2
#define ESZ 4
typedef uint32_t elem_t;
#elif VKIND == 1 || VKIND == 3
#define ESZ 8
typedef uint64_t elem_t;
#else
#define ESZ VW
typedef struct { uint8_t b[VW ? VW : 1]; } elem_t;
#endif
#define MAXBLOB 4

carquet_status_t carquet_dictionary_encode_int32(const int32_t*, int64_t, carquet_buffer_t*, carquet_buffer_t*);
carquet_status_t carquet_dictionary_encode_int64(const int64_t*, int64_t, carquet_buffer_t*, carquet_buffer_t*);
carquet_status_t carquet_dictionary_encode_float(const float*, int64_t, carquet_buffer_t*, carquet_buffer_t*);
carquet_status_t carquet_dictionary_encode_double(const double*, int64_t, carquet_buffer_t*, carquet_buffer_t*);
carquet_status_t carquet_dictionary_encode_byte_array(const carquet_byte_array_t*, int64_t, carquet_buffer_t*, carquet_buffer_t*);
carquet_status_t carquet_dictionary_decode_int32(const uint8_t*, size_t, int32_t, const uint8_t*, size_t, int32_t*, int64_t);
carquet_status_t carquet_dictionary_decode_int64(const uint8_t*, size_t, int32_t, const uint8_t*, size_t, int64_t*, int64_t);
carquet_status_t carquet_dictionary_decode_float(const uint8_t*, size_t, int32_t, const uint8_t*, size_t, float*, int64_t);
carquet_status_t carquet_dictionary_decode_double(const uint8_t*, size_t, int32_t, const uint8_t*, size_t, double*, int64_t);

struct in {
    elem_t pool[VD ? VD : 1];     /* the (at most VD) different values */
    uint8_t plen[VD ? VD : 1];    /* byte_array: their lengths */
    uint8_t pick[VNN];            /* v[i] = pool[pick[i]] */
    uint8_t blob[MAXBLOB], bloblen;
    uint32_t badidx;              /* MODE 2: an index outside the dictionary */
};
struct in nondet_in(void);

#if MODE == 1
static struct in* g_in; static int g_calls, g_bw; static int64_t g_count; static uint32_t g_idx[VNN];
carquet_status_t carquet_rle_encode_all(const uint32_t* input, int64_t count, int bit_width, carquet_buffer_t* output) {
    g_calls++; g_bw = bit_width; g_count = count;
    for (int i = 0; i < VN; i++) if (i < count) g_idx[i] = input[i];
    return carquet_buffer_append(output, g_in->blob, g_in->bloblen);
}
static int same(const struct in* I, int a, int b) {           /* pool entries a, b are the same value */
#if VKIND == 4
    if (I->plen[a] != I->plen[b]) return 0;
    for (int j = 0; j < VW; j++) if (j < I->plen[a] && I->pool[a].b[j] != I->pool[b].b[j]) return 0;
    return 1;
#else
    return I->pool[a] == I->pool[b];
#endif
}
#endif

void harness(void) {
    struct in IN = nondet_in();
#if MODE == 1
    g_in = &IN;
    VERIF_ASSUME(IN.bloblen <= MAXBLOB);
    for (int i = 0; i < VN; i++) VERIF_ASSUME(IN.pick[i] < VD);
#if VKIND == 4
    for (int d = 0; d < VD; d++) VERIF_ASSUME(IN.plen[d] <= VW);
    carquet_byte_array_t* vin = malloc(VNN * sizeof *vin); VERIF_NOTNULL(vin);
    for (int i = 0; i < VN; i++) { vin[i].data = exact(IN.pool[IN.pick[i]].b, IN.plen[IN.pick[i]]); vin[i].length = IN.plen[IN.pick[i]]; }
#else
    elem_t tmp[VNN];
    for (int i = 0; i < VN; i++) tmp[i] = IN.pool[IN.pick[i]];
    elem_t* vin = (elem_t*)exact(tmp, (size_t)VN * ESZ);
#endif
    carquet_buffer_t dict, idx; carquet_buffer_init(&dict); out_init(&idx);
    carquet_status_t st;
#if VKIND == 0
    st = carquet_dictionary_encode_int32((const int32_t*)vin, VN, &dict, &idx);
#elif VKIND == 1
    st = carquet_dictionary_encode_int64((const int64_t*)vin, VN, &dict, &idx);
#elif VKIND == 2
    st = carquet_dictionary_encode_float((const float*)vin, VN, &dict, &idx);
#elif VKIND == 3
    st = carquet_dictionary_encode_double((const double*)vin, VN, &dict, &idx);
#else
    st = carquet_dictionary_encode_byte_array(vin, VN, &dict, &idx);
#endif
    VERIF_ASSERT(st == CARQUET_OK, "encoder returns OK");
    VERIF_ASSERT(g_calls == 1 && g_count == VN, "all n indices are RLE-encoded, once");
    /* ---- expected dictionary: the distinct values in first-occurrence order (specification: a dictionary page is the
       PLAIN encoding of the distinct values; indices refer to positions in it) */
    int first[VNN]; int nd = 0; uint32_t want[VNN];
    for (int i = 0; i < VN; i++) {
        int k = -1;
        for (int j = 0; j < VN; j++) if (j < nd && k < 0 && same(&IN, IN.pick[first[j]], IN.pick[i])) k = j;
        if (k < 0) { first[nd] = i; k = nd++; }
        want[i] = (uint32_t)k;
    }
    /* index page: <bit width> ++ hybrid data */
    VERIF_ASSERT(idx.size == 1 + (size_t)IN.bloblen && idx.data[0] == (uint8_t)g_bw, "index page == bit-width byte followed by the hybrid data");
    for (int i = 0; i < MAXBLOB; i++) if (i < IN.bloblen) VERIF_ASSERT(idx.data[1 + i] == IN.blob[i], "hybrid data emitted unchanged");
    VERIF_ASSERT(g_bw >= 0 && g_bw <= 32 && (nd <= 1 || ((uint32_t)(nd - 1) >> (g_bw >= 32 ? 31 : g_bw)) == 0 || g_bw == 32), "bit width holds the largest index");
    for (int i = 0; i < VN; i++) VERIF_ASSERT(g_idx[i] == want[i], "index[i] == position of v[i] among the distinct values in first-occurrence order");
    /* dictionary page */
#if VKIND == 4
    { ref_span_t sp[VNN]; size_t cons = 0;
      VERIF_ASSERT(ref_plain_decode_byte_array_inplace(dict.data, dict.size, (size_t)nd, sp, &cons) == REF_OK && cons == dict.size, "dictionary page == PLAIN byte arrays, nothing else");
      for (int k = 0; k < VN; k++) if (k < nd) {
          int d = IN.pick[first[k]];
          VERIF_ASSERT(sp[k].len == IN.plen[d], "dictionary entry length");
          for (int j = 0; j < VW; j++) if (j < IN.plen[d]) VERIF_ASSERT(dict.data[sp[k].off + j] == IN.pool[d].b[j], "dictionary entry bytes == first occurrence");
      } }
#else
    VERIF_ASSERT(dict.size == (size_t)nd * ESZ, "dictionary page holds exactly the distinct values");
    for (int k = 0; k < VN; k++) if (k < nd) {
        elem_t e = 0;
        for (int b = 0; b < ESZ; b++) e |= (elem_t)dict.data[k * ESZ + b] << (8 * b);     /* PLAIN = little-endian */
        VERIF_ASSERT(e == IN.pool[IN.pick[first[k]]], "dictionary entry == PLAIN encoding of the k-th distinct value");
    }
#endif
    carquet_buffer_destroy(&dict); carquet_buffer_destroy(&idx);
#if VKIND == 4
    for (int i = 0; i < VN; i++) free(vin[i].data);
#endif
    free(vin);
#endif
    VERIF_WITNESS();
}
#ifdef REPLAY
#include REPLAY_FILE
#endif
