/* C11/C12 — DELTA_LENGTH_BYTE_ARRAY and DELTA_BYTE_ARRAY ENCODERS (engine E1), compositional.
 * Real code: src/encoding/delta_length.c (carquet_delta_length_encode), src/encoding/delta_strings.c
 * (carquet_delta_strings_encode, common_prefix_length), src/core/buffer.c.
 * Both encoders are "DELTA_BINARY_PACKED(int32 lengths) ++ bytes".  carquet_delta_encode_int32 is replaced here by a
 * FUNCTION SUMMARY (src/encoding/delta.c is not linked): it records the int32 array it is given and emits an arbitrary
 * blob of 0..4 bytes (or fails, -DFAIL).  Running the real delta encoder underneath puts its symbolic-width mini-block
 * writes into every query (no verdict within 300 s already for two lengths); it is the subject of c11_delta.c / E2.
 * Oracle: the layout rules of the Parquet Encodings specification, spelled out below:
 *   DELTA_LENGTH_BYTE_ARRAY  = DBP(lengths) ++ all bytes back to back
 *   DELTA_BYTE_ARRAY         = DBP(prefix lengths) ++ DBP(suffix lengths) ++ suffix bytes back to back, where value i is
 *                              the first prefix[i] bytes of value i-1 followed by suffix i (prefix[0] = 0)
 *   -DVKIND=0 delta-length | 1 delta-byte-array    -DVN=<strings, concrete>   -DVW=<maximal length; lengths symbolic 0..VW>
 *   -DFAIL   the summarised integer encoder reports an error on call number IN.failcall: the string encoder must not
 *            return OK.
 * Finding F-DELTA-EMPTY (fixed in /repo by f0886c2): n = 0 used to be refused (CARQUET_ERROR_INVALID_ARGUMENT). */
#include "c11_common.h"
#include <carquet/carquet.h>

#ifndef VKIND
#define VKIND 0
#endif
#ifndef VN
#define VN 2
#endif
#ifndef VW
#define VW 3
#endif
#define VNN (VN ? VN : 1)
#define MAXBLOB 4

carquet_status_t carquet_delta_length_encode(const carquet_byte_array_t* values, int32_t num_values, carquet_buffer_t* output);
carquet_status_t carquet_delta_strings_encode(const carquet_byte_array_t* values, int32_t num_values, carquet_buffer_t* output);

struct in {
    uint8_t s[VNN][VW ? VW : 1];
    uint8_t len[VNN];
    uint8_t blob[2][MAXBLOB]; uint8_t bloblen[2];
    uint8_t failcall;
};
struct in nondet_in(void);

/* ---- function summary of carquet_delta_encode_int32 */
static struct in* g_in; static int g_calls; static int32_t g_arr[2][VNN]; static int32_t g_n[2];
carquet_status_t carquet_delta_encode_int32(const int32_t* values, int32_t num_values, uint8_t* data, size_t data_capacity, size_t* bytes_written) {
    int k = g_calls++;
    VERIF_ASSERT(k < 2, "integer encoder called at most twice");
    if (k >= 2) return CARQUET_ERROR_ENCODE;
    g_n[k] = num_values;
    for (int i = 0; i < VN; i++) if (i < num_values) g_arr[k][i] = values[i];
#ifdef FAIL
    if (k == (VKIND == 0 ? 0 : (g_in->failcall & 1))) return CARQUET_ERROR_ENCODE;
#endif
    VERIF_ASSERT(data_capacity >= MAXBLOB, "scratch capacity handed to the integer encoder holds the stream");
    for (int i = 0; i < MAXBLOB; i++) if (i < g_in->bloblen[k]) data[i] = g_in->blob[k][i];
    *bytes_written = g_in->bloblen[k];
    return CARQUET_OK;
}

void harness(void) {
    struct in IN = nondet_in();
    g_in = &IN;
    VERIF_ASSUME(IN.bloblen[0] <= MAXBLOB && IN.bloblen[1] <= MAXBLOB);
    carquet_byte_array_t* ba = malloc(VNN * sizeof *ba); VERIF_NOTNULL(ba);
    for (int i = 0; i < VN; i++) {
        VERIF_ASSUME(IN.len[i] <= VW);
        ba[i].data = exact(IN.s[i], IN.len[i]);       /* exact-size object per string */
        ba[i].length = IN.len[i];
    }
    carquet_buffer_t buf; out_init(&buf);
#if VKIND == 0
    carquet_status_t st = carquet_delta_length_encode(ba, VN, &buf);
    const int ncalls = 1;
#else
    carquet_status_t st = carquet_delta_strings_encode(ba, VN, &buf);
    const int ncalls = 2;
#endif
#if VN == 0 && defined(EXCLUDE_F_DELTA_EMPTY)
    /* finding F-DELTA-EMPTY (while listed as open): the empty sequence (the only input of this obligation) is refused;
       what stays checked is that the refusal is clean */
    VERIF_ASSERT(st != CARQUET_OK && buf.size == 0 && g_calls == 0, "empty sequence refused without emitting anything");
#elif defined(FAIL)
    VERIF_ASSERT(st != CARQUET_OK, "a failing integer encoder makes the string encoder fail");
#else
    VERIF_ASSERT(st == CARQUET_OK, "encoder returns OK");
    VERIF_ASSERT(g_calls == ncalls, "one DELTA_BINARY_PACKED stream per length array");
    for (int k = 0; k < ncalls; k++) VERIF_ASSERT(g_n[k] == VN, "every length array has n entries");
    size_t pos = 0;
    /* the integer streams come first, unchanged, in order */
    for (int k = 0; k < ncalls; k++) {
        for (int i = 0; i < MAXBLOB; i++) if (i < IN.bloblen[k]) VERIF_ASSERT(pos + i < buf.size && buf.data[pos + i] == IN.blob[k][i], "integer stream emitted unchanged");
        pos += IN.bloblen[k];
    }
#if VKIND == 0
    for (int i = 0; i < VN; i++) VERIF_ASSERT(g_arr[0][i] == IN.len[i], "lengths handed to DELTA_BINARY_PACKED == byte-array lengths");
    for (int i = 0; i < VN; i++) {
        for (int j = 0; j < VW; j++) if (j < IN.len[i]) VERIF_ASSERT(pos + j < buf.size && buf.data[pos + j] == IN.s[i][j], "bytes follow back to back");
        pos += IN.len[i];
    }
#else
    /* decode side of the specification: value i = prev[0..prefix) ++ suffix */
    uint8_t prev[VW ? VW : 1]; int prevlen = 0;
    for (int i = 0; i < VN; i++) {
        int32_t p = g_arr[0][i], sfx = g_arr[1][i];
        VERIF_ASSERT(p >= 0 && sfx >= 0 && p <= prevlen && (i > 0 || p == 0), "prefix length legal: 0 for the first value, never longer than the previous value");
        VERIF_ASSERT(p + sfx == IN.len[i], "prefix + suffix length == length of the value");
        for (int j = 0; j < VW; j++) if (j < IN.len[i]) {
            uint8_t got = j < p ? prev[j] : ((pos + (size_t)(j - p) < buf.size) ? buf.data[pos + (size_t)(j - p)] : (uint8_t)~IN.s[i][j]);
            VERIF_ASSERT(got == IN.s[i][j], "previous[0..prefix) ++ suffix bytes == value");
        }
        for (int j = 0; j < VW; j++) prev[j] = IN.s[i][j];
        prevlen = IN.len[i];
        pos += (size_t)sfx;
    }
#endif
    VERIF_ASSERT(pos == buf.size, "buffer size == integer streams + bytes, nothing else");
#endif
    carquet_buffer_destroy(&buf);
    for (int i = 0; i < VN; i++) free(ba[i].data);
    free(ba);
    VERIF_WITNESS();
}
#ifdef REPLAY
#include REPLAY_FILE
#endif
