/* C16 — helper obligations (engine E1): no false negatives of
 *   -DMODE=1  carquet_statistics_compare          (src/metadata/statistics.c)
 *   -DMODE=2  carquet_statistics_range_overlaps   (src/metadata/statistics.c)
 *   -DMODE=3  carquet_column_index_page_might_match over a column index built with carquet_column_index_add_page
 *             (src/metadata/page_index.c), -DNP pages
 *   -DTYPE=<Parquet physical type>  -DLEN=<FLBA type_length | max BYTE_ARRAY length (lengths symbolic 0..LEN)>
 * Oracle (c16_oracle.h): brute force over a symbolic witness value x.  A value inside [min,max] must compare "in range";
 * a query range and a statistics/page range that share a value x must be reported as overlapping / might-match.
 * Order: MODE 1/2 use the order documented in that file for the statistics builder (NaN after every number, INT96 by
 * words from the most significant); MODE 3 uses the Parquet order of the type, NaN-free.
 * NaN = canonical quiet NaN selected by a symbolic flag (MODE 1/2). */
#include "verif_e1.h"
#include <carquet/carquet.h>
#include "thrift/parquet_types.h"
#include "c16_oracle.h"

carquet_status_t carquet_statistics_compare(const parquet_statistics_t* stats, carquet_physical_type_t type, const void* value, size_t value_len, int* result);
carquet_status_t carquet_statistics_range_overlaps(const parquet_statistics_t* stats, carquet_physical_type_t type, const void* min_value, const void* max_value,
                                                   size_t value_len, bool* overlaps);
typedef struct carquet_column_index_builder carquet_column_index_builder_t;
carquet_column_index_builder_t* carquet_column_index_builder_create(carquet_physical_type_t type, int32_t type_length);
void carquet_column_index_builder_destroy(carquet_column_index_builder_t* b);
carquet_status_t carquet_column_index_add_page(carquet_column_index_builder_t* b, int64_t null_count, const void* min_value, int32_t min_value_len,
                                               const void* max_value, int32_t max_value_len, bool is_null_page);
carquet_status_t carquet_column_index_page_might_match(const carquet_column_index_builder_t* b, int32_t page_idx, const void* min_value, const void* max_value,
                                                       int32_t value_len, bool* might_match);

#ifndef TYPE
#define TYPE T_I32
#endif
#ifndef LEN
#define LEN 3
#endif
#ifndef NP
#define NP 1
#endif
#define VARLEN (TYPE == T_BA)
#define W (TYPE == T_BOOL ? 1 : TYPE == T_I32 || TYPE == T_F32 ? 4 : TYPE == T_I64 || TYPE == T_F64 ? 8 : TYPE == T_I96 ? 12 : (LEN ? LEN : 1))
#define ISFLT (TYPE == T_F32 || TYPE == T_F64)
#define NANLAST (MODE != 3)

/* packed: CBMC reports struct padding as `$padN` members in its traces, which the replay generator of lib/e1.py cannot
   write back into a C initialiser; without padding every counterexample replays */
struct __attribute__((packed)) rng { uint8_t min[W], max[W], x[W]; uint8_t lmin, lmax, lx; uint8_t has_min, has_max; uint8_t min_nan, max_nan, x_nan; uint8_t null_page; int64_t nulls; };
struct __attribute__((packed)) in {
    struct rng s[NP];                 /* statistics of the chunk (MODE 1/2) or of each page (MODE 3) */
    uint8_t qmin[W], qmax[W]; uint8_t lq; uint8_t has_qmin, has_qmax; uint8_t qmin_nan, qmax_nan;
};
struct in nondet_in(void);

static uint8_t* heap_copy(const uint8_t* src, size_t n) { uint8_t* p = malloc(n); VERIF_NOTNULL(p); for (size_t i = 0; i < n; i++) p[i] = src[i]; return p; }
static void fix_nan(uint8_t* v, uint8_t flag) {
    if (!ISFLT) return;
    if (NANLAST && flag) o_wr_le(v, W, TYPE == T_F32 ? F32_QNAN : F64_QNAN); else VERIF_ASSUME(!o_isnan(TYPE, v));
}
static int sgn(int c) { return (c > 0) - (c < 0); }

void harness(void) {
    struct in IN = nondet_in();
    size_t lq = VARLEN ? IN.lq : W;
    VERIF_ASSUME(lq <= (VARLEN ? LEN : W));
    fix_nan(IN.qmin, IN.qmin_nan); fix_nan(IN.qmax, IN.qmax_nan);
    size_t lmin[NP], lmax[NP], lx[NP];
    for (int p = 0; p < NP; p++) {
        struct rng* S = &IN.s[p];
        lmin[p] = VARLEN ? S->lmin : W; lmax[p] = VARLEN ? S->lmax : W; lx[p] = VARLEN ? S->lx : W;
        VERIF_ASSUME(lmin[p] <= (VARLEN ? LEN : W) && lmax[p] <= (VARLEN ? LEN : W) && lx[p] <= (VARLEN ? LEN : W));
        fix_nan(S->min, S->min_nan); fix_nan(S->max, S->max_nan); fix_nan(S->x, S->x_nan);
    }
#if MODE == 1 || MODE == 2
    struct rng* S = &IN.s[0];
    parquet_statistics_t st; memset(&st, 0, sizeof st);
    uint8_t* bmin = heap_copy(S->min, lmin[0]); uint8_t* bmax = heap_copy(S->max, lmax[0]);
    /* a zero-length binary counts as absent in carquet's structs */
    bool has_min = S->has_min && lmin[0] > 0, has_max = S->has_max && lmax[0] > 0;
    if (S->has_min) { st.min_value = bmin; st.min_value_len = (int32_t)lmin[0]; }
    if (S->has_max) { st.max_value = bmax; st.max_value_len = (int32_t)lmax[0]; }
    bool x_in_stats = (!has_min || o_cmp(TYPE, S->min, lmin[0], S->x, lx[0], true) <= 0) && (!has_max || o_cmp(TYPE, S->x, lx[0], S->max, lmax[0], true) <= 0);
#endif
#if MODE == 1
    uint8_t* v = heap_copy(S->x, lx[0]);
    int res = 99;
    VERIF_ASSERT(carquet_statistics_compare(&st, (carquet_physical_type_t)TYPE, v, lx[0], &res) == CARQUET_OK, "compare succeeds");
    VERIF_ASSERT(res == -1 || res == 0 || res == 1, "result is -1, 0 or 1");
    if (x_in_stats) VERIF_ASSERT(res == 0, "a value inside [min,max] is reported in range");
    free(v); free(bmin); free(bmax);
#elif MODE == 2
    uint8_t* qmin = heap_copy(IN.qmin, lq); uint8_t* qmax = heap_copy(IN.qmax, lq);
    bool x_in_query = (!IN.has_qmin || o_cmp(TYPE, IN.qmin, lq, S->x, lx[0], true) <= 0) && (!IN.has_qmax || o_cmp(TYPE, S->x, lx[0], IN.qmax, lq, true) <= 0);
#ifdef EXCLUDE_F_RANGE_INT96
    /* known finding: INT96 bounds are compared with memcmp, not in the builder's word order.  Excluded: the inputs on which
       the two orders disagree for one of the two comparisons the function makes. */
    if (TYPE == T_I96) {
        VERIF_ASSUME(sgn(o_cmp_lex(IN.qmax, W, S->min, W)) == sgn(o_cmp(TYPE, IN.qmax, W, S->min, W, true)));
        VERIF_ASSUME(sgn(o_cmp_lex(IN.qmin, W, S->max, W)) == sgn(o_cmp(TYPE, IN.qmin, W, S->max, W, true)));
    }
#endif
    bool ov = false;
    VERIF_ASSERT(carquet_statistics_range_overlaps(&st, (carquet_physical_type_t)TYPE, IN.has_qmin ? qmin : 0, IN.has_qmax ? qmax : 0, lq, &ov) == CARQUET_OK, "range_overlaps succeeds");
    if (x_in_stats && x_in_query) VERIF_ASSERT(ov, "ranges that share a value are reported as overlapping");
    free(qmin); free(qmax); free(bmin); free(bmax);
#elif MODE == 3
    carquet_column_index_builder_t* b = carquet_column_index_builder_create((carquet_physical_type_t)TYPE, TYPE == T_FLBA ? LEN : 0);
    VERIF_NOTNULL(b);
    uint8_t* qmin = heap_copy(IN.qmin, lq); uint8_t* qmax = heap_copy(IN.qmax, lq);
    for (int p = 0; p < NP; p++) {
        struct rng* S = &IN.s[p];
        uint8_t* bmin = heap_copy(S->min, lmin[p]); uint8_t* bmax = heap_copy(S->max, lmax[p]);
        VERIF_ASSERT(carquet_column_index_add_page(b, S->nulls, S->has_min ? bmin : 0, (int32_t)lmin[p], S->has_max ? bmax : 0, (int32_t)lmax[p], S->null_page != 0) == CARQUET_OK, "add_page succeeds");
        free(bmin); free(bmax);        /* add_page keeps its own copy */
    }
    for (int p = 0; p < NP; p++) {
        struct rng* S = &IN.s[p];
        bool has_min = S->has_min && lmin[p] > 0, has_max = S->has_max && lmax[p] > 0;
        bool x_in_page = !S->null_page && (!has_min || o_cmp(TYPE, S->min, lmin[p], S->x, lx[p], false) <= 0) && (!has_max || o_cmp(TYPE, S->x, lx[p], S->max, lmax[p], false) <= 0);
        bool x_in_query = (!IN.has_qmin || o_cmp(TYPE, IN.qmin, lq, S->x, lx[p], false) <= 0) && (!IN.has_qmax || o_cmp(TYPE, S->x, lx[p], IN.qmax, lq, false) <= 0);
#ifdef EXCLUDE_F_PAGEIDX_MEMCMP
        /* known finding: page_might_match orders every type with memcmp.  Excluded: the inputs on which the byte-wise order
           and the order of the numeric type disagree for one of the two comparisons the function makes. */
        if (TYPE == T_I32 || TYPE == T_I64 || TYPE == T_F32 || TYPE == T_F64) {
            if (IN.has_qmax && has_min) VERIF_ASSUME(sgn(o_cmp_lex(IN.qmax, W, S->min, W)) == sgn(o_cmp(TYPE, IN.qmax, W, S->min, W, false)));
            if (IN.has_qmin && has_max) VERIF_ASSUME(sgn(o_cmp_lex(IN.qmin, W, S->max, W)) == sgn(o_cmp(TYPE, IN.qmin, W, S->max, W, false)));
        }
#endif
        bool mm = false;
        /* value_len is documented as "length of value for byte array types": for the fixed-width types a caller may pass the width or 0 */
        const int32_t vlen = VARLEN ? (int32_t)lq : ((IN.lq & 1) ? 0 : (int32_t)W);
        VERIF_ASSERT(carquet_column_index_page_might_match(b, p, IN.has_qmin ? qmin : 0, IN.has_qmax ? qmax : 0, vlen, &mm) == CARQUET_OK, "page_might_match succeeds");
        if (x_in_page && x_in_query) VERIF_ASSERT(mm, "a page holding a value inside the query range is reported as might-match");
        if (!S->null_page && !has_min && !has_max) VERIF_ASSERT(mm, "a page without min/max is reported as might-match");
    }
    {   bool mm = false;
        VERIF_ASSERT(carquet_column_index_page_might_match(b, NP, qmin, qmax, (int32_t)lq, &mm) != CARQUET_OK, "page index out of range is rejected");
        VERIF_ASSERT(carquet_column_index_page_might_match(b, -1, qmin, qmax, (int32_t)lq, &mm) != CARQUET_OK, "negative page index is rejected"); }
    free(qmin); free(qmax);
    carquet_column_index_builder_destroy(b);
#endif
    VERIF_WITNESS();
}
#ifdef REPLAY
#include REPLAY_FILE
#endif
