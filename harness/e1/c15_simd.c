/* C15 — every SIMD kernel equals its scalar definition at every ISA level (engine E1).
 *
 * Real code: src/simd/x86/{sse,avx2,avx512}_ops.c (compiled with the build's -m flags against the plain-C
 * intrinsic models), src/simd/dispatch.c (included verbatim: gives the `scalar_*` definitions and the
 * dispatcher), src/simd/detect.c (included in the dispatcher obligations), src/core/bitpack.c (scalar
 * definition of the fixed-width bit unpackers).
 *
 *   -DKERNEL=<name>   kernel (KID_* table below)
 *   -DISA=sse|avx2|avx512|dispatch   variant called (dispatch = carquet_dispatch_<kernel>, CPUID symbolic)
 *   -DN=<count>       CONCRETE element count (bytes for crc32c/memset/memcpy/match_*); all data is symbolic
 *   -DOFF=<k>         0: every caller array is an exact-size heap object (any access outside [0,count) is a
 *                     bounds violation); k>0: each array starts k elements inside a larger object whose
 *                     surrounding bytes must stay unchanged (alignment runs)
 *   -DDL=<d>          dictionary length of the gathers (indices are assumed < DL)
 *   -DMOFF=<m>        match_copy: concrete back-reference distance (src == dst - m, same object)
 *   -DBUFN=<fn> -DNV=<values> -DBW=<bits>   bitunpack: function under test, values it produces, bit width
 *   -DSIDE=0|1        crc32c_ref: which lemma of the CRC split
 *
 * Oracle: the library's own scalar definition (`scalar_*` of dispatch.c, carquet_bitunpack_32 of bitpack.c)
 * run on a second copy of the same symbolic input - the property is "SIMD == scalar definition".
 * memset/memcpy helpers have no scalar twin in carquet: the oracle is the byte loop written here.
 * Known findings: F-SIMD-CRC32C-INV (EXCLUDE_F_SIMD_CRC32C_INV), F-DISPATCH-AVX512BW (EXCLUDE_F_DISPATCH_AVX512BW). */
#include "verif_e1.h"
#include <carquet/carquet.h>

#define CAT_(a, b) a##b
#define CAT(a, b) CAT_(a, b)
#define KID_prefix_sum_i32 1
#define KID_prefix_sum_i64 2
#define KID_gather_i32 3
#define KID_gather_i64 4
#define KID_gather_float 5
#define KID_gather_double 6
#define KID_bss_encode_float 7
#define KID_bss_decode_float 8
#define KID_bss_encode_double 9
#define KID_bss_decode_double 10
#define KID_unpack_bools 11
#define KID_pack_bools 12
#define KID_find_run_length_i32 13
#define KID_crc32c 14
#define KID_match_copy 15
#define KID_match_length 16
#define KID_count_non_nulls 17
#define KID_build_null_bitmap 18
#define KID_fill_def_levels 19
#define KID_memset 20
#define KID_memcpy 21
#define KID_bitunpack 22
#define KID_select 30   /* dispatcher: chosen variant vs reported feature bits */
#define KID_detect 31   /* detect.c: cpu_info fields vs CPUID bits */
#define KID_crc32c_ref 32 /* lemma: both CRC32C implementations vs the bitwise definition (see below) */
#define KERNEL_ID CAT(KID_, KERNEL)
#define ISAID_dispatch 0
#define ISAID_sse 1
#define ISAID_avx2 2
#define ISAID_avx512 3
#define ISA_ID CAT(ISAID_, ISA)

#ifndef N
#define N 0
#endif
#ifndef OFF
#define OFF 0
#endif
#ifndef DL
#define DL 8
#endif
#ifndef MOFF
#define MOFF 1
#endif
#ifndef NV
#define NV 8
#endif
#ifndef BW
#define BW 8
#endif

/* ---- the real code ------------------------------------------------------------------------------- */
#if ISA_ID == 0
#ifdef REPLAY
/* native replay: keep GCC's <cpuid.h> out so that detect.c takes CPUID from the counterexample as well */
#define _CPUID_H_INCLUDED
#include "../../models/immintrin/cpuid.h"
#endif
#include "simd/detect.c"
#ifndef REPLAY
/* carquet_init() also builds the gzip/zstd lookup tables: irrelevant to feature detection, stubbed for CBMC only */
void carquet_gzip_init_tables(void) {}
void carquet_zstd_init_tables(void) {}
#endif
#endif
#include "simd/dispatch.c"

/* exported kernels that have no dispatcher entry (no prototype in dispatch.c) */
void carquet_sse_memset_small(void* dest, uint8_t value, size_t n);
void carquet_sse_memcpy_small(void* dest, const void* src, size_t n);
void carquet_avx2_memset(void* dest, uint8_t value, size_t n);
void carquet_avx2_memcpy(void* dest, const void* src, size_t n);
void carquet_avx512_memset(void* dest, uint8_t value, size_t n);
void carquet_avx512_memcpy(void* dest, const void* src, size_t n);
void carquet_avx2_byte_stream_split_encode_double(const double* values, int64_t count, uint8_t* output);
void carquet_avx2_byte_stream_split_decode_double(const uint8_t* data, int64_t count, double* values);
void carquet_sse_bitunpack32_1bit(const uint8_t* input, uint32_t* values);
void carquet_sse_bitunpack8_4bit(const uint8_t* input, uint32_t* values);
void carquet_sse_bitunpack8_8bit(const uint8_t* input, uint32_t* values);
void carquet_avx2_bitunpack64_1bit(const uint8_t* input, uint32_t* values);
void carquet_avx2_bitunpack16_4bit(const uint8_t* input, uint32_t* values);
void carquet_avx2_bitunpack16_8bit(const uint8_t* input, uint32_t* values);
void carquet_avx2_bitunpack8_16bit(const uint8_t* input, uint32_t* values);
void carquet_avx512_bitunpack32_8bit(const uint8_t* input, uint32_t* values);
void carquet_avx512_bitunpack16_16bit(const uint8_t* input, uint32_t* values);
void carquet_avx512_bitunpack32_4bit(const uint8_t* input, uint32_t* values);
size_t carquet_bitunpack_32(const uint8_t* input, size_t count, int bit_width, uint32_t* values);

#if ISA_ID == 0
#define FN(name) CAT(carquet_dispatch_, name)
#define BSS(name) CAT(carquet_dispatch_byte_split_, name)
#else
#define FN(name) CAT(CAT(CAT(carquet_, ISA), _), name)
#define BSS(name) CAT(CAT(CAT(carquet_, ISA), _byte_stream_split_), name)
#endif
#if ISA_ID == 1
#define FN_MEMSET carquet_sse_memset_small
#define FN_MEMCPY carquet_sse_memcpy_small
#elif ISA_ID == 2
#define FN_MEMSET carquet_avx2_memset
#define FN_MEMCPY carquet_avx2_memcpy
#else
#define FN_MEMSET carquet_avx512_memset
#define FN_MEMCPY carquet_avx512_memcpy
#endif

/* ---- the symbolic input per kernel: A = input array, B = pre-state of the output array (typed like the kernel's
 * elements: arithmetic kernels stay word-level terms for the SMT back ends), idx = gather indices */
#if KERNEL_ID == 1 || KERNEL_ID == 13
#define A_T int32_t
#define A_CNT N
#define B_T uint8_t
#define B_CNT 0
#elif KERNEL_ID == 2
#define A_T int64_t
#define A_CNT N
#define B_T uint8_t
#define B_CNT 0
#elif KERNEL_ID == 3 || KERNEL_ID == 5
#define A_T uint32_t
#define A_CNT DL
#define B_T uint32_t
#define B_CNT N
#elif KERNEL_ID == 4 || KERNEL_ID == 6
#define A_T uint64_t
#define A_CNT DL
#define B_T uint64_t
#define B_CNT N
#elif KERNEL_ID == 7 || KERNEL_ID == 8
#define A_T uint8_t
#define A_CNT (N * 4)
#define B_T uint8_t
#define B_CNT (N * 4)
#elif KERNEL_ID == 9 || KERNEL_ID == 10
#define A_T uint8_t
#define A_CNT (N * 8)
#define B_T uint8_t
#define B_CNT (N * 8)
#elif KERNEL_ID == 11
#define A_T uint8_t
#define A_CNT ((N + 7) / 8)
#define B_T uint8_t
#define B_CNT N
#elif KERNEL_ID == 12
#define A_T uint8_t
#define A_CNT N
#define B_T uint8_t
#define B_CNT ((N + 7) / 8)
#elif KERNEL_ID == 14 || KERNEL_ID == 32
#define A_T uint8_t
#define A_CNT N
#define B_T uint8_t
#define B_CNT 0
#elif KERNEL_ID == 15
#define A_T uint8_t
#define A_CNT (MOFF + N)
#define B_T uint8_t
#define B_CNT 0
#elif KERNEL_ID == 16 || KERNEL_ID == 21
#define A_T uint8_t
#define A_CNT N
#define B_T uint8_t
#define B_CNT N
#elif KERNEL_ID == 17 || KERNEL_ID == 18
#define A_T int16_t
#define A_CNT N
#define B_T uint8_t
#define B_CNT 0
#elif KERNEL_ID == 19
#define A_T uint8_t
#define A_CNT 0
#define B_T int16_t
#define B_CNT N
#elif KERNEL_ID == 20
#define A_T uint8_t
#define A_CNT 0
#define B_T uint8_t
#define B_CNT N
#elif KERNEL_ID == 22
#define A_T uint8_t
#define A_CNT (NV * BW / 8)
#define B_T uint32_t
#define B_CNT NV
#else
#define A_T uint8_t
#define A_CNT 0
#define B_T uint8_t
#define B_CNT 0
#endif
#define A_BYTES (A_CNT * sizeof(A_T))
#define B_BYTES (B_CNT * sizeof(B_T))

struct in {
    A_T a[A_CNT ? A_CNT : 1];
    B_T b[B_CNT ? B_CNT : 1];
    uint32_t idx[N ? N : 1];
    uint64_t s0;            /* scalar argument: initial sum / fill value / crc / max_def_level */
    uint8_t g;              /* value of the guard bytes around the arrays when OFF > 0 */
    uint32_t cpuid[4][4];   /* CPUID leaf 0, leaf 1, leaf 7.0, any other leaf: EAX..EDX */
    uint64_t xcr0;
};
struct in nondet_in(void);
static struct in G;

/* hooks of the <cpuid.h> model: CPUID is a function of (leaf, subleaf), every register value arbitrary */
unsigned verif_cpuid_reg(unsigned leaf, unsigned subleaf, int reg) {
    unsigned r = (unsigned)reg & 3u;
    if (leaf == 0) return G.cpuid[0][r];
    if (leaf == 1) return G.cpuid[1][r];
    if (leaf == 7 && subleaf == 0) return G.cpuid[2][r];
    return G.cpuid[3][r];
}
unsigned long long verif_xgetbv(unsigned index) { (void)index; return G.xcr0; }

/* ---- caller arrays: exact-size heap objects (OFF == 0) or placed OFF elements (of the array's own element
 * type, so that the pointers handed to carquet keep the alignment C requires of them while every position
 * relative to the 16/32/64-byte vector width is reached) inside a larger object with guard bytes on both sides */
#define TAILG (OFF ? 5 : 0)
typedef struct { uint8_t* base; uint8_t* p; size_t n, pre; } vbuf;
static uint8_t* ALLOCS[8];
static int NALLOCS;
static vbuf vb_new(const void* init_, size_t n, size_t esz) {
    const uint8_t* init = (const uint8_t*)init_;
    vbuf v; v.n = n; v.pre = OFF * esz;
    v.base = malloc(v.pre + n + TAILG); VERIF_NOTNULL(v.base);
    ALLOCS[NALLOCS++] = v.base;
    for (size_t i = 0; i < v.pre; i++) v.base[i] = G.g;
    for (size_t i = 0; i < n; i++) v.base[v.pre + i] = init ? init[i] : 0;
    for (size_t i = 0; i < TAILG; i++) v.base[v.pre + n + i] = G.g;
    v.p = v.base + v.pre;
    return v;
}
static bool vb_guards_ok(vbuf v) {
    bool ok = true;
    for (size_t i = 0; i < v.pre; i++) ok = ok && v.base[i] == G.g;
    for (size_t i = 0; i < TAILG; i++) ok = ok && v.base[v.pre + v.n + i] == G.g;
    return ok;
}
/* outputs are compared element-wise at the kernel's element width (word-level equalities: the SMT back ends
   then decide re-associated adder chains by normalisation; byte-wise equalities defeat that) */
static bool vb_eq(vbuf x, vbuf y, size_t esz) {
    bool ok = true; size_t i = 0;
    if (esz == 8) for (; i + 8 <= x.n; i += 8) { uint64_t p, q; memcpy(&p, x.p + i, 8); memcpy(&q, y.p + i, 8); ok = ok && p == q; }
    if (esz == 4) for (; i + 4 <= x.n; i += 4) { uint32_t p, q; memcpy(&p, x.p + i, 4); memcpy(&q, y.p + i, 4); ok = ok && p == q; }
    if (esz == 2) for (; i + 2 <= x.n; i += 2) { uint16_t p, q; memcpy(&p, x.p + i, 2); memcpy(&q, y.p + i, 2); ok = ok && p == q; }
    for (; i < x.n; i++) ok = ok && x.p[i] == y.p[i];
    return ok;
}
static bool vb_is(vbuf x, const void* want_) {
    const uint8_t* want = (const uint8_t*)want_;
    bool ok = true;
    for (size_t i = 0; i < x.n; i++) ok = ok && x.p[i] == want[i];
    return ok;
}
#define OUT_ESZ (KERNEL_ID <= 2 ? sizeof(A_T) : sizeof(B_T))   /* prefix sums work in place on A */
#define OUT_EQ(x, y) do { VERIF_ASSERT(vb_eq(x, y, OUT_ESZ), "SIMD output == scalar definition, every byte"); \
        VERIF_ASSERT(vb_guards_ok(x), "bytes around the output array unchanged"); } while (0)
#define IN_KEPT(x, init) do { VERIF_ASSERT(vb_is(x, init), "input array not written"); \
        VERIF_ASSERT(vb_guards_ok(x), "bytes around the input array unchanged"); } while (0)

/* reported feature bits, straight from the CPUID values (Intel SDM vol. 2A, CPUID) */
#define L1_OK (G.cpuid[0][0] >= 1)
#define L7_OK (G.cpuid[0][0] >= 7)
#define CPU_SSE2 (L1_OK && ((G.cpuid[1][3] >> 26) & 1))
#define CPU_SSE41 (L1_OK && ((G.cpuid[1][2] >> 19) & 1))
#define CPU_SSE42 (L1_OK && ((G.cpuid[1][2] >> 20) & 1))
#define CPU_AVX (L1_OK && ((G.cpuid[1][2] >> 28) & 1))
#define CPU_AVX2 (L7_OK && ((G.cpuid[2][1] >> 5) & 1))
#define CPU_AVX512F (L7_OK && ((G.cpuid[2][1] >> 16) & 1))
#define CPU_AVX512BW (L7_OK && ((G.cpuid[2][1] >> 30) & 1))
#define CPU_AVX512VL (L7_OK && ((G.cpuid[2][1] >> 31) & 1))
#define CPU_AVX512VBMI (L7_OK && ((G.cpuid[2][2] >> 1) & 1))

#if KERNEL_ID == 14 || KERNEL_ID == 32
/* CRC-32C (Castagnoli, reflected polynomial 0x82F63B78) as the bit-serial shift register of its definition:
   one message bit per step, least significant bit of each byte first, NO pre/post conditioning */
static uint32_t ref_crc32c_byte(uint32_t crc, uint8_t v) {
    for (int k = 0; k < 8; k++) {
        uint32_t bit = (crc ^ (uint32_t)((v >> k) & 1u)) & 1u;
        crc = (crc >> 1) ^ (bit ? 0x82F63B78u : 0u);
    }
    return crc;
}
static uint32_t ref_crc32c_raw(uint32_t crc, const uint8_t* d, size_t n) {
    for (size_t i = 0; i < n; i++) crc = ref_crc32c_byte(crc, d[i]);
    return crc;
}
#endif

void harness(void) {
    struct in IN = nondet_in();
    G = IN;
#if KERNEL_ID == 1
    /* prefix sums, in place.  Signed overflow in `sum += values[i]` of the scalar definition is taken as
       two's-complement wrap-around (what every supported compiler emits; the SIMD adds wrap by definition). */
    vbuf x = vb_new(IN.a, A_BYTES, sizeof(A_T)), y = vb_new(IN.a, A_BYTES, sizeof(A_T));
    FN(prefix_sum_i32)((int32_t*)x.p, N, (int32_t)IN.s0);
    scalar_prefix_sum_i32((int32_t*)y.p, N, (int32_t)IN.s0);
    OUT_EQ(x, y);
#elif KERNEL_ID == 2
    vbuf x = vb_new(IN.a, A_BYTES, sizeof(A_T)), y = vb_new(IN.a, A_BYTES, sizeof(A_T));
    FN(prefix_sum_i64)((int64_t*)x.p, N, (int64_t)IN.s0);
    scalar_prefix_sum_i64((int64_t*)y.p, N, (int64_t)IN.s0);
    OUT_EQ(x, y);
#elif KERNEL_ID >= 3 && KERNEL_ID <= 6
    /* dictionary gathers.  Domain (page_reader.c validates before the call): every index < dictionary length */
    for (int i = 0; i < N; i++) VERIF_ASSUME(IN.idx[i] < DL);
    vbuf d = vb_new(IN.a, A_BYTES, sizeof(A_T)), ix = vb_new(IN.idx, N * 4, 4);
    vbuf x = vb_new(IN.b, B_BYTES, sizeof(B_T)), y = vb_new(IN.b, B_BYTES, sizeof(B_T));
#if KERNEL_ID == 3
    FN(gather_i32)((const int32_t*)d.p, (const uint32_t*)ix.p, N, (int32_t*)x.p);
    scalar_gather_i32((const int32_t*)d.p, (const uint32_t*)ix.p, N, (int32_t*)y.p);
#elif KERNEL_ID == 4
    FN(gather_i64)((const int64_t*)d.p, (const uint32_t*)ix.p, N, (int64_t*)x.p);
    scalar_gather_i64((const int64_t*)d.p, (const uint32_t*)ix.p, N, (int64_t*)y.p);
#elif KERNEL_ID == 5
    FN(gather_float)((const float*)d.p, (const uint32_t*)ix.p, N, (float*)x.p);
    scalar_gather_float((const float*)d.p, (const uint32_t*)ix.p, N, (float*)y.p);
#else
    FN(gather_double)((const double*)d.p, (const uint32_t*)ix.p, N, (double*)x.p);
    scalar_gather_double((const double*)d.p, (const uint32_t*)ix.p, N, (double*)y.p);
#endif
    OUT_EQ(x, y);
    IN_KEPT(d, IN.a); IN_KEPT(ix, IN.idx);
#elif KERNEL_ID >= 7 && KERNEL_ID <= 10
    /* BYTE_STREAM_SPLIT transposes; values are handled as bytes on both sides (no float object is created) */
#define VAL_SZ ((KERNEL_ID == 7 || KERNEL_ID == 8) ? 4 : 8)
#define ENC (KERNEL_ID == 7 || KERNEL_ID == 9)
    vbuf s = vb_new(IN.a, A_BYTES, ENC ? VAL_SZ : 1), x = vb_new(IN.b, B_BYTES, ENC ? 1 : VAL_SZ), y = vb_new(IN.b, B_BYTES, ENC ? 1 : VAL_SZ);
#if KERNEL_ID == 7
    BSS(encode_float)((const float*)s.p, N, x.p);
    scalar_byte_split_encode_float((const float*)s.p, N, y.p);
#elif KERNEL_ID == 8
    BSS(decode_float)(s.p, N, (float*)x.p);
    scalar_byte_split_decode_float(s.p, N, (float*)y.p);
#elif KERNEL_ID == 9
    BSS(encode_double)((const double*)s.p, N, x.p);
    scalar_byte_split_encode_double((const double*)s.p, N, y.p);
#else
    BSS(decode_double)(s.p, N, (double*)x.p);
    scalar_byte_split_decode_double(s.p, N, (double*)y.p);
#endif
    OUT_EQ(x, y);
    IN_KEPT(s, IN.a);
#elif KERNEL_ID == 11
    vbuf s = vb_new(IN.a, A_BYTES, sizeof(A_T)), x = vb_new(IN.b, B_BYTES, sizeof(B_T)), y = vb_new(IN.b, B_BYTES, sizeof(B_T));
    FN(unpack_bools)(s.p, x.p, N);
    scalar_unpack_bools(s.p, y.p, N);
    OUT_EQ(x, y);
    IN_KEPT(s, IN.a);
#elif KERNEL_ID == 12
    /* Domain ("Input bytes should be 0 or 1", sse_ops.c; the writer passes C bools): every input byte is 0 or 1 */
    for (int i = 0; i < N; i++) VERIF_ASSUME(IN.a[i] <= 1);
    vbuf s = vb_new(IN.a, A_BYTES, sizeof(A_T)), x = vb_new(IN.b, B_BYTES, sizeof(B_T)), y = vb_new(IN.b, B_BYTES, sizeof(B_T));
    FN(pack_bools)(s.p, x.p, N);
    scalar_pack_bools(s.p, y.p, N);
    OUT_EQ(x, y);
    IN_KEPT(s, IN.a);
#elif KERNEL_ID == 13
    vbuf s = vb_new(IN.a, A_BYTES, sizeof(A_T));
    int64_t r = FN(find_run_length_i32)((const int32_t*)s.p, N);
    int64_t e = scalar_find_run_length_i32((const int32_t*)s.p, N);
    VERIF_ASSERT(r == e, "SIMD run length == scalar definition");
    IN_KEPT(s, IN.a);
#elif KERNEL_ID == 14
    vbuf s = vb_new(IN.a, A_BYTES, sizeof(A_T));
    uint32_t crc = (uint32_t)IN.s0;
#ifdef EXCLUDE_F_SIMD_CRC32C_INV
    /* known finding: the SSE4.2 kernel omits the ~crc pre/post conditioning of scalar_crc32c, so the two differ
       on every input with len >= 1.  With the finding excluded the obligation still decides that they are the
       same CRC up to exactly that conditioning (and that the kernel stays inside [0,len)). */
#if ISA_ID == 0
    uint32_t r = carquet_dispatch_crc32c(crc, s.p, N);
    uint32_t e = scalar_crc32c(crc, s.p, N);
    if (CPU_SSE42 && N > 0) r = ~carquet_dispatch_crc32c(~crc, s.p, N);
#else
    uint32_t r = N > 0 ? ~FN(crc32c)(~crc, s.p, N) : FN(crc32c)(crc, s.p, N);
    uint32_t e = scalar_crc32c(crc, s.p, N);
#endif
#else
    uint32_t r = FN(crc32c)(crc, s.p, N);
    uint32_t e = scalar_crc32c(crc, s.p, N);
#endif
    VERIF_ASSERT(r == e, "SIMD crc32c == scalar definition");
    IN_KEPT(s, IN.a);
#elif KERNEL_ID == 32
    /* Lemma split of the CRC obligation for lengths where the direct miter (byte-table code vs the bit-serial model
       of the crc32 instructions, two different XOR networks chained N times) gets no verdict:
       SIDE 1: carquet_sse_crc32c(crc, d, N) == ~raw(~crc, d, N), raw = bit-serial CRC-32C of N bytes (without the
               conditioning while finding F-SIMD-CRC32C-INV is open);
       SIDE 0: induction step for the scalar definition with its conditioning removed,
               ~scalar_crc32c(crc, d, N) == step(~scalar_crc32c(crc, d, N-1), d[N-1])   (N >= 1),
               base scalar_crc32c(crc, d, 0) == crc is the N == 0 case of crc32c/sse.
       SIDE 0 for 1..N gives scalar_crc32c(crc, d, N) == ~raw(~crc, d, N) by induction on N (raw is the fold of
       step), and with SIDE 1: scalar_crc32c(crc, d, N) == carquet_sse_crc32c(crc, d, N). */
    vbuf s = vb_new(IN.a, A_BYTES, 1);
    uint32_t crc = (uint32_t)IN.s0;
#if SIDE == 0
    VERIF_ASSERT(~scalar_crc32c(crc, s.p, N) == ref_crc32c_byte(~scalar_crc32c(crc, s.p, N - 1), IN.a[N - 1]),
                 "scalar_crc32c: one more byte == one bit-serial CRC-32C byte step on the unconditioned state");
#else
#ifdef EXCLUDE_F_SIMD_CRC32C_INV
    /* tree with the open finding: the kernel lacks the conditioning */
    VERIF_ASSERT(carquet_sse_crc32c(crc, s.p, N) == ref_crc32c_raw(crc, IN.a, N), "carquet_sse_crc32c == raw bit-serial CRC-32C");
#else
    /* the kernel applies the same pre/post inversion as the scalar definition */
    VERIF_ASSERT(carquet_sse_crc32c(crc, s.p, N) == ~ref_crc32c_raw(~crc, IN.a, N), "carquet_sse_crc32c == conditioned bit-serial CRC-32C");
#endif
#endif
    IN_KEPT(s, IN.a);
#elif KERNEL_ID == 15
    /* LZ match copy.  Domain (LZ4/Snappy decoders): distance MOFF >= 1, src == dst - MOFF inside the same output
       buffer, which ends exactly at dst + len (no slack for wild copies is granted). */
    vbuf x = vb_new(IN.a, A_BYTES, sizeof(A_T)), y = vb_new(IN.a, A_BYTES, sizeof(A_T));
    FN(match_copy)(x.p + MOFF, x.p, N, MOFF);
    scalar_match_copy(y.p + MOFF, y.p, N, MOFF);
    OUT_EQ(x, y);
    { bool ok = true; for (int i = 0; i < MOFF; i++) ok = ok && x.p[i] == IN.a[i];
      VERIF_ASSERT(ok, "bytes before dst unchanged"); }
#elif KERNEL_ID == 16
    /* match length.  Domain: limit == p + N, `match` readable for N bytes */
    vbuf p = vb_new(IN.a, A_BYTES, sizeof(A_T)), m = vb_new(IN.b, B_BYTES, sizeof(B_T));
    size_t r = FN(match_length)(p.p, m.p, p.p + N);
    size_t e = scalar_match_length(p.p, m.p, p.p + N);
    VERIF_ASSERT(r == e, "SIMD match length == scalar definition");
    IN_KEPT(p, IN.a); IN_KEPT(m, IN.b);
#elif KERNEL_ID == 17
    vbuf s = vb_new(IN.a, A_BYTES, sizeof(A_T));
    int64_t r = FN(count_non_nulls)((const int16_t*)s.p, N, (int16_t)IN.s0);
    int64_t e = scalar_count_non_nulls((const int16_t*)s.p, N, (int16_t)IN.s0);
    VERIF_ASSERT(r == e, "SIMD non-null count == scalar definition");
    IN_KEPT(s, IN.a);
#elif KERNEL_ID == 18
    /* Domain: the bitmap of (count+7)/8 bytes is zero-initialised by the caller (batch_reader.c: calloc); the scalar
       definition ORs into the last partial byte while the SSE kernel overwrites it. */
    vbuf s = vb_new(IN.a, A_BYTES, sizeof(A_T)), x = vb_new(0, (N + 7) / 8, 1), y = vb_new(0, (N + 7) / 8, 1);
    FN(build_null_bitmap)((const int16_t*)s.p, N, (int16_t)IN.s0, x.p);
    scalar_build_null_bitmap((const int16_t*)s.p, N, (int16_t)IN.s0, y.p);
    OUT_EQ(x, y);
    IN_KEPT(s, IN.a);
#elif KERNEL_ID == 19
    vbuf x = vb_new(IN.b, B_BYTES, sizeof(B_T)), y = vb_new(IN.b, B_BYTES, sizeof(B_T));
    FN(fill_def_levels)((int16_t*)x.p, N, (int16_t)IN.s0);
    scalar_fill_def_levels((int16_t*)y.p, N, (int16_t)IN.s0);
    OUT_EQ(x, y);
#elif KERNEL_ID == 20
    vbuf x = vb_new(IN.b, B_BYTES, sizeof(B_T));
    FN_MEMSET(x.p, (uint8_t)IN.s0, N);
    { bool ok = true; for (size_t i = 0; i < N; i++) ok = ok && x.p[i] == (uint8_t)IN.s0;
      VERIF_ASSERT(ok, "memset helper: every byte of [0,n) == value"); }
    VERIF_ASSERT(vb_guards_ok(x), "bytes around the destination unchanged");
#elif KERNEL_ID == 21
    vbuf s = vb_new(IN.a, A_BYTES, sizeof(A_T)), x = vb_new(IN.b, B_BYTES, sizeof(B_T));
    FN_MEMCPY(x.p, s.p, N);
    VERIF_ASSERT(vb_is(x, IN.a), "memcpy helper: dest[0,n) == src[0,n)");
    VERIF_ASSERT(vb_guards_ok(x), "bytes around the destination unchanged");
    IN_KEPT(s, IN.a);
#elif KERNEL_ID == 22
    /* fixed-width unpackers: NV values of BW bits; scalar definition = carquet_bitunpack_32 (core/bitpack.c) */
    vbuf s = vb_new(IN.a, A_BYTES, sizeof(A_T)), x = vb_new(IN.b, B_BYTES, sizeof(B_T)), y = vb_new(IN.b, B_BYTES, sizeof(B_T));
    BUFN(s.p, (uint32_t*)x.p);
    carquet_bitunpack_32(s.p, NV, BW, (uint32_t*)y.p);
    OUT_EQ(x, y);
    IN_KEPT(s, IN.a);
#elif KERNEL_ID == 31
    /* detect.c reports exactly the CPUID bits (leaf 1 / leaf 7.0, honouring the maximum leaf) */
    const carquet_cpu_info_t* c = carquet_get_cpu_info();
    VERIF_ASSERT(c->has_sse2 == (bool)CPU_SSE2, "has_sse2 == CPUID.1:EDX[26]");
    VERIF_ASSERT(c->has_sse41 == (bool)CPU_SSE41, "has_sse41 == CPUID.1:ECX[19]");
    VERIF_ASSERT(c->has_sse42 == (bool)CPU_SSE42, "has_sse42 == CPUID.1:ECX[20]");
    VERIF_ASSERT(c->has_avx == (bool)CPU_AVX, "has_avx == CPUID.1:ECX[28]");
    VERIF_ASSERT(c->has_avx2 == (bool)CPU_AVX2, "has_avx2 == CPUID.7.0:EBX[5]");
    VERIF_ASSERT(c->has_avx512f == (bool)CPU_AVX512F, "has_avx512f == CPUID.7.0:EBX[16]");
    VERIF_ASSERT(c->has_avx512bw == (bool)CPU_AVX512BW, "has_avx512bw == CPUID.7.0:EBX[30]");
    VERIF_ASSERT(c->has_avx512vl == (bool)CPU_AVX512VL, "has_avx512vl == CPUID.7.0:EBX[31]");
    VERIF_ASSERT(c->has_avx512vbmi == (bool)CPU_AVX512VBMI, "has_avx512vbmi == CPUID.7.0:ECX[1]");
    VERIF_ASSERT(!c->has_neon && !c->has_sve, "no ARM feature on x86");
#elif KERNEL_ID == 30
    /* dispatcher: every table entry is one of the four variants and the variant's instruction set was reported.
       Requirement per variant = the ISA extension of the intrinsics the kernel's source uses:
         carquet_sse_*    : SSE4.2 (CPUID.1:ECX[20])
         carquet_avx2_*   : AVX2   (CPUID.7.0:EBX[5])
         carquet_avx512_* : AVX-512F (EBX[16]); byte_stream_split_encode_float (_mm512_shuffle_epi8), unpack_bools
                            (_mm512_maskz_set1_epi8) and pack_bools (_mm512_test_epi8_mask, _mm512_maskz_loadu_epi8)
                            use AVX-512BW instructions: additionally EBX[30]. */
#ifdef EXCLUDE_F_DISPATCH_AVX512BW
    VERIF_ASSUME(!(CPU_AVX512F && !CPU_AVX512BW));
#endif
    carquet_simd_dispatch_init();
#define SEL3(field, sc, k, bw) VERIF_ASSERT( \
        g_dispatch.field == sc || (g_dispatch.field == carquet_sse_##k && CPU_SSE42) || \
        (g_dispatch.field == carquet_avx2_##k && CPU_AVX2) || \
        (g_dispatch.field == carquet_avx512_##k && CPU_AVX512F && (!(bw) || CPU_AVX512BW)), \
        #field ": selected variant needs only reported ISA extensions")
#define SEL1(field, sc, k) VERIF_ASSERT(g_dispatch.field == sc || (g_dispatch.field == carquet_sse_##k && CPU_SSE42), \
        #field ": selected variant needs only reported ISA extensions")
    SEL3(prefix_sum_i32, scalar_prefix_sum_i32, prefix_sum_i32, 0);
    SEL3(prefix_sum_i64, scalar_prefix_sum_i64, prefix_sum_i64, 0);
    SEL3(gather_i32, scalar_gather_i32, gather_i32, 0);
    SEL3(gather_i64, scalar_gather_i64, gather_i64, 0);
    SEL3(gather_float, scalar_gather_float, gather_float, 0);
    SEL3(gather_double, scalar_gather_double, gather_double, 0);
    SEL3(byte_split_encode_float, scalar_byte_split_encode_float, byte_stream_split_encode_float, 1);
    SEL3(byte_split_decode_float, scalar_byte_split_decode_float, byte_stream_split_decode_float, 0);
    SEL1(byte_split_encode_double, scalar_byte_split_encode_double, byte_stream_split_encode_double);
    SEL1(byte_split_decode_double, scalar_byte_split_decode_double, byte_stream_split_decode_double);
    SEL3(unpack_bools, scalar_unpack_bools, unpack_bools, 1);
    SEL3(pack_bools, scalar_pack_bools, pack_bools, 1);
    SEL3(find_run_length_i32, scalar_find_run_length_i32, find_run_length_i32, 0);
    SEL1(crc32c, scalar_crc32c, crc32c);
    SEL1(match_copy, scalar_match_copy, match_copy);
    SEL1(match_length, scalar_match_length, match_length);
    SEL1(count_non_nulls, scalar_count_non_nulls, count_non_nulls);
    SEL1(build_null_bitmap, scalar_build_null_bitmap, build_null_bitmap);
    SEL1(fill_def_levels, scalar_fill_def_levels, fill_def_levels);
    VERIF_ASSERT(g_dispatch_initialized == 1, "dispatch table marked initialised");
#else
#error "unknown KERNEL"
#endif
    for (int i = 0; i < NALLOCS; i++) free(ALLOCS[i]);
    VERIF_WITNESS();
}
#ifdef REPLAY
#include REPLAY_FILE
#endif
