/* Shared helpers of the C11/C12 E1 harnesses (c11_*.c, c12_*.c). */
#ifndef C11_COMMON_H
#define C11_COMMON_H
#include "verif_e1.h"
#include "core/buffer.h"

#if defined(VERIF_CBMC) && defined(STUB_MEMCPY)
/* libc model: memcpy/memset as plain byte loops (loop ids memcpy.0 / memset.0, bounded per obligation).  CBMC's built-in
   memcpy turns a copy of symbolic length to a symbolic offset into an array-copy constraint whose propositional
   encoding dominates the run time of the RLE/dictionary encoders (carquet_buffer_append); the byte loop is
   equivalent for non-overlapping ranges, which is all carquet_buffer_append is called with. */
void* memcpy(void* d, const void* s, size_t n) {
    __CPROVER_precondition(__CPROVER_r_ok(s, n), "memcpy source region readable");
    __CPROVER_precondition(__CPROVER_w_ok(d, n), "memcpy destination region writeable");
    for (size_t i = 0; i < n; i++) ((uint8_t*)d)[i] = ((const uint8_t*)s)[i];
    return d;
}
#endif

/* exact-size heap copy: any access outside [0,n) is a bounds violation under CBMC and an ASan error natively */
static uint8_t* exact(const void* src, size_t n) {
    uint8_t* p = malloc(n);
    VERIF_NOTNULL(p);
    if (n) memcpy(p, src, n);
    return p;
}

/* Output buffer of an encoder.
 *  default      carquet_buffer_init(): the first append allocates CARQUET_BUFFER_DEFAULT_CAPACITY (4096) through
 *               realloc(NULL, ..) (the driver's stub); regrowth is cut and reported.
 *  -DBUFCAP=k   an owning buffer whose capacity is k bytes (the state carquet_buffer_init_capacity leaves behind,
 *               with a smaller allocation).  k is chosen >= the largest legal output of the obligation, so the real
 *               append path is unchanged; a small object keeps symbolic-offset writes cheap for the solver, and an
 *               output larger than k shows up as "CUT: buffer regrowth". */
static void out_init(carquet_buffer_t* b) {
    carquet_buffer_init(b);
#ifdef BUFCAP
    b->data = malloc(BUFCAP);
    VERIF_NOTNULL(b->data);
    b->capacity = BUFCAP;
    b->owns_data = true;
#endif
}
#endif
