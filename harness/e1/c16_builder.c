/* C16 — statistics builder obligations (engine E1).  Real code: src/metadata/statistics.c
 * (carquet_statistics_builder_create / _add_nulls / _add_values / _add_byte_arrays / _build / _reset).
 *   -DTYPE=<Parquet physical type 0..7>  -DN=<values added>  -DN1=<size of the first add call; the rest goes in a second call>
 *   -DLEN=<FIXED_LEN_BYTE_ARRAY type_length, or the maximal BYTE_ARRAY length (lengths are symbolic in 0..LEN)>
 *   -DMODE=1 fixed-width types   -DMODE=2 BYTE_ARRAY   -DMODE=3 reset + reuse
 *   -DMODE=4 BYTE_ARRAY, N-1 values of concrete length LEN and one of concrete length BIGLEN (> the builder's 256-byte min/max storage)
 *   -DUSE_ARENA build() copies min/max into a carquet arena instead of malloc
 *   -DOPTIONAL_STATS (with MODE 1) add_values may refuse the values and build may emit no min/max
 * Oracle (c16_oracle.h): the order of the type; for floating point the builder's documented total order (NaN after
 * every number, NaN == NaN, -0.0 == +0.0).  NaNs are the canonical quiet NaN, selected by a symbolic flag per value. */
#include "verif_e1.h"
#include <carquet/carquet.h>
#include "thrift/parquet_types.h"
#include "core/arena.h"
#include "c16_oracle.h"

/* statistics.c exports these without a header */
typedef struct carquet_statistics_builder carquet_statistics_builder_t;
carquet_statistics_builder_t* carquet_statistics_builder_create(carquet_physical_type_t type, int32_t type_length);
void carquet_statistics_builder_destroy(carquet_statistics_builder_t* b);
void carquet_statistics_builder_reset(carquet_statistics_builder_t* b);
void carquet_statistics_add_nulls(carquet_statistics_builder_t* b, int64_t count);
carquet_status_t carquet_statistics_add_values(carquet_statistics_builder_t* b, const void* values, int64_t num_values);
carquet_status_t carquet_statistics_add_byte_arrays(carquet_statistics_builder_t* b, const carquet_byte_array_t* values, int64_t num_values);
carquet_status_t carquet_statistics_build(const carquet_statistics_builder_t* b, carquet_arena_t* arena, parquet_statistics_t* stats);

#ifndef TYPE
#define TYPE T_I32
#endif
#ifndef N
#define N 3
#endif
#ifndef N1
#define N1 N
#endif
#ifndef LEN
#define LEN 3
#endif
#ifndef BIGLEN
#define BIGLEN 257
#endif
#ifdef EXCLUDE_F_STATSB_LONG
/* known finding F-STATSB-LONG: BYTE_ARRAY values longer than the 256-byte min/max storage are silently left out of
   min/max.  With the finding excluded the long value is cut to the largest length the builder handles. */
#undef BIGLEN
#define BIGLEN 256
#endif
#if defined(EXCLUDE_F_STATSB_FLBA256) && TYPE == T_FLBA && LEN > 256
/* known finding F-STATSB-FLBA256: FIXED_LEN_BYTE_ARRAY type_length > 256 overruns the builder's min/max storage.  With the
   finding excluded the type length is cut to the largest one the builder handles. */
#undef LEN
#define LEN 256
#endif
#if TYPE == T_BA
#define W (LEN ? LEN : 1)
#else
#define W (TYPE == T_BOOL ? 1 : TYPE == T_I32 || TYPE == T_F32 ? 4 : TYPE == T_I64 || TYPE == T_F64 ? 8 : TYPE == T_I96 ? 12 : LEN)
#endif

/* packed: CBMC reports struct padding as `$padN` members in its traces, which the replay generator of lib/e1.py cannot
   write back into a C initialiser; without padding every counterexample replays */
struct __attribute__((packed)) in {
    uint8_t v[N][W];        /* plain-encoded values (BYTE_ARRAY: the first len[i] bytes count) */
    uint8_t isnan[N];       /* FLOAT/DOUBLE: value i is the canonical quiet NaN instead of v[i] */
    uint8_t len[N];         /* BYTE_ARRAY lengths, 0..LEN */
    uint8_t big[4];         /* MODE 4: leading bytes of the long value */
    int64_t nulls[2];       /* two add_nulls calls */
    uint8_t v2[W];          /* MODE 3: value added after the reset */
};
struct in nondet_in(void);

static void release(parquet_statistics_t* st, bool arena) {
    if (!arena) { free(st->min_value); free(st->max_value); }
}

/* min <= every value <= max, null_count exact, "exact" flags only on attained bounds.  vals[i] has length lens[i]. */
static void check_stats(const parquet_statistics_t* st, uint8_t* const* vals, const size_t* lens, int n, int64_t nulls, bool must_have) {
    VERIF_ASSERT(st->has_null_count && st->null_count == nulls, "null_count equals the number of nulls added");
    if (must_have) {
        VERIF_ASSERT(st->min_value != 0 && st->max_value != 0, "non-vacuity: the builder emits min and max for a non-empty fixed-width column");
    }
    if (st->min_value) VERIF_ASSERT(st->min_value_len > 0, "min length positive");
    if (st->max_value) VERIF_ASSERT(st->max_value_len > 0, "max length positive");
    bool min_attained = false, max_attained = false;
    for (int i = 0; i < n; i++) {
        if (st->min_value) {
            VERIF_ASSERT(o_cmp(TYPE, st->min_value, (size_t)st->min_value_len, vals[i], lens[i], true) <= 0, "min <= every added value in the type's order");
            if ((size_t)st->min_value_len == lens[i] && memcmp(st->min_value, vals[i], lens[i]) == 0) min_attained = true;
        }
        if (st->max_value) {
            VERIF_ASSERT(o_cmp(TYPE, st->max_value, (size_t)st->max_value_len, vals[i], lens[i], true) >= 0, "max >= every added value in the type's order");
            if ((size_t)st->max_value_len == lens[i] && memcmp(st->max_value, vals[i], lens[i]) == 0) max_attained = true;
        }
    }
    if (st->min_value && st->has_is_min_value_exact && st->is_min_value_exact) VERIF_ASSERT(min_attained, "is_min_value_exact only when min is one of the values");
    if (st->max_value && st->has_is_max_value_exact && st->is_max_value_exact) VERIF_ASSERT(max_attained, "is_max_value_exact only when max is one of the values");
}

void harness(void) {
    struct in IN = nondet_in();
    VERIF_ASSUME(IN.nulls[0] >= 0 && IN.nulls[0] <= (1LL << 40) && IN.nulls[1] >= 0 && IN.nulls[1] <= (1LL << 40));
    carquet_arena_t arena; carquet_arena_t* ar = 0;
#ifdef USE_ARENA
    VERIF_ASSUME(carquet_arena_init(&arena) == CARQUET_OK); ar = &arena;
#endif
    parquet_statistics_t st;
    uint8_t* vals[N + 1]; size_t lens[N + 1];
#if MODE == 1 || MODE == 3
    /* fixed-width values in one exact-size heap array */
    uint8_t* buf = malloc((size_t)N * W); VERIF_NOTNULL(buf);
    for (int i = 0; i < N; i++) {
#if TYPE == T_F32
        if (IN.isnan[i]) o_wr_le(IN.v[i], 4, F32_QNAN); else VERIF_ASSUME(!o_isnan(TYPE, IN.v[i]));
#elif TYPE == T_F64
        if (IN.isnan[i]) o_wr_le(IN.v[i], 8, F64_QNAN); else VERIF_ASSUME(!o_isnan(TYPE, IN.v[i]));
#endif
        memcpy(buf + (size_t)i * W, IN.v[i], W);
        vals[i] = buf + (size_t)i * W; lens[i] = W;
    }
    carquet_statistics_builder_t* b = carquet_statistics_builder_create((carquet_physical_type_t)TYPE, TYPE == T_FLBA ? LEN : 0);
    VERIF_NOTNULL(b);
    carquet_statistics_add_nulls(b, IN.nulls[0]);
    bool accepted = true;
#ifdef OPTIONAL_STATS
    /* values wider than the builder can store: refusing them, or accepting them and emitting no min/max, is as good as
       tracking them; only statistics that ARE emitted must be bounds */
    accepted = carquet_statistics_add_values(b, buf, N1) == CARQUET_OK;
#else
    VERIF_ASSERT(carquet_statistics_add_values(b, buf, N1) == CARQUET_OK, "add_values accepts the first batch");
#endif
#if N1 < N
    VERIF_ASSERT(carquet_statistics_add_values(b, buf + (size_t)N1 * W, N - N1) == CARQUET_OK, "add_values accepts the second batch");
#endif
    carquet_statistics_add_nulls(b, IN.nulls[1]);
    VERIF_ASSERT(carquet_statistics_build(b, ar, &st) == CARQUET_OK, "build succeeds");
    if (accepted) {
        VERIF_ASSERT(!st.min_value || st.min_value_len == W, "min has the width of the type");
        VERIF_ASSERT(!st.max_value || st.max_value_len == W, "max has the width of the type");
#ifdef OPTIONAL_STATS
        check_stats(&st, vals, lens, N, IN.nulls[0] + IN.nulls[1], false);
#else
        check_stats(&st, vals, lens, N, IN.nulls[0] + IN.nulls[1], true);
#endif
    }
    release(&st, ar != 0);
#if MODE == 3
    /* reset forgets everything: statistics of the second use describe only the second use */
    carquet_statistics_builder_reset(b);
    uint8_t* one = malloc(W); VERIF_NOTNULL(one);
#if TYPE == T_F32 || TYPE == T_F64
    VERIF_ASSUME(!o_isnan(TYPE, IN.v2));
#endif
    memcpy(one, IN.v2, W);
    VERIF_ASSERT(carquet_statistics_add_values(b, one, 1) == CARQUET_OK, "add_values after reset");
    VERIF_ASSERT(carquet_statistics_build(b, ar, &st) == CARQUET_OK, "build after reset");
    uint8_t* v1[1] = { one }; size_t l1[1] = { W };
    check_stats(&st, v1, l1, 1, 0, true);
    VERIF_ASSERT(st.min_value && st.max_value && memcmp(st.min_value, one, W) == 0 && memcmp(st.max_value, one, W) == 0, "after reset min == max == the only value");
    release(&st, ar != 0);
    free(one);
#endif
    carquet_statistics_builder_destroy(b);
    free(buf);
#elif MODE == 2 || MODE == 4
    /* BYTE_ARRAY: every value is its own exact-size heap object; lengths are unequal and symbolic */
    carquet_byte_array_t* arr = malloc(sizeof(carquet_byte_array_t) * N); VERIF_NOTNULL(arr);
    for (int i = 0; i < N; i++) {
#if MODE == 4
        size_t l = i == N - 1 ? BIGLEN : LEN;     /* concrete lengths; the last value is longer than the builder's storage */
#else
        size_t l = IN.len[i];
        VERIF_ASSUME(l <= LEN);
#endif
        uint8_t* p = malloc(l); VERIF_NOTNULL(p);
#if MODE == 4
        if (i == N - 1) { memset(p, 0, l); for (int k = 0; k < 4; k++) p[k] = IN.big[k]; }
        else
#endif
        for (size_t k = 0; k < l; k++) p[k] = IN.v[i][k];
        arr[i].data = p; arr[i].length = (int32_t)l; vals[i] = p; lens[i] = l;
    }
    carquet_statistics_builder_t* b = carquet_statistics_builder_create(CARQUET_PHYSICAL_BYTE_ARRAY, 0);
    VERIF_NOTNULL(b);
    carquet_statistics_add_nulls(b, IN.nulls[0]);
    VERIF_ASSERT(carquet_statistics_add_byte_arrays(b, arr, N1) == CARQUET_OK, "add_byte_arrays accepts the first batch");
#if N1 < N
    VERIF_ASSERT(carquet_statistics_add_byte_arrays(b, arr + N1, N - N1) == CARQUET_OK, "add_byte_arrays accepts the second batch");
#endif
    carquet_statistics_add_nulls(b, IN.nulls[1]);
    VERIF_ASSERT(carquet_statistics_build(b, ar, &st) == CARQUET_OK, "build succeeds");
    check_stats(&st, vals, lens, N, IN.nulls[0] + IN.nulls[1], false);
    /* a non-empty smallest / largest value is reported (the empty string cannot be carried by the length>0 convention) */
    release(&st, ar != 0);
    carquet_statistics_builder_destroy(b);
    for (int i = 0; i < N; i++) free(vals[i]);
    free(arr);
#endif
#ifdef USE_ARENA
    carquet_arena_destroy(&arena);
#endif
    VERIF_WITNESS();
}
#ifdef REPLAY
#include REPLAY_FILE
#endif
