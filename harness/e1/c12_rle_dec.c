/* C12/C11 — RLE / bit-packing hybrid DECODERS on specification streams with a CONCRETE run layout (engine E1).
 * Real code: src/encoding/rle.c (carquet_rle_decode_all, carquet_rle_decoder_init/get/get_batch/skip/has_next,
 * start_new_run, fill_bitpack_buffer, read_varint, carquet_rle_decode_levels, carquet_rle_decode_levels_prefixed),
 * src/core/bitpack.c (carquet_bitunpack8_32 and the 1..8-bit kernels), src/encoding/dictionary.c
 * (carquet_dictionary_decode_int32/int64, VT 4/5).
 * The decoders branch on the run headers.  Here the run LAYOUT is concrete per obligation (so the header bytes are
 * constants and CBMC's symbolic execution follows one control path) while every VALUE is symbolic; layouts include the
 * legal forms carquet's own encoder never emits: several groups in one bit-packed run, zero-length RLE and bit-packed
 * runs, a padded final group, RLE runs shorter than 8, an over-long final RLE run, non-minimal (padded) header varints.
 * Arbitrary layouts / arbitrary bytes are the E2 half.
 *   -DVBW=<bit width>  -DVLAYOUT="{d0,d1,..}" -DVLN=<directives>  -DVN=<values carried>  -DVLEN=<stream bytes, computed by
 *   the Python side from the layout; asserted>  -DVPADMASK=<bit d set: header of directive d written as a non-minimal varint>
 *   directive: 0x00|k  one bit-packed run of ceil(k/8) groups holding the next k values (last group zero-padded)
 *              0x80|k  one RLE run of k copies of the next value (k = 0: zero-length run)
 *   -DVT=0 carquet_rle_decode_all   1 carquet_rle_decode_levels   2 carquet_rle_decode_levels_prefixed (+ VTRAIL bytes after)
 *       3 streaming decoder driven by the concrete script -DVSCRIPT="{op,k, op,k, ..}" -DVSN=<calls>
 *         (op 0 get, 1 get_batch(k), 2 skip(k)); must agree with the one-shot decode position by position
 *       4/5 carquet_dictionary_decode_int32/int64: values are indices into a symbolic dictionary of -DVD entries
 *   -DVZVAL=<value stored in the (never output) value bytes of zero-length RLE runs, default 5>
 *   -DVPHYS=<values physically in the stream = VN + zero padding of the final group>
 *   -DVASK=<values requested, default VN> (VASK < VN: stop early; the rest of the stream is not consumed)
 * Oracle: the stream is built from the specification (header varint, LSB-first groups via ref_bitpack_lsb, little-endian
 * repeated value) by emit_layout() below -- ref_rle_hybrid_encode_layout has value-dependent early returns
 * (run values differ -> REF_ERR_ARG) after which every byte it wrote is "constant-or-garbage" for CBMC; the reference
 * DECODER ref_rle_hybrid_decode is run on the same bytes as a cross-check of the builder. */
#include "c11_common.h"
#include <carquet/carquet.h>
#include "encoding/rle.h"
#include "ref_codecs.h"

#ifndef VBW
#define VBW 3
#endif
#ifndef VLAYOUT
#define VLAYOUT {0x08}
#define VLN 1
#define VN 8
#define VLEN 4
#endif
#ifndef VPADMASK
#define VPADMASK 0
#endif
#ifndef VT
#define VT 0
#endif
#ifndef VASK
#define VASK VN
#endif
#ifndef VTRAIL
#define VTRAIL 0
#endif
#ifndef VPHYS
#define VPHYS VN
#endif
#ifndef VD
#define VD 3
#endif
#ifdef EXCLUDE_F_RLE_ZERORUN
/* open finding F-RLE-ZERORUN: carquet's decoders jump to the next header without consuming the value bytes of a zero-length
   RLE run.  Excluded: zero-length RLE runs whose value bytes are not all zero (all-zero value bytes are parsed as further
   empty RLE headers, which is harmless). */
#undef VZVAL
#define VZVAL 0
#endif
#ifndef VZVAL
#define VZVAL 5
#endif
#define VNN (VN ? VN : 1)
#define CAP (VLEN + 8)
static const uint8_t LAYOUT[] = VLAYOUT;

carquet_status_t carquet_dictionary_decode_int32(const uint8_t*, size_t, int32_t, const uint8_t*, size_t, int32_t*, int64_t);
carquet_status_t carquet_dictionary_decode_int64(const uint8_t*, size_t, int32_t, const uint8_t*, size_t, int64_t*, int64_t);

struct in {
    uint32_t val[VNN];          /* one symbol per value position; an RLE run uses the symbol of its first position */
    uint64_t dict[VD];          /* VT 4/5 */
    uint8_t trail[VTRAIL ? VTRAIL : 1];
};
struct in nondet_in(void);

static size_t put_varint(uint8_t* o, uint32_t x, int pad) {
    size_t i = 0;
    while (x >= 0x80) { o[i++] = (uint8_t)(x | 0x80); x >>= 7; }
    if (pad) { o[i++] = (uint8_t)(x | 0x80); o[i++] = 0; } else o[i++] = (uint8_t)x;
    return i;
}
/* specification encoder with a dictated layout; v[] already has equal values inside RLE runs */
static size_t emit_layout(const uint32_t* v, uint8_t* out) {
    size_t pos = 0; int cur = 0;
    for (int d = 0; d < VLN; d++) {
        int k = LAYOUT[d] & 0x7f, pad = (VPADMASK >> d) & 1;
        if (!(LAYOUT[d] & 0x80)) {
            int groups = (k + 7) / 8;
            pos += put_varint(out + pos, ((uint32_t)groups << 1) | 1u, pad);
            uint32_t tmp[128];
            for (int j = 0; j < groups * 8; j++) tmp[j] = j < k ? v[cur + j] : 0;
            size_t len = 0;
            int rc = ref_bitpack_lsb(tmp, (size_t)groups * 8, VBW, out + pos, CAP - pos, &len);
            VERIF_ASSERT(rc == REF_OK, "harness: group packs");
            pos += (size_t)groups * VBW;
        } else {
            pos += put_varint(out + pos, (uint32_t)k << 1, pad);
            /* the repeated value of a zero-length run is never output; it is the constant VZVAL (masked to the width) so that
               a decoder that mis-parses such a run still follows one concrete control path (see F-RLE-ZERORUN) */
            uint32_t x = k > 0 ? v[cur] : (VZVAL & (VBW >= 32 ? 0xffffffffu : ((1u << VBW) - 1u)));
            for (int b = 0; b < (VBW + 7) / 8; b++) out[pos++] = (uint8_t)(x >> (8 * b));
        }
        cur += k;
    }
    return pos;
}

void harness(void) {
    struct in IN = nondet_in();
#if (VT == 1 || VT == 2) && VBW >= 16
    /* the level decoders deliver int16_t: a level above INT16_MAX is not a level (no schema nests that deep) and cannot be returned
       as "the original value" through this API - the stream carries 16-bit slots, the values are levels */
    const uint32_t mask = 0x7fffu;
#else
    const uint32_t mask = VBW >= 32 ? 0xffffffffu : ((1u << VBW) - 1u);
#endif
    uint32_t v[VNN];
    { int cur = 0;
      for (int d = 0; d < VLN; d++) {
          int k = LAYOUT[d] & 0x7f;
          for (int j = 0; j < k; j++) v[cur + j] = (LAYOUT[d] & 0x80) ? IN.val[cur] : IN.val[cur + j];
          cur += k;
      }
      VERIF_ASSERT(cur == VN, "harness: layout carries VN values"); }
    for (int i = 0; i < VN; i++) VERIF_ASSUME(v[i] <= mask);
#if VT >= 4
    for (int i = 0; i < VN; i++) VERIF_ASSUME(v[i] < VD);
#endif
    uint8_t sbuf[CAP];
    size_t slen = emit_layout(v, sbuf);
    VERIF_ASSERT(slen == VLEN, "harness: stream length as computed from the layout");
    /* cross-check of the builder: the reference decoder reads the values back and ends where the stream ends (when
       the stream does not end in zero-length runs, which no decoder needs to read) */
    { uint32_t ro[VNN]; size_t rc = 0;
      VERIF_ASSERT(ref_rle_hybrid_decode(sbuf, VLEN, VBW, ro, VN, &rc) == REF_OK, "harness: reference decoder accepts the built stream");
      for (int i = 0; i < VN; i++) VERIF_ASSERT(ro[i] == v[i], "harness: reference decoder returns the values"); }

    /* ---- exact-size input object for carquet (element-wise copy keeps the header bytes constant for symex) */
#if VT == 2
    const size_t ilen = 4 + VLEN + VTRAIL;
    uint8_t* inp = malloc(ilen); VERIF_NOTNULL(inp);
    inp[0] = (uint8_t)(VLEN & 0xff); inp[1] = (uint8_t)((VLEN >> 8) & 0xff); inp[2] = (uint8_t)((VLEN >> 16) & 0xff); inp[3] = (uint8_t)((uint32_t)VLEN >> 24);
    for (int i = 0; i < VLEN; i++) inp[4 + i] = sbuf[i];
    for (int i = 0; i < VTRAIL; i++) inp[4 + VLEN + i] = IN.trail[i];
#elif VT >= 4
    const size_t ilen = 1 + VLEN;
    uint8_t* inp = malloc(ilen); VERIF_NOTNULL(inp);
    inp[0] = VBW;
    for (int i = 0; i < VLEN; i++) inp[1 + i] = sbuf[i];
#else
    const size_t ilen = VLEN;
    uint8_t* inp = malloc(ilen); VERIF_NOTNULL(inp);
    for (int i = 0; i < VLEN; i++) inp[i] = sbuf[i];
#endif

#if VT == 0
    uint32_t* o = malloc((size_t)(VASK ? VASK : 1) * 4); VERIF_NOTNULL(o);
    int64_t got = carquet_rle_decode_all(inp, ilen, VBW, o, VASK);
    VERIF_ASSERT(got == VASK, "one-shot decoder returns the requested number of values");
    for (int i = 0; i < VASK; i++) VERIF_ASSERT(o[i] == v[i], "carquet_rle_decode_all == original values");
    free(o);
#elif VT == 1 || VT == 2
    int16_t* o = malloc((size_t)(VASK ? VASK : 1) * 2); VERIF_NOTNULL(o);
#if VT == 1
    int64_t got = carquet_rle_decode_levels(inp, ilen, VBW, o, VASK);
#else
    size_t cons = (size_t)-1;
    int64_t got = carquet_rle_decode_levels_prefixed(inp, ilen, VBW, o, VASK, &cons);
    VERIF_ASSERT(cons == 4 + (size_t)VLEN, "bytes consumed == 4-byte prefix + announced length (trailing bytes untouched)");
#endif
    VERIF_ASSERT(got == VASK, "level decoder returns the requested number of levels");
    for (int i = 0; i < VASK; i++) VERIF_ASSERT((uint16_t)o[i] == v[i], "decoded levels == original values");
    free(o);
#elif VT == 3
    static const int SCRIPT[] = VSCRIPT;
    carquet_rle_decoder_t dec;
    carquet_rle_decoder_init(&dec, inp, ilen, VBW);
    int p = 0;                                     /* position in the sequence the stream physically holds */
    /* the streaming API has no value count: it can also hand out the VPHYS - VN padding values of a padded final group;
       only the VN real positions are compared */
    uint32_t* o = malloc((size_t)(VPHYS ? VPHYS : 1) * 4); VERIF_NOTNULL(o);
    for (int s = 0; s < VSN; s++) {
        int op = SCRIPT[2 * s], k = SCRIPT[2 * s + 1];
        int left = VPHYS - p;
        if (op == 0) {
            VERIF_ASSERT(left == 0 || carquet_rle_decoder_has_next(&dec), "has_next while values remain");
            uint32_t x = carquet_rle_decoder_get(&dec);
            if (left > 0) { if (p < VN) VERIF_ASSERT(x == v[p], "get == one-shot value at this position"); p++; }
            else VERIF_ASSERT(x == 0, "get past the end returns 0");
        } else if (op == 1) {
            int64_t g = carquet_rle_decoder_get_batch(&dec, o, k);
            int want = k < left ? k : left;
            VERIF_ASSERT(g == want, "get_batch returns min(k, values left in the stream)");
            for (int i = 0; i < want; i++) if (p + i < VN) VERIF_ASSERT(o[i] == v[p + i], "get_batch == one-shot values at these positions");
            p += want;
        } else {
            int64_t g = carquet_rle_decoder_skip(&dec, k);
            int want = k < left ? k : left;
            VERIF_ASSERT(g == want, "skip returns min(k, values left in the stream)");
            p += want;
        }
        VERIF_ASSERT(carquet_rle_decoder_status(&dec) == CARQUET_OK, "no error on a well-formed stream");
    }
    free(o);
#else
    /* dictionary decode: PLAIN dictionary page of VD entries, index page = <bit width> ++ stream */
#if VT == 4
    typedef int32_t dv_t;
#define DDEC carquet_dictionary_decode_int32
#else
    typedef int64_t dv_t;
#define DDEC carquet_dictionary_decode_int64
#endif
    uint8_t* dp = malloc(VD * sizeof(dv_t)); VERIF_NOTNULL(dp);
    for (int d = 0; d < VD; d++) for (size_t b = 0; b < sizeof(dv_t); b++) dp[d * sizeof(dv_t) + b] = (uint8_t)(IN.dict[d] >> (8 * b));
    dv_t* o = malloc((size_t)VNN * sizeof(dv_t)); VERIF_NOTNULL(o);
    carquet_status_t st = DDEC(dp, VD * sizeof(dv_t), VD, inp, ilen, o, VN);
    VERIF_ASSERT(st == CARQUET_OK, "dictionary decoder returns OK");
    for (int i = 0; i < VN; i++) VERIF_ASSERT(o[i] == (dv_t)IN.dict[v[i]], "output[i] == dictionary[index[i]]");
    free(o); free(dp);
#endif
    free(inp);
    VERIF_WITNESS();
}
#ifdef REPLAY
#include REPLAY_FILE
#endif
