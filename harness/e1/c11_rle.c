/* C11/C12 — RLE / bit-packing hybrid ENCODER (engine E1).
 * Real code: src/encoding/rle.c (carquet_rle_encoder_*, carquet_rle_encode_all, carquet_rle_encode_levels),
 * src/core/bitpack.c (carquet_bitpack8_32), src/core/buffer.c; MODE 4 additionally the static encode_levels()
 * of src/writer/page_writer.c (the only place that writes the 4-byte length prefix of data-page-v1 levels).
 * Oracle: ref_rle_hybrid_decode / ref_levels_v1_decode of /verif/ref (Parquet Encodings specification).
 *   -DVBW=<bit width 0..32>  -DVN=<concrete value count>
 *   -DMODE=1  carquet_rle_encode_all(v)                 -> reference decode == v, consumed == buffer size
 *   -DMODE=2  init / put / put_repeat(x, VR) / put / flush  (explicit encoder API, VR concrete, inserted after VN/2 values)
 *   -DMODE=3  carquet_rle_encode_levels(int16 levels), no prefix -> reference decode == levels
 *   -DMODE=4  page_writer.c encode_levels(levels, n, max_level) with carquet_rle_encode_all replaced by a FUNCTION SUMMARY
 *             (appends an arbitrary blob of 0..6 bytes, records its arguments): the output is the 4-byte little-endian
 *             length of the blob followed by the blob, and the summary was called with the n levels widened to 32 bits
 *             and bit width == number of bits of max_level (every max_level 1..32767).  The real carquet_rle_encode_all is
 *             the subject of modes 1-3 and of c11_rle_step.c; running it here as well goes through a second 4096-byte
 *             temporary buffer at symbolic offsets and gives no verdict within 300 s.
 * Precondition of the API assumed: every value fits in VBW bits (levels: 0 <= level < 2^VBW).
 *
 * Finding F-RLE-PAD (fixed in /repo by 1cd0464; exclusion predicate rle_pad_trigger below, compiled in with
 * -DEXCLUDE_F_RLE_PAD only while the finding is listed as open). */
#include "c11_common.h"
#include <carquet/carquet.h>
#include "ref_codecs.h"
#if MODE == 4
#include "writer/page_writer.c"      /* static encode_levels(); resolved via -I<repo>/src */
#else
#include "encoding/rle.h"
#endif

#ifndef VBW
#define VBW 3
#endif
#ifndef VN
#define VN 9
#endif
#ifndef VR
#define VR 0
#endif
#if MODE == 2
#define TOT (VN + VR)
#else
#define TOT VN
#endif
#define VNN (TOT ? TOT : 1)

struct in {
    uint32_t v[VN ? VN : 1];
    uint32_t x;                 /* MODE 2: the value handed to put_repeat */
    int16_t max_level; uint8_t k; uint8_t blob[6];   /* MODE 4 */
    uint8_t fill_[3];           /* explicit tail padding: CBMC names implicit padding $padN, which the replay generator cannot assign */
};
struct in nondet_in(void);

/* F-RLE-PAD trigger, derived from carquet_rle_encoder_put / carquet_rle_encoder_flush:
 * the encoder keeps `bitpack_count` (0..7) values of an unfinished bit-packed group.  Maximal runs of < 8 equal values
 * are appended to that group (flushed each time it reaches 8); when a maximal run of >= 8 equal values ends (value
 * change or flush) flush_bitpack() is called first, which PADS the unfinished group with zeros and writes it, and only
 * then the RLE run is written: 8 - bitpack_count spurious zero values enter the stream in front of the run.
 * So the defect manifests iff some maximal run of length >= 8 starts while bitpack_count != 0, where
 * bitpack_count = (total length of the short runs since the previous long run or the start) mod 8 -- except for the one
 * harmless case where that long run is the LAST run and its value is 0 (the spurious zeros then merge with the run and
 * are cut off by the value count). */
static int rle_pad_trigger(const uint32_t* s, int n) {
    int pend = 0, trig = 0, i = 0;
    while (i < n) {
        int e = i + 1;
        while (e < n && s[e] == s[i]) e++;
        int len = e - i;
        if (len >= 8) {
            if (pend != 0 && !(e == n && s[i] == 0)) trig = 1;
            pend = 0;
        } else {
            pend = (pend + len) % 8;
        }
        i = e;
    }
    return trig;
}

#if MODE == 4
/* function summary of carquet_rle_encode_all (src/encoding/rle.c is not linked in this mode) */
static struct in* g_in; static int g_calls, g_bw; static int64_t g_count; static uint32_t g_vals[VN ? VN : 1];
carquet_status_t carquet_rle_encode_all(const uint32_t* input, int64_t count, int bit_width, carquet_buffer_t* output) {
    g_calls++; g_bw = bit_width; g_count = count;
    for (int i = 0; i < VN; i++) if (i < count) g_vals[i] = input[i];
    return carquet_buffer_append(output, g_in->blob, g_in->k);
}
#endif

void harness(void) {
    struct in IN = nondet_in();
#if MODE == 4
    g_in = &IN;
    VERIF_ASSUME(IN.k <= 6 && IN.max_level >= 1);
    for (int i = 0; i < VN; i++) VERIF_ASSUME(IN.v[i] <= (uint32_t)IN.max_level);
#endif
    const uint32_t mask = VBW >= 32 ? 0xffffffffu : ((1u << VBW) - 1u);
    uint32_t seq[VNN];      /* the logical value sequence */
    int n = 0;
#if MODE == 2
    VERIF_ASSUME(IN.x <= mask);
    for (int i = 0; i < VN / 2; i++) seq[n++] = IN.v[i];
    for (int i = 0; i < VR; i++) seq[n++] = IN.x;
    for (int i = VN / 2; i < VN; i++) seq[n++] = IN.v[i];
#else
    for (int i = 0; i < VN; i++) seq[n++] = IN.v[i];
#endif
#if MODE != 4
    for (int i = 0; i < TOT; i++) VERIF_ASSUME(seq[i] <= mask);
#endif
#if defined(EXCLUDE_F_RLE_PAD)
    VERIF_ASSUME(!rle_pad_trigger(seq, TOT));
#endif

    carquet_buffer_t buf; out_init(&buf);
    carquet_status_t st;
#if MODE == 1
    uint32_t* vin = (uint32_t*)exact(seq, (size_t)TOT * 4);
    st = carquet_rle_encode_all(vin, TOT, VBW, &buf);
    free(vin);
#elif MODE == 2
    carquet_rle_encoder_t enc;
    carquet_rle_encoder_init(&enc, &buf, VBW);
    st = CARQUET_OK;
    for (int i = 0; i < VN / 2; i++) if (st == CARQUET_OK) st = carquet_rle_encoder_put(&enc, IN.v[i]);
    if (st == CARQUET_OK) st = carquet_rle_encoder_put_repeat(&enc, IN.x, VR);
    for (int i = VN / 2; i < VN; i++) if (st == CARQUET_OK) st = carquet_rle_encoder_put(&enc, IN.v[i]);
    if (st == CARQUET_OK) st = carquet_rle_encoder_flush(&enc);
#else
    int16_t* lv = malloc((size_t)VNN * 2); VERIF_NOTNULL(lv);
    for (int i = 0; i < TOT; i++) lv[i] = (int16_t)seq[i];
    int16_t* lvx = (int16_t*)exact(lv, (size_t)TOT * 2); free(lv);
#if MODE == 3
    st = carquet_rle_encode_levels(lvx, TOT, VBW, &buf);
#else
    st = encode_levels(lvx, TOT, IN.max_level, &buf);
#endif
    free(lvx);
#endif
    VERIF_ASSERT(st == CARQUET_OK, "encoder returns OK");

    /* the emitted bytes go to the reference decoder only, which checks every read against buf.size itself */
    const uint8_t* enc_bytes = buf.data;
    size_t cons = (size_t)-1;
#if MODE == 4
    int rc = REF_OK; uint32_t out[VNN];
    { int need = 0; for (int m = IN.max_level; m > 0; m >>= 1) need++;
      VERIF_ASSERT(g_calls == 1 && g_count == TOT && g_bw == need, "levels are RLE-encoded once, all of them, at bit width == bits(max_level)");
      for (int i = 0; i < TOT; i++) out[i] = g_vals[i];
      VERIF_ASSERT(buf.size == 4 + (size_t)IN.k, "output == 4-byte prefix + hybrid data");
      uint32_t pre = (uint32_t)enc_bytes[0] | ((uint32_t)enc_bytes[1] << 8) | ((uint32_t)enc_bytes[2] << 16) | ((uint32_t)enc_bytes[3] << 24);
      VERIF_ASSERT(pre == IN.k, "4-byte little-endian prefix == number of hybrid bytes that follow");
      for (int i = 0; i < 6; i++) if (i < IN.k) VERIF_ASSERT(enc_bytes[4 + i] == IN.blob[i], "hybrid data follows the prefix unchanged");
      cons = buf.size; }
#else
    uint32_t out[VNN];
    int rc = ref_rle_hybrid_decode(enc_bytes, buf.size, VBW, out, TOT, &cons);
#endif
    VERIF_ASSERT(rc == REF_OK, "reference decoder accepts the emitted stream");
    VERIF_ASSERT(cons == buf.size, "bytes in the buffer == bytes the value count accounts for (no trailing garbage)");
    for (int i = 0; i < TOT; i++) VERIF_ASSERT(out[i] == seq[i], "reference decode == v");
    carquet_buffer_destroy(&buf);
    VERIF_WITNESS();
}
#ifdef REPLAY
#include REPLAY_FILE
#endif
