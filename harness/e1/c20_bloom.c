/* C20 — Bloom filter obligations (engine E1).  Real code: src/metadata/bloom_filter.c, src/util/xxhash.c.
 * MODE selects the obligation, NB is the (concrete) number of 32-byte blocks, LEN a byte length.
 * The oracle (XXH64, split-block algorithm) is written here from the xxHash spec and Parquet's
 * BloomFilter.md and shares nothing with carquet. */
#include "verif_e1.h"
#include <carquet/carquet.h>
#ifdef INCLUDE_IMPL
/* lemma obligations reach the static helpers: the real translation unit is included verbatim */
#include "metadata/bloom_filter.c"   /* resolved via -I<repo>/src */
#endif

/* bloom_filter.c exports these without a public header */
carquet_bloom_filter_t* carquet_bloom_filter_create(size_t num_bytes);
carquet_bloom_filter_t* carquet_bloom_filter_from_data(const uint8_t* data, size_t size);
void carquet_bloom_filter_destroy(carquet_bloom_filter_t* f);
void carquet_bloom_filter_insert_hash(carquet_bloom_filter_t* f, uint64_t h);
void carquet_bloom_filter_insert_i32(carquet_bloom_filter_t* f, int32_t v);
void carquet_bloom_filter_insert_i64(carquet_bloom_filter_t* f, int64_t v);
void carquet_bloom_filter_insert_float(carquet_bloom_filter_t* f, float v);
void carquet_bloom_filter_insert_double(carquet_bloom_filter_t* f, double v);
void carquet_bloom_filter_insert_bytes(carquet_bloom_filter_t* f, const uint8_t* d, size_t n);
bool carquet_bloom_filter_check_hash(const carquet_bloom_filter_t* f, uint64_t h);
bool carquet_bloom_filter_check_i32(const carquet_bloom_filter_t* f, int32_t v);
bool carquet_bloom_filter_check_i64(const carquet_bloom_filter_t* f, int64_t v);
bool carquet_bloom_filter_check_float(const carquet_bloom_filter_t* f, float v);
bool carquet_bloom_filter_check_double(const carquet_bloom_filter_t* f, double v);
bool carquet_bloom_filter_check_bytes(const carquet_bloom_filter_t* f, const uint8_t* d, size_t n);
const uint8_t* carquet_bloom_filter_data(const carquet_bloom_filter_t* f);
size_t carquet_bloom_filter_size(const carquet_bloom_filter_t* f);
size_t carquet_bloom_filter_num_blocks(const carquet_bloom_filter_t* f);
carquet_status_t carquet_bloom_filter_write(const carquet_bloom_filter_t* f, uint8_t* out, size_t cap, size_t* written);
carquet_status_t carquet_bloom_filter_read(carquet_bloom_filter_t** out, const uint8_t* data, size_t size);
carquet_status_t carquet_bloom_filter_merge(carquet_bloom_filter_t* dest, const carquet_bloom_filter_t* src);
uint64_t carquet_xxhash64(const void* data, size_t length, uint64_t seed);

#ifndef NB
#define NB 2
#endif
#ifndef LEN
#define LEN 4
#endif
#define NBYTES (NB * 32)

/* ---------------------------------------------------------------- oracle: XXH64 (xxhash_spec.md) */
#define P1 0x9E3779B185EBCA87ULL
#define P2 0xC2B2AE3D27D4EB4FULL
#define P3 0x165667B19E3779F9ULL
#define P4 0x85EBCA77C2B2AE63ULL
#define P5 0x27D4EB2F165667C5ULL
static uint64_t o_rotl(uint64_t x, int r) { return (x << r) | (x >> (64 - r)); }
static uint64_t o_rd64(const uint8_t* p) { uint64_t v = 0; for (int i = 7; i >= 0; i--) v = (v << 8) | p[i]; return v; }
static uint32_t o_rd32(const uint8_t* p) { uint32_t v = 0; for (int i = 3; i >= 0; i--) v = (v << 8) | p[i]; return v; }
static uint64_t o_round(uint64_t acc, uint64_t in) { acc += in * P2; acc = o_rotl(acc, 31); return acc * P1; }
static uint64_t o_merge(uint64_t h, uint64_t v) { h ^= o_round(0, v); return h * P1 + P4; }
static uint64_t oracle_xxh64(const uint8_t* p, size_t len, uint64_t seed) {
    size_t i = 0; uint64_t h;
    if (len >= 32) {
        uint64_t v1 = seed + P1 + P2, v2 = seed + P2, v3 = seed, v4 = seed - P1;
        while (i + 32 <= len) {
            v1 = o_round(v1, o_rd64(p + i)); v2 = o_round(v2, o_rd64(p + i + 8));
            v3 = o_round(v3, o_rd64(p + i + 16)); v4 = o_round(v4, o_rd64(p + i + 24)); i += 32;
        }
        h = o_rotl(v1, 1) + o_rotl(v2, 7) + o_rotl(v3, 12) + o_rotl(v4, 18);
        h = o_merge(h, v1); h = o_merge(h, v2); h = o_merge(h, v3); h = o_merge(h, v4);
    } else h = seed + P5;
    h += (uint64_t)len;
    while (i + 8 <= len) { h ^= o_round(0, o_rd64(p + i)); h = o_rotl(h, 27) * P1 + P4; i += 8; }
    if (i + 4 <= len) { h ^= (uint64_t)o_rd32(p + i) * P1; h = o_rotl(h, 23) * P2 + P3; i += 4; }
    while (i < len) { h ^= (uint64_t)p[i] * P5; h = o_rotl(h, 11) * P1; i++; }
    h ^= h >> 33; h *= P2; h ^= h >> 29; h *= P3; h ^= h >> 32;
    return h;
}
/* ---------------------------------------------------------------- oracle: split-block filter (BloomFilter.md) */
static const uint32_t O_SALT[8] = {0x47b6137bU, 0x44974d91U, 0x8824ad5bU, 0xa2b7289dU, 0x705495c7U, 0x2df1424bU, 0x9efc4947U, 0x5c6bfb31U};
static uint32_t oracle_block_index(uint64_t h, uint32_t nblocks) { return (uint32_t)(((h >> 32) * (uint64_t)nblocks) >> 32); }
/* expected bitset after inserting h into bitset `b` (little-endian 32-bit words) */
static void oracle_insert(uint8_t* b, uint32_t nblocks, uint64_t h) {
    uint32_t blk = oracle_block_index(h, nblocks);
    uint32_t key = (uint32_t)h;
    for (int j = 0; j < 8; j++) {
        uint32_t bit = (key * O_SALT[j]) >> 27;
        uint32_t byte = blk * 32u + (uint32_t)j * 4u + (bit >> 3);
        b[byte] |= (uint8_t)(1u << (bit & 7));
    }
}

struct in {
    uint8_t state[NBYTES];   /* arbitrary pre-state of the filter */
    uint8_t state2[NBYTES];
    uint64_t h, h2, seed;
    uint8_t bytes[LEN ? LEN : 1];
    uint32_t n;
    int32_t i32; int64_t i64; uint32_t f32; uint64_t f64;
};
struct in nondet_in(void);

void harness(void) {
    struct in IN = nondet_in();
#if MODE == 1
    /* inductive step of "no false negatives": from ANY filter state, insert(h) makes check(h) true, and a
       further insert(h2) keeps it true (monotone) -> holds for insert sequences of any length */
    carquet_bloom_filter_t* f = carquet_bloom_filter_from_data(IN.state, NBYTES);
    VERIF_NOTNULL(f);
    VERIF_ASSERT(carquet_bloom_filter_size(f) == NBYTES && carquet_bloom_filter_num_blocks(f) == NB, "from_data keeps the size");
    bool before2 = carquet_bloom_filter_check_hash(f, IN.h2);
    carquet_bloom_filter_insert_hash(f, IN.h);
    VERIF_ASSERT(carquet_bloom_filter_check_hash(f, IN.h), "inserted hash is found");
    VERIF_ASSERT(!before2 || carquet_bloom_filter_check_hash(f, IN.h2), "insert never clears membership of another hash");
    carquet_bloom_filter_insert_hash(f, IN.h2);
    VERIF_ASSERT(carquet_bloom_filter_check_hash(f, IN.h), "earlier insert survives a later insert");
    /* insert only sets bits */
    const uint8_t* d = carquet_bloom_filter_data(f);
    for (int i = 0; i < NBYTES; i++) VERIF_ASSERT((d[i] & IN.state[i]) == IN.state[i], "insert only sets bits");
    carquet_bloom_filter_destroy(f);
#elif MODE == 2
    /* conformance: bits set by insert_hash on an arbitrary state == Parquet split-block algorithm */
    carquet_bloom_filter_t* f = carquet_bloom_filter_from_data(IN.state, NBYTES);
    VERIF_NOTNULL(f);
    uint8_t expect[NBYTES];
    memcpy(expect, IN.state, NBYTES);
    oracle_insert(expect, NB, IN.h);
    carquet_bloom_filter_insert_hash(f, IN.h);
    const uint8_t* d = carquet_bloom_filter_data(f);
    for (int i = 0; i < NBYTES; i++) VERIF_ASSERT(d[i] == expect[i], "bit positions equal the Parquet split-block Bloom filter algorithm");
    carquet_bloom_filter_destroy(f);
#elif MODE == 3
    /* fresh filter: size rounded to whole 32-byte blocks, >= 32, everything reported absent */
    VERIF_ASSUME(IN.n <= 32u * NB);
    carquet_bloom_filter_t* f = carquet_bloom_filter_create(IN.n);
    VERIF_NOTNULL(f);
    size_t sz = carquet_bloom_filter_size(f);
    size_t want = IN.n < 32 ? 32 : ((size_t)IN.n + 31) / 32 * 32;
    VERIF_ASSERT(sz == want, "size rounded up to whole 32-byte blocks, at least one block");
    VERIF_ASSERT(carquet_bloom_filter_num_blocks(f) * 32 == sz, "block count matches size");
    VERIF_ASSERT(!carquet_bloom_filter_check_hash(f, IN.h), "fresh filter reports absent");
    carquet_bloom_filter_destroy(f);
#elif MODE == 4
    /* serialise -> reload keeps membership; merge contains both operands */
    carquet_bloom_filter_t* f = carquet_bloom_filter_from_data(IN.state, NBYTES);
    carquet_bloom_filter_t* g = carquet_bloom_filter_from_data(IN.state2, NBYTES);
    VERIF_NOTNULL(f); VERIF_NOTNULL(g);
    carquet_bloom_filter_insert_hash(f, IN.h);
    carquet_bloom_filter_insert_hash(g, IN.h2);
    uint8_t out[NBYTES]; size_t wr = 0;
    VERIF_ASSERT(carquet_bloom_filter_write(f, out, NBYTES, &wr) == CARQUET_OK && wr == NBYTES, "write reports the true size");
    VERIF_ASSERT(carquet_bloom_filter_write(f, out, NBYTES - 1, &wr) != CARQUET_OK, "write refuses a short buffer");
    carquet_bloom_filter_t* r = 0;
    VERIF_ASSERT(carquet_bloom_filter_read(&r, out, wr) == CARQUET_OK && r != 0, "reload succeeds");
    VERIF_ASSERT(carquet_bloom_filter_check_hash(r, IN.h), "member after serialise+reload");
    VERIF_ASSERT(carquet_bloom_filter_merge(r, g) == CARQUET_OK, "merge of equal sizes succeeds");
    VERIF_ASSERT(carquet_bloom_filter_check_hash(r, IN.h) && carquet_bloom_filter_check_hash(r, IN.h2), "merge contains the union");
    const uint8_t* d = carquet_bloom_filter_data(r);
    const uint8_t* df = carquet_bloom_filter_data(f);
    const uint8_t* dg = carquet_bloom_filter_data(g);
    for (int i = 0; i < NBYTES; i++) VERIF_ASSERT(d[i] == (uint8_t)(df[i] | dg[i]), "merge is the bitwise union");
    carquet_bloom_filter_destroy(f); carquet_bloom_filter_destroy(g); carquet_bloom_filter_destroy(r);
#elif MODE == 5
    /* typed inserts/checks == insert_hash(H(plain little-endian bytes, seed 0)) where H = carquet_xxhash64;
       H == reference XXH64 is the separate MODE 6 obligation (compositional split: proving both in one query
       needs two multiplier chains to be shown equal and times out on every back end). */
    carquet_bloom_filter_t* f = carquet_bloom_filter_from_data(IN.state, NBYTES);
    carquet_bloom_filter_t* g = carquet_bloom_filter_from_data(IN.state, NBYTES);
    VERIF_NOTNULL(f); VERIF_NOTNULL(g);
    uint8_t pl[8]; uint64_t h;
#if TYPED == 0
    for (int i = 0; i < 4; i++) pl[i] = (uint8_t)((uint32_t)IN.i32 >> (8 * i));
    h = carquet_xxhash64(pl, 4, 0); carquet_bloom_filter_insert_i32(f, IN.i32);
    VERIF_ASSERT(carquet_bloom_filter_check_i32(f, IN.i32), "typed check finds typed insert");
#elif TYPED == 1
    for (int i = 0; i < 8; i++) pl[i] = (uint8_t)((uint64_t)IN.i64 >> (8 * i));
    h = carquet_xxhash64(pl, 8, 0); carquet_bloom_filter_insert_i64(f, IN.i64);
    VERIF_ASSERT(carquet_bloom_filter_check_i64(f, IN.i64), "typed check finds typed insert");
#elif TYPED == 2
    VERIF_ASSUME((IN.f32 & 0x7fffffffu) <= 0x7f800000u); /* not NaN: CBMC does not keep NaN payloads bit-exact */
    float fv; memcpy(&fv, &IN.f32, 4);
    for (int i = 0; i < 4; i++) pl[i] = (uint8_t)(IN.f32 >> (8 * i));
    h = carquet_xxhash64(pl, 4, 0); carquet_bloom_filter_insert_float(f, fv);
    VERIF_ASSERT(carquet_bloom_filter_check_float(f, fv), "typed check finds typed insert");
#elif TYPED == 3
    VERIF_ASSUME((IN.f64 & 0x7fffffffffffffffULL) <= 0x7ff0000000000000ULL);
    double dv; memcpy(&dv, &IN.f64, 8);
    for (int i = 0; i < 8; i++) pl[i] = (uint8_t)(IN.f64 >> (8 * i));
    h = carquet_xxhash64(pl, 8, 0); carquet_bloom_filter_insert_double(f, dv);
    VERIF_ASSERT(carquet_bloom_filter_check_double(f, dv), "typed check finds typed insert");
#else
    h = carquet_xxhash64(IN.bytes, LEN, 0); carquet_bloom_filter_insert_bytes(f, IN.bytes, LEN);
    VERIF_ASSERT(carquet_bloom_filter_check_bytes(f, IN.bytes, LEN), "typed check finds typed insert");
#endif
    carquet_bloom_filter_insert_hash(g, h);
    const uint8_t* df = carquet_bloom_filter_data(f);
    const uint8_t* dg = carquet_bloom_filter_data(g);
    for (int i = 0; i < NBYTES; i++) VERIF_ASSERT(df[i] == dg[i], "typed insert == insert_hash(XXH64(plain bytes, 0))");
    carquet_bloom_filter_destroy(f); carquet_bloom_filter_destroy(g);
#elif MODE == 6
    /* hash function == reference XXH64 for this length, every byte value and seed */
    uint8_t* buf = malloc(LEN ? LEN : 1);   /* exact-size heap object: any over-read is a bounds violation */
    VERIF_NOTNULL(buf);
    for (int i = 0; i < LEN; i++) buf[i] = IN.bytes[i];
    VERIF_ASSERT(carquet_xxhash64(buf, LEN, IN.seed) == oracle_xxh64(IN.bytes, LEN, IN.seed), "carquet_xxhash64 == XXH64");
    free(buf);
#elif MODE == 7
    /* lemma: block selection == ((h >> 32) * nblocks) >> 32 for this block count and every hash */
    VERIF_ASSERT(bloom_filter_block_index(IN.h, NB) == oracle_block_index(IN.h, NB), "block index follows the Parquet multiply-shift mapping");
    VERIF_ASSERT(bloom_filter_block_index(IN.h, NB) < NB, "block index in range");
#elif MODE == 8
    /* lemma: one-block insert/check == reference mask algorithm on an arbitrary block, touching only that block */
    uint32_t blk[8]; uint8_t expect[32];
    memcpy(blk, IN.state, 32); memcpy(expect, IN.state, 32);
    bool had2 = bloom_filter_block_check(blk, IN.h2);
    bloom_filter_block_insert(blk, IN.h);
    oracle_insert(expect, 1, IN.h & 0xffffffffu);
    VERIF_ASSERT(memcmp(blk, expect, 32) == 0, "block insert sets exactly the 8 salted bits of the Parquet algorithm");
    VERIF_ASSERT(bloom_filter_block_check(blk, IN.h), "block check finds the inserted key");
    VERIF_ASSERT(!had2 || bloom_filter_block_check(blk, IN.h2), "block insert never clears another key");
    /* check == all 8 mask bits present */
    uint8_t z[32]; memset(z, 0, 32); oracle_insert(z, 1, IN.h2 & 0xffffffffu);
    bool all = true;
    for (int i = 0; i < 32; i++) if ((((uint8_t*)blk)[i] & z[i]) != z[i]) all = false;
    VERIF_ASSERT(bloom_filter_block_check(blk, IN.h2) == all, "block check == all 8 mask bits set");
#endif
    VERIF_WITNESS();
}
#ifdef REPLAY
#include REPLAY_FILE
#endif
