/* Common definitions for E1 (CBMC) harnesses.  The same harness source is compiled
 *  - by goto-cc with -DVERIF_CBMC  (symbolic: nondet_in() has no body => every field is arbitrary)
 *  - by gcc with -DREPLAY           (concrete: nondet_in() is generated from a counterexample)   */
#ifndef VERIF_E1_H
#define VERIF_E1_H
#include <stdint.h>
#include <stddef.h>
#include <stdbool.h>
#include <stdlib.h>
#include <string.h>
#ifdef VERIF_CBMC
#define VERIF_ASSERT(c, msg) __CPROVER_assert((c), msg)
#define VERIF_ASSUME(c) __CPROVER_assume(c)
/* vacuity guard: must be reported FAILED by cbmc, otherwise the harness end is unreachable */
#define VERIF_WITNESS() __CPROVER_assert(0, "WITNESS: end of harness reachable")
#define VERIF_NOTNULL(p) __CPROVER_assume((p) != 0)
#else
#include <stdio.h>
#define VERIF_ASSERT(c, msg) do { if (!(c)) { fprintf(stderr, "VERIF_ASSERT_FAILED: %s (%s:%d)\n", msg, __FILE__, __LINE__); exit(3); } } while (0)
#define VERIF_ASSUME(c) do { if (!(c)) { fprintf(stderr, "replay: assumption does not hold (%s:%d)\n", __FILE__, __LINE__); exit(0); } } while (0)
#define VERIF_WITNESS() do { } while (0)
#define VERIF_NOTNULL(p) do { if (!(p)) { fprintf(stderr, "replay: allocation failed\n"); exit(0); } } while (0)
#endif
#endif
