/* C04 — no input file can make the reader memory-unsafe, hang or leak (engine E2).
 * Skeleton + symbolic window: a structurally valid file (SKEL selects it; produced in this run by the real writer or by the
 * independent reference writer) in which WLEN consecutive bytes are symbolic.  The window position is a fork
 * (symx_choice over NWIN positions, stride STRIDE, starting W0 bytes into the REGION: 0 = footer incl. its length field,
 * 1 = data region with all page headers/bodies, 2 = whole file).  After opening (OPENMODE 0 buffer / 1 stdio / 2 mmap) a
 * fixed sequence of valid API calls is made, with SYMBOLIC row-group / column indices (out-of-range included).
 * Checked by the engine on every path: every access inside live objects, no double free, no leak after close
 * (symx_check_leaks), call depth bound, per-path step bound (termination), plus the assertions below. */
#include "pq_common.h"
#ifdef USE_REF_WRITER
#include "ref_parquet_write.h"
#endif

#ifndef SKEL
#define SKEL 0
#endif
#ifndef REGION
#define REGION 0
#endif
#ifndef W0
#define W0 0
#endif
#ifndef NWIN
#define NWIN 16
#endif
#ifndef STRIDE
#define STRIDE 1
#endif
#ifndef WLEN
#define WLEN 1
#endif
#ifndef OPENMODE
#define OPENMODE 0
#endif
#define PATH "/mem/skel.parquet"
#define MUT "/mem/mut.parquet"

static uint8_t filebuf[4096]; static size_t filelen;

static void make_skeleton(void) {
    static pq_schema_t S; static pq_column_t C[PQ_MAXCOLS];
    memset(&S, 0, sizeof S); memset(C, 0, sizeof C);
    carquet_writer_options_t wo; carquet_writer_options_init(&wo);
    pq_wstat_t ws;
#if SKEL == 0      /* INT32 OPTIONAL + BYTE_ARRAY REQUIRED, 5 rows, 2 row groups, 2 pages in the first chunk, uncompressed */
    S.ncols = 2;
    S.name[0] = "a"; S.type[0] = CARQUET_PHYSICAL_INT32; S.rep[0] = CARQUET_REPETITION_OPTIONAL;
    S.name[1] = "s"; S.type[1] = CARQUET_PHYSICAL_BYTE_ARRAY; S.rep[1] = CARQUET_REPETITION_REQUIRED;
    int nv = 0;
    for (int i = 0; i < 5; i++) { C[0].def[i] = (i != 2); if (C[0].def[i]) { int32_t v = 11 * i; memcpy(C[0].vals + 4 * nv, &v, 4); nv++; } }
    for (int i = 0; i < 5; i++) { C[1].ba_bytes[2 * i] = 'p' + i; C[1].ba_bytes[2 * i + 1] = 'q'; C[1].ba[i].data = C[1].ba_bytes + 2 * i; C[1].ba[i].length = 1 + i % 2; }
    C[0].nrows = C[1].nrows = 5;
    int rg[2] = {4, 1}; wo.page_size = 1;
    symx_assume(pq_write(PATH, &S, C, rg, 2, 2, &wo, &ws) == 0);
#elif SKEL == 1    /* DOUBLE REQUIRED + BOOLEAN OPTIONAL + FIXED_LEN_BYTE_ARRAY(3) REQUIRED, 4 rows, SNAPPY */
    S.ncols = 3;
    S.name[0] = "d"; S.type[0] = CARQUET_PHYSICAL_DOUBLE; S.rep[0] = CARQUET_REPETITION_REQUIRED;
    S.name[1] = "b"; S.type[1] = CARQUET_PHYSICAL_BOOLEAN; S.rep[1] = CARQUET_REPETITION_OPTIONAL;
    S.name[2] = "f"; S.type[2] = CARQUET_PHYSICAL_FIXED_LEN_BYTE_ARRAY; S.rep[2] = CARQUET_REPETITION_REQUIRED; S.type_len[2] = 3;
    for (int i = 0; i < 4; i++) { double v = 0.25 * i; memcpy(C[0].vals + 8 * i, &v, 8); }
    int nv = 0;
    for (int i = 0; i < 4; i++) { C[1].def[i] = (i != 0); if (C[1].def[i]) C[1].vals[nv++] = i & 1; }
    for (int i = 0; i < 12; i++) C[2].vals[i] = (uint8_t)(0x40 + i);
    C[0].nrows = C[1].nrows = C[2].nrows = 4;
    int rg[1] = {4}; wo.compression = CARQUET_COMPRESSION_SNAPPY;
    symx_assume(pq_write(PATH, &S, C, rg, 1, 0, &wo, &ws) == 0);
#endif
    filelen = symx_file_get(PATH, filebuf, sizeof filebuf);
    symx_assume(filelen != (size_t)-1 && filelen > 12);
}

static void use_reader(carquet_reader_t* r) {
    carquet_error_t err; memset(&err, 0, sizeof err);
    int64_t rows = carquet_reader_num_rows(r); (void)rows;
    int32_t nrg = carquet_reader_num_row_groups(r), ncol = carquet_reader_num_columns(r);
    const carquet_schema_t* sc = carquet_reader_schema(r);
    (void)carquet_schema_find_column(sc, "a");
    /* symbolic indices, out-of-range included */
    int8_t gi, ci; symx_make_symbolic(&gi, 1, "rg_index"); symx_make_symbolic(&ci, 1, "col_index");
    symx_assume(gi >= -1 && gi <= 2 && ci >= -1 && ci <= 3);
    carquet_row_group_metadata_t gm;
    carquet_status_t ms = carquet_reader_row_group_metadata(r, gi, &gm);
    SYMX_ASSERT((gi >= 0 && gi < nrg) || ms != CARQUET_OK, "out-of-range row-group index is reported as an error");
    memset(&err, 0, sizeof err);
    carquet_column_reader_t* cr = carquet_reader_get_column(r, gi, ci, &err);
    if (!(gi >= 0 && gi < nrg && ci >= 0 && ci < ncol)) {
        SYMX_ASSERT(cr == NULL, "out-of-range row-group/column index yields no column reader");
        SYMX_ASSERT(err.code != CARQUET_OK, "the error struct carries a non-OK code");
        SYMX_ASSERT(memchr(err.message, 0, sizeof err.message) != NULL, "error message is NUL-terminated");
    }
    if (cr) {
        /* caller-supplied buffers sized from the schema the file declares (bounded: skip absurd type lengths) */
        int32_t leaf_tl = 0; int elem = -1;
        for (int e = 0, leaf = 0; e < carquet_schema_num_elements(sc); e++) {
            const carquet_schema_node_t* nd = carquet_schema_get_element(sc, e);
            if (nd && carquet_schema_node_is_leaf(nd)) { if (leaf == ci) { elem = e; leaf_tl = carquet_schema_node_type_length(nd); } leaf++; }
        }
        size_t vs = 16;
        if (leaf_tl > 16) vs = (size_t)leaf_tl;
        if (elem >= 0 && leaf_tl >= 0 && leaf_tl <= 64) {
            uint8_t* vals = malloc(8 * vs); int16_t* defs = malloc(8 * 2); int16_t* reps = malloc(8 * 2);
            symx_assume(vals && defs && reps);
            int64_t n = carquet_column_read_batch(cr, vals, 8, defs, reps);
            SYMX_ASSERT(n <= 8, "read_batch never reports more than requested");
            (void)carquet_column_has_next(cr); (void)carquet_column_remaining(cr);
            int64_t sk = carquet_column_skip(cr, 2);
            SYMX_ASSERT(sk <= 2, "skip never reports more than requested");
            n = carquet_column_read_batch(cr, vals, 3, defs, NULL);
            SYMX_ASSERT(n <= 3, "read_batch never reports more than requested");
            free(vals); free(defs); free(reps);
        }
        carquet_column_reader_free(cr);
    }
    carquet_column_statistics_t stt;
    (void)carquet_reader_column_statistics(r, gi, ci, &stt);
    /* batch reader over all columns */
    carquet_batch_reader_config_t bc; carquet_batch_reader_config_init(&bc); bc.batch_size = 4;
    memset(&err, 0, sizeof err);
    carquet_batch_reader_t* br = carquet_batch_reader_create(r, &bc, &err);
    if (br) {
        for (int it = 0; it < 2; it++) {
            carquet_row_batch_t* b = NULL;
            carquet_status_t st = carquet_batch_reader_next(br, &b);
            if (st != CARQUET_OK || !b) break;
            const void* data; const uint8_t* nulls; int64_t nv;
            if (carquet_row_batch_num_columns(b) > 0 && carquet_row_batch_column(b, 0, &data, &nulls, &nv) == CARQUET_OK)
                SYMX_ASSERT(nv <= 4, "batch column holds at most batch_size rows");
            carquet_row_batch_free(b);
        }
        carquet_batch_reader_free(br);
    }
}

void harness(void) {
    make_skeleton();
    uint32_t flen = (uint32_t)filebuf[filelen - 8] | ((uint32_t)filebuf[filelen - 7] << 8) | ((uint32_t)filebuf[filelen - 6] << 16) | ((uint32_t)filebuf[filelen - 5] << 24);
    size_t fstart = filelen - 8 - flen;
#if REGION == 0
    size_t lo = fstart, hi = filelen - 4;
#elif REGION == 1
    size_t lo = 4, hi = fstart;
#else
    size_t lo = 0, hi = filelen;
#endif
    int w = symx_choice(NWIN, "window");
    size_t span = hi - lo - WLEN + 1;
    size_t off = lo + (W0 + (size_t)w * STRIDE) % span;       /* positions beyond the region wrap around */
    symx_observe_int(off, "window offset");
    /* exact-size heap copy: reads past the end of the presented file are bounds violations */
    uint8_t* f = malloc(filelen); symx_assume(f != NULL);
    memcpy(f, filebuf, filelen);
    symx_make_symbolic(f + off, WLEN, "w");
#ifdef WVALUE       /* one exact value of a path-heavy position (the remaining symbolic inputs are the indices and read sizes) */
    symx_assume(f[off] == WVALUE);
#endif
#ifdef WSLICE       /* value-range slice of a path-heavy position: the top 3 bits of the first window byte are fixed (8 slices cover all 256 values) */
    symx_assume((f[off] >> 5) == WSLICE);
#endif
    carquet_error_t err; memset(&err, 0, sizeof err);
    carquet_reader_options_t ro; carquet_reader_options_init(&ro);
    ro.verify_checksums = symx_choice(2, "verify_checksums");
#if OPENMODE == 0
    carquet_reader_t* r = carquet_reader_open_buffer(f, filelen, &ro, &err);
#else
    symx_file_put(MUT, f, filelen);
    ro.use_mmap = (OPENMODE == 2);
    carquet_reader_t* r = carquet_reader_open(MUT, &ro, &err);
#endif
    if (!r) {
        SYMX_ASSERT(err.code != CARQUET_OK, "a failed open reports a non-OK error code");
        SYMX_ASSERT(memchr(err.message, 0, sizeof err.message) != NULL, "error message is NUL-terminated");
    } else {
        use_reader(r);
        carquet_reader_close(r);
    }
    free(f);
    symx_check_leaks();
}
