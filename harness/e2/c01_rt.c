/* C01 / C05 — write -> read round trip through the PUBLIC API with symbolic table content (engine E2).
 * Concrete per obligation (the "shape"): column type CT and repetition OPT, rows R, rows per write_batch call B, page size PS
 * (1 = every batch ends its page, large = all batches share a page), row-group split RG, codec.  Symbolic: every value bit
 * (extreme integers, NaN payloads, -0.0 included by construction), every definition level (null pattern), byte-array
 * lengths 0..2 and bytes.  NOLEVELS: OPTIONAL column written with def_levels == NULL must read back all-present.
 * With -DREFCHECK the produced file is additionally handed to the independent reference reader (C05). */
#include "pq_common.h"
#ifdef REFCHECK
#include "ref_parquet_read.h"
#endif

#ifndef R
#define R 4
#endif
#ifndef B
#define B 0
#endif
#ifndef PS
#define PS 1
#endif
#ifndef RG
#define RG 0               /* rows in the first row group; 0 = single row group */
#endif
#ifndef CT
#define CT 0               /* 0 BOOLEAN 1 INT32 2 INT64 3 FLOAT 4 DOUBLE 5 BYTE_ARRAY 6 FIXED_LEN_BYTE_ARRAY(3) */
#endif
#ifndef OPT
#define OPT 1
#endif
#ifndef CODEC
#define CODEC CARQUET_COMPRESSION_UNCOMPRESSED
#endif
#define PATH "/mem/t.parquet"

static pq_schema_t S; static pq_column_t C[PQ_MAXCOLS];
static const carquet_physical_type_t TYPES[7] = {CARQUET_PHYSICAL_BOOLEAN, CARQUET_PHYSICAL_INT32, CARQUET_PHYSICAL_INT64, CARQUET_PHYSICAL_FLOAT,
    CARQUET_PHYSICAL_DOUBLE, CARQUET_PHYSICAL_BYTE_ARRAY, CARQUET_PHYSICAL_FIXED_LEN_BYTE_ARRAY};
static size_t vsize(void) { return pq_type_size(TYPES[CT], 3); }
static uint8_t filebuf[8192];

void harness(void) {
    memset(&S, 0, sizeof S); memset(C, 0, sizeof C);
    S.ncols = 2;
    S.name[0] = "v"; S.type[0] = TYPES[CT]; S.rep[0] = OPT ? CARQUET_REPETITION_OPTIONAL : CARQUET_REPETITION_REQUIRED; S.type_len[0] = CT == 6 ? 3 : 0;
    S.name[1] = "k"; S.type[1] = CARQUET_PHYSICAL_INT32; S.rep[1] = CARQUET_REPETITION_REQUIRED;
    for (int i = 0; i < R; i++) { int32_t v = i; memcpy(C[1].vals + 4 * i, &v, 4); }
    C[0].nrows = C[1].nrows = R;
    /* ---- symbolic content (CONCRETE: a fixed pattern instead, used where the real CRC-32 must be computed and compared) */
#ifdef CONCRETE
    #define symx_make_symbolic(p, n, name) do { for (size_t i_ = 0; i_ < (size_t)(n); i_++) ((uint8_t*)(p))[i_] = (uint8_t)((name)[0] == 'n' ? (i_ % 3 == 1) : (name)[0] == 'l' ? i_ % 3 : (CT == 0 ? i_ & 1 : 0x91 * (i_ + 1))); } while (0)
#endif
#if OPT && !defined(NOLEVELS)
    uint8_t nulls[R ? R : 1]; symx_make_symbolic(nulls, R, "null");
    for (int i = 0; i < R; i++) { symx_assume(nulls[i] <= 1); C[0].def[i] = nulls[i] ? 0 : 1; }
#else
    for (int i = 0; i < R; i++) C[0].def[i] = 1;
#endif
#ifdef NULLS_ONLY
    /* codec shapes: only the null pattern is symbolic (a symbolic page body sends the compressors' hash-table lookups to the
       solver, which does not finish); values follow a fixed pattern */
    #undef symx_make_symbolic
    #define symx_make_symbolic(p, n, name) do { for (size_t i_ = 0; i_ < (size_t)(n); i_++) ((uint8_t*)(p))[i_] = (uint8_t)((name)[0] == 'l' ? i_ % 3 : (CT == 0 ? i_ & 1 : 0x91 * (i_ + 1))); } while (0)
#endif
#if CT == 5
    uint8_t lens[R ? R : 1]; symx_make_symbolic(lens, R, "len");
    symx_make_symbolic(C[0].ba_bytes, 2 * R ? 2 * R : 1, "bytes");
    for (int i = 0; i < R; i++) { symx_assume(lens[i] <= 2); C[0].ba[i].data = C[0].ba_bytes + 2 * i; C[0].ba[i].length = lens[i]; }
#elif CT == 0
    symx_make_symbolic(C[0].vals, R ? R : 1, "val");
    for (int i = 0; i < R; i++) symx_assume(C[0].vals[i] <= 1);
#else
    symx_make_symbolic(C[0].vals, R * vsize() ? R * vsize() : 1, "val");
#endif
    /* ---- write */
    carquet_writer_options_t wo; carquet_writer_options_init(&wo);
    wo.compression = CODEC; wo.page_size = PS;
    int rg[2] = { RG ? RG : R, R - RG }; int nrg = RG ? 2 : 1;
    pq_wstat_t ws;
#ifdef NOLEVELS
    /* OPTIONAL column written without definition levels: all rows present */
    {
        carquet_error_t e0; memset(&e0, 0, sizeof e0);
        carquet_schema_t* sc = pq_make_schema(&S); symx_assume(sc != NULL);
        carquet_writer_t* w = carquet_writer_create(PATH, sc, &wo, &e0); symx_assume(w != NULL);
        const void* vp = CT == 5 ? (const void*)C[0].ba : (const void*)C[0].vals;
        symx_assume(carquet_writer_write_batch(w, 0, vp, R, NULL, NULL) == CARQUET_OK);
        symx_assume(carquet_writer_write_batch(w, 1, C[1].vals, R, NULL, NULL) == CARQUET_OK);
        symx_assume(carquet_writer_close(w) == CARQUET_OK);
        carquet_schema_free(sc);
    }
#else
    symx_assume(pq_write(PATH, &S, C, rg, nrg, B, &wo, &ws) == 0);     /* property premise: every writer call returned OK */
#endif
    size_t len = symx_file_get(PATH, filebuf, sizeof filebuf);
    SYMX_ASSERT(len != (size_t)-1 && len >= 12, "a file exists after close");
#ifdef TWICE
    /* determinism: the same table with the same options written again gives byte-identical files (the engine also flags any
       uninitialised byte that reaches fwrite) */
    {
        static uint8_t filebuf2[8192];
        symx_assume(pq_write("/mem/t2.parquet", &S, C, rg, nrg, B, &wo, &ws) == 0);
        size_t len2 = symx_file_get("/mem/t2.parquet", filebuf2, sizeof filebuf2);
        SYMX_ASSERT(len2 == len, "writing the same table twice gives files of the same length");
        SYMX_ASSERT(len2 != len || memcmp(filebuf, filebuf2, len) == 0, "writing the same table twice gives byte-identical files");
    }
#endif
    /* ---- read back */
    carquet_error_t err; memset(&err, 0, sizeof err);
    carquet_reader_t* r = carquet_reader_open_buffer(filebuf, len, NULL, &err);
    SYMX_ASSERT(r != NULL, "a file whose writer calls all returned OK re-opens");
    SYMX_ASSERT(carquet_reader_num_rows(r) == R, "same row count");
    SYMX_ASSERT(carquet_reader_num_columns(r) == 2, "same column count");
    int exp_groups = R == 0 ? 0 : (RG && RG < R ? 2 : 1);
    int ngroups = carquet_reader_num_row_groups(r);
    SYMX_ASSERT(ngroups == exp_groups || (R == 0 && ngroups <= 1), "same partition into (non-empty) row groups");
    const carquet_schema_t* sc2 = carquet_reader_schema(r);
    SYMX_ASSERT(carquet_schema_num_columns(sc2) == 2 && carquet_schema_find_column(sc2, "v") == 0 && carquet_schema_find_column(sc2, "k") == 1, "same column names");
    {
        const carquet_schema_node_t* nd = carquet_schema_get_element(sc2, 1);
        SYMX_ASSERT(nd && carquet_schema_node_physical_type(nd) == TYPES[CT], "same physical type");
        SYMX_ASSERT(carquet_schema_node_repetition(nd) == S.rep[0], "same repetition");
        SYMX_ASSERT(CT != 6 || carquet_schema_node_type_length(nd) == 3, "same type length");
    }
    int row0 = 0;
    for (int g = 0; g < ngroups; g++) {
        carquet_row_group_metadata_t gm;
        SYMX_ASSERT(carquet_reader_row_group_metadata(r, g, &gm) == CARQUET_OK, "row group metadata");
        int nr = (int)gm.num_rows;
        SYMX_ASSERT(nr == (exp_groups == 2 ? rg[g] : R), "same rows per row group");
        carquet_column_reader_t* cr = carquet_reader_get_column(r, g, 0, &err);
        SYMX_ASSERT(cr != NULL, "column reader");
        uint8_t vals[(R + 1) * 16]; int16_t defs[R + 1];
        memset(vals, 0xEE, sizeof vals);
        int64_t n = carquet_column_read_batch(cr, vals, R + 1, defs, NULL);
        SYMX_ASSERT(n == nr, "all rows of the row group are delivered");
        int k = 0, d = pq_present(&S, &C[0], 0, 0, row0);
        for (int i = 0; i < nr; i++) {
            if (OPT) SYMX_ASSERT(defs[i] == C[0].def[row0 + i], "same null positions");
            if (!C[0].def[row0 + i]) continue;
#if CT == 5
            const carquet_byte_array_t* got = (const carquet_byte_array_t*)vals + k;
            SYMX_ASSERT(got->length == C[0].ba[d + k].length, "same byte-array length");
            for (int j = 0; j < 2; j++) if (j < C[0].ba[d + k].length) SYMX_ASSERT(got->data[j] == C[0].ba[d + k].data[j], "same byte-array bytes, readable right after the read call");
#else
            SYMX_ASSERT(memcmp(vals + (size_t)k * vsize(), C[0].vals + (size_t)(d + k) * vsize(), vsize()) == 0, "bit-identical non-null value");
#endif
            k++;
        }
        carquet_column_reader_free(cr);
        row0 += nr;
    }
    carquet_reader_close(r);
#ifdef REFCHECK
    /* C05: an independent reader written from the format specification accepts the file and recovers the table */
    static ref_pq_file rf; static ref_pq_column_data cd; static uint8_t arena[1024];
    ref_pq_open_opts ropts; memset(&ropts, 0, sizeof ropts);
    ropts.require_tiling = 1;          /* chunks tile [4, footer_start) without gap or overlap */
    ropts.crc_hard = 1;                /* stored CRC == CRC-32 of the stored page bytes */
    ropts.usize_hard = 1;              /* chunk total_uncompressed_size per parquet.thrift (headers included) */
#ifdef EXCLUDE_F_LZ4_TAG
    ropts.lz4_tag_as_raw = 1;          /* known finding: raw LZ4 blocks written under the deprecated (Hadoop-framed) LZ4 codec tag */
#endif
    int rc = ref_pq_open_ex(filebuf, len, &ropts, &rf);
    symx_observe_int((uint64_t)(int64_t)rc, "ref_pq_open");
    SYMX_ASSERT(rc == 0, "independent reference reader accepts the file (structure, sizes, counts, CRC)");
    SYMX_ASSERT(rf.meta.num_rows == R, "reference reader: file row count");
    row0 = 0;
    for (int g = 0; g < (int)rf.meta.n_row_groups; g++) {
        cd.arena = arena; cd.arena_cap = sizeof arena;
        int rc2 = ref_pq_read_column(&rf, g, 0, &cd);
        SYMX_ASSERT(rc2 == 0, "reference reader decodes the column chunk");
        int nr = (int)cd.n_levels, k = 0, d = pq_present(&S, &C[0], 0, 0, row0);
        for (int i = 0; i < nr; i++) {
            if (OPT) SYMX_ASSERT(cd.def[i] == C[0].def[row0 + i], "reference reader: same null positions");
            if (!C[0].def[row0 + i]) continue;
#if CT == 5
            SYMX_ASSERT(cd.span[k].len == (uint32_t)C[0].ba[d + k].length, "reference reader: same byte-array length");
            for (int j = 0; j < 2; j++) if (j < C[0].ba[d + k].length) SYMX_ASSERT(arena[cd.span[k].off + j] == C[0].ba[d + k].data[j], "reference reader: same bytes");
#elif CT == 6
            SYMX_ASSERT(cd.span[k].len == 3 && memcmp(arena + cd.span[k].off, C[0].vals + 3 * (d + k), 3) == 0, "reference reader: same fixed-length value");
#else
            { uint64_t want = 0; memcpy(&want, C[0].vals + (size_t)(d + k) * vsize(), vsize()); SYMX_ASSERT(cd.val[k] == want, "reference reader: same value bits"); }
#endif
            k++;
        }
        row0 += nr;
    }
#endif
}
