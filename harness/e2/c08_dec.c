/* C08 — component decoders on arbitrary bytes (engine E2/symx).
 * -DMODE selects the decoder, -DL the (concrete) input length; all L input bytes are symbolic, declared counts /
 * bit widths / capacities are symbolic within small ranges.  Input and output are exact-size heap objects: any read
 * outside the input or write outside the declared output is a bounds violation found by the engine.
 * The harness is also compiled natively (symx_native.c) to replay counterexamples. */
#include "symx.h"
#include <stdint.h>
#include <stdlib.h>
#include <string.h>
#include <stdbool.h>
#include <carquet/carquet.h>
#include "encoding/rle.h"
#include "encoding/plain.h"
#include "core/bitpack.h"
#include "core/arena.h"
#include "thrift/parquet_types.h"
#if MODE == 16
#include "ref_codecs.h"
#endif

carquet_status_t carquet_delta_decode_int32(const uint8_t*, size_t, int32_t*, int32_t, size_t*);
carquet_status_t carquet_delta_decode_int64(const uint8_t*, size_t, int64_t*, int32_t, size_t*);
carquet_status_t carquet_delta_length_decode(const uint8_t*, size_t, carquet_byte_array_t*, int32_t, size_t*);
carquet_status_t carquet_delta_strings_decode(const uint8_t*, size_t, carquet_byte_array_t*, int32_t, uint8_t*, size_t, size_t*);
carquet_status_t carquet_dictionary_decode_int32(const uint8_t*, size_t, int32_t, const uint8_t*, size_t, int32_t*, int64_t);
carquet_status_t carquet_dictionary_decode_int64(const uint8_t*, size_t, int32_t, const uint8_t*, size_t, int64_t*, int64_t);
carquet_status_t carquet_dictionary_decode_float(const uint8_t*, size_t, int32_t, const uint8_t*, size_t, float*, int64_t);
carquet_status_t carquet_dictionary_decode_double(const uint8_t*, size_t, int32_t, const uint8_t*, size_t, double*, int64_t);
carquet_status_t carquet_byte_stream_split_decode_float(const uint8_t*, size_t, float*, int64_t);
carquet_status_t carquet_byte_stream_split_decode_double(const uint8_t*, size_t, double*, int64_t);
carquet_status_t carquet_byte_stream_split_decode(const uint8_t*, size_t, int32_t, uint8_t*, int64_t);
carquet_status_t carquet_snappy_decompress(const uint8_t*, size_t, uint8_t*, size_t, size_t*);
carquet_status_t carquet_lz4_decompress(const uint8_t*, size_t, uint8_t*, size_t, size_t*);
int carquet_gzip_decompress(const uint8_t*, size_t, uint8_t*, size_t, size_t*);
int carquet_zstd_decompress(const uint8_t*, size_t, uint8_t*, size_t, size_t*);

#if MODE == 10
/* BYTE_STREAM_SPLIT goes through the runtime dispatcher: detection sees a CPU without SIMD extensions here, so the
 * scalar kernels run (the SIMD variants and the dispatcher's choice are the subject of C15) */
unsigned verif_cpuid_reg(unsigned leaf, unsigned subleaf, int reg) { (void)leaf; (void)subleaf; (void)reg; return 0; }
unsigned long long verif_xgetbv(unsigned x) { (void)x; return 0; }
#endif
#ifndef L
#define L 4
#endif
#ifndef CAP
#define CAP 12     /* output capacity in elements */
#endif
#ifndef BWSET
#define BWSET 0
#endif

static uint8_t* sym_input(size_t n, const char* name) {
    uint8_t* p = malloc(n ? n : 1);      /* exact-size (n==0: 1-byte object, length 0 declared) */
    symx_assume(p != 0);
    if (n) symx_make_symbolic(p, n, name);
    return p;
}
/* a symbolic integer in [lo, hi] */
static int sym_int(int lo, int hi, const char* name) {
    uint8_t b; symx_make_symbolic(&b, 1, name);
    int v = lo + (int)b;
    symx_assume(v <= hi);
    return v;
}
/* bit widths: every value of the byte the format allows (0..255) is too many paths for some decoders; the
 * driver picks a window [BWLO, BWHI] per obligation */
#ifndef BWLO
#define BWLO 0
#endif
#ifndef BWHI
#define BWHI 3
#endif

void harness(void) {
    uint8_t* in = sym_input(L, "in");
#if MODE == 1        /* one-shot hybrid decoder, values */
    int bw = sym_int(BWLO, BWHI, "bw");
    int cap = sym_int(0, CAP, "cap");
    uint32_t* out = malloc(cap ? cap * 4 : 1); symx_assume(out != 0);
    int64_t got = carquet_rle_decode_all(in, L, bw, out, cap);
    SYMX_ASSERT(got >= -1 && got <= cap, "decoded count within the declared capacity");
    free(out);
#elif MODE == 2      /* one-shot hybrid decoder, int16 levels (SSE2 fast path in the real build) */
    int bw = sym_int(BWLO, BWHI, "bw");
    int cap = sym_int(0, CAP, "cap");
    int16_t* out = malloc(cap ? cap * 2 : 1); symx_assume(out != 0);
    int64_t got = carquet_rle_decode_levels(in, L, bw, out, cap);
    SYMX_ASSERT(got >= -1 && got <= cap, "decoded count within the declared capacity");
    free(out);
#elif MODE == 3      /* length-prefixed levels */
    int bw = sym_int(BWLO, BWHI, "bw");
    int cap = sym_int(0, CAP, "cap");
    int16_t* out = malloc(cap ? cap * 2 : 1); symx_assume(out != 0);
    size_t consumed = 0;
    int64_t got = carquet_rle_decode_levels_prefixed(in, L, bw, out, cap, &consumed);
    SYMX_ASSERT(got >= -1 && got <= cap, "decoded count within the declared capacity");
    SYMX_ASSERT(got < 0 || consumed <= L, "bytes consumed within the input");
    free(out);
#elif MODE == 4      /* streaming decoder: get_batch / skip / get sequence */
    int bw = sym_int(BWLO, BWHI, "bw");
    carquet_rle_decoder_t dec;
    carquet_rle_decoder_init(&dec, in, L, bw);
    uint32_t* out = malloc(CAP * 4); symx_assume(out != 0);
    for (int step = 0; step < 3; step++) {
        int op = symx_choice(3, "op");
        int k = sym_int(0, CAP, "k");
        if (op == 0) { int64_t g = carquet_rle_decoder_get_batch(&dec, out, k); SYMX_ASSERT(g >= 0 && g <= k, "batch within request"); }
        else if (op == 1) { int64_t g = carquet_rle_decoder_skip(&dec, k); SYMX_ASSERT(g >= 0 && g <= k, "skip within request"); }
        else { if (carquet_rle_decoder_has_next(&dec)) (void)carquet_rle_decoder_get(&dec); }
    }
    free(out);
#elif MODE == 5      /* PLAIN decoders */
    int cap = sym_int(0, CAP, "cap");
  #if PTYPE == 0
    uint8_t* out = malloc(cap ? cap : 1); symx_assume(out != 0);
    int64_t r = carquet_decode_plain_boolean(in, L, out, cap);
  #elif PTYPE == 1
    int32_t* out = malloc(cap ? cap * 4 : 1); symx_assume(out != 0);
    int64_t r = carquet_decode_plain_int32(in, L, out, cap);
  #elif PTYPE == 2
    int64_t* out = malloc(cap ? cap * 8 : 1); symx_assume(out != 0);
    int64_t r = carquet_decode_plain_int64(in, L, out, cap);
  #elif PTYPE == 3
    carquet_int96_t* out = malloc(cap ? cap * sizeof(carquet_int96_t) : 1); symx_assume(out != 0);
    int64_t r = carquet_decode_plain_int96(in, L, out, cap);
  #elif PTYPE == 4
    float* out = malloc(cap ? cap * 4 : 1); symx_assume(out != 0);
    int64_t r = carquet_decode_plain_float(in, L, out, cap);
  #elif PTYPE == 5
    double* out = malloc(cap ? cap * 8 : 1); symx_assume(out != 0);
    int64_t r = carquet_decode_plain_double(in, L, out, cap);
  #elif PTYPE == 6
    carquet_byte_array_t* out = malloc(cap ? cap * sizeof(carquet_byte_array_t) : 1); symx_assume(out != 0);
    int64_t r = carquet_decode_plain_byte_array(in, L, out, cap);
    if (r >= 0) for (int i = 0; i < cap; i++) {
        /* returned slices must lie inside the input */
        SYMX_ASSERT(out[i].length >= 0 && (out[i].length == 0 || (out[i].data >= in && out[i].data + out[i].length <= in + L)), "byte-array slice inside the input");
    }
  #else
    int flen = sym_int(0, 3, "flen");
    uint8_t* out = malloc(cap * flen ? cap * flen : 1); symx_assume(out != 0);
    int64_t r = carquet_decode_plain_fixed_byte_array(in, L, out, cap, flen);
  #endif
    SYMX_ASSERT(r >= -1 && r <= (int64_t)L, "bytes consumed within the input (or error)");
    free(out);
#elif MODE == 6      /* DELTA_BINARY_PACKED int32 / int64 */
    int n = sym_int(0, CAP, "n");
    size_t consumed = 0;
  #if WIDE
    int64_t* out = malloc(n ? n * 8 : 1); symx_assume(out != 0);
    carquet_status_t s = carquet_delta_decode_int64(in, L, out, n, &consumed);
  #else
    int32_t* out = malloc(n ? n * 4 : 1); symx_assume(out != 0);
    carquet_status_t s = carquet_delta_decode_int32(in, L, out, n, &consumed);
  #endif
    SYMX_ASSERT(s != CARQUET_OK || consumed <= L, "bytes consumed within the input");
    free(out);
#elif MODE == 7      /* DELTA_LENGTH_BYTE_ARRAY */
    int n = sym_int(0, CAP, "n");
    carquet_byte_array_t* out = malloc(n ? n * sizeof(carquet_byte_array_t) : 1); symx_assume(out != 0);
    size_t consumed = 0;
    carquet_status_t s = carquet_delta_length_decode(in, L, out, n, &consumed);
    if (s == CARQUET_OK) {
        SYMX_ASSERT(consumed <= L, "bytes consumed within the input");
        for (int i = 0; i < n; i++)
            SYMX_ASSERT(out[i].length >= 0 && (out[i].length == 0 || (out[i].data >= in && out[i].data + out[i].length <= in + L)), "slice inside the input");
    }
    free(out);
#elif MODE == 8      /* DELTA_BYTE_ARRAY with caller work buffer */
    int n = sym_int(0, CAP, "n");
    int wcap = sym_int(0, 8, "wcap");
    carquet_byte_array_t* out = malloc(n ? n * sizeof(carquet_byte_array_t) : 1); symx_assume(out != 0);
    uint8_t* work = malloc(wcap ? wcap : 1); symx_assume(work != 0);
    size_t consumed = 0;
    carquet_status_t s = carquet_delta_strings_decode(in, L, out, n, work, wcap, &consumed);
    if (s == CARQUET_OK) {
        SYMX_ASSERT(consumed <= L, "bytes consumed within the input");
        for (int i = 0; i < n; i++)
            SYMX_ASSERT(out[i].length >= 0 && (out[i].length == 0 || (out[i].data >= work && out[i].data + out[i].length <= work + wcap)), "value inside the work buffer");
    }
    free(work); free(out);
#elif MODE == 9      /* dictionary index decoding: dictionary of DN entries (symbolic contents), indices = the L symbolic bytes */
    #ifndef DN
    #define DN 2
    #endif
    int n = sym_int(0, CAP, "n");
    int dcount = sym_int(0, DN, "dcount");
  #if DTYPE == 0
    uint8_t* dict = sym_input(DN * 4, "dict"); int32_t* out = malloc(n ? n * 4 : 1); symx_assume(out != 0);
    (void)carquet_dictionary_decode_int32(dict, (size_t)dcount * 4, dcount, in, L, out, n);
  #elif DTYPE == 1
    uint8_t* dict = sym_input(DN * 8, "dict"); int64_t* out = malloc(n ? n * 8 : 1); symx_assume(out != 0);
    (void)carquet_dictionary_decode_int64(dict, (size_t)dcount * 8, dcount, in, L, out, n);
  #elif DTYPE == 2
    uint8_t* dict = sym_input(DN * 4, "dict"); float* out = malloc(n ? n * 4 : 1); symx_assume(out != 0);
    (void)carquet_dictionary_decode_float(dict, (size_t)dcount * 4, dcount, in, L, out, n);
  #else
    uint8_t* dict = sym_input(DN * 8, "dict"); double* out = malloc(n ? n * 8 : 1); symx_assume(out != 0);
    (void)carquet_dictionary_decode_double(dict, (size_t)dcount * 8, dcount, in, L, out, n);
  #endif
    free(dict); free(out);
#elif MODE == 10     /* BYTE_STREAM_SPLIT decoders */
    int n = sym_int(0, CAP, "n");
  #if BSS == 0
    float* out = malloc(n ? n * 4 : 1); symx_assume(out != 0);
    (void)carquet_byte_stream_split_decode_float(in, L, out, n);
  #elif BSS == 1
    double* out = malloc(n ? n * 8 : 1); symx_assume(out != 0);
    (void)carquet_byte_stream_split_decode_double(in, L, out, n);
  #else
    int w = sym_int(0, 5, "w");
    uint8_t* out = malloc(n * w ? n * w : 1); symx_assume(out != 0);
    (void)carquet_byte_stream_split_decode(in, L, w, out, n);
  #endif
    free(out);
#elif MODE == 11     /* Thrift page header */
    parquet_page_header_t hdr; size_t used = 0;
    carquet_error_t err; memset(&err, 0, sizeof err);
    carquet_status_t s = parquet_parse_page_header(in, L, &hdr, &used, &err);
    SYMX_ASSERT(s != CARQUET_OK || used <= L, "bytes consumed within the input");
#elif MODE == 12     /* Thrift file metadata (arena-allocated) */
    carquet_arena_t arena;
    symx_assume(carquet_arena_init(&arena) == CARQUET_OK);
    parquet_file_metadata_t md; memset(&md, 0, sizeof md);
    carquet_error_t err; memset(&err, 0, sizeof err);
    (void)parquet_parse_file_metadata(in, L, &arena, &md, &err);
    parquet_file_metadata_free(&md);
    carquet_arena_destroy(&arena);
#elif MODE == 13     /* raw bit unpacking: caller passes count and width; input must hold ceil(count*bw/8) bytes */
    int bw = sym_int(1, 32, "bw");
    int n = sym_int(0, CAP, "n");
    symx_assume(((size_t)n * (size_t)bw + 7) / 8 <= L);     /* documented precondition: enough packed input */
    uint32_t* out = malloc(n ? n * 4 : 1); symx_assume(out != 0);
    size_t used = carquet_bitunpack_32(in, n, bw, out);
    SYMX_ASSERT(used <= L, "bytes consumed within the input");
    free(out);
#elif MODE == 14     /* Snappy / LZ4 block decompression */
    int cap = sym_int(0, CAP, "cap");
    uint8_t* out = malloc(cap ? cap : 1); symx_assume(out != 0);
    size_t got = 0;
  #if CODEC == 0
    carquet_status_t s = carquet_snappy_decompress(in, L, out, cap, &got);
  #else
    carquet_status_t s = carquet_lz4_decompress(in, L, out, cap, &got);
  #endif
    SYMX_ASSERT(s != CARQUET_OK || got <= (size_t)cap, "reported size within the capacity");
    free(out);
#elif MODE == 15     /* GZIP / ZSTD wrappers against contract stubs of the libraries */
    int cap = sym_int(0, CAP, "cap");
    uint8_t* out = malloc(cap ? cap : 1); symx_assume(out != 0);
    size_t got = 0;
  #if CODEC == 0
    int s = carquet_zstd_decompress(in, L, out, cap, &got);
  #else
    int s = carquet_gzip_decompress(in, L, out, cap, &got);
  #endif
    SYMX_ASSERT(s != 0 || got <= (size_t)cap, "reported size within the capacity");
    free(out);
#elif MODE == 16     /* structured streams: a SCRIPT (literal run, match with symbolic offset/length, optional tail literals) is
                        encoded by the independent reference encoder; the decompressor gets an output buffer of EXACTLY the
                        expected size, so any write past the declared output (e.g. whole-word copies running over the end of a
                        match) is a bounds violation; the result must equal the expected bytes */
    uint8_t lit[16]; symx_make_symbolic(lit, 16, "lit");
    uint8_t ll = in[0] % 11, ml = in[1] % 13, fl = in[2] % 14;     /* lengths from symbolic bytes (L >= 4) */
    uint8_t ofs = in[3];
    symx_assume(ll >= 1 && ofs >= 1 && ofs <= ll);
    uint8_t stream[96], expect[96]; size_t slen = 0, elen = 0;
  #if CODEC == 0
    ref_snappy_elem_t sc[3]; memset(sc, 0, sizeof sc);
    sc[0].kind = REF_SNAPPY_LITERAL; sc[0].len = ll;
    sc[1].kind = symx_choice(2, "copy kind") ? REF_SNAPPY_COPY2 : REF_SNAPPY_COPY1; sc[1].len = 4 + ml % 8; sc[1].offset = ofs;
    sc[2].kind = REF_SNAPPY_LITERAL; sc[2].len = fl;
    int rc = ref_snappy_encode_script(sc, fl ? 3 : 2, lit, 16, stream, sizeof stream, &slen, expect, sizeof expect, &elen);
  #else
    ref_lz4_seq_t sq[2]; memset(sq, 0, sizeof sq);
    sq[0].lit_len = ll; sq[0].match_len = 4 + ml; sq[0].offset = ofs;
    sq[1].lit_len = fl; sq[1].match_len = 0;
    int rc = ref_lz4_encode_script(sq, 2, lit, 16, stream, sizeof stream, &slen, expect, sizeof expect, &elen);
  #endif
    symx_assume(rc == 0);
    uint8_t* cin = malloc(slen ? slen : 1); symx_assume(cin != 0); memcpy(cin, stream, slen);
    uint8_t* out = malloc(elen ? elen : 1); symx_assume(out != 0);
    size_t got = 0;
  #if CODEC == 0
    carquet_status_t s = carquet_snappy_decompress(cin, slen, out, elen, &got);
  #else
    carquet_status_t s = carquet_lz4_decompress(cin, slen, out, elen, &got);
  #endif
    SYMX_ASSERT(s == CARQUET_OK, "a valid stream from an independent encoder is accepted with an output buffer of exactly the decoded size");
    SYMX_ASSERT(got == elen, "reported size equals the decoded size");
    for (size_t i = 0; i < elen; i++) SYMX_ASSERT(out[i] == expect[i], "decoded bytes equal the encoded data");
    free(cin); free(out);
#endif
    free(in);
}
