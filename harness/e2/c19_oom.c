/* C19 — allocation failure gives a clean error or the correct result, nothing else (engine E2).
 * The engine's allocation fault fork makes, at every malloc/calloc/realloc/strdup executed while faults are enabled,
 * one extra path on which exactly that allocation returns NULL (one failure per path).
 * SCEN 1: schema build   SCEN 2: write a small 2-column nullable table   SCEN 3: open + column reads
 * SCEN 4: batch reader (I/O mode by OPENMODE: 0 buffer, 1 stdio, 2 mmap) */
#include "pq_common.h"

#ifndef CODEC
#define CODEC CARQUET_COMPRESSION_UNCOMPRESSED
#endif
#define ROWS 4
#define PATH "/mem/t.parquet"
#define REFPATH "/mem/ref.parquet"

static void table(pq_schema_t* s, pq_column_t* cols) {
    memset(s, 0, sizeof *s); memset(cols, 0, sizeof(pq_column_t) * PQ_MAXCOLS);
    s->ncols = 2;
    s->name[0] = "a"; s->type[0] = CARQUET_PHYSICAL_INT32; s->rep[0] = CARQUET_REPETITION_OPTIONAL;
    s->name[1] = "s"; s->type[1] = CARQUET_PHYSICAL_BYTE_ARRAY; s->rep[1] = CARQUET_REPETITION_REQUIRED;
    int nv = 0;
    for (int i = 0; i < ROWS; i++) { cols[0].def[i] = (i != 1); if (cols[0].def[i]) { int32_t v = 7 * i - 3; memcpy(cols[0].vals + 4 * nv, &v, 4); nv++; } }
    for (int i = 0; i < ROWS; i++) {
        cols[1].ba_bytes[2 * i] = 'k' + i; cols[1].ba_bytes[2 * i + 1] = '!';
        cols[1].ba[i].data = cols[1].ba_bytes + 2 * i; cols[1].ba[i].length = (i + 1) % 3;
    }
    cols[0].nrows = cols[1].nrows = ROWS;
}

static uint8_t fa[4096], fb[4096];

/* read both columns completely; returns 0 and fills outputs, or -1 on any error */
static int read_all(carquet_reader_t* r, int32_t* a, int16_t* adef, int* an, int* slen, uint8_t* sbytes, int* sn) {
    carquet_error_t err; memset(&err, 0, sizeof err);
    *an = 0; *sn = 0;
    carquet_column_reader_t* c0 = carquet_reader_get_column(r, 0, 0, &err);
    if (!c0) return -1;
    int64_t n = carquet_column_read_batch(c0, a, ROWS, adef, NULL);
    carquet_column_reader_free(c0);
    if (n < 0) return -1;
    *an = (int)n;
    carquet_column_reader_t* c1 = carquet_reader_get_column(r, 0, 1, &err);
    if (!c1) return -1;
    carquet_byte_array_t ba[ROWS];
    n = carquet_column_read_batch(c1, ba, ROWS, NULL, NULL);
    if (n < 0) { carquet_column_reader_free(c1); return -1; }
    for (int i = 0; i < n; i++) { slen[i] = ba[i].length; for (int j = 0; j < ba[i].length && j < 4; j++) sbytes[4 * i + j] = ba[i].data[j]; }
    *sn = (int)n;
    carquet_column_reader_free(c1);
    return 0;
}

void harness(void) {
    pq_schema_t s; static pq_column_t cols[PQ_MAXCOLS];
    table(&s, cols);
    carquet_writer_options_t wo; carquet_writer_options_init(&wo);
    wo.compression = CODEC;
    int rg[1] = { ROWS };
    pq_wstat_t ws;
#if SCEN == 1
    symx_fault_alloc(1);
    carquet_error_t err; memset(&err, 0, sizeof err);
    carquet_schema_t* sc = carquet_schema_create(&err);
    if (sc) {
        int ok = 1;
        for (int c = 0; c < 3 && ok; c++) {
            carquet_status_t st = carquet_schema_add_column(sc, c == 0 ? "x" : c == 1 ? "yy" : "zzz", CARQUET_PHYSICAL_INT64, NULL, CARQUET_REPETITION_OPTIONAL, 0);
            if (st != CARQUET_OK) ok = 0;
        }
        if (ok) {
            SYMX_ASSERT(carquet_schema_num_columns(sc) == 3, "a schema whose add_column calls all returned OK has all its columns");
            SYMX_ASSERT(carquet_schema_find_column(sc, "yy") == 1, "lookup by name works after successful build");
        }
        carquet_schema_free(sc);
    } else {
        SYMX_ASSERT(symx_alloc_failed() != 0, "schema_create fails only when an allocation failed");
    }
    symx_fault_alloc(0);
    symx_check_leaks();
#elif SCEN == 2
    /* fault-free reference run first (writer output is deterministic), then the run with one failing allocation */
    int rc0 = pq_write(REFPATH, &s, cols, rg, 1, 0, &wo, &ws);
    symx_assume(rc0 == 0);
    size_t la = symx_file_get(REFPATH, fa, sizeof fa);
    symx_fault_alloc(1);
    int rc = pq_write(PATH, &s, cols, rg, 1, 0, &wo, &ws);
    symx_fault_alloc(0);
    if (rc == 0) {
        /* every call reported success: the effect must be exactly that of the fault-free run */
        size_t lb = symx_file_get(PATH, fb, sizeof fb);
        SYMX_ASSERT(lb == la, "write reported OK under an allocation failure but the file differs in length from the fault-free file");
        SYMX_ASSERT(lb != la || memcmp(fa, fb, la) == 0, "write reported OK under an allocation failure but the file content differs from the fault-free file");
    } else {
        SYMX_ASSERT(symx_alloc_failed() != 0, "a fault-free write succeeds");
    }
    symx_check_leaks();
#else
    int rc0 = pq_write(PATH, &s, cols, rg, 1, 0, &wo, &ws);
    symx_assume(rc0 == 0);
    size_t la = symx_file_get(PATH, fa, sizeof fa);
    symx_assume(la != (size_t)-1);
    carquet_reader_options_t ro; carquet_reader_options_init(&ro);
    ro.use_mmap = (OPENMODE == 2);
    carquet_error_t err; memset(&err, 0, sizeof err);
    /* fault-free expected content */
    int32_t ea[ROWS]; int16_t edef[ROWS]; int ean, esn; int eslen[ROWS]; uint8_t esb[4 * ROWS];
    memset(ea, 0, sizeof ea); memset(edef, 0, sizeof edef); memset(eslen, 0, sizeof eslen); memset(esb, 0, sizeof esb);
    carquet_reader_t* r0 = carquet_reader_open_buffer(fa, la, &ro, &err);
    symx_assume(r0 != NULL);
    symx_assume(read_all(r0, ea, edef, &ean, eslen, esb, &esn) == 0);
    carquet_reader_close(r0);
    symx_fault_alloc(1);
    memset(&err, 0, sizeof err);
  #if OPENMODE == 0
    carquet_reader_t* r = carquet_reader_open_buffer(fa, la, &ro, &err);
  #else
    carquet_reader_t* r = carquet_reader_open(PATH, &ro, &err);
  #endif
    if (r) {
    #if SCEN == 3
        int32_t a[ROWS]; int16_t adef[ROWS]; int an, sn; int slen[ROWS]; uint8_t sb[4 * ROWS];
        memset(a, 0, sizeof a); memset(adef, 0, sizeof adef); memset(slen, 0, sizeof slen); memset(sb, 0, sizeof sb);
        if (read_all(r, a, adef, &an, slen, sb, &sn) == 0) {
            SYMX_ASSERT(an == ean && sn == esn, "reads that report success under an allocation failure return the fault-free row counts");
            SYMX_ASSERT(memcmp(adef, edef, sizeof adef) == 0, "same definition levels as the fault-free run");
            int nn = 0; for (int i = 0; i < ROWS; i++) if (edef[i]) nn++;
            SYMX_ASSERT(memcmp(a, ea, 4 * nn) == 0, "same values as the fault-free run");
            SYMX_ASSERT(memcmp(slen, eslen, sizeof slen) == 0 && memcmp(sb, esb, sizeof sb) == 0, "same byte-array values as the fault-free run");
        }
    #else
        carquet_batch_reader_config_t bc; carquet_batch_reader_config_init(&bc);
        bc.batch_size = 3;
        carquet_batch_reader_t* br = carquet_batch_reader_create(r, &bc, &err);
        if (br) {
            int total = 0;
            for (int it = 0; it < 4; it++) {
                carquet_row_batch_t* b = NULL;
                carquet_status_t st = carquet_batch_reader_next(br, &b);
                if (st != CARQUET_OK || !b) break;
                const void* data; const uint8_t* nulls; int64_t nv;
                if (carquet_row_batch_column(b, 0, &data, &nulls, &nv) == CARQUET_OK) {
                    SYMX_ASSERT(nv >= 0 && nv <= 3, "batch size respected");
                    int64_t rows = carquet_row_batch_num_rows(b);
                    SYMX_ASSERT(rows >= 0 && rows <= 3, "row count of a batch within batch_size");
                    total += (int)rows;
                }
                carquet_row_batch_free(b);
            }
            SYMX_ASSERT(total <= ROWS, "never more rows than the file holds");
            carquet_batch_reader_free(br);
        }
    #endif
        carquet_reader_close(r);
    } else {
        SYMX_ASSERT(symx_alloc_failed() != 0, "open fails only when an allocation failed");
    }
    symx_fault_alloc(0);
    symx_check_leaks();
#endif
}
