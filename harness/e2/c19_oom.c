/* C19 — allocation failure gives a clean error or the correct result, nothing else (engine E2).
 * The engine's allocation fault fork makes, at every malloc/calloc/realloc/strdup executed while faults are enabled, one extra path
 * on which exactly that allocation returns NULL: symx_fault_alloc(1) = one failure per path, symx_fault_alloc(2) = up to two
 * (error paths of error paths).  Every scenario first runs FAULT-FREE and records what the API delivered; under faults every call
 * either reports an error or delivers exactly what the fault-free run delivered; afterwards all handles are released and nothing
 * may be left allocated.
 * VQ_SCEN 1 schema builder (many columns: capacity growth, groups, logical types)
 *         2 write of a table of c18_tables.h (careless caller: continues after a failure and closes; VQ_POLICY 1: careful caller
 *           aborts at the first failure)          3 open + metadata / statistics / filter API + column readers (chunks, skip)
 *         4 batch reader (batch size, projection by index / by name)
 *         5 wide table (VQ_WCOLS columns x VQ_WRGS row groups: metadata outgrows the first arena block), faults only in a window
 *           of the write history (VQ_WINDOW 1: carquet_writer_close, 2: last new_row_group + close)
 *         6 wide table read: faults during open + metadata access + one column of the last row group */
#include "c18_tables.h"

#ifndef CODEC
#define CODEC CARQUET_COMPRESSION_UNCOMPRESSED
#endif
#ifndef VQ_SPECS
#define VQ_SPECS "is"
#endif
#ifndef VQ_ROWS
#define VQ_ROWS 4
#endif
#ifndef VQ_NRG
#define VQ_NRG 1
#endif
#ifndef VQ_BATCH
#define VQ_BATCH 0
#endif
#ifndef VQ_FLAVOUR
#define VQ_FLAVOUR 0
#endif
#ifndef VQ_FILEAPI
#define VQ_FILEAPI 0
#endif
#ifndef VQ_OPEN
#define VQ_OPEN 0
#endif
#ifndef VQ_FAULTS
#define VQ_FAULTS 1
#endif
#ifndef VQ_POLICY
#define VQ_POLICY 0
#endif
#ifndef VQ_CHUNK
#define VQ_CHUNK PQ_MAXROWS          /* rows asked for per carquet_column_read_batch call */
#endif
#ifndef VQ_SKIP
#define VQ_SKIP 0                    /* rows skipped with carquet_column_skip before reading */
#endif
#ifndef VQ_BS
#define VQ_BS 3
#endif
#ifndef VQ_PROJ
#define VQ_PROJ 0
#endif
#define PATH "/mem/t.parquet"
#define REFPATH "/mem/ref.parquet"
#define FILECAP 65536
static uint8_t fa[FILECAP], fb[FILECAP];
static pq_schema_t S; static pq_column_t C[PQ_MAXCOLS];

static carquet_reader_t* open_file(size_t la, carquet_error_t* err) {
    carquet_reader_options_t ro; carquet_reader_options_init(&ro);
    ro.use_mmap = (VQ_OPEN == 2);
    memset(err, 0, sizeof *err);
#if VQ_OPEN == 0
    return carquet_reader_open_buffer(fa, la, &ro, err);
#else
    (void)la;
    return carquet_reader_open(PATH, &ro, err);
#endif
}

/* ------------------------------------------------------------------ what one column reader delivered */
typedef struct {
    int opened;                      /* carquet_reader_get_column returned a reader */
    int failed;                      /* some call reported an error (NULL reader, negative count, short skip) */
    int skipped;                     /* rows skipped */
    int nrows;                       /* rows delivered by calls that reported success */
    int nvals;                       /* non-null values among them */
    int16_t def[PQ_MAXROWS];
    uint8_t vals[PQ_MAXROWS * 8];    /* fixed-width values, dense */
    int32_t balen[PQ_MAXROWS]; uint8_t babytes[PQ_MAXROWS * 8]; int nbabytes;
} colread_t;

static void read_column(carquet_reader_t* r, int g, int c, int chunk, int skip, colread_t* out) {
    memset(out, 0, sizeof *out);
    carquet_error_t err; memset(&err, 0, sizeof err);
    carquet_column_reader_t* col = carquet_reader_get_column(r, g, c, &err);
    if (!col) { out->failed = 1; return; }
    out->opened = 1;
    int opt = S.rep[c] != CARQUET_REPETITION_REQUIRED;
    size_t esz = pq_type_size(S.type[c], S.type_len[c]);
    int64_t remaining = carquet_column_remaining(col);
    if (skip > 0) {
        int64_t want = skip < remaining ? skip : remaining;
        int64_t sk = carquet_column_skip(col, skip);
        out->skipped = (int)sk;
        if (sk != want) { out->failed = 1; carquet_column_reader_free(col); return; }     /* a short count is how skip reports a failure */
        remaining -= sk;
    }
    static _Alignas(16) uint8_t buf[PQ_MAXROWS * 16]; static int16_t dl[PQ_MAXROWS];
    while (out->nrows < PQ_MAXROWS) {
        int ask = chunk; if (out->nrows + ask > PQ_MAXROWS) ask = PQ_MAXROWS - out->nrows;
        int64_t n = carquet_column_read_batch(col, buf, ask, opt ? dl : NULL, NULL);
        if (n < 0) { out->failed = 1; break; }
        if (n == 0) break;                                                                    /* "0 at end of column" */
        if (n > ask) { out->failed = 2; break; }
        int nn = 0;
        for (int i = 0; i < n; i++) { int16_t d = opt ? dl[i] : 1; out->def[out->nrows + i] = d; if (d) nn++; }
        if (S.type[c] == CARQUET_PHYSICAL_BYTE_ARRAY) {
            const carquet_byte_array_t* ba = (const carquet_byte_array_t*)buf;
            for (int i = 0; i < nn; i++) {
                int len = ba[i].length;
                out->balen[out->nvals + i] = len;
                for (int j = 0; j < len && out->nbabytes < (int)sizeof out->babytes; j++) out->babytes[out->nbabytes++] = ba[i].data[j];
            }
        } else {
            memcpy(out->vals + (size_t)out->nvals * esz, buf, (size_t)nn * esz);
        }
        out->nrows += (int)n; out->nvals += nn;
    }
    carquet_column_reader_free(col);
}

/* got (under faults) against ref (fault-free): every row delivered by a successful call is the fault-free row at that position;
 * a reader that ended with "0 = end of column" or filled the request without reporting an error delivered ALL fault-free rows */
static void compare_column(const colread_t* got, const colread_t* ref, int c) {
    size_t esz = pq_type_size(S.type[c], S.type_len[c]);
    SYMX_ASSERT(got->failed != 2, "carquet_column_read_batch returned more values than asked for");
    if (!got->failed) SYMX_ASSERT(got->opened == ref->opened && got->skipped == ref->skipped && got->nrows == ref->nrows,
                                  "a column read that reports no error delivers exactly the rows of the fault-free run");
    else SYMX_ASSERT(symx_alloc_failed() != 0, "column readers fail only when an allocation failed");
    SYMX_ASSERT(got->nrows <= ref->nrows && got->nvals <= ref->nvals, "no more rows than the fault-free run delivered");
    SYMX_ASSERT(memcmp(got->def, ref->def, sizeof(int16_t) * (size_t)got->nrows) == 0, "rows delivered under an allocation failure have the fault-free definition levels");
    if (S.type[c] == CARQUET_PHYSICAL_BYTE_ARRAY) {
        SYMX_ASSERT(memcmp(got->balen, ref->balen, sizeof(int32_t) * (size_t)got->nvals) == 0, "byte-array values delivered under an allocation failure have the fault-free lengths");
        SYMX_ASSERT(got->nbabytes <= ref->nbabytes && memcmp(got->babytes, ref->babytes, (size_t)got->nbabytes) == 0, "byte-array values delivered under an allocation failure have the fault-free bytes");
    } else {
        SYMX_ASSERT(memcmp(got->vals, ref->vals, esz * (size_t)got->nvals) == 0, "values delivered under an allocation failure are the fault-free values");
    }
}

/* ------------------------------------------------------------------ metadata facts: one slot per API result, in call order */
#define MAXFACTS 700
typedef struct { int n; int64_t v[MAXFACTS]; uint8_t ok[MAXFACTS]; } facts_t;
static void fact(facts_t* f, int ok, int64_t v) { if (f->n < MAXFACTS) { f->ok[f->n] = (uint8_t)ok; f->v[f->n] = ok ? v : 0; f->n++; } }
static void fact_bytes(facts_t* f, int ok, const void* p, int len, int maxfacts) {
    for (int k = 0; k < maxfacts; k++) {
        int64_t w = 0;
        if (ok && p) for (int j = 0; j < 8; j++) { int i = 8 * k + j; if (i < len) w |= (int64_t)((const uint8_t*)p)[i] << (8 * j); }
        fact(f, ok && p != NULL, w);
    }
}
static int cstr_len(const char* s, int cap) { int n = 0; while (n < cap && s[n]) n++; return n; }

static void metadata_facts(carquet_reader_t* r, facts_t* f) {
    f->n = 0;
    int nrg = carquet_reader_num_row_groups(r), ncols = carquet_reader_num_columns(r);
    fact(f, 1, carquet_reader_num_rows(r)); fact(f, 1, nrg); fact(f, 1, ncols);
    (void)carquet_reader_is_mmap(r);         /* I/O strategy, not content: mmap may legitimately fall back to stdio when mapping fails */
    const carquet_schema_t* sc = carquet_reader_schema(r);
    fact(f, 1, sc != NULL);
    if (!sc) return;
    int ne = carquet_schema_num_elements(sc);
    fact(f, 1, ne); fact(f, 1, carquet_schema_num_columns(sc));
    for (int e = 0; e < ne && e < 1 + PQ_MAXCOLS; e++) {
        const carquet_schema_node_t* nd = carquet_schema_get_element(sc, e);
        fact(f, 1, nd != NULL);
        if (!nd) continue;
        const char* nm = carquet_schema_node_name(nd);
        fact_bytes(f, 1, nm, nm ? cstr_len(nm, 16) : 0, 2);
        int leaf = carquet_schema_node_is_leaf(nd);
        fact(f, 1, leaf);
        fact(f, 1, leaf ? (int64_t)carquet_schema_node_physical_type(nd) : -1);
        fact(f, 1, e ? (int64_t)carquet_schema_node_repetition(nd) : -1);
        fact(f, 1, carquet_schema_node_max_def_level(nd)); fact(f, 1, carquet_schema_node_max_rep_level(nd));
        fact(f, 1, leaf ? carquet_schema_node_type_length(nd) : 0);
        if (e > 0 && nm) fact(f, 1, carquet_schema_find_column(sc, nm));
    }
    fact(f, 1, carquet_schema_find_column(sc, "no such column"));
    for (int g = 0; g < nrg && g < 4; g++) {
        carquet_row_group_metadata_t md; memset(&md, 0, sizeof md);
        int ok = carquet_reader_row_group_metadata(r, g, &md) == CARQUET_OK;
        fact(f, ok, md.num_rows); fact(f, ok, md.total_byte_size); fact(f, ok, md.total_compressed_size);
        for (int c = 0; c < ncols && c < PQ_MAXCOLS; c++) {
            carquet_column_statistics_t st; memset(&st, 0, sizeof st);
            ok = carquet_reader_column_statistics(r, g, c, &st) == CARQUET_OK;
            fact(f, ok, st.has_min_max * 4 + st.has_null_count * 2 + st.has_distinct_count);
            fact(f, ok, st.num_values); fact(f, ok && st.has_null_count, st.null_count);
            fact(f, ok && st.has_min_max, st.min_value_size); fact(f, ok && st.has_min_max, st.max_value_size);
            fact_bytes(f, ok && st.has_min_max, st.min_value, st.min_value_size, 1);
            fact_bytes(f, ok && st.has_min_max, st.max_value, st.max_value_size, 1);
            (void)carquet_reader_can_zero_copy(r, g, c);     /* I/O strategy (depends on whether the file is mapped): exercised, not compared */
        }
    }
    /* predicate pushdown on column 0 (numeric columns): value in the middle of the table's range */
    if (ncols > 0 && (S.type[0] == CARQUET_PHYSICAL_INT32 || S.type[0] == CARQUET_PHYSICAL_INT64)) {
        int64_t probe = 0; int vsz = S.type[0] == CARQUET_PHYSICAL_INT32 ? 4 : 8;
        memcpy(&probe, C[0].vals + (size_t)vsz * (size_t)(pq_present(&S, &C[0], 0, 0, VQ_ROWS) / 2), (size_t)vsz);
        static const carquet_compare_op_t OPS[3] = {CARQUET_COMPARE_EQ, CARQUET_COMPARE_LT, CARQUET_COMPARE_GE};
        for (int k = 0; k < 3; k++) {
            int32_t idx[4] = {-1, -1, -1, -1};
            int32_t n = carquet_reader_filter_row_groups(r, 0, OPS[k], &probe, vsz, idx, 4);
            fact(f, n >= 0, n);
            for (int j = 0; j < 4; j++) fact(f, n >= 0 && j < n, idx[j]);
            for (int g = 0; g < nrg && g < 4; g++) {
                bool m = false;
                int ok = carquet_reader_row_group_matches(r, g, 0, OPS[k], &probe, vsz, &m) == CARQUET_OK;
                fact(f, ok, m);
            }
        }
    }
    fact(f, carquet_reader_row_group_metadata(r, nrg, &(carquet_row_group_metadata_t){0}) != CARQUET_OK, 1);     /* out of range stays an error */
}

static void compare_facts(const facts_t* got, const facts_t* ref) {
    SYMX_ASSERT(got->n == ref->n, "the same sequence of metadata calls in both runs");
    int bad = 0, errs = 0;
    for (int i = 0; i < got->n && i < ref->n; i++) {
        if (got->ok[i]) bad |= (!ref->ok[i]) | (got->v[i] != ref->v[i]);
        else errs |= ref->ok[i];
    }
    SYMX_ASSERT(!bad, "metadata / statistics / schema accessors of a reader opened under an allocation failure return the fault-free results");
    SYMX_ASSERT(!errs || symx_alloc_failed() != 0, "accessors fail only when an allocation failed");
}

/* ------------------------------------------------------------------ batch reader */
#define MAXBATCH 30
/* what the batch reader delivered, per projected column as ONE stream over all batches (batch boundaries are not part of the
 * result: a reader may legitimately cut batches differently, but the rows of all columns of a batch belong together) */
typedef struct { int created; int n; int ended; int failed; int misaligned; int rows[PQ_MAXCOLS]; int nvals[PQ_MAXCOLS]; int nbytes[PQ_MAXCOLS];
                 uint8_t isnull[PQ_MAXCOLS][PQ_MAXROWS]; uint8_t vals[PQ_MAXCOLS][PQ_MAXROWS * 8]; int32_t balen[PQ_MAXCOLS][PQ_MAXROWS]; } batches_t;
static int proj_cols[PQ_MAXCOLS], proj_n; static const char* proj_names[PQ_MAXCOLS]; static int32_t proj_idx[PQ_MAXCOLS];

static void run_batches(carquet_reader_t* r, batches_t* out) {
    memset(out, 0, sizeof *out);
    carquet_error_t err; memset(&err, 0, sizeof err);
    carquet_batch_reader_config_t bc; carquet_batch_reader_config_init(&bc);
    bc.batch_size = VQ_BS; bc.num_threads = 1;
#if VQ_PROJ == 1
    bc.column_indices = proj_idx; bc.num_columns = proj_n;
#elif VQ_PROJ == 2
    bc.column_names = proj_names; bc.num_column_names = proj_n;
#endif
    carquet_batch_reader_t* br = carquet_batch_reader_create(r, &bc, &err);
    if (!br) { out->failed = 1; return; }
    out->created = 1;
    while (out->n < MAXBATCH) {
        carquet_row_batch_t* b = NULL;
        carquet_status_t st = carquet_batch_reader_next(br, &b);
        if (st == CARQUET_ERROR_END_OF_DATA && !b) { out->ended = 1; break; }
        if (st != CARQUET_OK) { out->failed = 1; if (b) carquet_row_batch_free(b); break; }
        SYMX_ASSERT(b != NULL, "carquet_batch_reader_next returning OK delivers a batch");
        int nrows = (int)carquet_row_batch_num_rows(b), ncols = carquet_row_batch_num_columns(b);
        SYMX_ASSERT(nrows >= 0 && nrows <= VQ_BS, "row count of a batch within batch_size");
        SYMX_ASSERT(ncols == proj_n, "a batch has the projected columns");
        for (int k = 0; k < ncols && k < PQ_MAXCOLS; k++) {
            const void* data = NULL; const uint8_t* nulls = NULL; int64_t nv = -1;
            SYMX_ASSERT(carquet_row_batch_column(b, k, &data, &nulls, &nv) == CARQUET_OK, "projected column of a batch is accessible");
            SYMX_ASSERT(nv >= 0 && nv <= VQ_BS, "column of a batch has no more values than batch_size");
            if (nv != nrows) out->misaligned = 1;
            if (out->rows[k] + nv > PQ_MAXROWS) { out->misaligned = 2; break; }
            int c = proj_cols[k], nn = 0;
            for (int i = 0; i < nv; i++) { int isnull = nulls ? (nulls[i / 8] >> (i % 8)) & 1 : 0; out->isnull[k][out->rows[k] + i] = (uint8_t)isnull; if (!isnull) nn++; }
            if (nn > 0) SYMX_ASSERT(data != NULL, "a column with non-null rows has a data pointer");
            if (S.type[c] == CARQUET_PHYSICAL_BYTE_ARRAY) {
                const carquet_byte_array_t* ba = (const carquet_byte_array_t*)data;
                for (int i = 0; i < nn; i++) { out->balen[k][out->nvals[k] + i] = ba[i].length; for (int j = 0; j < ba[i].length && out->nbytes[k] < PQ_MAXROWS * 8; j++) out->vals[k][out->nbytes[k]++] = ba[i].data[j]; }
            } else if (nn > 0) {
                size_t esz = pq_type_size(S.type[c], S.type_len[c]);
                memcpy(out->vals[k] + esz * (size_t)out->nvals[k], data, esz * (size_t)nn); out->nbytes[k] += (int)(esz * (size_t)nn);
            }
            out->rows[k] += (int)nv; out->nvals[k] += nn;
        }
#ifdef VQ_DEBUG
        printf("DBG batch %d rows %d:", out->n, nrows); for (int k = 0; k < ncols; k++) printf(" col%d total %d", k, out->rows[k]); printf(" misaligned %d\n", out->misaligned);
#endif
        carquet_row_batch_free(b);
        out->n++;
    }
    carquet_batch_reader_free(br);
}

static void compare_batches(const batches_t* got, const batches_t* ref) {
    if (got->failed) SYMX_ASSERT(symx_alloc_failed() != 0, "the batch reader fails only when an allocation failed");
    SYMX_ASSERT(got->misaligned != 2, "the batch reader delivers no more rows than the file holds");
    SYMX_ASSERT(!got->misaligned, "every column of a batch delivered with status OK has the rows of that batch [batch reader: columns aligned]");
    for (int k = 0; k < proj_n; k++) {
        if (!got->failed) SYMX_ASSERT(got->rows[k] == ref->rows[k] && got->ended == ref->ended, "a batch reader that reports no error delivers all rows of the fault-free run");
        SYMX_ASSERT(got->rows[k] <= ref->rows[k], "no more rows than the fault-free run");
        SYMX_ASSERT(memcmp(got->isnull[k], ref->isnull[k], (size_t)got->rows[k]) == 0, "rows delivered under an allocation failure have the fault-free null flags [batch reader: null flags]");
        SYMX_ASSERT(got->nvals[k] <= ref->nvals[k] && got->nbytes[k] <= ref->nbytes[k], "no more values than the fault-free run");
        SYMX_ASSERT(memcmp(got->balen[k], ref->balen[k], sizeof(int32_t) * (size_t)got->nvals[k]) == 0 && memcmp(got->vals[k], ref->vals[k], (size_t)got->nbytes[k]) == 0,
                    "values delivered under an allocation failure are the fault-free values");
    }
}

/* ------------------------------------------------------------------ careful caller: abort at the first failure */
static int write_abort_on_error(const char* path, const int* rg, FILE** fp, const carquet_writer_options_t* wo) {
    *fp = NULL;
    carquet_error_t err; memset(&err, 0, sizeof err);
    carquet_schema_t* sc = pq_make_schema(&S);
    if (!sc) return -1;
    carquet_writer_t* w = vt_create(path, VQ_FILEAPI, sc, wo, fp, &err);
    if (!w) { carquet_schema_free(sc); return -1; }
    static vt_op_t ops[VT_MAXOPS];
    int nops = vt_history(&S, rg, VQ_NRG, VQ_BATCH, ops);
    for (int k = 0; k < nops; k++) {
        if (vt_apply(w, &S, C, &ops[k]) != CARQUET_OK) { carquet_writer_abort(w); carquet_schema_free(sc); return -2; }
    }
    carquet_status_t st = carquet_writer_close(w);
    carquet_schema_free(sc);
    return st == CARQUET_OK ? 0 : -3;
}

/* ------------------------------------------------------------------ wide tables (SCEN 5 / 6) */
#ifndef VQ_WCOLS
#define VQ_WCOLS 70
#endif
#ifndef VQ_WRGS
#define VQ_WRGS 3
#endif
#ifndef VQ_NAMELEN
#define VQ_NAMELEN 6
#endif
#ifndef VQ_WINDOW
#define VQ_WINDOW 1
#endif
static char wnames[VQ_WCOLS][VQ_NAMELEN + 1];
static void make_names(void) {
    for (int i = 0; i < VQ_WCOLS; i++) {
        for (int j = 0; j < VQ_NAMELEN; j++) wnames[i][j] = (char)('a' + (i + j) % 26);
        wnames[i][0] = (char)('A' + i / 26); wnames[i][1] = (char)('a' + i % 26); wnames[i][VQ_NAMELEN] = 0;
    }
}
static carquet_physical_type_t wtype(int i) { return (i % 3 == 1) ? CARQUET_PHYSICAL_INT64 : CARQUET_PHYSICAL_INT32; }
static carquet_field_repetition_t wrep(int i) { return (i % 4 == 3) ? CARQUET_REPETITION_OPTIONAL : CARQUET_REPETITION_REQUIRED; }
static int64_t wvalue(int g, int c) { return 1000 * g + c; }
static carquet_schema_t* wide_schema(void) {
    carquet_error_t err; memset(&err, 0, sizeof err);
    carquet_schema_t* sc = carquet_schema_create(&err);
    if (!sc) return NULL;
    for (int c = 0; c < VQ_WCOLS; c++)
        if (carquet_schema_add_column(sc, wnames[c], wtype(c), NULL, wrep(c), 0) != CARQUET_OK) { carquet_schema_free(sc); return NULL; }
    return sc;
}
/* one row per row group; window 0: faults (if enabled by the caller) everywhere, 1: only in close, 2: in the last new_row_group + close */
static int wide_write(const char* path, int window, int faults) {
    carquet_error_t err; memset(&err, 0, sizeof err);
    if (window == 0 && faults) symx_fault_alloc(faults);
    carquet_schema_t* sc = wide_schema();
    if (!sc) return -1;
    carquet_writer_options_t wo; carquet_writer_options_init(&wo); wo.compression = CODEC;
    carquet_writer_t* w = carquet_writer_create(path, sc, &wo, &err);
    if (!w) { carquet_schema_free(sc); return -1; }
    int bad = 0;
    for (int g = 0; g < VQ_WRGS; g++) {
        if (g > 0) {
            if (window == 2 && faults && g == VQ_WRGS - 1) symx_fault_alloc(faults);
            if (carquet_writer_new_row_group(w) != CARQUET_OK) bad = 1;
            if (window == 2 && faults && g == VQ_WRGS - 1) symx_fault_alloc(0);
        }
        for (int c = 0; c < VQ_WCOLS; c++) {
            int64_t v64 = wvalue(g, c); int32_t v32 = (int32_t)v64; int16_t d = 1;
            if (carquet_writer_write_batch(w, c, wtype(c) == CARQUET_PHYSICAL_INT64 ? (const void*)&v64 : (const void*)&v32, 1,
                                           wrep(c) == CARQUET_REPETITION_OPTIONAL ? &d : NULL, NULL) != CARQUET_OK) bad = 1;
        }
    }
    if (window && faults) symx_fault_alloc(faults);
    if (carquet_writer_close(w) != CARQUET_OK) bad = 1;
    symx_fault_alloc(0);
    carquet_schema_free(sc);
    return bad ? -2 : 0;
}

void harness(void) {
#if VQ_SCEN == 1
    /* ---------------------------------------------------------------- schema builder */
    make_names();
    symx_fault_alloc(VQ_FAULTS);
    carquet_error_t err; memset(&err, 0, sizeof err);
    carquet_schema_t* sc = carquet_schema_create(&err);
    if (sc) {
        int ok = 1;
  #ifdef VQ_GROUPS
        if (carquet_schema_add_group(sc, "grp_a", CARQUET_REPETITION_OPTIONAL, -1) < 0) ok = 0;
        if (ok && carquet_schema_add_group(sc, "grp_b", CARQUET_REPETITION_REQUIRED, 0) < 0) ok = 0;
        int base = 3;
  #else
        int base = 1;
  #endif
        carquet_logical_type_t lt; memset(&lt, 0, sizeof lt); lt.id = CARQUET_LOGICAL_STRING;
        for (int c = 0; c < VQ_WCOLS && ok; c++) {
            int str = (c % 5 == 2);
            carquet_status_t st = carquet_schema_add_column(sc, wnames[c], str ? CARQUET_PHYSICAL_BYTE_ARRAY : wtype(c), str ? &lt : NULL, wrep(c), 0);
            if (st != CARQUET_OK) ok = 0;
        }
        if (ok) {
            /* every call reported success: the schema is the intended one */
            SYMX_ASSERT(carquet_schema_num_columns(sc) == VQ_WCOLS, "a schema whose add_column calls all returned OK has all its columns");
            SYMX_ASSERT(carquet_schema_num_elements(sc) == base + VQ_WCOLS, "... and all its elements");
            for (int c = 0; c < VQ_WCOLS; c++) {
                if (c < 3 || c > VQ_WCOLS - 3 || (c >= 61 && c <= 66)) SYMX_ASSERT(carquet_schema_find_column(sc, wnames[c]) == c, "lookup by name works after a build that reported success [schema builder: column name]");
                const carquet_schema_node_t* nd = carquet_schema_get_element(sc, base + c);
                SYMX_ASSERT(nd != NULL, "element of a successfully added column exists");
                const char* nm = carquet_schema_node_name(nd);
                SYMX_ASSERT(nm != NULL && strcmp(nm, wnames[c]) == 0, "element of a successfully added column has its name [schema builder: column name]");
                int str = (c % 5 == 2);
                SYMX_ASSERT(carquet_schema_node_is_leaf(nd) && carquet_schema_node_physical_type(nd) == (str ? CARQUET_PHYSICAL_BYTE_ARRAY : wtype(c)) &&
                            carquet_schema_node_repetition(nd) == wrep(c), "element of a successfully added column has its type and repetition");
                const carquet_logical_type_t* l2 = carquet_schema_node_logical_type(nd);
                SYMX_ASSERT(!str || (l2 != NULL && l2->id == CARQUET_LOGICAL_STRING), "... and its logical type");
            }
        }
        carquet_schema_free(sc);
    } else {
        SYMX_ASSERT(symx_alloc_failed() != 0, "schema_create fails only when an allocation failed");
    }
    symx_fault_alloc(0);
    symx_check_leaks();
#elif VQ_SCEN == 5
    /* ---------------------------------------------------------------- wide write, faults in a window of the history */
    make_names();
    int rc0 = wide_write(REFPATH, 0, 0);
    SYMX_ASSERT(rc0 == 0, "harness precondition: the fault-free wide write succeeds");
    size_t la = symx_file_get(REFPATH, fa, sizeof fa);
    SYMX_ASSERT(la != (size_t)-1, "harness precondition: the written file exists");
    int rc = wide_write(PATH, VQ_WINDOW, VQ_FAULTS);
    if (rc == 0) {
        size_t lb = symx_file_get(PATH, fb, sizeof fb);
        SYMX_ASSERT(lb == la && memcmp(fa, fb, la) == 0, "write reported OK under an allocation failure but the file differs from the fault-free file");
    } else {
        SYMX_ASSERT(symx_alloc_failed() != 0, "a fault-free write succeeds");
    }
    symx_check_leaks();
#elif VQ_SCEN == 6
    /* ---------------------------------------------------------------- wide read */
    make_names();
    SYMX_ASSERT(wide_write(PATH, 0, 0) == 0, "harness precondition: the fault-free wide write succeeds");
    size_t la = symx_file_get(PATH, fa, sizeof fa);
    SYMX_ASSERT(la != (size_t)-1, "harness precondition: the written file exists");
    symx_observe_int(la, "file length");
    carquet_error_t err;
    symx_fault_alloc(VQ_FAULTS);
    carquet_reader_t* r = open_file(la, &err);
    if (r) {
        /* success: the reader shows the table that was written */
        SYMX_ASSERT(carquet_reader_num_rows(r) == VQ_WRGS && carquet_reader_num_row_groups(r) == VQ_WRGS && carquet_reader_num_columns(r) == VQ_WCOLS,
                    "a reader opened under an allocation failure reports the fault-free row / row group / column counts");
        const carquet_schema_t* sc = carquet_reader_schema(r);
        static const int probe[6] = {0, 1, VQ_WCOLS / 2, VQ_WCOLS - 3, VQ_WCOLS - 2, VQ_WCOLS - 1};
        for (int k = 0; k < 6; k++) {
            int c = probe[k];
            SYMX_ASSERT(carquet_schema_find_column(sc, wnames[c]) == c, "a reader opened under an allocation failure finds every column by name");
            for (int g = 0; g < VQ_WRGS; g += (VQ_WRGS > 1 ? VQ_WRGS - 1 : 1)) {
                carquet_column_statistics_t st; memset(&st, 0, sizeof st);
                if (carquet_reader_column_statistics(r, g, c, &st) == CARQUET_OK) SYMX_ASSERT(st.num_values == 1, "column statistics as in the fault-free run");
                carquet_column_reader_t* col = carquet_reader_get_column(r, g, c, &err);
                if (!col) { SYMX_ASSERT(symx_alloc_failed() != 0, "get_column fails only when an allocation failed"); continue; }
                _Alignas(8) uint8_t v[8] = {0}; int16_t d = 0;
                int64_t n = carquet_column_read_batch(col, v, 1, wrep(c) == CARQUET_REPETITION_OPTIONAL ? &d : NULL, NULL);
                if (n < 0) SYMX_ASSERT(symx_alloc_failed() != 0, "read fails only when an allocation failed");
                else {
                    SYMX_ASSERT(n == 1, "the one row of the chunk is delivered");
                    int64_t got = 0; if (wtype(c) == CARQUET_PHYSICAL_INT64) memcpy(&got, v, 8); else { int32_t t; memcpy(&t, v, 4); got = t; }
                    SYMX_ASSERT(got == wvalue(g, c), "value read under an allocation failure is the fault-free value");
                }
                carquet_column_reader_free(col);
            }
        }
        carquet_reader_close(r);
    } else {
        SYMX_ASSERT(symx_alloc_failed() != 0, "open fails only when an allocation failed");
    }
    symx_fault_alloc(0);
    symx_check_leaks();
#else
    /* ---------------------------------------------------------------- tables of c18_tables.h */
    int nspecs = vt_spec_count(VQ_SPECS);
    int si = nspecs > 1 ? symx_choice(nspecs, "table") : 0;
    int nc = vt_table(&S, C, vt_spec_at(VQ_SPECS, si), VQ_ROWS, VQ_FLAVOUR);
    SYMX_ASSERT(nc > 0, "harness: bad table spec");
    carquet_writer_options_t wo; carquet_writer_options_init(&wo);
    wo.compression = CODEC; wo.page_size = 1;
    int rg[4]; vt_split(VQ_ROWS, VQ_NRG, rg);
    pq_wstat_t ws; FILE* fp = NULL;
  #if VQ_SCEN == 2
    /* fault-free reference run first (the writer is deterministic), then the run under faults */
    int rc0 = vt_write(REFPATH, VQ_FILEAPI, &S, C, rg, VQ_NRG, VQ_BATCH, &wo, &ws, &fp);
    if (fp) fclose(fp);
    SYMX_ASSERT(rc0 == 0, "harness precondition: the fault-free write succeeds");
    size_t la = symx_file_get(REFPATH, fa, sizeof fa);
    SYMX_ASSERT(la != (size_t)-1, "harness precondition: the written file exists");
    symx_fault_alloc(VQ_FAULTS);
    #if VQ_POLICY == 0
    int rc = vt_write(PATH, VQ_FILEAPI, &S, C, rg, VQ_NRG, VQ_BATCH, &wo, &ws, &fp);
    #else
    int rc = write_abort_on_error(PATH, rg, &fp, &wo);
    #endif
    symx_fault_alloc(0);
    if (fp) fclose(fp);
    if (rc == 0) {
        /* every call reported success: the effect must be exactly that of the fault-free run */
        size_t lb = symx_file_get(PATH, fb, sizeof fb);
        SYMX_ASSERT(lb == la, "write reported OK under an allocation failure but the file differs in length from the fault-free file");
        SYMX_ASSERT(lb != la || memcmp(fa, fb, la) == 0, "write reported OK under an allocation failure but the file content differs from the fault-free file");
    } else {
        SYMX_ASSERT(symx_alloc_failed() != 0, "a fault-free write succeeds");
    #if VQ_POLICY == 1 && !VQ_FILEAPI
        if (rc == -2) SYMX_ASSERT(symx_file_size(PATH) == (size_t)-1, "abort after a failed call leaves no file behind");
    #endif
    }
    symx_check_leaks();
  #else
    int rc0 = vt_write(PATH, 0, &S, C, rg, VQ_NRG, VQ_BATCH, &wo, &ws, &fp);
    SYMX_ASSERT(rc0 == 0, "harness precondition: the fault-free write succeeds");
    size_t la = symx_file_get(PATH, fa, sizeof fa);
    SYMX_ASSERT(la != (size_t)-1, "harness precondition: the written file exists");
    carquet_error_t err;
    /* projection (scenario 4) */
    proj_n = 0;
    #if VQ_PROJ == 0
    for (int c = 0; c < nc; c++) proj_cols[proj_n++] = c;
    #else
    proj_cols[proj_n++] = nc - 1; if (nc > 1) proj_cols[proj_n++] = 0;             /* last column first, then the first one */
    #endif
    for (int k = 0; k < proj_n; k++) { proj_idx[k] = proj_cols[k]; proj_names[k] = S.name[proj_cols[k]]; }
    /* fault-free run */
    static facts_t F0, F1; static colread_t R0[4][PQ_MAXCOLS], R1; static batches_t B0, B1;
    carquet_reader_t* r0 = open_file(la, &err);
    SYMX_ASSERT(r0 != NULL, "harness precondition: the file opens");
    #if VQ_SCEN == 3
    metadata_facts(r0, &F0);
    for (int g = 0; g < VQ_NRG; g++) for (int c = 0; c < nc; c++) read_column(r0, g, c, VQ_CHUNK, VQ_SKIP, &R0[g][c]);
    int tot = 0; for (int g = 0; g < VQ_NRG; g++) tot += R0[g][0].nrows + R0[g][0].skipped;
    SYMX_ASSERT(tot == VQ_ROWS, "harness precondition: the fault-free run reads all rows");
    symx_observe_int((uint64_t)F0.n, "metadata facts");
    #else
    run_batches(r0, &B0);
    SYMX_ASSERT(B0.created && !B0.failed && B0.ended, "harness precondition: the fault-free batch run reaches the end of the data");
    symx_observe_int((uint64_t)B0.n, "fault-free batches");
    SYMX_ASSERT(!B0.misaligned && B0.rows[0] == VQ_ROWS, "harness precondition: the fault-free batch run delivers all rows, columns aligned");
    #endif
    carquet_reader_close(r0);
    /* run under faults */
    symx_fault_alloc(VQ_FAULTS);
    carquet_reader_t* r = open_file(la, &err);
    if (r) {
    #if VQ_SCEN == 3
        metadata_facts(r, &F1);
        compare_facts(&F1, &F0);
        for (int g = 0; g < VQ_NRG; g++) for (int c = 0; c < nc; c++) { read_column(r, g, c, VQ_CHUNK, VQ_SKIP, &R1); compare_column(&R1, &R0[g][c], c); }
    #else
        run_batches(r, &B1);
        compare_batches(&B1, &B0);
    #endif
        carquet_reader_close(r);
    } else {
        SYMX_ASSERT(symx_alloc_failed() != 0, "open fails only when an allocation failed");
    }
    symx_fault_alloc(0);
    symx_check_leaks();
  #endif
#endif
}
