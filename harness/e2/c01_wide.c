/* C01 / C05 — round trip of WIDE tables and of files with MANY row groups (engine E2): footer lists (schema elements, column
 * chunks of a row group, row groups) whose lengths cross the Thrift compact-protocol list-header switch at 15 elements
 * (short form up to 14, size byte + varint from 15).  CONCRETE content, one path.
 * VW_COLS columns "c00".."cNN" (INT32; REQUIRED, or with VW_OPT OPTIONAL with a concrete null pattern), VW_RGS row groups
 * (carquet_writer_new_row_group) of VW_ROWS rows each.  Read back through the public API (schema, partition, every value);
 * with -DREFCHECK the file is handed to the independent reference reader (C05). */
#include "pq_common.h"
#ifdef REFCHECK
#include "ref_parquet_read.h"
#endif
#ifndef VW_COLS
#define VW_COLS 14
#endif
#ifndef VW_RGS
#define VW_RGS 1
#endif
#ifndef VW_ROWS
#define VW_ROWS 1
#endif
#ifndef VW_OPT
#define VW_OPT 0
#endif
#ifndef VW_CODEC
#define VW_CODEC CARQUET_COMPRESSION_UNCOMPRESSED
#endif
#define PATH "/mem/wide.parquet"
#define NROWS (VW_RGS * VW_ROWS)

static char NAMES[VW_COLS][4];
static uint8_t filebuf[32768];
static int32_t val(int c, int r) { return 1000 * c + r + 7; }
static int present(int c, int r) { return VW_OPT ? (c + r) % 3 != 0 : 1; }

void harness(void) {
    carquet_error_t err; memset(&err, 0, sizeof err);
    carquet_schema_t* sc = carquet_schema_create(&err); symx_assume(sc != NULL);
    for (int c = 0; c < VW_COLS; c++) {
        NAMES[c][0] = 'c'; NAMES[c][1] = (char)('0' + c / 10); NAMES[c][2] = (char)('0' + c % 10); NAMES[c][3] = 0;
        symx_assume(carquet_schema_add_column(sc, NAMES[c], CARQUET_PHYSICAL_INT32, NULL, VW_OPT ? CARQUET_REPETITION_OPTIONAL : CARQUET_REPETITION_REQUIRED, 0) == CARQUET_OK);
    }
    carquet_writer_options_t wo; carquet_writer_options_init(&wo);
    wo.compression = VW_CODEC; wo.page_size = 1;
    carquet_writer_t* w = carquet_writer_create(PATH, sc, &wo, &err); symx_assume(w != NULL);
    for (int g = 0; g < VW_RGS; g++) {
        if (g > 0) symx_assume(carquet_writer_new_row_group(w) == CARQUET_OK);
        for (int c = 0; c < VW_COLS; c++) {
            int32_t v[VW_ROWS]; int16_t d[VW_ROWS]; int nv = 0;
            for (int r = 0; r < VW_ROWS; r++) { d[r] = (int16_t)present(c, g * VW_ROWS + r); if (d[r]) v[nv++] = val(c, g * VW_ROWS + r); }
            symx_assume(carquet_writer_write_batch(w, c, v, VW_ROWS, VW_OPT ? d : NULL, NULL) == CARQUET_OK);      /* premise: every writer call returned OK */
        }
    }
    symx_assume(carquet_writer_close(w) == CARQUET_OK);
    carquet_schema_free(sc);
    size_t len = symx_file_get(PATH, filebuf, sizeof filebuf);
    SYMX_ASSERT(len != (size_t)-1 && len >= 12 && len < sizeof filebuf, "a file exists after close");
    /* ---- read back */
    carquet_reader_t* r = carquet_reader_open_buffer(filebuf, len, NULL, &err);
    SYMX_ASSERT(r != NULL, "a file whose writer calls all returned OK re-opens");
    SYMX_ASSERT(carquet_reader_num_rows(r) == NROWS, "same row count");
    SYMX_ASSERT(carquet_reader_num_columns(r) == VW_COLS, "same column count");
    SYMX_ASSERT(carquet_reader_num_row_groups(r) == VW_RGS, "same partition into row groups");
    const carquet_schema_t* sc2 = carquet_reader_schema(r);
    SYMX_ASSERT(carquet_schema_num_columns(sc2) == VW_COLS, "same number of schema columns");
    for (int c = 0; c < VW_COLS; c++) {
        SYMX_ASSERT(carquet_schema_find_column(sc2, NAMES[c]) == c, "same column names");
        const carquet_schema_node_t* nd = carquet_schema_get_element(sc2, 1 + c);
        SYMX_ASSERT(nd && carquet_schema_node_physical_type(nd) == CARQUET_PHYSICAL_INT32, "same physical type");
        SYMX_ASSERT(carquet_schema_node_repetition(nd) == (VW_OPT ? CARQUET_REPETITION_OPTIONAL : CARQUET_REPETITION_REQUIRED), "same repetition");
    }
    for (int g = 0; g < VW_RGS; g++) {
        carquet_row_group_metadata_t gm;
        SYMX_ASSERT(carquet_reader_row_group_metadata(r, g, &gm) == CARQUET_OK && gm.num_rows == VW_ROWS, "same rows per row group");
        for (int c = 0; c < VW_COLS; c++) {
            carquet_column_reader_t* cr = carquet_reader_get_column(r, g, c, &err);
            SYMX_ASSERT(cr != NULL, "column reader");
            int32_t v[VW_ROWS + 1]; int16_t d[VW_ROWS + 1];
            int64_t n = carquet_column_read_batch(cr, v, VW_ROWS + 1, d, NULL);
            SYMX_ASSERT(n == VW_ROWS, "all rows of the row group are delivered");
            int k = 0;
            for (int i = 0; i < VW_ROWS; i++) {
                int p = present(c, g * VW_ROWS + i);
                if (VW_OPT) SYMX_ASSERT(d[i] == p, "same null positions");
                if (p) { SYMX_ASSERT(v[k] == val(c, g * VW_ROWS + i), "bit-identical non-null value"); k++; }
            }
            carquet_column_reader_free(cr);
        }
    }
    carquet_reader_close(r);
#ifdef REFCHECK
    static ref_pq_file rf; static ref_pq_column_data cd;
    ref_pq_open_opts ropts; memset(&ropts, 0, sizeof ropts);
    ropts.require_tiling = 1; ropts.crc_hard = 1; ropts.usize_hard = 1;
    int rc = ref_pq_open_ex(filebuf, len, &ropts, &rf);
    symx_observe_int((uint64_t)(int64_t)rc, "ref_pq_open");
    SYMX_ASSERT(rc == 0, "independent reference reader accepts the file (structure, sizes, counts, CRC)");
    SYMX_ASSERT(rf.meta.num_rows == NROWS && rf.n_leaves == VW_COLS && rf.meta.n_row_groups == VW_RGS && rf.meta.n_schema == VW_COLS + 1, "reference reader: rows, columns, row groups, schema elements");
    SYMX_ASSERT(rf.tiles_exactly && rf.rg_total_byte_size_ok, "reference reader: tiling and row group byte size");
    for (int c = 0; c < VW_COLS; c++) {
        const ref_schema_element* se = &rf.meta.schema[1 + c];
        SYMX_ASSERT(se->name.len == 3 && memcmp(filebuf + se->name.off, NAMES[c], 3) == 0, "reference reader: column name");
    }
    for (int g = 0; g < VW_RGS; g++) {
        SYMX_ASSERT(rf.meta.row_groups[g].num_rows == VW_ROWS && rf.meta.row_groups[g].n_columns == VW_COLS, "reference reader: row group shape");
        for (int c = 0; c < VW_COLS; c++) {
            SYMX_ASSERT(rf.chunk[g][c].encodings_listed && rf.chunk[g][c].crc_all_ok, "reference reader: encodings list and CRC");
            cd.arena = NULL; cd.arena_cap = 0;
            SYMX_ASSERT(ref_pq_read_column(&rf, g, c, &cd) == 0 && cd.n_levels == VW_ROWS, "reference reader decodes the column chunk");
            int k = 0;
            for (int i = 0; i < VW_ROWS; i++) {
                int p = present(c, g * VW_ROWS + i);
                if (VW_OPT) SYMX_ASSERT(cd.def[i] == p, "reference reader: same null positions");
                if (p) { SYMX_ASSERT(cd.val[k] == (uint64_t)(uint32_t)val(c, g * VW_ROWS + i), "reference reader: same value bits"); k++; }
            }
        }
    }
#endif
}
