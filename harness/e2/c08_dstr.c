/* C08 — DELTA_BYTE_ARRAY / DELTA_LENGTH_BYTE_ARRAY decoders on hostile LENGTH streams (engine E2): the two length blocks are
 * well-formed DELTA_BINARY_PACKED streams (built by the independent reference encoder) that carry ARBITRARY int32 prefix and suffix
 * lengths - negative, huge, sums above INT32_MAX - followed by a few data bytes.  Any status is acceptable; the decoder must stay
 * inside the input and the work buffer, must not leave memory allocated and must not report more bytes consumed than it was given. */
#include "symx.h"
#include <stdint.h>
#include <stdlib.h>
#include <string.h>
#include <carquet/carquet.h>
#include "ref_codecs.h"
carquet_status_t carquet_delta_strings_decode(const uint8_t* data, size_t data_size, carquet_byte_array_t* values, int32_t num_values,
                                              uint8_t* work_buffer, size_t work_buffer_size, size_t* bytes_consumed);
carquet_status_t carquet_delta_length_decode(const uint8_t* data, size_t data_size, carquet_byte_array_t* values, int32_t num_values, size_t* bytes_consumed);
#ifndef NV
#define NV 2
#endif
#ifndef NDATA
#define NDATA 3
#endif
void harness(void) {
    int32_t pre[NV], suf[NV];
    symx_make_symbolic(pre, sizeof pre, "prefix"); symx_make_symbolic(suf, sizeof suf, "suffix");
    /* the interesting values of each length, by fork (the reference encoder would otherwise fork on the bit widths of symbolic deltas) */
    static const int32_t SPECIAL[6] = {0, 1, 2, -1, INT32_MAX, INT32_MIN};
    for (int i = 0; i < NV; i++) {
        int kp = symx_choice(7, "prefix class"), ks = symx_choice(7, "suffix class");
        if (kp < 6) pre[i] = SPECIAL[kp]; else { symx_assume(pre[i] >= INT32_MAX - 3); }
        if (ks < 6) suf[i] = SPECIAL[ks]; else { symx_assume(suf[i] >= 0 && suf[i] <= 3); }
    }
    uint8_t st[160]; size_t l1 = 0, l2 = 0;
    symx_assume(ref_delta_encode_i32(pre, NV, 128, 4, 0, st, sizeof st, &l1) == REF_OK);
#if MODE == 1     /* DELTA_BYTE_ARRAY: prefix lengths, suffix lengths, suffix bytes */
    symx_assume(ref_delta_encode_i32(suf, NV, 128, 4, 0, st + l1, sizeof st - l1, &l2) == REF_OK);
    size_t n = l1 + l2 + NDATA;
#else             /* DELTA_LENGTH_BYTE_ARRAY: lengths (the "prefix" array), bytes */
    size_t n = l1 + NDATA;
#endif
    symx_assume(n <= sizeof st);
    uint8_t* in = malloc(n); symx_assume(in != NULL);
    memcpy(in, st, n - NDATA);
    symx_make_symbolic(in + n - NDATA, NDATA, "data");
    carquet_byte_array_t* out = malloc(sizeof(carquet_byte_array_t) * NV); symx_assume(out != NULL);
    size_t consumed = 0;
#if MODE == 1
    uint8_t* work = malloc(8); symx_assume(work != NULL);
    carquet_status_t s = carquet_delta_strings_decode(in, n, out, NV, work, 8, &consumed);
#else
    carquet_status_t s = carquet_delta_length_decode(in, n, out, NV, &consumed);
#endif
    if (s == CARQUET_OK) {
        SYMX_ASSERT(consumed <= n, "bytes consumed <= bytes given");
        volatile uint8_t sink = 0;
        for (int i = 0; i < NV; i++) for (int32_t j = 0; j < out[i].length && j < 4; j++) sink ^= out[i].data[j];   /* returned values are readable */
    }
#if MODE == 1
    free(work);
#endif
    free(out); free(in);
    symx_check_leaks();
}
