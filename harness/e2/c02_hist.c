/* C02 / C03 — what a reader returns does not depend on how the caller consumes it, nor on the I/O path (engine E2).
 * The file is produced in the same run by the real writer (concrete content, several pages per chunk, optionally several
 * row groups and a compressing codec); the CALL HISTORY is symbolic: each of NOPS operations is a symbolic choice among
 * read_batch(k), skip(k), has_next/remaining and re-creation of the column reader (H_OPS5: also read_batch(k) without
 * level buffers; H_RW_ONLY: read/skip only), with symbolic k in 0..rows+1 (H_KMAX: every k in 0..H_KMAX by path forking).  A reference cursor over the known logical content gives the expected
 * result of every call.  Convention for nullable columns (the one the writer API documents and the repository's own
 * example uses): a read of n rows delivers n definition levels and the non-null values of those rows densely packed at
 * the start of the value buffer.
 * MODE 1: column reader history (column "x" of a symbolically chosen row group)
 * MODE 2: batch reader (symbolic batch_size, projection)          MODE 3: metadata + column readers in all I/O modes (C03)
 * MODE 4: read_batch(k) / skip(k) with counts from the rows that exist up to INT64_MAX (buffers sized for the rows that exist)
 * OPENMODE: 0 buffer, 1 stdio, 2 mmap, 3 = all three in one path with byte-for-byte comparison (C03), 4 = one of the three
 *           per path (symbolic choice)
 * Table: column 0 "x" (type H_CT / H_OPT, or the legacy COLTYPE), column 1 "id" INT32 REQUIRED (= 1000 + row), with
 * H_NCOLS == 3 a third column "y" (H_YT / H_YOPT).  H_RGS: rows per row group.  PAGEPATTERN: rows per write_batch call
 * (= rows per page, page_size is tiny), restarting in every column chunk.
 * H_PROJ 1: every index list of length 1..H_NCOLS over the columns (repetitions and reorderings included), the same lists
 * by name, and "all columns". */
#include "pq_common.h"

#ifndef N
#define N 9
#endif
#ifndef NOPS
#define NOPS 2
#endif
#ifndef BATCH
#define BATCH 3          /* rows per write_batch call = rows per page (page_size is tiny) */
#endif
#ifndef COLTYPE
#define COLTYPE 0        /* legacy: 0 INT32 OPTIONAL, 1 INT64 REQUIRED, 2 BYTE_ARRAY OPTIONAL, 3 BOOLEAN OPTIONAL, 4 DOUBLE OPTIONAL */
#endif
#ifndef H_CT             /* 0 BOOLEAN 1 INT32 2 INT64 3 FLOAT 4 DOUBLE 5 BYTE_ARRAY 6 FIXED_LEN_BYTE_ARRAY(H_FL) */
  #if COLTYPE == 0
    #define H_CT 1
    #define H_OPT 1
  #elif COLTYPE == 1
    #define H_CT 2
    #define H_OPT 0
  #elif COLTYPE == 2
    #define H_CT 5
    #define H_OPT 1
  #elif COLTYPE == 3
    #define H_CT 0
    #define H_OPT 1
  #else
    #define H_CT 4
    #define H_OPT 1
  #endif
#endif
#ifndef H_OPT
#define H_OPT 1
#endif
#ifndef H_FL
#define H_FL 5
#endif
#ifndef H_NCOLS
#define H_NCOLS 2
#endif
#ifndef H_YT
#define H_YT 5
#endif
#ifndef H_YOPT
#define H_YOPT 1
#endif
#ifndef H_PROJ
#define H_PROJ 0
#endif
#ifndef H_PS
#define H_PS 1           /* page_size option: 1 = every write_batch call ends its page */
#endif
#ifndef CODEC
#define CODEC CARQUET_COMPRESSION_UNCOMPRESSED
#endif
#ifndef OPENMODE
#define OPENMODE 0
#endif
#define PATH "/mem/t.parquet"

static pq_schema_t S; static pq_column_t C[PQ_MAXCOLS];
static const int16_t DEFPAT[24] = {1,0,1, 1,0,0, 0,1,1, 1,1,1, 0,0,0, 1,0,1, 0,1,0, 1,1,0};
static const carquet_physical_type_t PT[7] = {CARQUET_PHYSICAL_BOOLEAN, CARQUET_PHYSICAL_INT32, CARQUET_PHYSICAL_INT64, CARQUET_PHYSICAL_FLOAT,
    CARQUET_PHYSICAL_DOUBLE, CARQUET_PHYSICAL_BYTE_ARRAY, CARQUET_PHYSICAL_FIXED_LEN_BYTE_ARRAY};
#ifdef H_RGS
static const int RGS[] = { H_RGS };
#else
static const int RGS[] = { N };
#endif
#define NRG ((int)(sizeof RGS / sizeof RGS[0]))

/* concrete content of one column: a function of (type, salt, row) */
static void fill_col(int c, int ct, int opt, int salt) {
    S.type[c] = PT[ct]; S.rep[c] = opt ? CARQUET_REPETITION_OPTIONAL : CARQUET_REPETITION_REQUIRED; S.type_len[c] = ct == 6 ? H_FL : 0;
    int nv = 0;
    for (int i = 0; i < N; i++) {
        C[c].def[i] = opt ? DEFPAT[(i + 5 * salt) % 24] : 1;
        if (!C[c].def[i]) continue;
        int s = i + 3 * salt;
        switch (ct) {
            case 0: C[c].vals[nv] = (uint8_t)((s * 5 + 1) % 3 == 0); break;
            case 1: { int32_t v = 10 * (s + 1); memcpy(C[c].vals + 4 * nv, &v, 4); break; }
            case 2: { int64_t v = -7 + 100000000000LL * s; memcpy(C[c].vals + 8 * nv, &v, 8); break; }
            case 3: { uint32_t v = 0xBF800000u + 0x00200000u * (uint32_t)s; memcpy(C[c].vals + 4 * nv, &v, 4); break; }      /* float bit patterns from -1.0 upwards in magnitude */
            case 4: { uint64_t v = 0xC000000000000000ull + 0x0004000000000000ull * (uint64_t)s; memcpy(C[c].vals + 8 * nv, &v, 8); break; }
            case 5: C[c].ba_bytes[3 * nv] = (uint8_t)('a' + s); C[c].ba_bytes[3 * nv + 1] = (uint8_t)('A' + s); C[c].ba_bytes[3 * nv + 2] = (uint8_t)('0' + s);
                    C[c].ba[nv].data = C[c].ba_bytes + 3 * nv; C[c].ba[nv].length = (s % 4); break;      /* lengths 0..3 */
            default: for (int j = 0; j < H_FL; j++) C[c].vals[H_FL * nv + j] = (uint8_t)((s * H_FL + j) * 7 + 1); break;
        }
        nv++;
    }
    C[c].nrows = N;
}

static void table(void) {
    memset(&S, 0, sizeof S); memset(C, 0, sizeof C);
    S.ncols = H_NCOLS;
    S.name[0] = "x"; S.name[1] = "id"; S.name[2] = "y";
    fill_col(0, H_CT, H_OPT, 0);
    S.type[1] = CARQUET_PHYSICAL_INT32; S.rep[1] = CARQUET_REPETITION_REQUIRED;
    for (int i = 0; i < N; i++) { int32_t v = 1000 + i; memcpy(C[1].vals + 4 * i, &v, 4); C[1].def[i] = 1; }
    C[1].nrows = N;
    if (H_NCOLS > 2) fill_col(2, H_YT, H_YOPT, 1);
}
static size_t vsize(int c) { return pq_type_size(S.type[c], S.type_len[c]); }
static int dense_index(int c, int row) { return pq_present(&S, &C[c], c, 0, row); }
static int rg_start(int g) { int r = 0; for (int i = 0; i < g; i++) r += RGS[i]; return r; }

/* compare the result of a read of `n` rows of column c starting at logical (file) row `pos` with the known content;
 * defs may be NULL (caller did not ask for levels) */
static void check_read(int c, int pos, int64_t n, const uint8_t* vals, const int16_t* defs) {
    int d = dense_index(c, pos), k = 0;
    for (int i = 0; i < n; i++) {
        if (S.rep[c] != CARQUET_REPETITION_REQUIRED && defs) SYMX_ASSERT(defs[i] == C[c].def[pos + i], "definition level equals the stored one");
        if (!C[c].def[pos + i]) continue;
        if (S.type[c] == CARQUET_PHYSICAL_BYTE_ARRAY) {
            const carquet_byte_array_t* got = (const carquet_byte_array_t*)vals + k;
            SYMX_ASSERT(got->length == C[c].ba[d + k].length, "byte-array length equals the stored one");
            for (int j = 0; j < C[c].ba[d + k].length; j++) SYMX_ASSERT(got->data[j] == C[c].ba[d + k].data[j], "byte-array bytes equal the stored ones (and are still readable right after the call)");
        } else {
            SYMX_ASSERT(memcmp(vals + (size_t)k * vsize(c), C[c].vals + (size_t)(d + k) * vsize(c), vsize(c)) == 0, "non-null value equals the stored one (dense packing)");
        }
        k++;
    }
}

static uint8_t filebuf[8192]; static size_t filelen;
static carquet_reader_t* open_mode(int mode, int verify) {
    carquet_reader_options_t ro; carquet_reader_options_init(&ro);
    carquet_error_t err; memset(&err, 0, sizeof err);
    if (verify >= 0) ro.verify_checksums = verify;
    if (mode == 0) return carquet_reader_open_buffer(filebuf, filelen, &ro, &err);
    ro.use_mmap = (mode == 2);
    return carquet_reader_open(PATH, &ro, &err);
}

/* transcript of everything a consumer observed (C03: compared byte-for-byte between the I/O modes) */
#define TRMAX 6144
static uint8_t TR[3][TRMAX]; static int TRN[3];
static void tr_put(int m, const void* p, size_t n) { SYMX_ASSERT(TRN[m] + (int)n <= TRMAX, "harness: transcript capacity"); memcpy(TR[m] + TRN[m], p, n); TRN[m] += (int)n; }
static void tr_int(int m, int64_t v) { tr_put(m, &v, 8); }

#if H_PROJ
/* projection k: 0 = all columns; 1..NP by index; NP+1..2NP the same lists by name.  Lists: every tuple of length 1..H_NCOLS */
static int proj_decode(int k, int32_t* idx) {          /* k in 0..NP-1 -> tuple; returns its length */
    int len = 1, cnt = H_NCOLS;
    while (k >= cnt) { k -= cnt; len++; cnt *= H_NCOLS; }
    for (int i = 0; i < len; i++) { idx[i] = k % H_NCOLS; k /= H_NCOLS; }
    return len;
}
static int proj_count(void) { int t = 0, cnt = 1; for (int l = 1; l <= H_NCOLS; l++) { cnt *= H_NCOLS; t += cnt; } return t; }
#endif

void harness(void) {
    table();
    carquet_writer_options_t wo; carquet_writer_options_init(&wo);
    wo.compression = CODEC; wo.page_size = H_PS;
    pq_wstat_t ws;
#ifdef PAGEPATTERN
    /* pages of DIFFERENT sizes (one page per write_batch call): batch boundaries fall inside pages and batch sizes can equal
       the size of a page that was already partly consumed */
    static const int pat[] = { PAGEPATTERN };
    pq_batch_pattern = pat; pq_batch_pattern_len = (int)(sizeof pat / sizeof pat[0]);
    symx_assume(pq_write(PATH, &S, C, RGS, NRG, -1, &wo, &ws) == 0);
#else
    symx_assume(pq_write(PATH, &S, C, RGS, NRG, BATCH, &wo, &ws) == 0);
#endif
    filelen = symx_file_get(PATH, filebuf, sizeof filebuf);
    symx_assume(filelen != (size_t)-1 && filelen < sizeof filebuf);
    carquet_error_t err; memset(&err, 0, sizeof err);
#if OPENMODE == 4
    int openmode = symx_choice(3, "openmode");
#else
    int openmode = OPENMODE;
#endif
    (void)openmode;
#if MODE == 1
    carquet_reader_t* r = open_mode(openmode, -1);
    SYMX_ASSERT(r != NULL, "file written by carquet opens");
    int g = NRG > 1 ? symx_choice(NRG, "row_group") : 0;
    int base = rg_start(g), rows = RGS[g];
    carquet_column_reader_t* cr = carquet_reader_get_column(r, g, 0, &err);
    SYMX_ASSERT(cr != NULL, "column reader");
    int pos = 0;
    uint8_t* vals = malloc((N + 1) * vsize(0)); int16_t* defs = malloc((N + 1) * 2);
    symx_assume(vals && defs);
    for (int step = 0; step < NOPS; step++) {
  #if defined(H_RW_ONLY)
        int op = symx_choice(2, "op");               /* read_batch(k) / skip(k) only */
  #elif defined(H_OPS5)
        int op = symx_choice(5, "op");
  #else
        int op = symx_choice(4, "op");
  #endif
        int k = 0;
        if (op == 0 || op == 1 || op == 4) {
  #ifdef H_KMAX
            k = symx_choice(H_KMAX + 1, "k");        /* every k in 0..H_KMAX, one per path (no solver work in long histories) */
  #else
            static const char* const knames[6] = {"k0", "k1", "k2", "k3", "k4", "k5"};
            uint8_t kb; symx_make_symbolic(&kb, 1, knames[step % 6]); symx_assume(kb <= N + 1);
            k = kb;
  #endif
        }
        int rem = rows - pos;
        if (op == 0 || op == 4) {
            int16_t* dp = op == 0 ? defs : NULL;
            int64_t n = carquet_column_read_batch(cr, vals, k, dp, NULL);
            SYMX_ASSERT(n == (k < rem ? k : rem), "read_batch delivers min(k, remaining) rows");
            if (n > 0) check_read(0, base + pos, n, vals, dp);
            if (n > 0) pos += (int)n;
        } else if (op == 1) {
            int64_t n = carquet_column_skip(cr, k);
            SYMX_ASSERT(n == (k < rem ? k : rem), "skip advances by min(k, remaining)");
            pos += (int)n;
        } else if (op == 2) {
            SYMX_ASSERT(carquet_column_has_next(cr) == (rem > 0), "has_next <=> rows not yet delivered");
            SYMX_ASSERT(carquet_column_remaining(cr) == rem, "remaining() equals rows not yet delivered");
        } else {
            carquet_column_reader_free(cr);
            cr = carquet_reader_get_column(r, g, 0, &err);
            SYMX_ASSERT(cr != NULL, "column reader re-created");
            pos = 0;
        }
    }
    /* whatever the history was, the rest of the column is delivered unchanged */
    SYMX_ASSERT(carquet_column_remaining(cr) == rows - pos, "remaining() after the history");
    SYMX_ASSERT(carquet_column_has_next(cr) == (rows - pos > 0), "has_next after the history");
    int64_t n = carquet_column_read_batch(cr, vals, N + 1, defs, NULL);
    SYMX_ASSERT(n == rows - pos, "the rest of the column is delivered");
    if (n > 0) check_read(0, base + pos, n, vals, defs);
    SYMX_ASSERT(carquet_column_remaining(cr) == 0 && !carquet_column_has_next(cr), "nothing remains after the chunk was delivered");
    free(vals); free(defs);
    carquet_column_reader_free(cr);
    carquet_reader_close(r);
#elif MODE == 2
    /* batch reader: symbolic batch_size; concatenation of batches == column content; equal row counts; bitmap polarity fixed */
  #ifdef H_BSCHOICE
    int bsb = 1 + symx_choice(N + 1, "batch_size");          /* every batch size 1..N+1, one per path */
  #else
    uint8_t bsb; symx_make_symbolic(&bsb, 1, "batch_size"); symx_assume(bsb >= 1 && bsb <= N + 1);
  #endif
    int32_t idx[4] = {1, 0, 0, 0}; const char* names[4] = {"x", NULL, NULL, NULL};
    int nproj = 0, byname = 0;                      /* nproj == 0: all columns */
  #if H_PROJ
    int NP = proj_count();
    int proj = symx_choice(1 + 2 * NP, "projection");
    if (proj > 0) { byname = proj > NP; nproj = proj_decode((proj - 1) % NP, idx); for (int i = 0; i < nproj; i++) names[i] = S.name[idx[i]]; }
  #else
    int proj = symx_choice(3, "projection");        /* 0: all columns, 1: by index {1,0}, 2: by name {"x"} */
    if (proj == 1) nproj = 2;
    if (proj == 2) { nproj = 1; byname = 1; idx[0] = 0; }
  #endif
  #if OPENMODE == 3
    int nmodes = 3;
  #else
    int nmodes = 1;
  #endif
  #ifdef H_VERIFYCHOICE
    int verify = symx_choice(2, "verify_checksums");
  #else
    int verify = -1;         /* reader default */
  #endif
    int polarity = -1;       /* 1: bit set = null, 0: bit set = not null; decided by the first row of a nullable column seen */
    int reqbit = -1;         /* the bit value bitmaps of REQUIRED columns carry (when they carry a bitmap at all) */
    for (int m = 0; m < nmodes; m++) {
        int mode = nmodes == 3 ? m : openmode;
        carquet_reader_t* r = open_mode(mode, verify);
        SYMX_ASSERT(r != NULL, "file opens");
        carquet_batch_reader_config_t bc; carquet_batch_reader_config_init(&bc);
        bc.batch_size = bsb;
        if (nproj && !byname) { bc.column_indices = idx; bc.num_columns = nproj; }
        if (nproj && byname) { bc.column_names = names; bc.num_column_names = nproj; }
        carquet_batch_reader_t* br = carquet_batch_reader_create(r, &bc, &err);
        SYMX_ASSERT(br != NULL, "batch reader created");
        int ncols = nproj ? nproj : H_NCOLS;
        int pos = 0, nb = 0;
        for (int it = 0; it < N + NRG + 2; it++) {
            carquet_row_batch_t* b = NULL;
            carquet_status_t st = carquet_batch_reader_next(br, &b);
            if (st != CARQUET_OK || b == NULL) break;
            int64_t rows = carquet_row_batch_num_rows(b);
            SYMX_ASSERT(carquet_row_batch_num_columns(b) == ncols, "batch has the projected columns");
            SYMX_ASSERT(rows >= 0 && rows <= bsb && pos + rows <= N, "batch row count within batch_size and file");
            tr_int(m, rows);
            for (int c = 0; c < ncols; c++) {
                int fc = nproj ? idx[c] : c;             /* file column delivered at position c of the batch */
                const void* data; const uint8_t* nulls; int64_t nv;
                SYMX_ASSERT(carquet_row_batch_column(b, c, &data, &nulls, &nv) == CARQUET_OK, "column of a batch");
                SYMX_ASSERT(nv == rows, "every column of a batch has the same number of rows");
                int k = 0, d = dense_index(fc, pos);
                for (int i = 0; i < rows; i++) {
                    int isnull_expected = !C[fc].def[pos + i];
                    if (nulls) {
                        int bit = (nulls[i / 8] >> (i % 8)) & 1;
                        if (S.rep[fc] == CARQUET_REPETITION_REQUIRED) {
                            if (reqbit < 0) reqbit = bit;
                            SYMX_ASSERT(bit == reqbit, "null bitmap of a REQUIRED column marks every row the same way");
                        } else {
                            if (polarity < 0) polarity = isnull_expected ? bit : !bit;
                            SYMX_ASSERT(bit == (polarity ? isnull_expected : !isnull_expected), "null bitmap separates null from non-null rows as the definition levels do, with one fixed polarity");
                        }
                        tr_int(m, bit);
                    } else {
                        SYMX_ASSERT(S.rep[fc] == CARQUET_REPETITION_REQUIRED, "a nullable column of a batch carries a null bitmap");
                    }
                    if (isnull_expected) continue;
                    if (S.type[fc] == CARQUET_PHYSICAL_BYTE_ARRAY) {
                        const carquet_byte_array_t* got = (const carquet_byte_array_t*)data + k;
                        SYMX_ASSERT(got->length == C[fc].ba[d + k].length, "byte-array length");
                        for (int j = 0; j < got->length; j++) SYMX_ASSERT(got->data[j] == C[fc].ba[d + k].data[j], "byte-array bytes");
                        tr_int(m, got->length); if (got->length) tr_put(m, got->data, got->length);
                    } else {
                        SYMX_ASSERT(memcmp((const uint8_t*)data + (size_t)k * vsize(fc), C[fc].vals + (size_t)(d + k) * vsize(fc), vsize(fc)) == 0, "batch value equals the stored one");
                        tr_put(m, (const uint8_t*)data + (size_t)k * vsize(fc), vsize(fc));
                    }
                    k++;
                }
            }
            nb++;
            pos += (int)rows;
            carquet_row_batch_free(b);
        }
        SYMX_ASSERT(pos == N, "the concatenation of batches delivers every row exactly once");
        tr_int(m, nb);
        carquet_batch_reader_free(br);
        carquet_reader_close(r);
    }
    if (polarity >= 0 && reqbit >= 0) SYMX_ASSERT(reqbit == (polarity ? 0 : 1), "bitmap of a REQUIRED column marks its rows non-null in the same polarity as the nullable columns");
    for (int m = 1; m < nmodes; m++) {
        SYMX_ASSERT(TRN[m] == TRN[0] && memcmp(TR[m], TR[0], (size_t)TRN[0]) == 0, "same batch boundaries, values and null bitmaps in every I/O mode (byte-for-byte)");
    }
#elif MODE == 4
    /* huge counts: read_batch(k) / skip(k) with k far beyond the rows that exist ("read everything" callers).  The value and
       level buffers are sized for the rows that exist: min(k, remaining) values is all a correct implementation may write. */
    carquet_reader_t* r = open_mode(openmode, -1);
    SYMX_ASSERT(r != NULL, "file written by carquet opens");
    int g = NRG > 1 ? symx_choice(NRG, "row_group") : 0;
    int base = rg_start(g), rows = RGS[g];
    carquet_column_reader_t* cr = carquet_reader_get_column(r, g, 0, &err);
    SYMX_ASSERT(cr != NULL, "column reader");
    uint8_t* vals = malloc((size_t)(rows + 1) * vsize(0)); int16_t* defs = malloc((size_t)(rows + 1) * 2);
    symx_assume(vals && defs);
    int pos = 0;
    if (symx_choice(2, "read_before")) {
        int64_t n0 = carquet_column_read_batch(cr, vals, 2, defs, NULL);
        SYMX_ASSERT(n0 == (rows < 2 ? rows : 2), "small read before");
        if (n0 > 0) check_read(0, base, n0, vals, defs);
        pos = (int)n0;
    }
    static const int64_t KB[6] = {2147483647LL, 2147483648LL, 2147483651LL, 4294967296LL, 4294967298LL, INT64_MAX};
    int64_t k;
    int sel = symx_choice(7, "k_sel");
    if (sel < 6) k = KB[sel];
    else { uint8_t kb8[8]; symx_make_symbolic(kb8, 8, "k"); memcpy(&k, kb8, 8); symx_assume(k >= rows); }       /* any k in [rows, INT64_MAX] */
    int rem = rows - pos;
    if (symx_choice(2, "op") == 0) {
        int64_t n = carquet_column_read_batch(cr, vals, k, defs, NULL);
        SYMX_ASSERT(n == rem, "read_batch(k) delivers min(k, remaining) rows [count >= rows, up to INT64_MAX]");
        if (n > 0 && n <= rem) check_read(0, base + pos, n, vals, defs);
    } else {
        int64_t n = carquet_column_skip(cr, k);
        SYMX_ASSERT(n == rem, "skip(k) advances by min(k, remaining) [count >= rows, up to INT64_MAX]");
    }
    SYMX_ASSERT(carquet_column_remaining(cr) == 0 && !carquet_column_has_next(cr), "nothing remains after a read/skip of at least the remaining rows [count >= rows, up to INT64_MAX]");
    SYMX_ASSERT(carquet_column_read_batch(cr, vals, k, defs, NULL) == 0, "a further read delivers nothing [count >= rows, up to INT64_MAX]");
    free(vals); free(defs);
    carquet_column_reader_free(cr);
    carquet_reader_close(r);
#elif MODE == 3
    /* C03: metadata and column-reader content identical in the three I/O modes (symbolic read size), checksum verification
       on/off; batch data stays readable after further reads until the reader is closed */
  #ifdef H_BSCHOICE
    int kb = 1 + symx_choice(N + 1, "k");                    /* every read size 1..N+1, one per path */
  #else
    uint8_t kb; symx_make_symbolic(&kb, 1, "k"); symx_assume(kb >= 1 && kb <= N + 1);
  #endif
    int verify = symx_choice(2, "verify_checksums");
    for (int m = 0; m < 3; m++) {
        carquet_reader_t* r = open_mode(m, verify);
        SYMX_ASSERT(r != NULL, "file opens in every I/O mode");
        SYMX_ASSERT(carquet_reader_num_rows(r) == N && carquet_reader_num_row_groups(r) == NRG && carquet_reader_num_columns(r) == H_NCOLS, "identical metadata in every I/O mode");
        const carquet_schema_t* sc = carquet_reader_schema(r);
        SYMX_ASSERT(carquet_schema_num_columns(sc) == H_NCOLS && carquet_schema_find_column(sc, "x") == 0 && carquet_schema_find_column(sc, "id") == 1, "identical schema in every I/O mode");
        for (int c = 0; c < H_NCOLS; c++) {
            const carquet_schema_node_t* nd = carquet_schema_get_element(sc, 1 + c);
            SYMX_ASSERT(nd != NULL, "schema element");
            tr_int(m, carquet_schema_node_physical_type(nd)); tr_int(m, carquet_schema_node_repetition(nd)); tr_int(m, carquet_schema_node_type_length(nd));
            tr_int(m, carquet_schema_node_max_def_level(nd)); tr_int(m, carquet_schema_find_column(sc, S.name[c]));
        }
        for (int g = 0; g < NRG; g++) {
            carquet_row_group_metadata_t gm; memset(&gm, 0, sizeof gm);
            SYMX_ASSERT(carquet_reader_row_group_metadata(r, g, &gm) == CARQUET_OK, "row group metadata");
            SYMX_ASSERT(gm.num_rows == RGS[g], "row group row count");
            tr_int(m, gm.num_rows); tr_int(m, gm.total_byte_size); tr_int(m, gm.total_compressed_size);
            for (int c = 0; c < H_NCOLS; c++) {
                carquet_column_reader_t* cr = carquet_reader_get_column(r, g, c, &err);
                SYMX_ASSERT(cr != NULL, "column reader");
                SYMX_ASSERT(carquet_column_remaining(cr) == RGS[g], "remaining() of a fresh column reader");
                int pos = 0;
                for (int it = 0; it < N + 2 && pos < RGS[g]; it++) {
                    _Alignas(16) uint8_t tmp[(N + 1) * 16]; int16_t td[N + 1];
                    int64_t n = carquet_column_read_batch(cr, tmp, kb, td, NULL);
                    SYMX_ASSERT(n > 0 && pos + n <= RGS[g], "reads make progress and stay within the chunk");
                    check_read(c, rg_start(g) + pos, n, tmp, td);
                    tr_int(m, n);
                    pos += (int)n;
                }
                SYMX_ASSERT(pos == RGS[g], "whole chunk delivered");
                carquet_column_reader_free(cr);
            }
        }
        /* lifetime: take the first batch, keep its data pointer, read on, then look at it again before close */
        carquet_batch_reader_config_t bc; carquet_batch_reader_config_init(&bc);
  #ifdef PAGEPATTERN
        int first = pat[0];                      /* = rows of the first page: the zero-copy branch of the batch reader is taken under mmap */
  #else
        int first = RGS[0] < BATCH ? RGS[0] : BATCH;
  #endif
        bc.batch_size = first;
        carquet_batch_reader_t* br = carquet_batch_reader_create(r, &bc, &err);
        SYMX_ASSERT(br != NULL, "batch reader");
        carquet_row_batch_t* b1 = NULL; carquet_row_batch_t* b2 = NULL; carquet_row_batch_t* b3 = NULL;
        SYMX_ASSERT(carquet_batch_reader_next(br, &b1) == CARQUET_OK && b1, "first batch");
        const void* d1; const uint8_t* n1; int64_t nv1;
        SYMX_ASSERT(carquet_row_batch_column(b1, 1, &d1, &n1, &nv1) == CARQUET_OK && nv1 == first, "id column of the first batch");
        (void)carquet_batch_reader_next(br, &b2);
        (void)carquet_batch_reader_next(br, &b3);
        for (int i = 0; i < first; i++) { int32_t v; memcpy(&v, (const uint8_t*)d1 + 4 * i, 4); SYMX_ASSERT(v == 1000 + i, "data of an earlier batch is still valid after further reads"); }
        carquet_row_batch_free(b3); carquet_row_batch_free(b2);
        carquet_batch_reader_free(br);
        for (int i = 0; i < first; i++) { int32_t v; memcpy(&v, (const uint8_t*)d1 + 4 * i, 4); SYMX_ASSERT(v == 1000 + i, "data of a batch is still valid after the batch reader was freed (until the batch is freed / the reader closed)"); }
        carquet_row_batch_free(b1);
        carquet_reader_close(r);
    }
    for (int m = 1; m < 3; m++)
        SYMX_ASSERT(TRN[m] == TRN[0] && memcmp(TR[m], TR[0], (size_t)TRN[0]) == 0, "identical metadata and read results in every I/O mode (byte-for-byte)");
#endif
}
