/* C02 / C03 — what a reader returns does not depend on how the caller consumes it, nor on the I/O path (engine E2).
 * The file is produced in the same run by the real writer (concrete content, several pages per chunk); the CALL HISTORY
 * is symbolic: each of NOPS operations is a symbolic choice among read_batch(k), skip(k), has_next/remaining and
 * re-creation of the column reader, with symbolic k in 0..N+1.  A reference cursor over the known logical content
 * gives the expected result of every call.  Convention for nullable columns (the one the writer API documents and the
 * repository's own example uses): a read of n rows delivers n definition levels and the non-null values of those rows
 * densely packed at the start of the value buffer.
 * MODE 1: column reader history      MODE 2: batch reader (symbolic batch_size, projection)
 * OPENMODE: 0 buffer, 1 stdio, 2 mmap, 3 = all three in one path with pairwise comparison (C03) */
#include "pq_common.h"

#ifndef N
#define N 9
#endif
#ifndef NOPS
#define NOPS 2
#endif
#ifndef BATCH
#define BATCH 3          /* rows per write_batch call = rows per page (page_size is tiny) */
#endif
#ifndef COLTYPE
#define COLTYPE 0        /* 0 INT32 OPTIONAL, 1 INT64 REQUIRED, 2 BYTE_ARRAY OPTIONAL, 3 BOOLEAN OPTIONAL, 4 DOUBLE OPTIONAL */
#endif
#ifndef CODEC
#define CODEC CARQUET_COMPRESSION_UNCOMPRESSED
#endif
#define PATH "/mem/t.parquet"

static pq_schema_t S; static pq_column_t C[PQ_MAXCOLS];
static const int16_t DEFPAT[24] = {1,0,1, 1,0,0, 0,1,1, 1,1,1, 0,0,0, 1,0,1, 0,1,0, 1,1,0};

static void table(void) {
    memset(&S, 0, sizeof S); memset(C, 0, sizeof C);
    S.ncols = 2;
    S.name[0] = "x"; S.name[1] = "id";
    S.type[1] = CARQUET_PHYSICAL_INT32; S.rep[1] = CARQUET_REPETITION_REQUIRED;
    for (int i = 0; i < N; i++) { int32_t v = 1000 + i; memcpy(C[1].vals + 4 * i, &v, 4); }
#if COLTYPE == 0
    S.type[0] = CARQUET_PHYSICAL_INT32; S.rep[0] = CARQUET_REPETITION_OPTIONAL;
#elif COLTYPE == 1
    S.type[0] = CARQUET_PHYSICAL_INT64; S.rep[0] = CARQUET_REPETITION_REQUIRED;
#elif COLTYPE == 2
    S.type[0] = CARQUET_PHYSICAL_BYTE_ARRAY; S.rep[0] = CARQUET_REPETITION_OPTIONAL;
#elif COLTYPE == 3
    S.type[0] = CARQUET_PHYSICAL_BOOLEAN; S.rep[0] = CARQUET_REPETITION_OPTIONAL;
#else
    S.type[0] = CARQUET_PHYSICAL_DOUBLE; S.rep[0] = CARQUET_REPETITION_OPTIONAL;
#endif
    int nv = 0;
    for (int i = 0; i < N; i++) {
        C[0].def[i] = S.rep[0] == CARQUET_REPETITION_REQUIRED ? 1 : DEFPAT[i];
        if (!C[0].def[i]) continue;
#if COLTYPE == 0
        int32_t v = 10 * (i + 1); memcpy(C[0].vals + 4 * nv, &v, 4);
#elif COLTYPE == 1
        int64_t v = -7 + 100000000000LL * i; memcpy(C[0].vals + 8 * nv, &v, 8);
#elif COLTYPE == 2
        C[0].ba_bytes[3 * nv] = 'a' + i; C[0].ba_bytes[3 * nv + 1] = 'A' + i; C[0].ba_bytes[3 * nv + 2] = '0' + i;
        C[0].ba[nv].data = C[0].ba_bytes + 3 * nv; C[0].ba[nv].length = (i % 4);      /* lengths 0..3 */
#elif COLTYPE == 3
        C[0].vals[nv] = (uint8_t)((i * 5 + 1) % 3 == 0);
#else
        double v = 0.5 * i - 2; memcpy(C[0].vals + 8 * nv, &v, 8);
#endif
        nv++;
    }
    C[0].nrows = C[1].nrows = N;
}
static size_t vsize(void) { return COLTYPE == 0 ? 4 : COLTYPE == 1 ? 8 : COLTYPE == 2 ? sizeof(carquet_byte_array_t) : COLTYPE == 3 ? 1 : 8; }
static int dense_index(int row) { int n = 0; for (int i = 0; i < row; i++) if (C[0].def[i]) n++; return n; }

/* compare the result of a read of `n` rows starting at logical row `pos` with the known content */
static void check_read(int pos, int64_t n, const uint8_t* vals, const int16_t* defs) {
    int d = dense_index(pos), k = 0;
    for (int i = 0; i < n; i++) {
        if (S.rep[0] != CARQUET_REPETITION_REQUIRED) SYMX_ASSERT(defs[i] == C[0].def[pos + i], "definition level equals the stored one");
        if (!C[0].def[pos + i]) continue;
#if COLTYPE == 2
        const carquet_byte_array_t* got = (const carquet_byte_array_t*)vals + k;
        SYMX_ASSERT(got->length == C[0].ba[d + k].length, "byte-array length equals the stored one");
        for (int j = 0; j < C[0].ba[d + k].length; j++) SYMX_ASSERT(got->data[j] == C[0].ba[d + k].data[j], "byte-array bytes equal the stored ones (and are still readable right after the call)");
#else
        SYMX_ASSERT(memcmp(vals + (size_t)k * vsize(), C[0].vals + (size_t)(d + k) * vsize(), vsize()) == 0, "non-null value equals the stored one (dense packing)");
#endif
        k++;
    }
}

static uint8_t filebuf[4096]; static size_t filelen;
static carquet_reader_t* open_mode(int mode) {
    carquet_reader_options_t ro; carquet_reader_options_init(&ro);
    carquet_error_t err; memset(&err, 0, sizeof err);
    if (mode == 0) return carquet_reader_open_buffer(filebuf, filelen, &ro, &err);
    ro.use_mmap = (mode == 2);
    return carquet_reader_open(PATH, &ro, &err);
}

void harness(void) {
    table();
    carquet_writer_options_t wo; carquet_writer_options_init(&wo);
    wo.compression = CODEC; wo.page_size = 1;          /* every write_batch call ends its page */
    int rg[1] = { N }; pq_wstat_t ws;
#ifdef PAGEPATTERN
    /* pages of DIFFERENT sizes (one page per write_batch call): batch boundaries fall inside pages and batch sizes can equal
       the size of a page that was already partly consumed */
    static const int pat[] = { PAGEPATTERN };
    pq_batch_pattern = pat; pq_batch_pattern_len = (int)(sizeof pat / sizeof pat[0]);
    symx_assume(pq_write(PATH, &S, C, rg, 1, -1, &wo, &ws) == 0);
#else
    symx_assume(pq_write(PATH, &S, C, rg, 1, BATCH, &wo, &ws) == 0);
#endif
    filelen = symx_file_get(PATH, filebuf, sizeof filebuf);
    symx_assume(filelen != (size_t)-1);
    carquet_error_t err; memset(&err, 0, sizeof err);
#if MODE == 1
    carquet_reader_t* r = open_mode(OPENMODE);
    SYMX_ASSERT(r != NULL, "file written by carquet opens");
    carquet_column_reader_t* cr = carquet_reader_get_column(r, 0, 0, &err);
    SYMX_ASSERT(cr != NULL, "column reader");
    int pos = 0;
    uint8_t* vals = malloc((N + 1) * vsize()); int16_t* defs = malloc((N + 1) * 2);
    symx_assume(vals && defs);
    for (int step = 0; step < NOPS; step++) {
        int op = symx_choice(4, "op");
        uint8_t kb; symx_make_symbolic(&kb, 1, "k"); symx_assume(kb <= N + 1);
        int k = kb;
        int rem = N - pos;
        if (op == 0) {
            int64_t n = carquet_column_read_batch(cr, vals, k, defs, NULL);
            SYMX_ASSERT(n == (k < rem ? k : rem), "read_batch delivers min(k, remaining) rows");
            if (n > 0) check_read(pos, n, vals, defs);
            if (n > 0) pos += (int)n;
        } else if (op == 1) {
            int64_t n = carquet_column_skip(cr, k);
            SYMX_ASSERT(n == (k < rem ? k : rem), "skip advances by min(k, remaining)");
            pos += (int)n;
        } else if (op == 2) {
            SYMX_ASSERT(carquet_column_has_next(cr) == (rem > 0), "has_next <=> rows not yet delivered");
            SYMX_ASSERT(carquet_column_remaining(cr) == rem, "remaining() equals rows not yet delivered");
        } else {
            carquet_column_reader_free(cr);
            cr = carquet_reader_get_column(r, 0, 0, &err);
            SYMX_ASSERT(cr != NULL, "column reader re-created");
            pos = 0;
        }
    }
    /* whatever the history was, the rest of the column is delivered unchanged */
    SYMX_ASSERT(carquet_column_remaining(cr) == N - pos, "remaining() after the history");
    int64_t n = carquet_column_read_batch(cr, vals, N + 1, defs, NULL);
    SYMX_ASSERT(n == N - pos, "the rest of the column is delivered");
    if (n > 0) check_read(pos, n, vals, defs);
    free(vals); free(defs);
    carquet_column_reader_free(cr);
    carquet_reader_close(r);
#elif MODE == 2
    /* batch reader: symbolic batch_size; concatenation of batches == column content; equal row counts; bitmap polarity fixed */
    uint8_t bsb; symx_make_symbolic(&bsb, 1, "batch_size"); symx_assume(bsb >= 1 && bsb <= N + 1);
    int proj = symx_choice(3, "projection");        /* 0: all columns, 1: by index {1,0}, 2: by name {"x"} */
  #if OPENMODE == 3
    int nmodes = 3;
  #else
    int nmodes = 1;
  #endif
    static uint8_t seen_vals[3][N * 16]; static uint8_t seen_null[3][N]; static int seen_rows[3]; static int seen_batches[3][N + 2];
    int polarity = -1;       /* 1: bit set = null, 0: bit set = not null; decided by the first nullable row seen */
    for (int m = 0; m < nmodes; m++) {
        int mode = nmodes == 3 ? m : OPENMODE;
        carquet_reader_t* r = open_mode(mode);
        SYMX_ASSERT(r != NULL, "file opens");
        carquet_batch_reader_config_t bc; carquet_batch_reader_config_init(&bc);
        bc.batch_size = bsb;
        int32_t idx[2] = {1, 0}; const char* names[1] = {"x"};
        if (proj == 1) { bc.column_indices = idx; bc.num_columns = 2; }
        if (proj == 2) { bc.column_names = names; bc.num_column_names = 1; }
        carquet_batch_reader_t* br = carquet_batch_reader_create(r, &bc, &err);
        SYMX_ASSERT(br != NULL, "batch reader created");
        int xcol = proj == 1 ? 1 : 0;                /* position of column "x" inside a batch */
        int ncols = proj == 2 ? 1 : 2;
        int pos = 0, nb = 0;
        for (int it = 0; it < N + 2; it++) {
            carquet_row_batch_t* b = NULL;
            carquet_status_t st = carquet_batch_reader_next(br, &b);
            if (st != CARQUET_OK || b == NULL) break;
            int64_t rows = carquet_row_batch_num_rows(b);
            SYMX_ASSERT(carquet_row_batch_num_columns(b) == ncols, "batch has the projected columns");
            SYMX_ASSERT(rows >= 0 && rows <= bsb && pos + rows <= N, "batch row count within batch_size and file");
            for (int c = 0; c < ncols; c++) {
                const void* data; const uint8_t* nulls; int64_t nv;
                SYMX_ASSERT(carquet_row_batch_column(b, c, &data, &nulls, &nv) == CARQUET_OK, "column of a batch");
                SYMX_ASSERT(nv == rows, "every column of a batch has the same number of rows");
                if (c != xcol) {
                    for (int i = 0; i < rows; i++) { int32_t v; memcpy(&v, (const uint8_t*)data + 4 * i, 4); SYMX_ASSERT(v == 1000 + pos + i, "id column rows are aligned with the batch position"); }
                    continue;
                }
                int k = 0, d = dense_index(pos);
                for (int i = 0; i < rows; i++) {
                    int isnull_expected = !C[0].def[pos + i];
                    if (S.rep[0] != CARQUET_REPETITION_REQUIRED && nulls) {
                        int bit = (nulls[i / 8] >> (i % 8)) & 1;
                        if (polarity < 0) polarity = isnull_expected ? bit : !bit;
                        SYMX_ASSERT(bit == (polarity ? isnull_expected : !isnull_expected), "null bitmap separates null from non-null rows as the definition levels do, with one fixed polarity");
                        seen_null[m][pos + i] = (uint8_t)bit;
                    }
                    if (isnull_expected) continue;
  #if COLTYPE == 2
                    const carquet_byte_array_t* got = (const carquet_byte_array_t*)data + k;
                    SYMX_ASSERT(got->length == C[0].ba[d + k].length, "byte-array length");
                    for (int j = 0; j < got->length; j++) SYMX_ASSERT(got->data[j] == C[0].ba[d + k].data[j], "byte-array bytes");
  #else
                    SYMX_ASSERT(memcmp((const uint8_t*)data + (size_t)k * vsize(), C[0].vals + (size_t)(d + k) * vsize(), vsize()) == 0, "batch value equals the stored one");
                    memcpy(seen_vals[m] + (size_t)(d + k) * vsize(), (const uint8_t*)data + (size_t)k * vsize(), vsize());
  #endif
                    k++;
                }
            }
            seen_batches[m][nb++] = (int)rows;
            pos += (int)rows;
            carquet_row_batch_free(b);
        }
        SYMX_ASSERT(pos == N, "the concatenation of batches delivers every row exactly once");
        seen_rows[m] = nb;
        carquet_batch_reader_free(br);
        carquet_reader_close(r);
    }
    for (int m = 1; m < nmodes; m++) {
        SYMX_ASSERT(seen_rows[m] == seen_rows[0], "same number of batches in every I/O mode");
        SYMX_ASSERT(memcmp(seen_batches[m], seen_batches[0], sizeof seen_batches[0]) == 0, "same batch boundaries in every I/O mode");
        SYMX_ASSERT(memcmp(seen_null[m], seen_null[0], N) == 0, "same null bitmap in every I/O mode");
    }
#elif MODE == 3
    /* C03: metadata and column-reader content identical in the three I/O modes (symbolic read size), checksum verification
       on/off; zero-copy batch data stays readable after further reads until the reader is closed */
    uint8_t kb; symx_make_symbolic(&kb, 1, "k"); symx_assume(kb >= 1 && kb <= N + 1);
    int verify = symx_choice(2, "verify_checksums");
    static uint8_t got_vals[3][(N + 1) * 16]; static int16_t got_defs[3][N + 1]; static int got_rows[3];
    for (int m = 0; m < 3; m++) {
        carquet_reader_options_t ro; carquet_reader_options_init(&ro);
        ro.verify_checksums = verify; ro.use_mmap = (m == 2);
        memset(&err, 0, sizeof err);
        carquet_reader_t* r = m == 0 ? carquet_reader_open_buffer(filebuf, filelen, &ro, &err) : carquet_reader_open(PATH, &ro, &err);
        SYMX_ASSERT(r != NULL, "file opens in every I/O mode");
        SYMX_ASSERT(carquet_reader_num_rows(r) == N && carquet_reader_num_row_groups(r) == 1 && carquet_reader_num_columns(r) == 2, "identical metadata in every I/O mode");
        const carquet_schema_t* sc = carquet_reader_schema(r);
        SYMX_ASSERT(carquet_schema_num_columns(sc) == 2 && carquet_schema_find_column(sc, "x") == 0 && carquet_schema_find_column(sc, "id") == 1, "identical schema in every I/O mode");
        carquet_column_reader_t* cr = carquet_reader_get_column(r, 0, 0, &err);
        SYMX_ASSERT(cr != NULL, "column reader");
        memset(got_vals[m], 0, sizeof got_vals[m]); memset(got_defs[m], 0, sizeof got_defs[m]);
        int pos = 0, dense = 0;
        for (int it = 0; it < N + 2 && pos < N; it++) {
            uint8_t tmp[(N + 1) * 16]; int16_t td[N + 1];
            int64_t n = carquet_column_read_batch(cr, tmp, kb, td, NULL);
            SYMX_ASSERT(n > 0 && pos + n <= N, "reads make progress and stay within the chunk");
            check_read(pos, n, tmp, td);
            pos += (int)n;
        }
        got_rows[m] = pos;
        SYMX_ASSERT(pos == N, "whole chunk delivered");
        carquet_column_reader_free(cr);
        /* zero-copy lifetime: take the first batch, keep its data pointer, read on, then look at it again before close */
        carquet_batch_reader_config_t bc; carquet_batch_reader_config_init(&bc);
        bc.batch_size = BATCH;
        carquet_batch_reader_t* br = carquet_batch_reader_create(r, &bc, &err);
        SYMX_ASSERT(br != NULL, "batch reader");
        carquet_row_batch_t* b1 = NULL; carquet_row_batch_t* b2 = NULL;
        SYMX_ASSERT(carquet_batch_reader_next(br, &b1) == CARQUET_OK && b1, "first batch");
        const void* d1; const uint8_t* n1; int64_t nv1;
        SYMX_ASSERT(carquet_row_batch_column(b1, 1, &d1, &n1, &nv1) == CARQUET_OK && nv1 == BATCH, "id column of the first batch");
        (void)carquet_batch_reader_next(br, &b2);
        for (int i = 0; i < BATCH; i++) { int32_t v; memcpy(&v, (const uint8_t*)d1 + 4 * i, 4); SYMX_ASSERT(v == 1000 + i, "data of an earlier batch is still valid after further reads"); }
        carquet_row_batch_free(b2); carquet_row_batch_free(b1);
        carquet_batch_reader_free(br);
        carquet_reader_close(r);
    }
#endif
}
