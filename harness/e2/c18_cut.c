/* C18 — truncated files are rejected; failed writes are never reported OK; abort leaves nothing behind (engine E2).
 * MODE 1: real writer produces a file, then a SYMBOLIC cut length k < len; open_buffer / stdio open / mmap open must fail.
 * MODE 2: sink faults — every fwrite/fflush/fclose of the write history forks a failing variant; some writer call must be non-OK.
 * MODE 3: carquet_writer_abort after a prefix of the write history: no live heap object, no file left behind. */
#include "pq_common.h"

#ifndef CODEC
#define CODEC CARQUET_COMPRESSION_UNCOMPRESSED
#endif
#ifndef ROWS
#define ROWS 4
#endif
#ifndef SHAPE
#define SHAPE 0
#endif

static void table(pq_schema_t* s, pq_column_t* cols) {
    memset(s, 0, sizeof *s); memset(cols, 0, sizeof(pq_column_t) * PQ_MAXCOLS);
#if SHAPE == 0          /* INT32 REQUIRED + INT64 OPTIONAL */
    s->ncols = 2;
    s->name[0] = "a"; s->type[0] = CARQUET_PHYSICAL_INT32; s->rep[0] = CARQUET_REPETITION_REQUIRED;
    s->name[1] = "b"; s->type[1] = CARQUET_PHYSICAL_INT64; s->rep[1] = CARQUET_REPETITION_OPTIONAL;
    for (int i = 0; i < ROWS; i++) { int32_t v = 100 + i; memcpy(cols[0].vals + 4 * i, &v, 4); }
    int nv = 0;
    for (int i = 0; i < ROWS; i++) { cols[1].def[i] = (i % 3) != 1; if (cols[1].def[i]) { int64_t v = -5 + 1000 * (int64_t)i; memcpy(cols[1].vals + 8 * nv, &v, 8); nv++; } }
#elif SHAPE == 2        /* INT32 REQUIRED whose page body contains bytes that look like <huge footer length> "PAR1":
                           a cut right behind them presents a prefix ending in a plausible-looking file tail */
    s->ncols = 2;
    s->name[0] = "a"; s->type[0] = CARQUET_PHYSICAL_INT32; s->rep[0] = CARQUET_REPETITION_REQUIRED;
    s->name[1] = "b"; s->type[1] = CARQUET_PHYSICAL_INT64; s->rep[1] = CARQUET_REPETITION_REQUIRED;
    {
        static const int32_t av[8] = {1, -8, 0x31524150, -1, 0x31524150, 12, 0x31524150, 5};
        for (int i = 0; i < ROWS; i++) { int32_t v = av[i % 8]; memcpy(cols[0].vals + 4 * i, &v, 4); }
        for (int i = 0; i < ROWS; i++) { int64_t v = ((int64_t)0x31524150 << 32) | 0xFFFFFFFCu; memcpy(cols[1].vals + 8 * i, &v, 8); }
    }
#else                   /* BYTE_ARRAY REQUIRED + DOUBLE REQUIRED */
    s->ncols = 2;
    s->name[0] = "s"; s->type[0] = CARQUET_PHYSICAL_BYTE_ARRAY; s->rep[0] = CARQUET_REPETITION_REQUIRED;
    s->name[1] = "d"; s->type[1] = CARQUET_PHYSICAL_DOUBLE; s->rep[1] = CARQUET_REPETITION_REQUIRED;
    for (int i = 0; i < ROWS; i++) {
        cols[0].ba_bytes[2 * i] = 'a' + i; cols[0].ba_bytes[2 * i + 1] = 'z';
        cols[0].ba[i].data = cols[0].ba_bytes + 2 * i; cols[0].ba[i].length = i % 3;
        double d = 1.5 * i; memcpy(cols[1].vals + 8 * i, &d, 8);
    }
#endif
    cols[0].nrows = cols[1].nrows = ROWS;
}

#define PATH "/mem/t.parquet"
static uint8_t filebuf[4096];

void harness(void) {
    pq_schema_t s; static pq_column_t cols[PQ_MAXCOLS];
    table(&s, cols);
    carquet_writer_options_t wo; carquet_writer_options_init(&wo);
    wo.compression = CODEC;
#ifdef PAGE_SIZE
    wo.page_size = PAGE_SIZE;
#endif
    int rg[2] = { ROWS - ROWS / 2, ROWS / 2 };
    pq_wstat_t ws;
#if MODE == 1
    int rc = pq_write(PATH, &s, cols, rg, 2, 0, &wo, &ws);
    symx_assume(rc == 0);
    size_t len = symx_file_get(PATH, filebuf, sizeof filebuf);
    symx_assume(len != (size_t)-1 && len > 12);
    symx_observe_int(len, "file length");
    /* the complete file opens */
    carquet_error_t err; memset(&err, 0, sizeof err);
    carquet_reader_t* full = carquet_reader_open_buffer(filebuf, len, NULL, &err);
    SYMX_ASSERT(full != NULL, "the complete file opens");
    SYMX_ASSERT(carquet_reader_num_rows(full) == ROWS, "complete file has all rows");
    carquet_reader_close(full);
    /* symbolic cut */
    uint16_t k; symx_make_symbolic(&k, 2, "cut");
    symx_assume(k < len);
    uint8_t* cutbuf = malloc(k ? k : 1); symx_assume(cutbuf != NULL);   /* exact-size: reads past the cut are bounds violations */
    memcpy(cutbuf, filebuf, k);
  #if OPENMODE == 0
    memset(&err, 0, sizeof err);
    carquet_reader_t* r = carquet_reader_open_buffer(cutbuf, k, NULL, &err);
    SYMX_ASSERT(r == NULL, "a proper prefix of the file must be rejected (open_buffer)");
    SYMX_ASSERT(err.code != CARQUET_OK, "rejection carries a non-OK error code");
  #else
    symx_file_put("/mem/cut.parquet", cutbuf, k);
    carquet_reader_options_t ro; carquet_reader_options_init(&ro);
    ro.use_mmap = (OPENMODE == 2);
    memset(&err, 0, sizeof err);
    carquet_reader_t* r = carquet_reader_open("/mem/cut.parquet", &ro, &err);
    SYMX_ASSERT(r == NULL, "a proper prefix of the file must be rejected (open by path)");
    SYMX_ASSERT(err.code != CARQUET_OK, "rejection carries a non-OK error code");
  #endif
    free(cutbuf);
#elif MODE == 2
    symx_fault_io(1);
    int rc = pq_write(PATH, &s, cols, rg, 2, 0, &wo, &ws);
    symx_fault_io(0);
    if (symx_io_failed()) {
        SYMX_ASSERT(!ws.create_ok || rc != 0, "a sink failure (write/flush/close) must surface as a non-OK writer call, at the latest from close");
    } else {
        SYMX_ASSERT(rc == 0, "fault-free write succeeds");
    }
    symx_check_leaks();
#elif MODE == 3
    /* abort after a symbolic-choice prefix of the call history */
    carquet_error_t err; memset(&err, 0, sizeof err);
    carquet_schema_t* sc = pq_make_schema(&s);
    symx_assume(sc != NULL);
    carquet_writer_t* w = carquet_writer_create(PATH, sc, &wo, &err);
    symx_assume(w != NULL);
    int stop = symx_choice(4, "abort after");
    if (stop >= 1) (void)carquet_writer_write_batch(w, 0, cols[0].vals, ROWS, NULL, NULL);
    if (stop >= 2) (void)carquet_writer_write_batch(w, 1, cols[1].vals, ROWS, s.rep[1] == CARQUET_REPETITION_REQUIRED ? NULL : cols[1].def, NULL);
    if (stop >= 3) (void)carquet_writer_new_row_group(w);
    carquet_writer_abort(w);
    carquet_schema_free(sc);
    SYMX_ASSERT(symx_file_size(PATH) == (size_t)-1, "abort leaves no file behind for a path-based writer");
    symx_check_leaks();
#endif
}
