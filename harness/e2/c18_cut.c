/* C18 — truncated files are rejected; failed writes are never reported OK; abort leaves nothing behind (engine E2).
 * The table shape comes from c18_tables.h: VC_SPECS is a comma-separated list of column specs (one symx_choice picks the table),
 * VC_ROWS rows in VC_NRG row groups, VC_BATCH rows per write_batch call (page_size 1: every call closes a page), VC_FLAVOUR =
 * content * 8 + null pattern, CODEC, VC_FILEAPI 0 = carquet_writer_create(path) / 1 = carquet_writer_create_file(FILE*).
 * VC_MODE 1: the real writer produces the file, then EVERY cut length k < len (symx_choice over the concrete length): open_buffer /
 *            open by path through stdio / through mmap (VC_OPEN 0/1/2) must fail with a non-OK error code.
 * VC_MODE 2: sink faults — every fwrite/fflush/fclose of the write history forks failing variants; some writer call must be non-OK.
 * VC_MODE 3: carquet_writer_abort after every prefix of the call history (optionally with a sink fault somewhere in the prefix or
 *            in abort's own fclose, optionally after a rejected call): no live heap object, no file left behind (path writers).
 * VC_MODE 4: a BYTE_ARRAY value ends in <L> "PAR1" with EVERY 32-bit L (symbolic); the prefix cut right behind it is rejected
 *            unless the independent reference reader accepts that prefix as a complete Parquet file. */
#include "c18_tables.h"
#if VC_MODE == 4
#include "ref_parquet_read.h"
#endif

#ifndef CODEC
#define CODEC CARQUET_COMPRESSION_UNCOMPRESSED
#endif
#ifndef VC_SPECS
#define VC_SPECS "Il"
#endif
#ifndef VC_ROWS
#define VC_ROWS 4
#endif
#ifndef VC_NRG
#define VC_NRG 2
#endif
#ifndef VC_BATCH
#define VC_BATCH 0
#endif
#ifndef VC_PS
#define VC_PS 1
#endif
#ifndef VC_FLAVOUR
#define VC_FLAVOUR 0
#endif
#ifndef VC_FILEAPI
#define VC_FILEAPI 0
#endif
#ifndef VC_OPEN
#define VC_OPEN 0
#endif
#ifndef VC_STATS
#define VC_STATS 1
#endif

#define PATH "/mem/t.parquet"
#define FILECAP 8192
static uint8_t filebuf[FILECAP];
static pq_schema_t S; static pq_column_t C[PQ_MAXCOLS];

static carquet_reader_t* open_prefix(const uint8_t* buf, size_t k, carquet_error_t* err) {
    memset(err, 0, sizeof *err);
#if VC_OPEN == 0
    return carquet_reader_open_buffer(buf, k, NULL, err);
#else
    symx_file_put("/mem/cut.parquet", buf, k);
    carquet_reader_options_t ro; carquet_reader_options_init(&ro);
    ro.use_mmap = (VC_OPEN == 2);
    return carquet_reader_open("/mem/cut.parquet", &ro, err);
#endif
}

/* carquet opened a proper prefix (buf[0..k)).  complete = the prefix is itself a complete Parquet file (then accepting it is allowed).
 * Otherwise it is a violation; the message separates the class of the open finding F-FOOTER-NO-REQUIRED — the envelope is well formed
 * ("PAR1" ... <L> "PAR1" with 1 <= L <= k-8, the bound carquet itself applies), so acceptance was decided by the FileMetaData parser alone, which takes bytes without
 * the required fields for a footer — from everything else (magic / length / size checks), which stays a plain violation. */
static void accepted_prefix(carquet_reader_t* r, const uint8_t* buf, size_t k, int complete) {
    if (!complete) {
        int envelope = 0;
        if (k >= 12 && memcmp(buf, "PAR1", 4) == 0 && memcmp(buf + k - 4, "PAR1", 4) == 0) {
            uint32_t L = (uint32_t)buf[k - 8] | ((uint32_t)buf[k - 7] << 8) | ((uint32_t)buf[k - 6] << 16) | ((uint32_t)buf[k - 5] << 24);
            envelope = (L >= 1 && L <= k - 8);
        }
#ifdef EXCLUDE_F_FOOTER_NO_REQUIRED
        /* open known finding (reported through its witness program) */
        if (envelope) { carquet_reader_close(r); return; }
#endif
        SYMX_ASSERT(!envelope, "a proper prefix of the file must be rejected [footer without required FileMetaData fields accepted]");
        SYMX_ASSERT(0, "a proper prefix of the file must be rejected (it was opened although it does not even end in a footer length and magic)");
    }
    carquet_reader_close(r);
}

void harness(void) {
    int nspecs = vt_spec_count(VC_SPECS);
    int si = nspecs > 1 ? symx_choice(nspecs, "table") : 0;
    int nc = vt_table(&S, C, vt_spec_at(VC_SPECS, si), VC_ROWS, VC_FLAVOUR);
    SYMX_ASSERT(nc > 0, "harness: bad table spec");
    carquet_writer_options_t wo; carquet_writer_options_init(&wo);
    wo.compression = CODEC; wo.page_size = VC_PS; wo.write_statistics = VC_STATS;
    int rg[4]; vt_split(VC_ROWS, VC_NRG, rg);
    pq_wstat_t ws; FILE* fp = NULL;
#if VC_MODE == 1
    int rc = vt_write(PATH, VC_FILEAPI, &S, C, rg, VC_NRG, VC_BATCH, &wo, &ws, &fp);
    if (fp) fclose(fp);
    SYMX_ASSERT(rc == 0, "harness precondition: the fault-free write of the table succeeds");
    size_t len = symx_file_get(PATH, filebuf, sizeof filebuf);
    SYMX_ASSERT(len != (size_t)-1 && len > 12, "harness precondition: the written file exists");
    symx_observe_int(len, "file length");
    /* the complete file opens */
    carquet_error_t err; memset(&err, 0, sizeof err);
    carquet_reader_t* full = carquet_reader_open_buffer(filebuf, len, NULL, &err);
    SYMX_ASSERT(full != NULL, "the complete file opens");
    SYMX_ASSERT(carquet_reader_num_rows(full) == VC_ROWS, "complete file has all rows");
    carquet_reader_close(full);
    /* every cut */
    size_t k = (size_t)symx_choice((int)len, "cut");
    uint8_t* cutbuf = malloc(k ? k : 1); symx_assume(cutbuf != NULL);   /* exact-size: reads past the cut are bounds violations */
    memcpy(cutbuf, filebuf, k);
    carquet_reader_t* r = open_prefix(cutbuf, k, &err);
    if (r != NULL) { accepted_prefix(r, cutbuf, k, 0); free(cutbuf); return; }
    SYMX_ASSERT(err.code != CARQUET_OK, "rejection carries a non-OK error code");
    free(cutbuf);
    symx_check_leaks();
#elif VC_MODE == 2
    symx_fault_io(1);
    int rc = vt_write(PATH, VC_FILEAPI, &S, C, rg, VC_NRG, VC_BATCH, &wo, &ws, &fp);
    symx_fault_io(0);
    if (fp) fclose(fp);                   /* the caller's own stream (carquet_writer_create_file does not own it) */
    if (symx_io_failed()) {
        SYMX_ASSERT(!ws.create_ok || rc != 0, "a sink failure (write/flush/close) must surface as a non-OK writer call, at the latest from close");
    } else {
        SYMX_ASSERT(rc == 0, "fault-free write succeeds");
    }
    symx_check_leaks();
#elif VC_MODE == 3
    carquet_error_t err; memset(&err, 0, sizeof err);
    carquet_schema_t* sc = pq_make_schema(&S);
    symx_assume(sc != NULL);
    carquet_writer_t* w = vt_create(PATH, VC_FILEAPI, sc, &wo, &fp, &err);
    SYMX_ASSERT(w != NULL, "harness precondition: the writer can be created");
    static vt_op_t ops[VT_MAXOPS];
    int nops = vt_history(&S, rg, VC_NRG, VC_BATCH, ops);
    int stop = symx_choice(nops + 1, "abort after");
  #ifdef VC_ABORT_FAULT
    symx_fault_io(1);                     /* one sink fault somewhere in the prefix or in abort's own fclose */
  #endif
    for (int i = 0; i < stop; i++) (void)vt_apply(w, &S, C, &ops[i]);
  #ifdef VC_ABORT_BADOP
    {   /* calls the writer rejects: a column index out of range and a negative one */
        int32_t z = 0;
        carquet_status_t b1 = carquet_writer_write_batch(w, S.ncols, &z, 1, NULL, NULL);
        carquet_status_t b2 = carquet_writer_write_batch(w, -1, &z, 1, NULL, NULL);
        symx_observe_int((uint64_t)(b1 != CARQUET_OK) * 2 + (b2 != CARQUET_OK), "rejected calls");
    }
  #endif
    carquet_writer_abort(w);
    symx_fault_io(0);
    if (fp) fclose(fp);
    carquet_schema_free(sc);
  #if !VC_FILEAPI
    SYMX_ASSERT(symx_file_size(PATH) == (size_t)-1, "abort leaves no file behind for a path-based writer");
  #endif
    symx_check_leaks();
#elif VC_MODE == 4
    /* one REQUIRED BYTE_ARRAY column (plus what VC_SPECS says behind it); value VC_TROW is 8 bytes  <L> "PAR1".  First pass with a
     * concrete marker to find where the value lands in the file, second pass with L symbolic (same layout: only 4 body bytes differ). */
    static uint8_t tailval[8] = {0xDD, 0xCC, 0xBB, 0xAA, 'P', 'A', 'R', '1'};
    SYMX_ASSERT(S.type[0] == CARQUET_PHYSICAL_BYTE_ARRAY && S.rep[0] == CARQUET_REPETITION_REQUIRED, "harness: MODE 4 needs spec S...");
    C[0].ba[VC_TROW].data = tailval; C[0].ba[VC_TROW].length = 8;
    int rc = vt_write(PATH, VC_FILEAPI, &S, C, rg, VC_NRG, VC_BATCH, &wo, &ws, &fp);
    if (fp) fclose(fp);
    SYMX_ASSERT(rc == 0, "harness precondition: the fault-free write of the table succeeds");
    size_t len = symx_file_get(PATH, filebuf, sizeof filebuf);
    SYMX_ASSERT(len != (size_t)-1 && len > 12, "harness precondition: the written file exists");
    size_t at = 0; int found = 0;
    for (size_t i = 0; i + 8 <= len; i++) if (memcmp(filebuf + i, tailval, 8) == 0) { at = i; found++; }
    SYMX_ASSERT(found == 1, "harness: the marker value appears exactly once in the file");
    symx_observe_int(at, "offset of the tail-like value");
    size_t k = at + 8;
    SYMX_ASSERT(k < len, "harness: the cut is a proper prefix");
    uint8_t* cutbuf = malloc(k); symx_assume(cutbuf != NULL);
    memcpy(cutbuf, filebuf, k);
    symx_make_symbolic(cutbuf + at, 4, "L");
    carquet_error_t err;
    carquet_reader_t* r = open_prefix(cutbuf, k, &err);
    if (r != NULL) {
        /* accepted: only allowed when the prefix is itself a complete Parquet file — decided by the reference reader
         * (its capacity limits are not format rules: such prefixes stay undecided) */
        static ref_pq_file rf; ref_pq_open_opts ropts; memset(&ropts, 0, sizeof ropts);
        int rrc = ref_pq_open_ex(cutbuf, k, &ropts, &rf);
        symx_assume(rrc != REF_ERR_PQ_CAPACITY && rrc != REF_ERR_PQ_SCHEMA_DEPTH && rrc != REF_ERR_PQ_TOO_MANY_LEAVES);
        accepted_prefix(r, cutbuf, k, rrc == 0);
    } else {
        SYMX_ASSERT(err.code != CARQUET_OK, "rejection carries a non-OK error code");
    }
    free(cutbuf);
    symx_check_leaks();
#endif
}
