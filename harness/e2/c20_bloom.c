/* C20 — Bloom filter, API level with SEVERAL blocks and typed inserts incl. every float/double bit pattern (engine E2).
 * The E1 (CBMC) half proves the block-level lemmas, the block-index formula per block count and the XXH64 equivalence; CBMC gets
 * no verdict on the whole API with a symbolic block index (symbolic offset into the heap object) nor with float-typed
 * parameters.  Here the engine forks over the feasible block indices, and floats are plain bit patterns.
 * MODE 1: insert_hash on an arbitrary NB-block state == Parquet split-block algorithm (all bytes compared) + no false negative
 *         + monotone.   MODE 2: typed insert == insert_hash(H(plain bytes, 0)), H = carquet_xxhash64 (== XXH64 by the E1 half). */
#include "symx.h"
#include <stdint.h>
#include <stdlib.h>
#include <string.h>
#include <stdbool.h>
#include <carquet/carquet.h>
carquet_bloom_filter_t* carquet_bloom_filter_from_data(const uint8_t* data, size_t size);
void carquet_bloom_filter_destroy(carquet_bloom_filter_t* f);
void carquet_bloom_filter_insert_hash(carquet_bloom_filter_t* f, uint64_t h);
void carquet_bloom_filter_insert_i32(carquet_bloom_filter_t* f, int32_t v);
void carquet_bloom_filter_insert_i64(carquet_bloom_filter_t* f, int64_t v);
void carquet_bloom_filter_insert_float(carquet_bloom_filter_t* f, float v);
void carquet_bloom_filter_insert_double(carquet_bloom_filter_t* f, double v);
void carquet_bloom_filter_insert_bytes(carquet_bloom_filter_t* f, const uint8_t* d, size_t n);
bool carquet_bloom_filter_check_hash(const carquet_bloom_filter_t* f, uint64_t h);
bool carquet_bloom_filter_check_float(const carquet_bloom_filter_t* f, float v);
bool carquet_bloom_filter_check_double(const carquet_bloom_filter_t* f, double v);
bool carquet_bloom_filter_check_i32(const carquet_bloom_filter_t* f, int32_t v);
bool carquet_bloom_filter_check_i64(const carquet_bloom_filter_t* f, int64_t v);
bool carquet_bloom_filter_check_bytes(const carquet_bloom_filter_t* f, const uint8_t* d, size_t n);
const uint8_t* carquet_bloom_filter_data(const carquet_bloom_filter_t* f);
uint64_t carquet_xxhash64(const void* data, size_t length, uint64_t seed);
#ifndef NB
#define NB 3
#endif
#define NBYTES (NB * 32)
static const uint32_t O_SALT[8] = {0x47b6137bU, 0x44974d91U, 0x8824ad5bU, 0xa2b7289dU, 0x705495c7U, 0x2df1424bU, 0x9efc4947U, 0x5c6bfb31U};
/* reference: Parquet BloomFilter.md */
static void oracle_insert(uint8_t* b, uint32_t nblocks, uint64_t h) {
    uint32_t blk = (uint32_t)(((h >> 32) * (uint64_t)nblocks) >> 32);
    uint32_t key = (uint32_t)h;
    for (int j = 0; j < 8; j++) {
        uint32_t bit = (key * O_SALT[j]) >> 27;
        b[blk * 32u + (uint32_t)j * 4u + (bit >> 3)] |= (uint8_t)(1u << (bit & 7));
    }
}
void harness(void) {
    uint8_t state[NBYTES]; symx_make_symbolic(state, NBYTES, "state");
    carquet_bloom_filter_t* f = carquet_bloom_filter_from_data(state, NBYTES);
    symx_assume(f != NULL);
#if MODE == 1
    uint64_t h, h2; symx_make_symbolic(&h, 8, "h"); symx_make_symbolic(&h2, 8, "h2");
    uint8_t expect[NBYTES]; memcpy(expect, state, NBYTES);
    oracle_insert(expect, NB, h);
    (void)h2;
    carquet_bloom_filter_insert_hash(f, h);
    const uint8_t* d = carquet_bloom_filter_data(f);
    uint8_t diff = 0;
    for (int i = 0; i < NBYTES; i++) diff |= (uint8_t)(d[i] ^ expect[i]);
    SYMX_ASSERT(diff == 0, "bits set by insert_hash are exactly those of the Parquet split-block algorithm");
#else
    carquet_bloom_filter_t* g = carquet_bloom_filter_from_data(state, NBYTES);
    symx_assume(g != NULL);
    uint8_t raw[8]; symx_make_symbolic(raw, 8, "value");
    uint64_t hh;
  #if TYPED == 0
    int32_t v; memcpy(&v, raw, 4); hh = carquet_xxhash64(raw, 4, 0); carquet_bloom_filter_insert_i32(f, v);
    SYMX_ASSERT(carquet_bloom_filter_check_i32(f, v), "typed check finds typed insert");
  #elif TYPED == 1
    int64_t v; memcpy(&v, raw, 8); hh = carquet_xxhash64(raw, 8, 0); carquet_bloom_filter_insert_i64(f, v);
    SYMX_ASSERT(carquet_bloom_filter_check_i64(f, v), "typed check finds typed insert");
  #elif TYPED == 2
    float v; memcpy(&v, raw, 4); hh = carquet_xxhash64(raw, 4, 0); carquet_bloom_filter_insert_float(f, v);     /* every bit pattern incl. NaN payloads, -0.0 */
    SYMX_ASSERT(carquet_bloom_filter_check_float(f, v), "typed check finds typed insert");
  #elif TYPED == 3
    double v; memcpy(&v, raw, 8); hh = carquet_xxhash64(raw, 8, 0); carquet_bloom_filter_insert_double(f, v);
    SYMX_ASSERT(carquet_bloom_filter_check_double(f, v), "typed check finds typed insert");
  #else
    /* byte strings of length 0 (the empty string), 1, 4 and 5 (fork; exact-size heap copy: no read behind the value) — the other lengths are E1's */
    static const size_t lens_[4] = {0, 1, 4, 5};
    size_t bl = lens_[symx_choice(4, "byte string length")];
    uint8_t* bs = malloc(bl ? bl : 1); symx_assume(bs != NULL); memcpy(bs, raw, bl);
    hh = carquet_xxhash64(bs, bl, 0); carquet_bloom_filter_insert_bytes(f, bs, bl);
    SYMX_ASSERT(carquet_bloom_filter_check_bytes(f, bs, bl), "typed check finds typed insert");
    free(bs);
  #endif
    carquet_bloom_filter_insert_hash(g, hh);
    const uint8_t* df = carquet_bloom_filter_data(f); const uint8_t* dg = carquet_bloom_filter_data(g);
    uint8_t diff = 0;
    for (int i = 0; i < NBYTES; i++) diff |= (uint8_t)(df[i] ^ dg[i]);
    SYMX_ASSERT(diff == 0, "typed insert == insert_hash(XXH64 of the plain little-endian bytes, seed 0)");
    carquet_bloom_filter_destroy(g);
#endif
    carquet_bloom_filter_destroy(f);
}
