/* C11 (E2 half) — every encoding decodes its own output: carquet-encode -> carquet-decode == original, with the reported
 * written / consumed byte counts equal to the actual encoded size, and the streaming RLE decoder agrees with the one-shot
 * decoder under any chunking and skipping.  (PLAIN, BYTE_STREAM_SPLIT, raw bit packing and the encoders against the reference
 * decoders are the E1 half.)
 *   VMODE 1  hybrid RLE: carquet_rle_encode_all / _levels on VCNT values of VBW bits -> VDEC 0 carquet_rle_decode_all,
 *            1 carquet_rle_decode_levels, 2 carquet_rle_decode_levels_prefixed (4-byte prefix added as the page writer does),
 *            3 streaming decoder value by value.  VSHAPE 0: every value symbolic; 1: a pattern chosen by symx_choice that maps
 *            positions to a few symbolic values (runs >= 8 inside longer sequences: partial group, run, literals).
 *   VMODE 2  DELTA_BINARY_PACKED int32 / int64 (VWIDE): VSHAPE 0 every value symbolic; 1 value i = concrete base pattern
 *            (small values, INT_MIN/INT_MAX alternations = wrap-around deltas, powers of two giving 33..64-bit deltas) plus a
 *            symbolic offset in [-2, 1].
 *   VMODE 3  DELTA_LENGTH_BYTE_ARRAY, VMODE 4 DELTA_BYTE_ARRAY: VCNT strings, symbolic lengths 0..VSL and bytes.
 *   VMODE 5  dictionary encode -> dictionary decode, VCNT values drawn (symbolic selectors) from a concrete 3-value alphabet.
 *   VMODE 6  streaming decoder vs one-shot decoder: a stream over <= 12 symbolic values (layout chosen among concrete layouts,
 *            produced by carquet's encoder for pattern streams or by the reference layout encoder), then VOPS operations
 *            chosen by symx_choice among get / get_batch(k) / skip(k) with symbolic k. */
#include "symx.h"
#include <stdint.h>
#include <stdlib.h>
#include <string.h>
#include <stdbool.h>
#include <carquet/carquet.h>
#include "encoding/rle.h"
#include "core/buffer.h"
#if VMODE == 6 || VMODE == 7
#include "ref_codecs.h"
#endif

carquet_status_t carquet_delta_decode_int32(const uint8_t*, size_t, int32_t*, int32_t, size_t*);
carquet_status_t carquet_delta_decode_int64(const uint8_t*, size_t, int64_t*, int32_t, size_t*);
carquet_status_t carquet_delta_encode_int32(const int32_t*, int32_t, uint8_t*, size_t, size_t*);
carquet_status_t carquet_delta_encode_int64(const int64_t*, int32_t, uint8_t*, size_t, size_t*);
carquet_status_t carquet_delta_length_decode(const uint8_t*, size_t, carquet_byte_array_t*, int32_t, size_t*);
carquet_status_t carquet_delta_length_encode(const carquet_byte_array_t*, int32_t, carquet_buffer_t*);
carquet_status_t carquet_delta_strings_decode(const uint8_t*, size_t, carquet_byte_array_t*, int32_t, uint8_t*, size_t, size_t*);
carquet_status_t carquet_delta_strings_encode(const carquet_byte_array_t*, int32_t, carquet_buffer_t*);
size_t carquet_delta_strings_work_buffer_size(const carquet_byte_array_t*, int32_t);
carquet_status_t carquet_dictionary_encode_int32(const int32_t*, int64_t, carquet_buffer_t*, carquet_buffer_t*);
carquet_status_t carquet_dictionary_encode_byte_array(const carquet_byte_array_t*, int64_t, carquet_buffer_t*, carquet_buffer_t*);
carquet_status_t carquet_dictionary_encode_int64(const int64_t*, int64_t, carquet_buffer_t*, carquet_buffer_t*);
carquet_status_t carquet_dictionary_decode_int32(const uint8_t*, size_t, int32_t, const uint8_t*, size_t, int32_t*, int64_t);
carquet_status_t carquet_dictionary_decode_int64(const uint8_t*, size_t, int32_t, const uint8_t*, size_t, int64_t*, int64_t);

#ifndef VMODE
#define VMODE 1
#endif
#ifndef VBW
#define VBW 3
#endif
#ifndef VDEC
#define VDEC 0
#endif
#ifndef VCNT
#define VCNT 5
#endif
#ifndef VSHAPE
#define VSHAPE 0
#endif
#ifndef VWIDE
#define VWIDE 0
#endif
#ifndef VSL
#define VSL 2
#endif
#ifndef VOPS
#define VOPS 2
#endif
#ifndef VKMAX
#define VKMAX 12
#endif
#define VMASK ((VBW) >= 32 ? 0xFFFFFFFFu : ((1u << (VBW)) - 1u))

static uint8_t* exact(const uint8_t* p, size_t n) {
    uint8_t* q = malloc(n ? n : 1); symx_assume(q != NULL);
    if (n) memcpy(q, p, n);
    return q;
}

#if VMODE == 1 || VMODE == 6
/* position -> symbol index; 0xFF ends the pattern */
typedef struct { uint8_t n; uint8_t sym[24]; } pat_t;
static const pat_t PATS[] = {
    {12, {0,0,0,0,0,0,0,0,0,1,2,3}},                         /* run of 9, then literals */
    {17, {0,1,2,3,3,3,3,3,3,3,3,3,3,4,5,6,7}},               /* partial group, run >= 8, literals */
    {16, {0,0,0,0,0,0,0,0,1,1,1,1,1,1,1,1}},                 /* two runs of 8 */
    {17, {0,1,2,3,4,5,6,7,8,8,8,8,8,8,8,8,8}},               /* full group, run of 9 */
    {9,  {0,0,0,0,0,0,0,1,2}},                               /* run of 7 (too short for RLE), literals */
    {20, {0,0,0,0,0,1,1,1,1,1,1,1,1,1,1,1,1,2,2,2}},         /* 5, then 12 equal (3 complete the group, 9 remain), then 3 */
};
#define NPATS ((int)(sizeof PATS / sizeof PATS[0]))
#endif

void harness(void) {
#if VMODE == 1
  #if VSHAPE == 0
    enum { NMAX = VCNT ? VCNT : 1 };
    _Alignas(16) uint32_t v[NMAX];
    int n = VCNT;
    if (VCNT) symx_make_symbolic(v, 4 * VCNT, "v");
  #else
    enum { NMAX = 24 };
    _Alignas(16) uint32_t v[NMAX]; uint32_t sym[9];
    symx_make_symbolic(sym, sizeof sym, "sym");
    const pat_t* P = &PATS[symx_choice(NPATS, "pattern")];
    int n = P->n;
    for (int i = 0; i < n; i++) v[i] = sym[P->sym[i]];
  #endif
    for (int i = 0; i < n; i++) symx_assume(v[i] <= VMASK);
  #if VDEC == 1 || VDEC == 2
    for (int i = 0; i < n; i++) symx_assume(v[i] <= 0x7FFF);       /* levels are int16_t: larger values are not levels */
  #endif
    carquet_buffer_t buf; carquet_buffer_init(&buf);
  #if VDEC == 1 || VDEC == 2
    _Alignas(16) int16_t lv[NMAX];
    for (int i = 0; i < n; i++) lv[i] = (int16_t)v[i];
    symx_assume(carquet_rle_encode_levels(lv, n, VBW, &buf) == CARQUET_OK);
  #else
    symx_assume(carquet_rle_encode_all(v, n, VBW, &buf) == CARQUET_OK);
  #endif
    size_t elen = carquet_buffer_size(&buf);
    symx_observe_int(elen, "encoded size");
  #if VDEC == 2
    uint8_t* in = malloc(elen + 4); symx_assume(in != NULL);
    in[0] = (uint8_t)elen; in[1] = (uint8_t)(elen >> 8); in[2] = (uint8_t)(elen >> 16); in[3] = (uint8_t)(elen >> 24);
    if (elen) memcpy(in + 4, carquet_buffer_data(&buf), elen);
    size_t slen = elen + 4;
  #else
    uint8_t* in = exact(carquet_buffer_data(&buf), elen); size_t slen = elen;
  #endif
    carquet_buffer_destroy(&buf);
  #if VDEC == 0
    uint32_t* out = malloc(n ? (size_t)n * 4 : 1); symx_assume(out != NULL);
    int64_t got = carquet_rle_decode_all(in, slen, VBW, out, n);
    SYMX_ASSERT(got == n, "carquet_rle_decode_all delivers every encoded value");
    for (int i = 0; i < n; i++) SYMX_ASSERT(out[i] == v[i], "decode_all(encode_all(v)) == v");
    free(out);
  #elif VDEC == 1 || VDEC == 2
    int16_t* out = malloc(n ? (size_t)n * 2 : 2); symx_assume(out != NULL);
    #if VDEC == 1
    int64_t got = carquet_rle_decode_levels(in, slen, VBW, out, n);
    #else
    size_t consumed = 0;
    int64_t got = carquet_rle_decode_levels_prefixed(in, slen, VBW, out, n, &consumed);
    SYMX_ASSERT(got < 0 || consumed == slen, "length-prefixed levels: bytes consumed == 4 + encoded size");
    #endif
    SYMX_ASSERT(got == n, "level decoder delivers every encoded level");
    for (int i = 0; i < n; i++) SYMX_ASSERT(out[i] == lv[i], "decode_levels(encode_levels(v)) == v");
    free(out);
  #else
    carquet_rle_decoder_t dec;
    carquet_rle_decoder_init(&dec, in, slen, VBW);
    for (int i = 0; i < n; i++) {
        SYMX_ASSERT(carquet_rle_decoder_has_next(&dec), "streaming decoder has a next value while values remain");
        uint32_t x = carquet_rle_decoder_get(&dec);
        SYMX_ASSERT(carquet_rle_decoder_status(&dec) == CARQUET_OK, "streaming decoder reports no error on carquet's own stream");
        SYMX_ASSERT(x == v[i], "streaming get() returns the encoded values in order");
    }
  #endif
    free(in);

#elif VMODE == 2
  #if VWIDE
    typedef int64_t val_t; typedef uint64_t uval_t;
    #define VMAXV INT64_MAX
    #define VMINV INT64_MIN
  #else
    typedef int32_t val_t; typedef uint32_t uval_t;
    #define VMAXV INT32_MAX
    #define VMINV INT32_MIN
  #endif
    _Alignas(16) val_t v[VCNT ? VCNT : 1];
  #if VSHAPE == 0
    if (VCNT) symx_make_symbolic(v, sizeof(val_t) * VCNT, "v");
  #else
    {   /* value i = base pattern + symbolic offset in [-2, 1], computed modulo 2^W */
        static const val_t BASE[][6] = {
            {0, 0, 0, 0, 0, 0},
            {VMAXV, VMINV, VMAXV, VMINV, VMAXV, VMINV},            /* every delta wraps around */
            {VMINV, VMINV, VMAXV, VMAXV, 0, -1},
            {0, VMAXV, -1, VMINV, 1, VMAXV},
            {100, 1000, 70000, 70001, 1 << 30, 5},                  /* growing deltas: widths 10..31 */
  #if VWIDE
            {0, (val_t)1 << 33, 0, (val_t)1 << 40, 5, (val_t)1 << 62},   /* 33..64-bit deltas: carquet's byte-aligned wide mini-blocks */
  #endif
        };
        int8_t e[VCNT ? VCNT : 1]; symx_make_symbolic(e, VCNT, "e");
        int p = symx_choice((int)(sizeof BASE / sizeof BASE[0]), "base pattern");
        for (int i = 0; i < VCNT; i++) { symx_assume(e[i] >= -2 && e[i] <= 1); v[i] = (val_t)((uval_t)BASE[p][i % 6] + (uval_t)(val_t)e[i]); }
    }
  #endif
    size_t cap = 2048;
    uint8_t* enc = malloc(cap); symx_assume(enc != NULL);
    size_t written = (size_t)-1;
  #if VWIDE
    carquet_status_t es = carquet_delta_encode_int64(v, VCNT, enc, cap, &written);
  #else
    carquet_status_t es = carquet_delta_encode_int32(v, VCNT, enc, cap, &written);
  #endif
    SYMX_ASSERT(es == CARQUET_OK, "delta encoder accepts the values (capacity 2048)");
    SYMX_ASSERT(written <= cap, "delta encoder: reported size within the capacity");
    symx_observe_int(written, "encoded size");
    uint8_t* in = exact(enc, written);        /* exactly the reported bytes: a decoder needing more reads out of bounds */
    free(enc);
    val_t* out = malloc(VCNT ? sizeof(val_t) * VCNT : 1); symx_assume(out != NULL);
    size_t consumed = (size_t)-1;
  #if VWIDE
    carquet_status_t s = carquet_delta_decode_int64(in, written, out, VCNT, &consumed);
  #else
    carquet_status_t s = carquet_delta_decode_int32(in, written, out, VCNT, &consumed);
  #endif
  #if VCNT == 0
    #define ET " [empty sequence]"            /* lets the known finding F-DELTA-EMPTY (the encoder writes nothing at all for 0 values) be recognised */
  #else
    #define ET ""
  #endif
    SYMX_ASSERT(s == CARQUET_OK, "delta decoder accepts carquet's own stream" ET);
    for (int i = 0; i < VCNT; i++) SYMX_ASSERT(out[i] == v[i], "delta decode(encode(v)) == v");
    SYMX_ASSERT(consumed == written, "delta: bytes consumed by the decoder == bytes written by the encoder" ET);
    free(out); free(in);

#elif VMODE == 3 || VMODE == 4
    uint8_t lens[VCNT]; symx_make_symbolic(lens, VCNT, "len");
    uint8_t* data = malloc(VCNT * VSL + 1); symx_assume(data != NULL);
    symx_make_symbolic(data, VCNT * VSL, "bytes");
    carquet_byte_array_t vals[VCNT]; size_t total = 0;
    for (int i = 0; i < VCNT; i++) { symx_assume(lens[i] <= VSL); vals[i].data = data + i * VSL; vals[i].length = lens[i]; total += lens[i]; }
    carquet_buffer_t buf; carquet_buffer_init(&buf);
  #if VMODE == 3
    symx_assume(carquet_delta_length_encode(vals, VCNT, &buf) == CARQUET_OK);
  #else
    symx_assume(carquet_delta_strings_encode(vals, VCNT, &buf) == CARQUET_OK);
  #endif
    size_t elen = carquet_buffer_size(&buf);
    uint8_t* in = exact(carquet_buffer_data(&buf), elen);
    carquet_buffer_destroy(&buf);
    carquet_byte_array_t* out = malloc(sizeof(carquet_byte_array_t) * VCNT); symx_assume(out != NULL);
    size_t consumed = (size_t)-1;
  #if VMODE == 3
    carquet_status_t s = carquet_delta_length_decode(in, elen, out, VCNT, &consumed);
  #else
    size_t wsz = carquet_delta_strings_work_buffer_size(vals, VCNT);
    SYMX_ASSERT(wsz == total, "work buffer size helper returns the total length");
    uint8_t* work = malloc(wsz ? wsz : 1); symx_assume(work != NULL);
    carquet_status_t s = carquet_delta_strings_decode(in, elen, out, VCNT, work, wsz, &consumed);
  #endif
    SYMX_ASSERT(s == CARQUET_OK, "byte-array delta decoder accepts carquet's own stream");
    SYMX_ASSERT(consumed == elen, "byte-array delta: bytes consumed == bytes written");
    for (int i = 0; i < VCNT; i++) {
        SYMX_ASSERT(out[i].length == (int32_t)lens[i], "same string length");
        for (int j = 0; j < VSL; j++) if (j < lens[i]) SYMX_ASSERT(out[i].data[j] == data[i * VSL + j], "same string bytes");
    }
  #if VMODE == 4
    free(work);
  #endif
    free(out); free(in); free(data);

#elif VMODE == 5
  #if VWIDE
    typedef int64_t val_t;
    static const val_t ALPHA[3] = {0, -1, INT64_MIN};
  #else
    typedef int32_t val_t;
    static const val_t ALPHA[3] = {0, -1, INT32_MIN};
  #endif
    uint8_t sel[VCNT ? VCNT : 1]; if (VCNT) symx_make_symbolic(sel, VCNT, "sel");
    _Alignas(16) val_t v[VCNT ? VCNT : 1];
    for (int i = 0; i < VCNT; i++) { symx_assume(sel[i] <= 2); v[i] = sel[i] == 0 ? ALPHA[0] : sel[i] == 1 ? ALPHA[1] : ALPHA[2]; }
    carquet_buffer_t dict, idx; carquet_buffer_init(&dict); carquet_buffer_init(&idx);
  #if VWIDE
    symx_assume(carquet_dictionary_encode_int64(v, VCNT, &dict, &idx) == CARQUET_OK);
  #else
    symx_assume(carquet_dictionary_encode_int32(v, VCNT, &dict, &idx) == CARQUET_OK);
  #endif
    size_t dlen = carquet_buffer_size(&dict), ilen = carquet_buffer_size(&idx);
    SYMX_ASSERT(dlen % sizeof(val_t) == 0 && dlen / sizeof(val_t) <= 3, "dictionary holds at most the 3 distinct values");
    uint8_t* d = exact(carquet_buffer_data(&dict), dlen); uint8_t* ix = exact(carquet_buffer_data(&idx), ilen);
    carquet_buffer_destroy(&dict); carquet_buffer_destroy(&idx);
    val_t* out = malloc(VCNT ? sizeof(val_t) * VCNT : 1); symx_assume(out != NULL);
  #if VWIDE
    carquet_status_t s = carquet_dictionary_decode_int64(d, dlen, (int32_t)(dlen / 8), ix, ilen, out, VCNT);
  #else
    carquet_status_t s = carquet_dictionary_decode_int32(d, dlen, (int32_t)(dlen / 4), ix, ilen, out, VCNT);
  #endif
    SYMX_ASSERT(s == CARQUET_OK, "dictionary decoder accepts carquet's own dictionary and index stream");
    for (int i = 0; i < VCNT; i++) SYMX_ASSERT(out[i] == v[i], "dictionary decode(encode(v)) == v");
    free(out); free(d); free(ix);

#elif VMODE == 7
    /* BYTE_ARRAY dictionary: VCNT values chosen (symbolically) from a pool that contains values, their proper prefixes and the empty
       string, in every order.  The pool is built so that prefix pairs meet in one bucket of the builder's hash table (FNV-1a mod 1024:
       "+D" / "+", ",\"" / ",", "4$" / "" ...), i.e. entries of different length are compared with each other; for any other hash
       function the obligation is still a sound round trip.  All values are concrete per path; the selection and order are the forks. */
    static const char* const POOL[8] = {"+D", "+", ",\"", ",", "4$", "", "+D", "zz"};
    static const int32_t PLEN[8] = {2, 1, 2, 1, 2, 0, 2, 2};
    static uint8_t extra[2] = {'Q', '9'};      /* (a value with symbolic bytes would make the bucket index symbolic: 1024 pointer slots) */
    carquet_byte_array_t v[VCNT];
    for (int i = 0; i < VCNT; i++) {
        int k = symx_choice(9, "pool entry");
        if (k < 8) { v[i].data = (uint8_t*)POOL[k]; v[i].length = PLEN[k]; }
        else { v[i].data = extra; v[i].length = 2; }
    }
    carquet_buffer_t dict, idx; carquet_buffer_init(&dict); carquet_buffer_init(&idx);
    symx_assume(carquet_dictionary_encode_byte_array(v, VCNT, &dict, &idx) == CARQUET_OK);
    size_t dlen = carquet_buffer_size(&dict), ilen = carquet_buffer_size(&idx);
    uint8_t* d = exact(carquet_buffer_data(&dict), dlen); uint8_t* ix = exact(carquet_buffer_data(&idx), ilen);
    carquet_buffer_destroy(&dict); carquet_buffer_destroy(&idx);
    /* dictionary page = PLAIN byte arrays (4-byte length + bytes), decoded here per the specification */
    const uint8_t* ent[VCNT + 1]; uint32_t elen[VCNT + 1]; int ne = 0; size_t pos = 0;
    while (pos < dlen) {
        SYMX_ASSERT(pos + 4 <= dlen && ne < VCNT, "dictionary page is a sequence of at most VCNT length-prefixed entries");
        uint32_t l; memcpy(&l, d + pos, 4); pos += 4;
        SYMX_ASSERT(l <= dlen - pos, "dictionary entry inside the page");
        ent[ne] = d + pos; elen[ne] = l; ne++; pos += l;
    }
    /* indices: <bit width byte> + hybrid RLE, decoded by the reference decoder */
    uint32_t ind[VCNT + 1];
    if (VCNT) {
        SYMX_ASSERT(ilen >= 1, "index stream starts with the bit width");
        size_t cons = 0;
        SYMX_ASSERT(ref_rle_hybrid_decode(ix + 1, ilen - 1, ix[0], ind, VCNT, &cons) == REF_OK, "reference decoder reads the index stream");
    }
    for (int i = 0; i < VCNT; i++) {
        SYMX_ASSERT(ind[i] < (uint32_t)ne, "index inside the dictionary");
        SYMX_ASSERT(elen[ind[i]] == (uint32_t)v[i].length, "dictionary decode(encode(v)) == v (length)");
        int same = 1; for (int32_t j = 0; j < v[i].length; j++) same &= ent[ind[i]][j] == v[i].data[j];
        SYMX_ASSERT(same, "dictionary decode(encode(v)) == v (bytes)");
    }
    free(d); free(ix);

#elif VMODE == 6
    /* the stream */
    _Alignas(16) uint32_t v[24]; uint32_t sym[12];
    symx_make_symbolic(sym, sizeof sym, "sym");
    uint8_t st[96]; size_t slen = 0; int n;
  #if VSHAPE == 1
    {   /* carquet's own encoder on a pattern sequence */
        const pat_t* P = &PATS[symx_choice(NPATS, "pattern")];
        n = P->n;
        for (int i = 0; i < n; i++) { v[i] = sym[P->sym[i]]; symx_assume(v[i] <= VMASK); }
        /* neighbouring runs hold different values here (coinciding values are the subject of the VMODE 1 pattern obligations):
           the encoder then takes one path per pattern and the path budget goes to the operation sequences */
        for (int i = 1; i < n; i++) if (P->sym[i] != P->sym[i - 1]) symx_assume(v[i] != v[i - 1]);
        carquet_buffer_t buf; carquet_buffer_init(&buf);
        symx_assume(carquet_rle_encode_all(v, n, VBW, &buf) == CARQUET_OK);
        slen = carquet_buffer_size(&buf); symx_assume(slen <= sizeof st);
        memcpy(st, carquet_buffer_data(&buf), slen);
        carquet_buffer_destroy(&buf);
    }
  #else
    {   /* concrete run layouts over 12 symbolic values (reference layout encoder: the layout does not depend on the values) */
        static const struct { uint8_t len; uint8_t d[4]; } LAYS[] = {
            {1, {0x0c}},                 /* ONE bit-packed run of two groups, 4 padding values */
            {2, {0x08, 0x04}},           /* two bit-packed runs */
            {2, {0x89, 0x03}},           /* RLE 9 + padded group */
            {3, {0x83, 0x08, 0x81}},     /* RLE 3 + group + RLE 1 */
            {2, {0x08, 0x84}},           /* group + RLE 4 */
        };
        int li = symx_choice((int)(sizeof LAYS / sizeof LAYS[0]), "layout");
        n = 12;
        for (int i = 0; i < n; i++) v[i] = sym[i];
        int p = 0;
        for (int i = 0; i < LAYS[li].len; i++) { int k = LAYS[li].d[i] & 0x7f; if (LAYS[li].d[i] & 0x80) for (int j = 1; j < k; j++) v[p + j] = v[p]; p += k; }
        for (int i = 0; i < n; i++) symx_assume(v[i] <= VMASK);
        symx_assume(ref_rle_hybrid_encode_layout(v, (size_t)n, VBW, LAYS[li].d, LAYS[li].len, st, sizeof st, &slen) == REF_OK);
    }
  #endif
    uint8_t* in = exact(st, slen);
    /* one-shot decoder: everything the stream holds (final-group padding included), capacity 32 */
    _Alignas(16) uint32_t all[32];
    int64_t total = carquet_rle_decode_all(in, slen, VBW, all, 32);
    SYMX_ASSERT(total >= n && total <= 32, "one-shot decoder delivers at least the encoded values");
    symx_observe_int((uint64_t)total, "total");
    /* streaming decoder under a symbolic sequence of operations */
    carquet_rle_decoder_t dec;
    carquet_rle_decoder_init(&dec, in, slen, VBW);
    uint32_t* out = malloc(VKMAX ? VKMAX * 4 : 4); symx_assume(out != NULL);
    int64_t cur = 0;
    for (int step = 0; step < VOPS; step++) {
        int op = symx_choice(3, "op");
        if (op == 0) {
            bool hn = carquet_rle_decoder_has_next(&dec);
            SYMX_ASSERT(hn == (cur < total), "has_next() agrees with the one-shot decoder's count");
            if (hn) { uint32_t x = carquet_rle_decoder_get(&dec); SYMX_ASSERT(x == all[cur], "get() returns the one-shot decoder's value at the cursor"); cur++; }
        } else {
            uint8_t kb; symx_make_symbolic(&kb, 1, step == 0 ? "k0" : step == 1 ? "k1" : step == 2 ? "k2" : "k3");
            symx_assume(kb <= VKMAX);
            int64_t k = kb, want = total - cur < k ? total - cur : k;
            if (op == 1) {
                int64_t g = carquet_rle_decoder_get_batch(&dec, out, k);
                SYMX_ASSERT(g == want, "get_batch(k) delivers min(k, remaining) values");
                for (int64_t i = 0; i < g; i++) SYMX_ASSERT(out[i] == all[cur + i], "get_batch values equal the one-shot decoder's values at the cursor");
                cur += g;
            } else {
                int64_t g = carquet_rle_decoder_skip(&dec, k);
                SYMX_ASSERT(g == want, "skip(k) skips min(k, remaining) values");
                cur += g;
            }
        }
        SYMX_ASSERT(carquet_rle_decoder_status(&dec) == CARQUET_OK, "streaming decoder reports no error on a well-formed stream");
    }
    /* whatever was done before, the rest of the stream still agrees with the one-shot decoder */
    {
        uint32_t* rest = malloc(32 * 4); symx_assume(rest != NULL);
        int64_t g = carquet_rle_decoder_get_batch(&dec, rest, 32);
        SYMX_ASSERT(g == total - cur, "after the operations the rest of the stream has the one-shot decoder's length");
        for (int64_t i = 0; i < g; i++) SYMX_ASSERT(rest[i] == all[cur + i], "after the operations the rest of the stream has the one-shot decoder's values");
        free(rest);
    }
    free(out); free(in);
#endif
}
