/* C15 — scale regime of the reduction kernel (engine E2): carquet_sse_count_non_nulls on an array far beyond the element counts
 * the CBMC obligations of C15 unroll (0..2W+1).  A vectorised count that keeps per-lane partial counters is only wrong once a lane
 * has seen more matches than its counter type holds, so the array is LONG (N levels, N > 8 * 32768 and > 8 * 65536 variants) and
 * almost entirely concrete (all non-null or alternating), with NSYM symbolic levels at fixed positions spread over the lanes and
 * blocks; the result must equal the scalar definition  sum(def[i] == max_def).  Real kernel from src/simd/x86/sse_ops.c, compiled
 * against the intrinsic models. */
#include "symx.h"
#include <stdint.h>
#include <stdlib.h>
#include <string.h>
int64_t carquet_sse_count_non_nulls(const int16_t* def_levels, int64_t count, int16_t max_def_level);
#ifndef N
#define N (8 * 32769 + 3)
#endif
#ifndef PATTERN
#define PATTERN 0          /* 0: every level == max_def, 1: lane 0 of every vector == max_def and the other lanes 0, 2: alternating */
#endif
#define NSYM 4
void harness(void) {
    const int16_t md = 3;
    int16_t* d = malloc((size_t)N * sizeof(int16_t)); symx_assume(d != NULL);
    int64_t expect = 0;
    for (long i = 0; i < N; i++) {
        int16_t v = PATTERN == 0 ? md : PATTERN == 1 ? (i % 8 == 0 ? md : 0) : (i % 2 ? md : 1);
        d[i] = v; expect += (v == md);
    }
    static const long pos[NSYM] = {0, 8L * 32767 + 1, 8L * 32768, N - 1};
    int16_t s[NSYM]; symx_make_symbolic(s, sizeof s, "level");
    for (int k = 0; k < NSYM; k++) { expect -= (d[pos[k]] == md); d[pos[k]] = s[k]; expect += (s[k] == md); }
    int64_t got = carquet_sse_count_non_nulls(d, N, md);
    symx_observe_int(got, "count");
    SYMX_ASSERT(got == expect, "vector count of non-null levels == scalar definition sum(def[i] == max_def) on a long array");
    free(d);
}
