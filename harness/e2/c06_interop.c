/* C06 — spec-valid files from ANOTHER writer decode to the values stored in them (engine E2).
 * The independent reference writer (/verif/ref/ref_parquet_write.c, driven by a description struct) emits a file inside
 * the harness; carquet opens it and carquet_column_read_batch (with definition AND repetition level buffers) must return
 * exactly the stored levels and the non-null values, densely packed from the start of the value buffer of each call.
 *
 * CONCRETE per obligation (the "shape"):  VQ_TYPE physical type, VQ_SCHEMA nesting, VQ_NPAGES data pages of VQ_NLV0/1/2
 * levels, value encoding per data page VQ_ENC0/1/2 (PLAIN / PLAIN_DICTIONARY / RLE_DICTIONARY; a dictionary page of VQ_ND
 * entries leads the chunk when any page uses it; VQ_IBW index bit width; VQ_DICTMODE how it is announced), VQ_CODEC,
 * run LAYOUTS of definition levels / repetition levels / dictionary indices (VQ_DEFLAY, VQ_REPLAY, VQ_IDXLAY: index into
 * the layout list below, or -1 = symx_choice over the legal ones), VQ_CRC, VQ_STATS, VQ_THRIFT (long-form field headers /
 * injected unknown fields in footer and page headers), VQ_OPEN (buffer / stdio / mmap), VQ_BATCH (0 one read_batch call
 * for the whole chunk; k > 0 calls of k levels; -1 calls of a symbolic k in 1..3; -2 a fresh symbolic k in 1..3 per call;
 * -3 fork: one big call / fresh k per call; -4 fork: one big call / one symbolic k), VQ_OPEN 3 = fork over buffer and mmap,
 * VQ_EXTRA (a leading REQUIRED INT32 column).
 * SYMBOLIC: every value bit (BOOLEAN: the bit; BYTE_ARRAY: bytes and, for the first VQ_NBALEN values, the length 0..2),
 * the definition and repetition levels at the positions of VQ_SYMMASK (within their maxima, consistent with each other as
 * record shredding produces them), dictionary entries and dictionary indices (< VQ_ND).
 * In buffer mode the caller's input buffer must be byte-identical after all reads, column_reader_free and reader_close.
 * NEGATIVE obligations (VQ_NEG): 1 DATA_PAGE_V2, 2 an encoding carquet's page reader does not implement (symx_choice over
 * DELTA_BINARY_PACKED, DELTA_LENGTH_BYTE_ARRAY, DELTA_BYTE_ARRAY, BYTE_STREAM_SPLIT, RLE, BIT_PACKED), 3 a codec id it does
 * not implement (LZO, BROTLI, 8, 100): open / get_column / read_batch must report an error, never data.
 * VQ_V2RAW: the v2 pages carry is_compressed = false (values stored raw under the chunk codec).
 * GZIP / ZSTD are left out: the engine runs carquet's wrappers against library contract stubs, so a value round trip through
 * them would prove nothing. */
#include "pq_common.h"
#include "ref_parquet_write.h"

#ifndef VQ_TYPE
#define VQ_TYPE REF_TYPE_INT32
#endif
#ifndef VQ_SCHEMA
#define VQ_SCHEMA 1
#endif
#ifndef VQ_NPAGES
#define VQ_NPAGES 1
#endif
#ifndef VQ_NLV
#define VQ_NLV 4
#endif
#ifndef VQ_SYMMASK
#define VQ_SYMMASK 0xFFFFFFFFu       /* bit i: level i of every page is symbolic */
#endif
#ifndef VQ_NLV0
#define VQ_NLV0 VQ_NLV
#endif
#ifndef VQ_NLV1
#define VQ_NLV1 VQ_NLV
#endif
#ifndef VQ_NLV2
#define VQ_NLV2 VQ_NLV
#endif
#ifndef VQ_ENC
#define VQ_ENC REF_ENC_PLAIN
#endif
#ifndef VQ_ENC0
#define VQ_ENC0 VQ_ENC
#endif
#ifndef VQ_ENC1
#define VQ_ENC1 VQ_ENC
#endif
#ifndef VQ_ENC2
#define VQ_ENC2 VQ_ENC
#endif
#ifndef VQ_ND
#define VQ_ND 3
#endif
#ifndef VQ_IBW
#define VQ_IBW 2
#endif
#ifndef VQ_DICTMODE
#define VQ_DICTMODE REF_W_DICT_OFFSET_PRESENT
#endif
#ifndef VQ_CODEC
#define VQ_CODEC REF_CODEC_UNCOMPRESSED
#endif
#ifndef VQ_DEFLAY
#define VQ_DEFLAY 0
#endif
#ifndef VQ_REPLAY
#define VQ_REPLAY 0
#endif
#ifndef VQ_IDXLAY
#define VQ_IDXLAY 0
#endif
#ifndef VQ_CRC
#define VQ_CRC 0
#endif
#ifndef VQ_STATS
#define VQ_STATS 0                   /* 1: short statistics in page headers and chunk metadata; 2: min/max of 120 bytes each */
#endif
#ifndef VQ_THRIFT
#define VQ_THRIFT 0
#endif
#ifndef VQ_OPEN
#define VQ_OPEN 0
#endif
#ifndef VQ_BATCH
#define VQ_BATCH 0
#endif
#ifndef VQ_EXTRA
#define VQ_EXTRA 0
#endif
#ifndef VQ_NBALEN
#define VQ_NBALEN 2
#endif
#ifndef VQ_DAMAGE
#define VQ_DAMAGE 0       /* C04: N > 0 = one symbolic byte at one of N positions (fork) of the page region [4, footer); only memory safety, termination and leaks are judged */
#endif
#ifndef VQ_DAMAGE_PREFIX
#define VQ_DAMAGE_PREFIX 0
#endif
#ifndef VQ_DAMAGE0
#define VQ_DAMAGE0 0      /* first damaged position, relative to byte 4 */
#endif
#ifndef VQ_BATCHRD
#define VQ_BATCHRD 0      /* C07: read the file through the batch reader with 2 modelled workers and stream interference instead of the column reader */
#endif
#ifndef VQ_NEG
#define VQ_NEG 0
#endif
#ifndef VQ_V2RAW
#define VQ_V2RAW 0
#endif
#ifndef VQ_FLBA_LEN
#define VQ_FLBA_LEN 5
#endif
#define PATH "/mem/interop.parquet"
/* legal-but-unusual layout classes get their own assertion texts (known findings are identified by them) */
#define ZRUN(l) ((l) == 7 || (l) == 8)
#if VQ_DICTMODE == 2
#define CLASS_TAG " [dictionary page at data_page_offset, no dictionary_page_offset]"
#elif VQ_STATS == 2
#define CLASS_TAG " [page header > 256 bytes]"
#elif ZRUN(VQ_DEFLAY) || ZRUN(VQ_REPLAY) || ZRUN(VQ_IDXLAY)
#define CLASS_TAG " [zero-length RLE run]"
#else
#define CLASS_TAG ""
#endif
#define ANYDICT ((VQ_ENC0 != REF_ENC_PLAIN) || (VQ_NPAGES > 1 && VQ_ENC1 != REF_ENC_PLAIN) || (VQ_NPAGES > 2 && VQ_ENC2 != REF_ENC_PLAIN))
#define DICT (ANYDICT && VQ_NEG != 2)
#define NTOT (VQ_NLV0 + (VQ_NPAGES > 1 ? VQ_NLV1 : 0) + (VQ_NPAGES > 2 ? VQ_NLV2 : 0))
#define VSLOT 12                      /* bytes of symbolic material per value / dictionary entry */

/* ---- schemas: path below the root, outermost first */
typedef struct { int depth; int rep[3]; } vq_schema_t;
static const vq_schema_t SCHEMAS[9] = {
    {1, {REF_REP_REQUIRED}},                                        /* 0  v                      def 0 rep 0 */
    {1, {REF_REP_OPTIONAL}},                                        /* 1  v?                     def 1 rep 0 */
    {2, {REF_REP_OPTIONAL, REF_REP_OPTIONAL}},                      /* 2  g?.v?                  def 2 rep 0 */
    {2, {REF_REP_REPEATED, REF_REP_OPTIONAL}},                      /* 3  g*.v?                  def 2 rep 1 */
    {3, {REF_REP_OPTIONAL, REF_REP_REPEATED, REF_REP_REQUIRED}},    /* 4  a?.b*.v                def 2 rep 1 */
    {2, {REF_REP_REPEATED, REF_REP_REPEATED}},                      /* 5  a*.v*                  def 2 rep 2 */
    {1, {REF_REP_REPEATED}},                                        /* 6  v*                     def 1 rep 1 */
    {3, {REF_REP_REQUIRED, REF_REP_OPTIONAL, REF_REP_REQUIRED}},    /* 7  a.b?.v                 def 1 rep 0 */
    {3, {REF_REP_OPTIONAL, REF_REP_REPEATED, REF_REP_OPTIONAL}},    /* 8  a?.b*.v?               def 3 rep 1 */
};

static uint8_t pool[1024]; static size_t pool_used;
static ref_span_t pool_put(const void* p, size_t n) { ref_span_t s; s.off = (uint32_t)pool_used; s.len = (uint32_t)n; if (n) memcpy(pool + pool_used, p, n); pool_used += n; return s; }
static ref_span_t pool_str(const char* s) { return pool_put(s, strlen(s)); }

static ref_w_file D; static ref_meta_wopts WO; static ref_w_layout LAY;
static uint8_t filebuf[4096];
static const int PAGE_NLV[3] = {VQ_NLV0, VQ_NLV1, VQ_NLV2};
static const int PAGE_ENC[3] = {VQ_ENC0, VQ_ENC1, VQ_ENC2};
static uint16_t Ldef[NTOT + 1], Lrep[NTOT + 1];
static int page_nv[VQ_NPAGES], page_v0[VQ_NPAGES + 1], page_l0[VQ_NPAGES + 1], val_page[NTOT + 1];
static uint8_t vb[(NTOT + 4) * VSLOT];           /* symbolic material of the values */
static uint8_t db[4 * VSLOT];                    /* symbolic material of the dictionary entries */
static uint8_t ib[NTOT + 1];                     /* symbolic dictionary indices */
static uint8_t balen[NTOT + 1];                  /* BYTE_ARRAY lengths */
static uint8_t dlen[4];                          /* BYTE_ARRAY dictionary entry lengths */
static uint64_t Vval[NTOT + 1]; static ref_span_t Vspan[NTOT + 1];
static uint64_t Dval[4]; static ref_span_t Dspan[4];
static uint64_t Ival[NTOT + 1];
static uint8_t lay_def[VQ_NPAGES][24], lay_rep[VQ_NPAGES][24], lay_idx[VQ_NPAGES][24];
static uint64_t Kval[NTOT + 1];

static int max_def, max_rep, rep_def_min[3];

/* ---- run layouts (directives of ref_rle_hybrid_encode_layout) for a stream of n values.  Returns the length, -1 = not applicable.
 *  0 one bit-packed run (final group padded)            1 two RLE runs (forces equal values inside each)
 *  2 RLE run of <= 3, rest bit-packed                   3 n single-value RLE runs (values free)
 *  4 bit-packed run of 8, then RLE run of the rest      5 two bit-packed runs (8 + rest), n > 8
 *  6 one RLE run of n                                   7 zero-length RLE run first, then bit-packed
 *  8 RLE run, zero-length RLE run in the middle, bit-packed rest, trailing zero-length run
 *  9 empty bit-packed run (0 groups) first, then bit-packed        10 one bit-packed run of n > 8 (several groups in one run) */
#define NLAYOUTS 11
static int mk_layout(int kind, int n, uint8_t* out) {
    int len = 0;
    switch (kind) {
    case 0: return 0;
    case 1: if (n < 2) return -1; out[len++] = (uint8_t)(0x80 | ((n + 1) / 2)); out[len++] = (uint8_t)(0x80 | (n / 2)); return len;
    case 2: if (n < 1) return -1; out[len++] = (uint8_t)(0x80 | (n < 3 ? n : 3)); return len;
    case 3: if (n < 1 || n > 20) return -1; for (int i = 0; i < n; i++) out[len++] = 0x81; return len;
    case 4: if (n <= 8) return -1; out[len++] = 8; out[len++] = (uint8_t)(0x80 | (n - 8)); return len;
    case 5: if (n <= 8) return -1; out[len++] = 8; out[len++] = (uint8_t)(n - 8); return len;
    case 6: if (n < 1) return -1; out[len++] = (uint8_t)(0x80 | n); return len;
    case 7: if (n < 1) return -1; out[len++] = 0x80; return len;
    case 8: if (n < 2) return -1; out[len++] = 0x81; out[len++] = 0x80; out[len++] = (uint8_t)(n - 1); out[len++] = 0x80; return len;
    case 9: if (n < 1) return -1; out[len++] = 0x00; return len;
    case 10: if (n <= 8) return -1; out[len++] = (uint8_t)n; return len;
    }
    return -1;
}
static int pick_layout(int fixed, int n, uint8_t* out, const char* name) {
    int kind = fixed;
    if (fixed < 0) {
        /* symbolic choice among the layouts without zero-length runs */
        static const int legal[7] = {0, 1, 2, 3, 4, 5, 6};
        kind = legal[symx_choice(7, name)];
    }
    int len = mk_layout(kind, n, out);
    symx_assume(len >= 0);
    return len;
}

static size_t vsize(void) {
    switch (VQ_TYPE) {
    case REF_TYPE_BOOLEAN: return 1;
    case REF_TYPE_INT32: case REF_TYPE_FLOAT: return 4;
    case REF_TYPE_INT64: case REF_TYPE_DOUBLE: return 8;
    case REF_TYPE_INT96: return 12;
    case REF_TYPE_FIXED_LEN_BYTE_ARRAY: return VQ_FLBA_LEN;
    default: return sizeof(carquet_byte_array_t);
    }
}

/* value k of the description (and of the expectation) from its symbolic material */
static void make_value(const uint8_t* mat, uint8_t len_byte, uint64_t* val, ref_span_t* span) {
    *val = 0; span->off = 0; span->len = 0;
    switch (VQ_TYPE) {
    case REF_TYPE_BOOLEAN: *val = (uint64_t)(mat[0] & 1); break;
    case REF_TYPE_INT32: case REF_TYPE_FLOAT: { uint32_t x; memcpy(&x, mat, 4); *val = x; break; }
    case REF_TYPE_INT64: case REF_TYPE_DOUBLE: { uint64_t x; memcpy(&x, mat, 8); *val = x; break; }
    case REF_TYPE_INT96: *span = pool_put(mat, 12); break;
    case REF_TYPE_FIXED_LEN_BYTE_ARRAY: *span = pool_put(mat, VQ_FLBA_LEN); break;
    default: *span = pool_put(mat, 2); span->len = len_byte; break;        /* 2 bytes reserved, the first len_byte used */
    }
}

/* does carquet's value slot `slot` of buffer vals hold (val, span)?  branch-free result */
static int value_matches(const uint8_t* vals, int slot, uint64_t val, ref_span_t span) {
    const uint8_t* p = vals + (size_t)slot * vsize();
    switch (VQ_TYPE) {
    case REF_TYPE_BOOLEAN: return p[0] == (uint8_t)val;
    case REF_TYPE_INT32: case REF_TYPE_FLOAT: { uint32_t x; memcpy(&x, p, 4); return x == (uint32_t)val; }
    case REF_TYPE_INT64: case REF_TYPE_DOUBLE: { uint64_t x; memcpy(&x, p, 8); return x == val; }
    case REF_TYPE_INT96: return memcmp(p, pool + span.off, 12) == 0;
    case REF_TYPE_FIXED_LEN_BYTE_ARRAY: return memcmp(p, pool + span.off, VQ_FLBA_LEN) == 0;
    default: {
        carquet_byte_array_t ba; memcpy(&ba, p, sizeof ba);
        if (ba.length != (int32_t)span.len) return 0;
        /* span.len <= 2; the bytes must be readable right after the call */
        for (uint32_t j = 0; j < span.len; j++) if (ba.data[j] != pool[span.off + j]) return 0;
        return 1;
    }
    }
}

static void set_stats(ref_statistics* st, int big) {
    static uint8_t longv[120];
    memset(st, 0, sizeof *st);
    if (big) {
        memset(longv, 'm', sizeof longv);
        st->present = REF_BIT(REF_ST_MAX_VALUE) | REF_BIT(REF_ST_MIN_VALUE);
        st->max_value = pool_put(longv, sizeof longv); st->min_value = pool_put(longv, sizeof longv);
    } else {
        st->present = REF_BIT(REF_ST_MAX) | REF_BIT(REF_ST_MIN) | REF_BIT(REF_ST_NULL_COUNT) | REF_BIT(REF_ST_DISTINCT_COUNT) | REF_BIT(REF_ST_MAX_VALUE) |
                      REF_BIT(REF_ST_MIN_VALUE) | REF_BIT(REF_ST_IS_MAX_VALUE_EXACT) | REF_BIT(REF_ST_IS_MIN_VALUE_EXACT);
        st->max = pool_str("zz9"); st->min = pool_str("a"); st->max_value = pool_str("zz9"); st->min_value = pool_str("a");
        st->null_count = 3; st->distinct_count = 300; st->is_max_value_exact = 1; st->is_min_value_exact = 0;
    }
}

static void set_thrift_opts(void) {
    memset(&WO, 0, sizeof WO);
#if VQ_THRIFT == 1
    /* every known field of every struct kind with a long-form header, every list with the long size form */
    for (int k = 0; k < REF_SK_COUNT; k++) { WO.sk[k].long_form_mask = 0xFFFEu; WO.sk[k].long_list_size = 1; }
#elif VQ_THRIFT == 2 || VQ_THRIFT == 3
    /* unknown fields of several wire types in footer structs and page headers */
    #define INJ(kind, fid, anchor, wh, wt, var, fl) do { ref_struct_wopts* o_ = &WO.sk[kind]; ref_inject* in_ = &o_->inject[o_->n_inject++]; \
        in_->field_id = (fid); in_->anchor_id = (anchor); in_->where = (wh); in_->wire_type = (wt); in_->variant = (var); in_->force_long = (fl); } while (0)
    INJ(REF_SK_FILE_META, 100, 0, REF_INJ_END, REF_TC_I32, 1, 0);
    INJ(REF_SK_FILE_META, -3, 0, REF_INJ_BEGIN, REF_TC_BINARY, 1, 1);
    INJ(REF_SK_SCHEMA_ELEMENT, 16, 0, REF_INJ_END, REF_TC_STRUCT, 1, 0);
    INJ(REF_SK_ROW_GROUP, 17, 1, REF_INJ_AFTER, REF_TC_LIST, 1, 0);
    INJ(REF_SK_COLUMN_CHUNK, 25, 3, REF_INJ_BEFORE, REF_TC_MAP, 1, 0);
    INJ(REF_SK_COLUMN_META, 17, 0, REF_INJ_END, REF_TC_I64, 1, 0);
    INJ(REF_SK_COLUMN_META, 1000, 4, REF_INJ_AFTER, REF_TC_DOUBLE, 1, 1);
    INJ(REF_SK_STATISTICS, 31, 0, REF_INJ_BEGIN, REF_TC_SET, 1, 0);
    INJ(REF_SK_PAGE_HEADER, 9, 5, REF_INJ_BEFORE, REF_TC_BINARY, 1, 0);
    INJ(REF_SK_PAGE_HEADER, 60, 0, REF_INJ_END, REF_TC_BOOL_TRUE, 0, 0);
    INJ(REF_SK_DATA_PAGE_HEADER, 6, 0, REF_INJ_END, REF_TC_STRUCT, 0, 0);
    INJ(REF_SK_DATA_PAGE_HEADER, 20000, 1, REF_INJ_AFTER, REF_TC_BYTE, 1, 1);
    INJ(REF_SK_DICT_PAGE_HEADER, 4, 0, REF_INJ_END, REF_TC_I16, 1, 0);
    INJ(REF_SK_DICT_PAGE_HEADER, 18, 0, REF_INJ_BEGIN, REF_TC_BOOL_FALSE, 0, 0);
  #if VQ_THRIFT == 3
    for (int k = 0; k < REF_SK_COUNT; k++) { WO.sk[k].long_form_mask = 0x5554u; WO.sk[k].long_list_size = (uint8_t)(k & 1); }
  #endif
#endif
}

void harness(void) {
    const vq_schema_t* sc = &SCHEMAS[VQ_SCHEMA];
    memset(&D, 0, sizeof D);
    pool_used = 0; pool_str("~");
    /* ---- schema */
    max_def = 0; max_rep = 0;
    {
        ref_schema_element* root = &D.schema[0];
        root->present = REF_BIT(REF_SE_NAME) | REF_BIT(REF_SE_NUM_CHILDREN);
        root->name = pool_str("schema"); root->num_children = 1 + (VQ_EXTRA ? 1 : 0);
        D.n_schema = 1;
        if (VQ_EXTRA) {
            ref_schema_element* e = &D.schema[D.n_schema++];
            e->present = REF_BIT(REF_SE_NAME) | REF_BIT(REF_SE_REPETITION_TYPE) | REF_BIT(REF_SE_TYPE);
            e->name = pool_str("k"); e->repetition_type = REF_REP_REQUIRED; e->type = REF_TYPE_INT32;
        }
        static const char* const names[3] = {"a", "b", "v"};
        for (int i = 0; i < sc->depth; i++) {
            ref_schema_element* e = &D.schema[D.n_schema++];
            int leaf = (i == sc->depth - 1);
            e->present = REF_BIT(REF_SE_NAME) | REF_BIT(REF_SE_REPETITION_TYPE);
            e->name = pool_str(leaf ? "v" : names[i]); e->repetition_type = sc->rep[i];
            if (sc->rep[i] != REF_REP_REQUIRED) max_def++;
            if (sc->rep[i] == REF_REP_REPEATED) { max_rep++; rep_def_min[max_rep] = max_def; }
            if (leaf) {
                e->present |= REF_BIT(REF_SE_TYPE); e->type = VQ_TYPE;
                if (VQ_TYPE == REF_TYPE_FIXED_LEN_BYTE_ARRAY) { e->present |= REF_BIT(REF_SE_TYPE_LENGTH); e->type_length = VQ_FLBA_LEN; }
            } else {
                e->present |= REF_BIT(REF_SE_NUM_CHILDREN); e->num_children = 1;
            }
        }
    }
    const int col = VQ_EXTRA ? 1 : 0;
    /* ---- levels: symbolic at the positions of VQ_SYMMASK, a fixed consistent pattern elsewhere */
    static uint8_t sdef[NTOT + 1], srep[NTOT + 1];
#if VQ_DAMAGE
    /* damaged-file obligations: the content is concrete (only the damaged byte is symbolic) */
  #define CONTENT(buf, n, name, expr) do { for (size_t q_ = 0; q_ < (size_t)(n); q_++) (buf)[q_] = (uint8_t)(expr); } while (0)
#else
  #define CONTENT(buf, n, name, expr) symx_make_symbolic(buf, n, name)
#endif
    CONTENT(sdef, NTOT, "def", (q_ % 3 == 1) ? 0 : max_def); CONTENT(srep, NTOT, "rep", (q_ == 0) ? 0 : (q_ % (size_t)(max_rep + 1)));
    int nrows = 0, nvals = 0, g = 0;
    for (int p = 0; p < VQ_NPAGES; p++) {
        page_v0[p] = nvals; page_l0[p] = g; page_nv[p] = 0;
        for (int i = 0; i < PAGE_NLV[p]; i++, g++) {
            unsigned d, r;
            if ((VQ_SYMMASK >> i) & 1u) { d = sdef[g]; r = srep[g]; }
            else if (i % 3 == 2) { d = 0; r = 0; }
            else { d = (unsigned)max_def; r = (unsigned)(i % (max_rep + 1)); }
            if (max_def == 0) d = 0;
            if (max_rep == 0) r = 0;
            if (g == 0) r = 0;                               /* a chunk starts a record */
            symx_assume(d <= (unsigned)max_def);
            symx_assume(r <= (unsigned)max_rep);
            /* record shredding: repeating at repeated node number r means that node is defined */
            symx_assume((r == 0) | ((r == 1) & (d >= (unsigned)rep_def_min[1])) | ((r == 2) & (d >= (unsigned)rep_def_min[2])));
            Ldef[g] = (uint16_t)d; Lrep[g] = (uint16_t)r;
            if (d == (unsigned)max_def) { val_page[nvals] = p; page_nv[p]++; nvals++; }        /* forks: the null pattern becomes concrete per path */
            nrows += (r == 0);
        }
    }
    page_v0[VQ_NPAGES] = nvals; page_l0[VQ_NPAGES] = g;
    /* ---- values */
    CONTENT(vb, sizeof vb, "val", 0x41 + 7 * q_);
    CONTENT(balen, sizeof balen, "balen", 1 + q_ % 2);
    for (int k = 0; k < nvals; k++) {
        if (k >= VQ_NBALEN) balen[k] = (uint8_t)(1 + k % 2);
        symx_assume(balen[k] <= 2);
    }
#if DICT
    CONTENT(db, sizeof db, "dict", 0x61 + 3 * q_); CONTENT(ib, sizeof ib, "idx", q_ % VQ_ND); CONTENT(dlen, sizeof dlen, "dictlen", 1 + q_ % 2);
    for (int j = 0; j < VQ_ND; j++) { if (j >= VQ_NBALEN) dlen[j] = (uint8_t)(1 + j % 2); symx_assume(dlen[j] <= 2); make_value(db + VSLOT * j, dlen[j], &Dval[j], &Dspan[j]); }
#endif
    for (int k = 0; k < nvals; k++) {
#if VQ_NEG == 2
        Ival[k] = (uint64_t)(k & 1);
#else
        if (PAGE_ENC[val_page[k]] == REF_ENC_PLAIN) make_value(vb + VSLOT * k, balen[k], &Vval[k], &Vspan[k]);
        else { symx_assume(ib[k] < VQ_ND); Ival[k] = ib[k]; }
#endif
    }
    /* ---- row group, chunks, pages */
    D.version = 1; D.n_row_groups = 1;
    D.rg[0].num_rows = nrows;
    if (VQ_EXTRA) {
        ref_w_chunk* kc = &D.rg[0].chunks[0];
        kc->codec = REF_CODEC_UNCOMPRESSED; kc->n_pages = 1;
        ref_w_page* pg = &kc->pages[0];
        pg->page_type = REF_PAGE_DATA; pg->encoding = REF_ENC_PLAIN; pg->n_levels = (uint32_t)NTOT; pg->n_values = (uint32_t)NTOT;
        for (int i = 0; i < NTOT; i++) Kval[i] = (uint64_t)(uint32_t)(1000 + i);
        pg->val = Kval;
    }
    ref_w_chunk* ch = &D.rg[0].chunks[col];
    int codec = VQ_CODEC;
#if VQ_NEG == 3
    { static const int bad[4] = {REF_CODEC_LZO, REF_CODEC_BROTLI, 8, 100}; codec = bad[symx_choice(4, "codec id")]; }
#endif
    ch->codec = codec; ch->dict_offset_mode = VQ_DICTMODE; ch->with_encoding_stats = (VQ_STATS != 0);
    if (VQ_STATS == 1) { ch->with_stats = 1; set_stats(&ch->stats, 0); }
    ch->n_pages = 0;
#if DICT
    {
        ref_w_page* pg = &ch->pages[ch->n_pages++];
        pg->page_type = REF_PAGE_DICTIONARY; pg->encoding = (VQ_IBW & 1) ? REF_ENC_PLAIN : REF_ENC_PLAIN_DICTIONARY;     /* both tags are in use for dictionary pages */
        pg->n_values = VQ_ND; pg->val = Dval; pg->span = Dspan; pg->with_crc = (VQ_CRC == 2); pg->dict_is_sorted = REF_W_TRI_FALSE;
    }
#endif
#if VQ_NEG == 2
    static const int bad_enc[6] = {REF_ENC_DELTA_BINARY_PACKED, REF_ENC_DELTA_LENGTH_BYTE_ARRAY, REF_ENC_DELTA_BYTE_ARRAY, REF_ENC_BYTE_STREAM_SPLIT, REF_ENC_RLE, REF_ENC_BIT_PACKED};
    const int bad_tag = bad_enc[symx_choice(6, "encoding tag")];
#endif
    for (int p = 0; p < VQ_NPAGES; p++) {
        ref_w_page* pg = &ch->pages[ch->n_pages++];
        int enc_tag = PAGE_ENC[p];
#if VQ_NEG == 2
        enc_tag = bad_tag;
#endif
        pg->page_type = (VQ_NEG == 1) ? REF_PAGE_DATA_V2 : REF_PAGE_DATA;
        pg->encoding = (uint8_t)enc_tag;
        pg->n_levels = (uint32_t)PAGE_NLV[p]; pg->n_values = (uint32_t)page_nv[p];
        pg->def = Ldef + page_l0[p]; pg->rep = Lrep + page_l0[p];
        pg->def_layout_len = (uint32_t)pick_layout(VQ_DEFLAY, PAGE_NLV[p], lay_def[p], "def layout"); pg->def_layout = lay_def[p];
        pg->rep_layout_len = (uint32_t)pick_layout(VQ_REPLAY, PAGE_NLV[p], lay_rep[p], "rep layout"); pg->rep_layout = lay_rep[p];
        pg->with_crc = (VQ_CRC != 0 && (VQ_CRC == 2 || p == 0));
        pg->v2_is_compressed = VQ_V2RAW ? REF_W_TRI_FALSE : REF_W_TRI_ABSENT;     /* v2 only: values stored raw although the chunk names a codec */
        pg->snappy_lit_form = (uint8_t)(p % 5);
        if (VQ_STATS) { pg->with_stats = 1; set_stats(&pg->stats, VQ_STATS == 2); }
        if (enc_tag != REF_ENC_PLAIN) {
            pg->index_bit_width = VQ_IBW;
            pg->val = Ival + page_v0[p];
            if (page_nv[p] > 0) { pg->idx_layout_len = (uint32_t)pick_layout(VQ_IDXLAY, page_nv[p], lay_idx[p], "index layout"); pg->idx_layout = lay_idx[p]; }
        } else {
            pg->val = Vval + page_v0[p]; pg->span = Vspan + page_v0[p];
        }
    }
    D.with_created_by = 1; D.created_by = pool_str("ref-writer (interop check)");
    D.with_column_orders = (VQ_THRIFT != 0);
    D.n_kv = 1; D.kv[0].present = REF_BIT(1) | REF_BIT(2); D.kv[0].key = pool_str("origin"); D.kv[0].value = pool_str("reference");
    D.pool = pool;
    D.thrift_opts = NULL;
#if VQ_THRIFT
    set_thrift_opts(); D.thrift_opts = &WO;
#endif
    D.pool_len = pool_used;
    size_t flen = 0;
    int wrc = ref_pq_write(&D, filebuf, sizeof filebuf, &flen, &LAY);
    symx_assume(wrc == 0);                  /* premise: the description is expressible (run layouts fit the levels / indices) */
    if (!VQ_CRC) symx_observe_int(flen, "file length");     /* with the CRC summary the varint length of the (uninterpreted) checksum is free */

    /* ---- carquet reads the file (exact-size heap copy; filebuf stays the pristine copy) */
    uint8_t* f = malloc(flen); symx_assume(f != NULL);
    memcpy(f, filebuf, flen);
#if VQ_DAMAGE
    {   /* C04 on files with dictionary / mixed pages: an arbitrary byte somewhere in the pages (headers, dictionary, level and index streams) */
        size_t span = (size_t)LAY.footer_off - 4;
  #if VQ_DAMAGE_PREFIX
        /* the 4-byte length prefix of the level section at the start of a page body (all 2^32 values), page chosen by fork */
        int dpage = symx_choice(VQ_NPAGES + (DICT ? 1 : 0), "damaged page");
        size_t dpos = LAY.page[0][col][dpage].body_off;
        symx_assume(dpos + 4 <= LAY.footer_off);
        symx_observe_int(dpos, "damaged offset");
        symx_make_symbolic(f + dpos, 4, "w");
  #else
        size_t dpos = 4 + ((size_t)VQ_DAMAGE0 + (size_t)symx_choice(VQ_DAMAGE, "damaged position")) % span;
        symx_observe_int(dpos, "damaged offset");
        symx_make_symbolic(f + dpos, 1, "w");
  #endif
    }
#endif
    carquet_error_t err; memset(&err, 0, sizeof err);
    carquet_reader_options_t ro; carquet_reader_options_init(&ro);
    ro.verify_checksums = true;
    const int om = (VQ_OPEN == 3) ? (symx_choice(2, "open mode") ? 2 : 0) : VQ_OPEN;      /* 3: buffer and mmap in one obligation */
    carquet_reader_t* r;
    if (om == 0) r = carquet_reader_open_buffer(f, flen, &ro, &err);
    else {
        symx_file_put(PATH, f, flen);
        ro.use_mmap = (om == 2);
        r = carquet_reader_open(PATH, &ro, &err);
    }
    const size_t vs = vsize();
    uint8_t* vals = malloc((size_t)(NTOT + 1) * vs); int16_t* defs = malloc((NTOT + 1) * 2); int16_t* reps = malloc((NTOT + 1) * 2);
    symx_assume(vals && defs && reps);
    memset(vals, 0xEE, (size_t)(NTOT + 1) * vs); memset(defs, 0x5A, (NTOT + 1) * 2); memset(reps, 0x5A, (NTOT + 1) * 2);
#if VQ_DAMAGE
    /* damaged file: any outcome is acceptable except an unsafe access, a hang or a leak (engine checks); results must stay inside the caller's buffers */
    if (r) {
        carquet_column_reader_t* cr = carquet_reader_get_column(r, 0, col, &err);
        if (cr) {
            int got = 0;
            for (int call = 0; call < NTOT + 2; call++) {
                int64_t n = carquet_column_read_batch(cr, vals, NTOT + 1, defs, reps);
                if (n <= 0) break;
                SYMX_ASSERT(n <= NTOT + 1, "read_batch never reports more levels than requested");
                got += (int)n;
                if (VQ_TYPE == REF_TYPE_BYTE_ARRAY) {   /* returned byte arrays must be readable */
                    const carquet_byte_array_t* ba = (const carquet_byte_array_t*)vals; volatile uint8_t sink = 0; int k = 0;
                    for (int i = 0; i < (int)n; i++) { if (max_def && defs[i] != (int16_t)max_def) continue; for (int32_t j = 0; j < ba[k].length && j < 4; j++) sink ^= ba[k].data[j]; k++; }
                }
            }
            (void)got;
            carquet_column_reader_free(cr);
        }
        carquet_reader_close(r);
    }
#elif VQ_NEG
    /* features carquet does not implement: an error from open, get_column or read_batch — never data */
    if (r) {
        carquet_column_reader_t* cr = carquet_reader_get_column(r, 0, col, &err);
        if (cr) {
            int64_t n = carquet_column_read_batch(cr, vals, NTOT + 1, defs, reps);
  #if VQ_NEG == 1
            /* weakest reading first: whatever is returned without an error must at least be the stored content */
            if (n >= 0) {
                int same = (n == NTOT), k = 0;
                for (int i = 0; same && i < NTOT; i++) {
                    same &= (defs[i] == (int16_t)Ldef[i]) & (reps[i] == (int16_t)Lrep[i]);
                    if (Ldef[i] != (uint16_t)max_def) continue;
                    if (same) same &= value_matches(vals, k, Vval[k], Vspan[k]);
                    k++;
                }
                SYMX_ASSERT(same, "a DATA_PAGE_V2 page (not implemented) is never decoded to levels or values that differ from the stored ones");
            }
            SYMX_ASSERT(n < 0, "a DATA_PAGE_V2 page (not implemented) is rejected with an error, not read through the v1 page layout");
  #elif VQ_NEG == 2
            SYMX_ASSERT(n < 0, "a value encoding the page reader does not implement is rejected with an error");
  #else
            SYMX_ASSERT(n < 0, "a codec id that is not implemented is rejected with an error");
  #endif
            carquet_column_reader_free(cr);
        }
        carquet_reader_close(r);
    }
#elif VQ_BATCHRD
    /* C07 on a reference-writer file (page headers longer than the reader's first header window, statistics, dictionary pages): the batch
       reader with OpenMP workers on the shared stream; under interference the result is the single-threaded one or an error */
    SYMX_ASSERT(r != NULL, "carquet opens a spec-valid file of the reference writer");
    {
        carquet_batch_reader_config_t bc; carquet_batch_reader_config_init(&bc);
        bc.batch_size = nrows > 0 ? nrows : 1; bc.num_threads = 2;
        carquet_batch_reader_t* br = carquet_batch_reader_create(r, &bc, &err);
        symx_assume(br != NULL);
        symx_omp_permute(1);
        symx_interfere(1);
        carquet_row_batch_t* b = NULL;
        carquet_status_t bs = carquet_batch_reader_next(br, &b);
        symx_interfere(0);
        if (bs == CARQUET_OK && b) {
            SYMX_ASSERT(carquet_row_batch_num_rows(b) == nrows, "batch holds all rows of the row group");
            for (int c = 0; c < 1 + (VQ_EXTRA ? 1 : 0); c++) {
                const void* data; const uint8_t* nulls; int64_t nv;
                SYMX_ASSERT(carquet_row_batch_column(b, c, &data, &nulls, &nv) == CARQUET_OK && nv == nrows, "all columns of a batch have the same rows");
                if (VQ_EXTRA && c == 0) for (int i = 0; i < nrows; i++) { int32_t kv; memcpy(&kv, (const uint8_t*)data + 4 * i, 4); SYMX_ASSERT(kv == 1000 + i, "leading column: same values as single-threaded"); }
                if (c == col && max_def == 1) for (int i = 0; i < nrows; i++) {
                    int bit = nulls ? (nulls[i / 8] >> (i % 8)) & 1 : 0;
                    SYMX_ASSERT(bit == (Ldef[i] != 1), "null bitmap equals the stored definition levels (bit set = null)");
                }
            }
            carquet_row_batch_free(b);
        } else {
            SYMX_ASSERT(bs != CARQUET_OK, "a NULL batch comes with a non-OK status");
        }
        carquet_batch_reader_free(br);
        carquet_reader_close(r);
    }
#else
    SYMX_ASSERT(r != NULL, "carquet opens a spec-valid file of the reference writer" CLASS_TAG);
    SYMX_ASSERT(carquet_reader_num_row_groups(r) == 1 && carquet_reader_num_columns(r) == 1 + (VQ_EXTRA ? 1 : 0), "row group and column counts as stored" CLASS_TAG);
    SYMX_ASSERT(carquet_reader_num_rows(r) == nrows, "row count as stored" CLASS_TAG);
    if (VQ_EXTRA) {
        carquet_column_reader_t* kr = carquet_reader_get_column(r, 0, 0, &err);
        SYMX_ASSERT(kr != NULL, "column reader of the leading column" CLASS_TAG);
        int32_t kv[NTOT + 1];
        int64_t kn = carquet_column_read_batch(kr, kv, NTOT + 1, NULL, NULL);
        SYMX_ASSERT(kn == NTOT, "leading column: all values delivered" CLASS_TAG);
        for (int i = 0; i < NTOT; i++) SYMX_ASSERT(kv[i] == 1000 + i, "leading column: stored values" CLASS_TAG);
        carquet_column_reader_free(kr);
    }
    carquet_column_reader_t* cr = carquet_reader_get_column(r, 0, col, &err);
    SYMX_ASSERT(cr != NULL, "column reader for a spec-valid chunk" CLASS_TAG);
    SYMX_ASSERT(carquet_column_remaining(cr) == NTOT, "remaining() equals the stored number of levels" CLASS_TAG);
    int pos = 0;            /* levels delivered so far */
    int vpos = 0;           /* non-null values delivered so far */
    /* -3: one big read | fresh symbolic k per call, -4: one big read | one symbolic k for all calls — both in one obligation (fork) */
    const int bm = (VQ_BATCH == -3) ? (symx_choice(2, "batch mode") ? -2 : 0) : (VQ_BATCH == -4) ? (symx_choice(2, "batch mode") ? -1 : 0) : VQ_BATCH;
    uint8_t kb = 0;
    if (bm == -1) { symx_make_symbolic(&kb, 1, "k"); symx_assume(kb >= 1 && kb <= 3); }
    for (int call = 0; call < NTOT + 2 && pos < NTOT; call++) {
        if (bm == -2) {
            char kname[4] = {'k', (char)('a' + call), 0, 0};
            symx_make_symbolic(&kb, 1, kname); symx_assume(kb >= 1 && kb <= 3);
        }
        int want = bm < 0 ? (int)kb : bm ? bm : NTOT + 1;
        int64_t n = carquet_column_read_batch(cr, vals, want, defs, reps);
        int expect = NTOT - pos < want ? NTOT - pos : want;
        SYMX_ASSERT(n == expect, "read_batch delivers min(requested, remaining) levels of a valid chunk" CLASS_TAG);
        int k = 0;
        for (int i = 0; i < (int)n; i++) {
            uint16_t d = Ldef[pos + i], rp = Lrep[pos + i];
            SYMX_ASSERT(defs[i] == (int16_t)d, "definition level equals the stored one" CLASS_TAG);
            SYMX_ASSERT(reps[i] == (int16_t)rp, "repetition level equals the stored one" CLASS_TAG);
            if (d != (uint16_t)max_def) continue;
            const int vk = vpos + k;
            if (PAGE_ENC[val_page[vk]] == REF_ENC_PLAIN) {
                SYMX_ASSERT(value_matches(vals, k, Vval[vk], Vspan[vk]), "non-null value equals the stored one (dense packing)" CLASS_TAG);
            } else if (VQ_TYPE == REF_TYPE_BYTE_ARRAY) {
                /* expected value = dictionary entry number idx: decided per path, no load through a symbolic index here */
                for (int j = 0; j < VQ_ND; j++)
                    if (Ival[vk] == (uint64_t)j) SYMX_ASSERT(value_matches(vals, k, Dval[j], Dspan[j]), "value equals the dictionary entry its stored index selects (dense packing)" CLASS_TAG);
            } else {
                int ok = 1;
                for (int j = 0; j < VQ_ND; j++) ok &= (Ival[vk] != (uint64_t)j) | value_matches(vals, k, Dval[j], Dspan[j]);
                SYMX_ASSERT(ok, "value equals the dictionary entry its stored index selects (dense packing)" CLASS_TAG);
            }
            k++;
        }
        pos += (int)n; vpos += k;
    }
    SYMX_ASSERT(pos == NTOT, "the whole chunk is delivered" CLASS_TAG);
    SYMX_ASSERT(!carquet_column_has_next(cr), "nothing remains after the last level" CLASS_TAG);
    carquet_column_reader_free(cr);
    carquet_reader_close(r);
#endif
#if !VQ_DAMAGE
    if (om == 0) SYMX_ASSERT(memcmp(f, filebuf, flen) == 0, "the caller's input buffer is byte-identical after reads, column_reader_free and reader_close");
#endif
    free(vals); free(defs); free(reps); free(f);
}
