/* C14 (E2 half) — page damage is always detected with checksum verification on, never reported on undamaged files, and
 * handled memory-safely with verification off.
 * A file is written in this run by carquet's REAL writer (VSKEL 0..2: two columns, two pages per chunk through page_size 1
 * and two write_batch calls; UNCOMPRESSED / SNAPPY / LZ4 with concrete content) or, for a chunk with a DICTIONARY page, by the
 * independent reference writer (VSKEL 3).  The page table comes from the independent reference reader (ref_pq_open_ex with the
 * CRC rule hard: every stored CRC is the IEEE CRC-32 of the stored page bytes).  Then
 *   - a page is chosen by symx_choice, a position inside its body by symx_choice (VSTRIDE > 1: every VSTRIDE-th position,
 *     starting at VPOS0), and VW adjacent bytes are XORed with a symbolic mask (VDAMAGE 1: mask != 0; 0: mask == 0);
 *   - the file is opened from memory / with stdio / memory-mapped (VIO 0 / 1 / 2; stdio and mmap go through the model file
 *     system, the damaged image is installed with symx_file_put) with verify_checksums = VVERIFY and the damaged column
 *     chunk is read to its end with carquet_column_read_batch.
 * The REAL carquet_crc32 runs (no summary): the file is concrete, only the damaged bytes are symbolic.
 * VSPECIAL: single-page REQUIRED INT32 chunk whose last value is symbolic, constrained so that the STORED page CRC equals
 * VCRCVAL (0, 0xFFFFFFFF, 1, 0x80000000): a checksum that happens to be 0 or all-ones is verified like any other. */
#ifndef VSKEL
#define VSKEL 0
#endif
#include "pq_common.h"
#include "ref_parquet_read.h"
#if VSKEL == 3
#include "ref_parquet_write.h"
#endif
#ifndef VW
#define VW 1
#endif
#ifndef VDAMAGE
#define VDAMAGE 1
#endif
#ifndef VVERIFY
#define VVERIFY 1
#endif
#ifndef VIO
#define VIO 0
#endif
#ifndef VSTRIDE
#define VSTRIDE 1
#endif
#ifndef VPOS0
#define VPOS0 0
#endif
#ifndef VPAGE
#define VPAGE -1           /* >= 0: only this page (index in the flattened page list) */
#endif
#define PATH "/mem/skel.parquet"
#define MUT "/mem/mut.parquet"
#define NROWS 4

static uint8_t filebuf[4096]; static size_t filelen;
static ref_pq_file RF;

static void make_file(void) {
#if VSKEL <= 2 && !defined(VSPECIAL)
    static pq_schema_t S; static pq_column_t C[PQ_MAXCOLS];
    memset(&S, 0, sizeof S); memset(C, 0, sizeof C);
    carquet_writer_options_t wo; carquet_writer_options_init(&wo);
    pq_wstat_t ws;
    S.ncols = 2;
    S.name[0] = "a"; S.type[0] = CARQUET_PHYSICAL_INT32; S.rep[0] = CARQUET_REPETITION_OPTIONAL;
    S.name[1] = "b"; S.type[1] = CARQUET_PHYSICAL_INT64; S.rep[1] = CARQUET_REPETITION_REQUIRED;
    int nv = 0;
    for (int i = 0; i < NROWS; i++) { C[0].def[i] = (i != 1); if (C[0].def[i]) { int32_t v = 0x01010101 * (i + 1); memcpy(C[0].vals + 4 * nv, &v, 4); nv++; } }
    for (int i = 0; i < NROWS; i++) { int64_t v = (i < 2) ? 0x4141414141414141LL : 0x4141414141414100LL + i; memcpy(C[1].vals + 8 * i, &v, 8); }
    C[0].nrows = C[1].nrows = NROWS;
    int rg[1] = {NROWS}; wo.page_size = 1;
  #if VSKEL == 1
    wo.compression = CARQUET_COMPRESSION_SNAPPY;
  #elif VSKEL == 2
    wo.compression = CARQUET_COMPRESSION_LZ4;
  #endif
    symx_assume(pq_write(PATH, &S, C, rg, 1, 2, &wo, &ws) == 0);
    filelen = symx_file_get(PATH, filebuf, sizeof filebuf);
#elif defined(VSPECIAL)
    /* one REQUIRED INT32 column, 3 rows, one page, uncompressed: the page body is the 12 PLAIN bytes of the values.
       Phase 1: the last value is symbolic and constrained so that the IEEE CRC-32 of the body (bitwise reference definition: a
       plain bit-vector formula; carquet's table-driven CRC over 4 symbolic bytes does not finish in this engine) equals VCRCVAL;
       the value (unique: CRC-32 is a bijection of 4 adjacent bytes) is read off bit by bit.  Phase 2: the REAL writer with the
       real carquet_crc32 writes the file with that value; the harness then checks that the STORED checksum is the constant. */
    static pq_schema_t S; static pq_column_t C[PQ_MAXCOLS];
    memset(&S, 0, sizeof S); memset(C, 0, sizeof C);
    carquet_writer_options_t wo; carquet_writer_options_init(&wo);
    pq_wstat_t ws;
    S.ncols = 1; S.name[0] = "a"; S.type[0] = CARQUET_PHYSICAL_INT32; S.rep[0] = CARQUET_REPETITION_REQUIRED;
    for (int i = 0; i < 2; i++) { int32_t v = 7 + i; memcpy(C[0].vals + 4 * i, &v, 4); }
    uint32_t last; symx_make_symbolic(&last, 4, "last_value");
    memcpy(C[0].vals + 8, &last, 4);
    symx_assume(ref_crc32_ieee(C[0].vals, 12) == (uint32_t)VCRCVAL);
    uint32_t conc = 0;
    for (int b = 0; b < 32; b++) if (last & (1u << b)) conc |= 1u << b;         /* one feasible side per bit */
    symx_observe_int(conc, "value giving the special crc");
    memcpy(C[0].vals + 8, &conc, 4);
    C[0].nrows = 3;
    int rg[1] = {3};
    symx_assume(pq_write(PATH, &S, C, rg, 1, 0, &wo, &ws) == 0);
    filelen = symx_file_get(PATH, filebuf, sizeof filebuf);
#else
    /* reference writer: REQUIRED INT32 column, dictionary page (3 entries) + one RLE_DICTIONARY data page of 5 values, CRCs on */
    static ref_w_file W; static ref_w_layout LO;
    static const uint64_t dictv[3] = {100, 200, 0x7fffffff}; static const uint64_t idx[5] = {0, 1, 2, 1, 0};
    memset(&W, 0, sizeof W);
    static const uint8_t pool[] = "schemaa";
    W.pool = pool; W.pool_len = 7; W.version = 1; W.n_schema = 2;
    W.schema[0].present = REF_BIT(REF_SE_NAME) | REF_BIT(REF_SE_NUM_CHILDREN); W.schema[0].name.off = 0; W.schema[0].name.len = 6; W.schema[0].num_children = 1;
    W.schema[1].present = REF_BIT(REF_SE_TYPE) | REF_BIT(REF_SE_REPETITION_TYPE) | REF_BIT(REF_SE_NAME); W.schema[1].type = REF_TYPE_INT32; W.schema[1].repetition_type = REF_REP_REQUIRED;
    W.schema[1].name.off = 6; W.schema[1].name.len = 1;
    W.n_row_groups = 1; W.rg[0].num_rows = 5;
    ref_w_chunk* ch = &W.rg[0].chunks[0];
    ch->codec = REF_CODEC_UNCOMPRESSED; ch->dict_offset_mode = REF_W_DICT_OFFSET_PRESENT; ch->n_pages = 2;
    ch->pages[0].page_type = REF_PAGE_DICTIONARY; ch->pages[0].encoding = REF_ENC_PLAIN; ch->pages[0].with_crc = 1; ch->pages[0].n_values = 3; ch->pages[0].val = dictv;
    ch->pages[1].page_type = REF_PAGE_DATA; ch->pages[1].encoding = REF_ENC_RLE_DICTIONARY; ch->pages[1].with_crc = 1; ch->pages[1].index_bit_width = 2;
    ch->pages[1].n_levels = 5; ch->pages[1].n_values = 5; ch->pages[1].val = idx;
    symx_assume(ref_pq_write(&W, filebuf, sizeof filebuf, &filelen, &LO) == 0);
#endif
    symx_assume(filelen != (size_t)-1 && filelen > 12);
}

/* read the column chunk (rg 0, column col) to its end; returns rows delivered, *failed = a call returned a negative count */
static int64_t read_chunk(carquet_reader_t* r, int col, int nrows, int* failed, uint8_t* vals, int16_t* defs) {
    carquet_error_t err; memset(&err, 0, sizeof err);
    *failed = 0;
    carquet_column_reader_t* cr = carquet_reader_get_column(r, 0, col, &err);
    if (!cr) { *failed = 1; return 0; }
    int64_t total = 0;
    for (int it = 0; it < nrows + 2; it++) {
        int64_t n = carquet_column_read_batch(cr, vals + total * 8, nrows + 1 - total, defs + total, NULL);
        if (n < 0) { *failed = 1; break; }
        if (n == 0) break;
        total += n;
        SYMX_ASSERT(total <= nrows, "read_batch never delivers more rows than the chunk holds");
    }
    carquet_column_reader_free(cr);
    return total;
}

void harness(void) {
    make_file();
#ifdef VSPECIAL
    {
        ref_pq_open_opts o; memset(&o, 0, sizeof o); o.crc_hard = 1;
        int rc = ref_pq_open_ex(filebuf, filelen, &o, &RF);
        SYMX_ASSERT(rc == 0, "independent reader accepts the file with the special checksum");
        SYMX_ASSERT(RF.chunk[0][0].n_pages == 1 && RF.chunk[0][0].pages[0].has_crc && RF.chunk[0][0].pages[0].crc == (uint32_t)VCRCVAL, "the stored page CRC is the chosen special constant");
        symx_observe_int(RF.chunk[0][0].pages[0].crc, "stored crc");
    }
#else
    {
        ref_pq_open_opts o; memset(&o, 0, sizeof o); o.crc_hard = 1;
        int rc = ref_pq_open_ex(filebuf, filelen, &o, &RF);
        SYMX_ASSERT(rc == 0, "independent reader accepts the undamaged file: every stored CRC is the IEEE CRC-32 of the stored page bytes");
    }
#endif
    /* flatten the page table */
    int ncols = (int)RF.meta.row_groups[0].n_columns, npg = 0;
    static struct { int col, k; uint32_t body, len; int rows_before, rows; uint8_t type; } PG[16];
    for (int c = 0; c < ncols; c++) {
        int rows = 0;
        for (int k = 0; k < RF.chunk[0][c].n_pages; k++) {
            const ref_pq_page* p = &RF.chunk[0][c].pages[k];
            SYMX_ASSERT(p->has_crc, "every page written carries a CRC");
            PG[npg].col = c; PG[npg].k = k; PG[npg].body = p->body_off; PG[npg].len = p->comp_size; PG[npg].type = p->type;
            PG[npg].rows_before = rows; PG[npg].rows = p->type == REF_PAGE_DICTIONARY ? 0 : p->num_values;
            rows += PG[npg].rows; npg++;
        }
    }
    int total_rows = (int)RF.meta.num_rows;
    symx_observe_int((uint64_t)npg, "pages");
#if VPAGE >= 0
    int pi = VPAGE; symx_assume(pi < npg);
#else
    int pi = symx_choice(npg, "page");
#endif
    symx_assume(PG[pi].len >= VW);
    int npos = ((int)PG[pi].len - VW - VPOS0) / VSTRIDE + 1;
    symx_assume(npos > 0);
    int pos = VPOS0 + VSTRIDE * symx_choice(npos, "position");
    uint8_t mask[VW]; symx_make_symbolic(mask, VW, "mask");
    { unsigned any = 0; for (int i = 0; i < VW; i++) any |= mask[i];
#if VDAMAGE
      symx_assume(any != 0);
#else
      symx_assume(any == 0);
#endif
    }
    uint8_t* f = malloc(filelen); symx_assume(f != NULL);
    memcpy(f, filebuf, filelen);
    for (int i = 0; i < VW; i++) f[PG[pi].body + pos + i] ^= mask[i];
    symx_observe_int(PG[pi].body + pos, "damage offset");

    carquet_error_t err; memset(&err, 0, sizeof err);
    carquet_reader_options_t ro; carquet_reader_options_init(&ro);
    ro.verify_checksums = VVERIFY;
#if VIO == 0
    carquet_reader_t* r = carquet_reader_open_buffer(f, filelen, &ro, &err);
#else
    symx_file_put(MUT, f, filelen);
    ro.use_mmap = (VIO == 2);
    carquet_reader_t* r = carquet_reader_open(MUT, &ro, &err);
#endif
    SYMX_ASSERT(r != NULL, "the file opens: footer and page headers are intact");
    static _Alignas(16) uint8_t vals[16 * 8]; static int16_t defs[16];
    int failed = 0;
    int64_t got = read_chunk(r, PG[pi].col, total_rows, &failed, vals, defs);
#if VDAMAGE && VVERIFY
    SYMX_ASSERT(failed, "reading a chunk with a damaged page reports an error (verify_checksums on)");
    SYMX_ASSERT(got <= PG[pi].rows_before, "no row of the damaged page (or of a page behind it) is delivered");
#elif !VDAMAGE
    SYMX_ASSERT(!failed, "an undamaged file never reports an error");
    SYMX_ASSERT(got == total_rows, "an undamaged file delivers every row");
#else
    (void)got;          /* verification off: memory safety only (engine checks), any result */
#endif
    /* the other column chunks are untouched: they read in full whatever happened above */
#if VVERIFY
    for (int c = 0; c < ncols; c++) if (c != PG[pi].col) {
        int f2 = 0; int64_t g2 = read_chunk(r, c, total_rows, &f2, vals, defs);
        SYMX_ASSERT(!f2 && g2 == total_rows, "a chunk without damage never reports a checksum error");
    }
#endif
    carquet_reader_close(r);
    free(f);
    symx_check_leaks();
}
