/* Shared helpers for file-level E2 harnesses: a small-table writer driven through carquet's PUBLIC API into the
 * engine's in-memory file system, and table descriptions.  Everything here runs inside the engine (and natively
 * for replay). */
#ifndef PQ_COMMON_H
#define PQ_COMMON_H
#include "symx.h"
#include <stdint.h>
#include <stdlib.h>
#include <string.h>
#include <stdbool.h>
#include <carquet/carquet.h>

/* CPU feature detection sees a CPU without SIMD extensions in file-level runs: the dispatcher then selects the scalar
 * kernels (SIMD kernels are the subject of C15; compile-time SSE2 paths, e.g. in rle.c, still run, on the intrinsic models) */
unsigned verif_cpuid_reg(unsigned leaf, unsigned subleaf, int reg) { (void)leaf; (void)subleaf; (void)reg; return 0; }
unsigned long long verif_xgetbv(unsigned x) { (void)x; return 0; }

#define PQ_MAXCOLS 4
#define PQ_MAXROWS 24
typedef struct {
    int ncols;
    carquet_physical_type_t type[PQ_MAXCOLS];
    carquet_field_repetition_t rep[PQ_MAXCOLS];
    int type_len[PQ_MAXCOLS];
    const char* name[PQ_MAXCOLS];
} pq_schema_t;

/* one column's logical content: nrows rows, def[i] (1 = present; ignored for REQUIRED), dense values of the present rows */
typedef struct {
    int nrows;
    int16_t def[PQ_MAXROWS];
    _Alignas(16) uint8_t vals[PQ_MAXROWS * 8];                /* fixed-width values, densely packed in PLAIN layout (bool: 1 byte each) */
    carquet_byte_array_t ba[PQ_MAXROWS];          /* BYTE_ARRAY values */
    uint8_t ba_bytes[PQ_MAXROWS * 4];
} pq_column_t;

static size_t pq_type_size(carquet_physical_type_t t, int type_len) {
    switch (t) {
        case CARQUET_PHYSICAL_BOOLEAN: return 1;
        case CARQUET_PHYSICAL_INT32: case CARQUET_PHYSICAL_FLOAT: return 4;
        case CARQUET_PHYSICAL_INT64: case CARQUET_PHYSICAL_DOUBLE: return 8;
        case CARQUET_PHYSICAL_INT96: return 12;
        case CARQUET_PHYSICAL_BYTE_ARRAY: return sizeof(carquet_byte_array_t);
        case CARQUET_PHYSICAL_FIXED_LEN_BYTE_ARRAY: return (size_t)type_len;
        default: return 0;
    }
}

static carquet_schema_t* pq_make_schema(const pq_schema_t* s) {
    carquet_error_t err; memset(&err, 0, sizeof err);
    carquet_schema_t* sc = carquet_schema_create(&err);
    if (!sc) return NULL;
    for (int c = 0; c < s->ncols; c++) {
        if (carquet_schema_add_column(sc, s->name[c], s->type[c], NULL, s->rep[c], s->type_len[c]) != CARQUET_OK) { carquet_schema_free(sc); return NULL; }
    }
    return sc;
}

/* status of every writer call, so harnesses can state "all calls returned OK" */
typedef struct { int create_ok; int n_calls; carquet_status_t worst; carquet_status_t close_status; } pq_wstat_t;

/* optional pattern of write_batch sizes (used when batch_rows == -1): batch k takes pq_batch_pattern[k % pq_batch_pattern_len] rows */
static const int* pq_batch_pattern; static int pq_batch_pattern_len;

/* number of present rows among rows [r0, r1) of a column */
static int pq_present(const pq_schema_t* s, const pq_column_t* col, int c, int r0, int r1) {
    if (s->rep[c] == CARQUET_REPETITION_REQUIRED) return r1 - r0;
    int n = 0; for (int i = r0; i < r1; i++) if (col->def[i] > 0) n++; return n;
}

/* Write `cols` as ONE row group per entry of rg_rows[] (rows are consumed in order), each column's rows of a row group
 * split into write_batch calls at the positions given by batch_rows (0 = whole row group in one call).
 * Returns 0 when every call including close returned OK. */
static int pq_write(const char* path, const pq_schema_t* s, const pq_column_t* cols, const int* rg_rows, int nrg, int batch_rows,
                    const carquet_writer_options_t* opts, pq_wstat_t* ws) {
    memset(ws, 0, sizeof *ws);
    carquet_error_t err; memset(&err, 0, sizeof err);
    carquet_schema_t* sc = pq_make_schema(s);
    if (!sc) return -1;
    carquet_writer_t* w = carquet_writer_create(path, sc, opts, &err);
    if (!w) { carquet_schema_free(sc); return -1; }
    ws->create_ok = 1;
    int row0 = 0;
    for (int g = 0; g < nrg; g++) {
        int nr = rg_rows[g];
        if (g > 0) { carquet_status_t st = carquet_writer_new_row_group(w); ws->n_calls++; if (st != CARQUET_OK && ws->worst == CARQUET_OK) ws->worst = st; }
        for (int c = 0; c < s->ncols; c++) {
            size_t esz = pq_type_size(s->type[c], s->type_len[c]);
            int r = row0, bk = 0;
            while (r < row0 + nr || (nr == 0 && r == row0)) {
                int take = batch_rows > 0 ? batch_rows : nr;
                if (batch_rows == -1 && pq_batch_pattern_len > 0) take = pq_batch_pattern[bk++ % pq_batch_pattern_len];
                if (r + take > row0 + nr) take = row0 + nr - r;
                int voff = pq_present(s, &cols[c], c, 0, r);              /* dense value index of row r */
                int nvals = pq_present(s, &cols[c], c, r, r + take);
                const void* vp = s->type[c] == CARQUET_PHYSICAL_BYTE_ARRAY ? (const void*)(cols[c].ba + voff) : (const void*)(cols[c].vals + (size_t)voff * esz);
                const int16_t* dl = s->rep[c] == CARQUET_REPETITION_REQUIRED ? NULL : cols[c].def + r;
                (void)nvals;
                carquet_status_t st = carquet_writer_write_batch(w, c, vp, take, dl, NULL);
                ws->n_calls++; if (st != CARQUET_OK && ws->worst == CARQUET_OK) ws->worst = st;
                r += take;
                if (nr == 0) break;
            }
        }
        row0 += nr;
    }
    ws->close_status = carquet_writer_close(w);
    ws->n_calls++;
    if (ws->close_status != CARQUET_OK && ws->worst == CARQUET_OK) ws->worst = ws->close_status;
    carquet_schema_free(sc);
    return ws->worst == CARQUET_OK ? 0 : -2;
}
#endif
