/* Native implementation of the symx harness API: used to REPLAY solver counterexamples and to validate the
 * engine's translation (sampled completed paths) against an ordinary gcc/ASan build of the same harness.
 * Inputs come from the file named by $SYMX_INPUT:
 *     in <name[i]> <value>        symbolic byte values (unlisted bytes are 0)
 *     choice <k>                  results of symx_choice, in call order
 *     failalloc <n>               the n-th malloc/calloc/realloc/strdup made by carquet/harness code fails
 *     failio <n> <flavour>        the n-th fwrite/fflush/fclose on a writable stream fails (fwrite | fwrite-deferred | fflush | fclose)
 * Model file names (anything given to symx_file_put / fopen by the harness) are mapped into $SYMX_TMP.
 * Link with: -Wl,--wrap=malloc,--wrap=calloc,--wrap=realloc,--wrap=strdup,--wrap=fopen,--wrap=fwrite,--wrap=fflush,
 *            --wrap=fclose,--wrap=open,--wrap=remove */
#define _GNU_SOURCE
#include <stdio.h>
#include <stdlib.h>
#include <string.h>
#include <stdint.h>
#include <fcntl.h>
#include <stdarg.h>
#include <unistd.h>
#include "symx.h"

#define MAXIN 65536
static struct { char name[64]; unsigned val; } g_in[MAXIN];
static int g_nin, g_loaded;
static int g_choices[4096], g_nchoices, g_choice_pos;
static long g_failalloc, g_alloc_count; static int g_fault_alloc_on;
static long g_failallocs[8]; static int g_nfailallocs;      /* every 'failalloc' line (symx_fault_alloc(n > 1): several failures on one path) */
static long g_failio, g_io_count; static char g_failio_kind[32]; static int g_fault_io_on, g_io_failed_flag, g_alloc_failed_flag;
static FILE* g_pending_err_stream;
static char* g_pokes[8192]; static int g_npokes;
void* __real_malloc(size_t);
static long g_interfere_at, g_interfere_pos, g_unlocked_freads; static int g_interfere_on;

static void load(void) {
    if (g_loaded) return; g_loaded = 1;
    const char* p = getenv("SYMX_INPUT");
    if (!p) return;
    FILE* f = fopen(p, "r");
    if (!f) return;
    char kw[32], nm[128];
    while (fscanf(f, "%31s", kw) == 1) {
        if (!strcmp(kw, "in")) { unsigned v; if (fscanf(f, "%127s %u", nm, &v) != 2) break; if (g_nin < MAXIN) { strncpy(g_in[g_nin].name, nm, 63); g_in[g_nin].val = v; g_nin++; } }
        else if (!strcmp(kw, "choice")) { int k; if (fscanf(f, "%d", &k) != 1) break; g_choices[g_nchoices++] = k; }
        else if (!strcmp(kw, "failalloc")) { long fa_; if (fscanf(f, "%ld", &fa_) != 1) break; if (!g_failalloc) g_failalloc = fa_; if (g_nfailallocs < 8) g_failallocs[g_nfailallocs++] = fa_; }
        else if (!strcmp(kw, "reset") || !strcmp(kw, "poke")) {
            static char line[40000]; if (!fgets(line, sizeof line, f)) break;
            char* q = line; while (*q == ' ') q++; size_t n = strlen(q); while (n && (q[n - 1] == '\n' || q[n - 1] == ' ')) q[--n] = 0;
            if (g_npokes < 8192) { char* c_ = __real_malloc(n + 1); memcpy(c_, q, n + 1); g_pokes[g_npokes++] = c_; }
        }
        else if (!strcmp(kw, "pokeincomplete")) { int x; if (fscanf(f, "%d", &x) != 1) break; }
        else if (!strcmp(kw, "interfere")) { if (fscanf(f, "%ld %ld", &g_interfere_at, &g_interfere_pos) != 2) break; }
        else if (!strcmp(kw, "failio")) { if (fscanf(f, "%ld %31s", &g_failio, g_failio_kind) != 2) break; }
    }
    fclose(f);
}
static unsigned lookup(const char* name, size_t i) {
    char key[128]; snprintf(key, sizeof key, "%s[%zu]", name, i);
    for (int k = 0; k < g_nin; k++) if (!strcmp(g_in[k].name, key)) return g_in[k].val;
    return 0;
}
void symx_make_symbolic(void* p, size_t n, const char* name) { load(); for (size_t i = 0; i < n; i++) ((uint8_t*)p)[i] = (uint8_t)lookup(name, i); }
void symx_assume(int c) { if (!c) { printf("SYMX_ASSUME_FALSE\n"); fflush(stdout); _exit(0); } }
void symx_assert(int c, const char* msg) { if (!c) { printf("SYMX_ASSERT_FAILED: %s\n", msg); fflush(stdout); _exit(3); } }
int symx_choice(int n, const char* name) { load(); (void)name; int k = g_choice_pos < g_nchoices ? g_choices[g_choice_pos] : 0; g_choice_pos++; return k < n ? k : 0; }
static void ptag(const char* t) { printf("OBS "); for (; *t; t++) putchar(*t == ' ' ? '_' : *t); }
void symx_observe(const void* p, size_t n, const char* tag) { ptag(tag); for (size_t i = 0; i < n; i++) printf(" %u", ((const uint8_t*)p)[i]); printf("\n"); }
void symx_observe_int(uint64_t v, const char* tag) { ptag(tag); printf(" %llu\n", (unsigned long long)v); }
void symx_note(const char* m) { (void)m; }
void symx_fault_alloc(int on) { load(); g_fault_alloc_on = on; }
void symx_fault_io(int on) { load(); g_fault_io_on = on; }
int symx_alloc_failed(void) { return g_alloc_failed_flag ? (int)g_failalloc : 0; }
int symx_io_failed(void) { return g_io_failed_flag; }
void symx_check_leaks(void) { /* LeakSanitizer reports at exit */ }
int symx_live_heap(void) { return 0; }
int symx_is_symbolic(uint64_t v) { (void)v; return 0; }
void symx_interfere(int on) { load(); g_interfere_on = on; }
void symx_omp_permute(int on) { (void)on; }
void symx_omp_threads(int n) { (void)n; }
/* store-prefix states cannot be produced natively (they are states of ANOTHER thread's partial progress): the native run executes
 * the sequential case only */
void symx_store_log_begin(void) {}
int symx_store_log_end(void) { return 1; }
static void apply_hex(unsigned long addr, const char* hex) { uint8_t* p = (uint8_t*)addr; for (size_t i = 0; hex[2 * i] && hex[2 * i + 1]; i++) { unsigned b; sscanf(hex + 2 * i, "%2x", &b); p[i] = (uint8_t)b; } }
/* the recorded state "another thread is k stores into the initialiser" is written straight into this executable's globals */
void symx_store_prefix(int k) {
    (void)k; load();
    for (int i = 0; i < g_npokes; i++) { unsigned long a; char* sp = strchr(g_pokes[i], ' '); if (!sp) continue; a = strtoul(g_pokes[i], NULL, 16); apply_hex(a, sp + 1); }
}

static const char* mapname(const char* name, char* buf, size_t cap) {
    const char* t = getenv("SYMX_TMP"); if (!t) t = "/tmp";
    const char* b = strrchr(name, '/'); b = b ? b + 1 : name;
    if (name[0] == 0 || !strncmp(name, "/nonexistent", 12)) { snprintf(buf, cap, "/nonexistent-dir-symx/%s", b); return buf; }
    snprintf(buf, cap, "%s/%s", t, b); return buf;
}
FILE* __real_fopen(const char*, const char*);
size_t __real_fwrite(const void*, size_t, size_t, FILE*);
int __real_fflush(FILE*); int __real_fclose(FILE*); int __real_open(const char*, int, ...); int __real_remove(const char*);
void* __real_malloc(size_t); void* __real_calloc(size_t, size_t); void* __real_realloc(void*, size_t); char* __real_strdup(const char*);

void symx_file_put(const char* name, const void* data, size_t n) { char b[512]; FILE* f = __real_fopen(mapname(name, b, sizeof b), "wb"); if (f) { __real_fwrite(data, 1, n, f); __real_fclose(f); } }
size_t symx_file_size(const char* name) { char b[512]; FILE* f = __real_fopen(mapname(name, b, sizeof b), "rb"); if (!f) return (size_t)-1; fseek(f, 0, SEEK_END); long s = ftell(f); __real_fclose(f); return (size_t)s; }
size_t symx_file_get(const char* name, void* buf, size_t cap) { char b[512]; FILE* f = __real_fopen(mapname(name, b, sizeof b), "rb"); if (!f) return (size_t)-1; size_t n = fread(buf, 1, cap, f); __real_fclose(f); return n; }

static int alloc_fails(void) {
    if (!g_fault_alloc_on) return 0;
    g_alloc_count++;
    for (int i = 0; i < g_nfailallocs; i++) if (g_alloc_count == g_failallocs[i]) { g_alloc_failed_flag = 1; return 1; }
    return 0;
}
void* __wrap_malloc(size_t n) { return alloc_fails() ? NULL : __real_malloc(n); }
void* __wrap_calloc(size_t a, size_t b) { return alloc_fails() ? NULL : __real_calloc(a, b); }
void* __wrap_realloc(void* p, size_t n) { return alloc_fails() ? NULL : __real_realloc(p, n); }
char* __wrap_strdup(const char* s) { return alloc_fails() ? NULL : __real_strdup(s); }

/* only streams opened for writing through the wrapped fopen count as sink operations (as in the engine's model) */
static struct { FILE* f; int writable; } g_streams[64]; static int g_nstreams;
static void track(FILE* f, const char* mode) { if (f && g_nstreams < 64) { g_streams[g_nstreams].f = f; g_streams[g_nstreams].writable = strchr(mode, 'w') || strchr(mode, 'a'); g_nstreams++; } }
static void untrack(FILE* f) { for (int i = 0; i < g_nstreams; i++) if (g_streams[i].f == f) { g_streams[i] = g_streams[--g_nstreams]; return; } }
static int is_model_stream(FILE* f) { for (int i = 0; i < g_nstreams; i++) if (g_streams[i].f == f) return g_streams[i].writable; return 0; }
static const char* io_fails(void) {
    if (!g_fault_io_on || g_io_failed_flag) { g_io_count++; return NULL; }
    g_io_count++;
    if (g_failio && g_io_count == g_failio) { g_io_failed_flag = 1; return g_failio_kind; }
    return NULL;
}
FILE* __wrap_fopen(const char* name, const char* mode) { char b[512]; load(); FILE* f = __real_fopen(mapname(name, b, sizeof b), mode); track(f, mode); return f; }
int __wrap_open(const char* name, int flags, ...) { char b[512]; load(); return __real_open(mapname(name, b, sizeof b), flags, 0644); }
int __wrap_remove(const char* name) { char b[512]; return __real_remove(mapname(name, b, sizeof b)); }
size_t __wrap_fwrite(const void* p, size_t sz, size_t cnt, FILE* f) {
    if (!is_model_stream(f) || sz * cnt == 0) return __real_fwrite(p, sz, cnt, f);
    const char* k = io_fails();
    if (k && !strcmp(k, "fwrite-deferred")) { g_pending_err_stream = f; return cnt; }
    if (k) return cnt == 1 ? 0 : cnt - 1;
    return __real_fwrite(p, sz, cnt, f);
}
int __wrap_fflush(FILE* f) {
    if (!f || !is_model_stream(f)) return __real_fflush(f);
    const char* k = io_fails();
    if (g_pending_err_stream == f) { g_pending_err_stream = NULL; __real_fflush(f); return EOF; }
    if (k) { __real_fflush(f); return EOF; }
    return __real_fflush(f);
}
int __wrap_fclose(FILE* f) {
    if (!is_model_stream(f)) { untrack(f); return __real_fclose(f); }
    const char* k = io_fails(); untrack(f);
    int pend = g_pending_err_stream == f; if (pend) g_pending_err_stream = NULL;
    int r = __real_fclose(f);
    return (k || pend) ? EOF : r;
}
/* Replay of a stream-interference counterexample: the effect of ANOTHER worker's fseek on the shared FILE* between this
 * worker's fseek and fread is reproduced deterministically by moving the stream right before the k-th fread issued on a
 * tracked read stream while interference is enabled (run with OMP_NUM_THREADS=1). */
size_t __real_fread(void*, size_t, size_t, FILE*);
size_t __wrap_fread(void* p, size_t sz, size_t cnt, FILE* f) {
    int tracked = 0; for (int i = 0; i < g_nstreams; i++) if (g_streams[i].f == f) tracked = 1;
    if (g_interfere_on && tracked) {
        g_unlocked_freads++;
        if (g_interfere_at && g_unlocked_freads == g_interfere_at) fseek(f, g_interfere_pos, SEEK_SET);
    }
    return __real_fread(p, sz, cnt, f);
}
void harness(void);
int main(void) { load(); harness(); printf("SYMX_DONE\n"); return 0; }
