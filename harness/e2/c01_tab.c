/* C01 / C05 — write -> read round trip of a TABLE of up to 3 columns through the PUBLIC API (engine E2).
 * Concrete per obligation (the "shape"): the schema (per column c: physical type VT_Tc, OPTIONAL/REQUIRED VT_Oc, FLBA length
 * VT_Lc), rows VT_R, the explicit row groups VT_RG (rows per carquet_writer_new_row_group section, 0 allowed), per column the
 * pattern of write_batch sizes VT_Bc (cycled inside every row group, 0 = an empty batch), the order of the calls VT_ORDER
 * (0 column by column, 1 columns in reverse order, 2 round robin one batch per column), page size(s) VT_PS, codec(s) VT_CODEC
 * (lists: one element per path by symx_choice), write_statistics VT_STATS, row_group_size VT_RGSIZE.
 * Symbolic per column (VT_Sc bits): 1 = null pattern (every pattern incl. all-null and no-null), 2 = value bits (extreme
 * integers, NaN payloads, -0.0, infinities included by construction; BYTE_ARRAY: bytes, and the length 0..3 of the first
 * VT_NSYMLEN values); otherwise CONCRETE content rich in special values (4 = all-null column, 8 = no-null column).  The
 * symbolic part can be restricted to the rows [VT_WLO, VT_WHI) (a window placed across a batch / page / row-group boundary of
 * a longer table; rows outside it are concrete).
 * Read back through every I/O mode in VT_READ (1 buffer, 2 stdio, 4 mmap; carquet_reader_open_file is declared in carquet.h
 * but defined nowhere in the library, so it cannot be exercised) and every way in VT_VIA (1 column reader,
 * one read per chunk; 2 column reader, reads of VT_K rows; 4 batch reader with batch_size VT_K).
 * With -DREFCHECK the file is additionally handed to the independent reference reader (C05): structure, sizes, counts, CRCs,
 * codec tags, encodings lists, every column's content; -DVT_STATCHECK: page statistics (when present) are true bounds. */
#include "pq_common.h"
#ifdef REFCHECK
#include "ref_parquet_read.h"
#endif

#ifndef VT_NC
#define VT_NC 1
#endif
#ifndef VT_R
#define VT_R 4
#endif
#ifndef VT_RG
#define VT_RG VT_R
#endif
#ifndef VT_T0
#define VT_T0 1
#endif
#ifndef VT_T1
#define VT_T1 5
#endif
#ifndef VT_T2
#define VT_T2 0
#endif
#ifndef VT_O0
#define VT_O0 1
#endif
#ifndef VT_O1
#define VT_O1 1
#endif
#ifndef VT_O2
#define VT_O2 0
#endif
#ifndef VT_S0
#define VT_S0 3
#endif
#ifndef VT_S1
#define VT_S1 0
#endif
#ifndef VT_S2
#define VT_S2 0
#endif
#ifndef VT_L0
#define VT_L0 3
#endif
#ifndef VT_L1
#define VT_L1 3
#endif
#ifndef VT_L2
#define VT_L2 3
#endif
#ifndef VT_B0
#define VT_B0 VT_R
#endif
#ifndef VT_B1
#define VT_B1 VT_R
#endif
#ifndef VT_B2
#define VT_B2 VT_R
#endif
#ifndef VT_ORDER
#define VT_ORDER 0
#endif
#ifndef VT_TRAIL0
#define VT_TRAIL0 0          /* 1: every column gets one more, empty, write_batch call at the end of every row group */
#endif
#ifndef VT_PS
#define VT_PS 1
#endif
#ifndef VT_CODEC
#define VT_CODEC CARQUET_COMPRESSION_UNCOMPRESSED
#endif
#ifndef VT_STATS
#define VT_STATS 1
#endif
#ifndef VT_READ
#define VT_READ 1
#endif
#ifndef VT_VIA
#define VT_VIA 1
#endif
#ifndef VT_K
#define VT_K 3
#endif
#ifndef VT_NSYMLEN
#define VT_NSYMLEN 1
#endif
#ifndef VT_WLO
#define VT_WLO 0             /* symbolic window: rows [VT_WLO, VT_WHI) */
#endif
#ifndef VT_WHI
#define VT_WHI VT_R
#endif
#define PATH "/mem/t.parquet"
#define MAXB 64

static pq_schema_t S; static pq_column_t C[PQ_MAXCOLS];
static const carquet_physical_type_t TYPES[7] = {CARQUET_PHYSICAL_BOOLEAN, CARQUET_PHYSICAL_INT32, CARQUET_PHYSICAL_INT64, CARQUET_PHYSICAL_FLOAT,
    CARQUET_PHYSICAL_DOUBLE, CARQUET_PHYSICAL_BYTE_ARRAY, CARQUET_PHYSICAL_FIXED_LEN_BYTE_ARRAY};
static const int CT[3] = {VT_T0, VT_T1, VT_T2}, CO[3] = {VT_O0, VT_O1, VT_O2}, CSYM[3] = {VT_S0, VT_S1, VT_S2}, CL[3] = {VT_L0, VT_L1, VT_L2};
static const int PB0[] = { VT_B0 }, PB1[] = { VT_B1 }, PB2[] = { VT_B2 };
static const int* const PB[3] = {PB0, PB1, PB2};
static const int PBN[3] = {(int)(sizeof PB0 / sizeof PB0[0]), (int)(sizeof PB1 / sizeof PB1[0]), (int)(sizeof PB2 / sizeof PB2[0])};
static const int RGS[] = { VT_RG };
#define NRG ((int)(sizeof RGS / sizeof RGS[0]))
static const int64_t PSL[] = { VT_PS };
static const carquet_compression_t CODL[] = { VT_CODEC };
static const char* const CNAME[3] = {"a", "bb", "c_3"};
static uint8_t bapool[3][PQ_MAXROWS * 6];
static uint8_t filebuf[16384];

static size_t vsize(int c) { return pq_type_size(S.type[c], S.type_len[c]); }
static const int16_t DEFPAT[24] = {1,0,1, 1,0,0, 0,1,1, 1,1,1, 0,0,0, 1,0,1, 0,1,0, 1,1,0};
static const uint32_t I32S[8] = {0x80000000u, 0x7FFFFFFFu, 0xFFFFFFFFu, 0, 1, 0x00010000u, 0x80000001u, 42};
static const uint64_t I64S[8] = {0x8000000000000000ull, 0x7FFFFFFFFFFFFFFFull, 0xFFFFFFFFFFFFFFFFull, 0, 1, 0x0000000100000000ull, 0x8000000000000001ull, 42};
static const uint32_t F32S[8] = {0x7FC00000u /* NaN */, 0x80000000u /* -0.0 */, 0x00000000u, 0x7F800000u /* +inf */, 0xFF800000u /* -inf */, 0xFFC00001u /* -NaN payload */, 0x00000001u /* denormal */, 0xC2280000u /* -42 */};
static const uint64_t F64S[8] = {0x7FF8000000000000ull, 0x8000000000000000ull, 0, 0x7FF0000000000000ull, 0xFFF0000000000000ull, 0xFFF8000000000001ull, 1, 0xC045000000000000ull};

static void make_column(int c) {
    static const char* const NN[3] = {"n0", "n1", "n2"}; static const char* const VN[3] = {"v0", "v1", "v2"};
    static const char* const LN[3] = {"l0", "l1", "l2"};
    int ct = CT[c], sym = CSYM[c];
    S.name[c] = CNAME[c]; S.type[c] = TYPES[ct]; S.rep[c] = CO[c] ? CARQUET_REPETITION_OPTIONAL : CARQUET_REPETITION_REQUIRED; S.type_len[c] = ct == 6 ? CL[c] : 0;
    C[c].nrows = VT_R;
    size_t vs = vsize(c);
    /* ---- concrete content first */
    for (int i = 0; i < VT_R; i++) C[c].def[i] = !CO[c] ? 1 : (sym & 4) ? 0 : (sym & 8) ? 1 : DEFPAT[(i + 7 * c) % 24];
    for (int i = 0; i < VT_R; i++) {           /* i = dense index of the value */
        int s = i + 3 * c;
        switch (ct) {
            case 0: C[c].vals[i] = (uint8_t)((s * 5 + 1) % 3 == 0); break;
            case 1: memcpy(C[c].vals + 4 * i, &I32S[s % 8], 4); break;
            case 2: memcpy(C[c].vals + 8 * i, &I64S[s % 8], 8); break;
            case 3: memcpy(C[c].vals + 4 * i, &F32S[s % 8], 4); break;
            case 4: memcpy(C[c].vals + 8 * i, &F64S[s % 8], 8); break;
            case 5: C[c].ba[i].data = bapool[c] + 3 * i; C[c].ba[i].length = (i * 5 + 2 + c) % 4;       /* 2,3,0,1,...: empty strings included */
                    bapool[c][3 * i] = (uint8_t)('a' + i); bapool[c][3 * i + 1] = 0; bapool[c][3 * i + 2] = (uint8_t)(0xF0 + i); break;      /* embedded NUL */
            default: for (size_t j = 0; j < vs; j++) C[c].vals[vs * i + j] = j == 1 ? 0 : (uint8_t)((s * vs + j) * 37 + 1); break;     /* byte 1 is NUL */
        }
    }
    /* ---- symbolic window: rows [VT_WLO, VT_WHI) get a symbolic null pattern (bit 1); the dense value slots that belong to the
       window under the concrete pattern before it get symbolic bits (bit 2) */
    int wlo = VT_WLO, whi = VT_WHI < VT_R ? VT_WHI : VT_R, w = whi > wlo ? whi - wlo : 0;
    int a = pq_present(&S, &C[c], c, 0, wlo);
    if (CO[c] && (sym & 1) && w) {
        uint8_t nulls[VT_R ? VT_R : 1]; symx_make_symbolic(nulls, (size_t)w, NN[c]);
        for (int i = 0; i < w; i++) { symx_assume(nulls[i] <= 1); C[c].def[wlo + i] = nulls[i] ? 0 : 1; }
    }
    if ((sym & 2) && w) {
        if (ct == 5) {
            uint8_t lens[VT_NSYMLEN ? VT_NSYMLEN : 1];
            symx_make_symbolic(bapool[c] + 3 * a, (size_t)w * 3, VN[c]); symx_make_symbolic(lens, VT_NSYMLEN, LN[c]);
            for (int i = 0; i < w && i < VT_NSYMLEN; i++) { symx_assume(lens[i] <= 3); C[c].ba[a + i].length = lens[i]; }
        } else {
            symx_make_symbolic(C[c].vals + (size_t)a * vs, (size_t)w * vs, VN[c]);
            if (ct == 0) for (int i = 0; i < w; i++) symx_assume(C[c].vals[a + i] <= 1);
        }
    }
}

/* one write_batch call for rows [r, r+take) of column c */
static void wb(carquet_writer_t* w, int c, int r, int take) {
    int voff = pq_present(&S, &C[c], c, 0, r);
    const void* vp = S.type[c] == CARQUET_PHYSICAL_BYTE_ARRAY ? (const void*)(C[c].ba + voff) : (const void*)(C[c].vals + (size_t)voff * vsize(c));
    const int16_t* dl = S.rep[c] == CARQUET_REPETITION_REQUIRED ? NULL : C[c].def + r;
    symx_assume(carquet_writer_write_batch(w, c, vp, take, dl, NULL) == CARQUET_OK);          /* property premise: every writer call returned OK */
}

static void write_table(int64_t ps, carquet_compression_t codec) {
    carquet_writer_options_t wo; carquet_writer_options_init(&wo);
    wo.compression = codec; wo.page_size = ps; wo.write_statistics = VT_STATS;
#ifdef VT_RGSIZE
    wo.row_group_size = VT_RGSIZE;
#endif
    carquet_error_t e0; memset(&e0, 0, sizeof e0);
    carquet_schema_t* sc = pq_make_schema(&S); symx_assume(sc != NULL);
#ifdef VT_WFILE
    FILE* wf = fopen(PATH, "wb"); symx_assume(wf != NULL);                 /* writer on a caller-owned FILE* */
    carquet_writer_t* w = carquet_writer_create_file(wf, sc, &wo, &e0); symx_assume(w != NULL);
#else
    carquet_writer_t* w = carquet_writer_create(PATH, sc, &wo, &e0); symx_assume(w != NULL);
#endif
    int row0 = 0;
    for (int g = 0; g < NRG; g++) {
        int nr = RGS[g], end = row0 + nr;
        if (g > 0) symx_assume(carquet_writer_new_row_group(w) == CARQUET_OK);
        int r[3] = {row0, row0, row0}, bk[3] = {0, 0, 0}, done[3] = {0, 0, 0};
        if (VT_ORDER == 2) {
            for (int it = 0; it < MAXB; it++) {
                int any = 0;
                for (int c = 0; c < VT_NC; c++) {
                    if (done[c]) continue;
                    int take = PB[c][bk[c]++ % PBN[c]]; if (r[c] + take > end) take = end - r[c];
                    wb(w, c, r[c], take); r[c] += take; any = 1;
                    if (r[c] >= end) done[c] = 1;
                }
                if (!any) break;
            }
        } else {
            for (int cc = 0; cc < VT_NC; cc++) {
                int c = VT_ORDER == 1 ? VT_NC - 1 - cc : cc;
                for (int it = 0; it < MAXB; it++) {
                    int take = PB[c][bk[c]++ % PBN[c]]; if (r[c] + take > end) take = end - r[c];
                    wb(w, c, r[c], take); r[c] += take;
                    if (r[c] >= end) break;
                }
            }
        }
        for (int c = 0; c < VT_NC; c++) { symx_assume(r[c] == end); if (VT_TRAIL0) wb(w, c, end, 0); }
        row0 = end;
    }
    symx_assume(carquet_writer_close(w) == CARQUET_OK);
#ifdef VT_WFILE
    symx_assume(fclose(wf) == 0);
#endif
    carquet_schema_free(sc);
}

/* rows [pos, pos+n) of column c as delivered by a column-reader read: n levels, the non-null values densely packed */
static void check_read(int c, int pos, int64_t n, const uint8_t* vals, const int16_t* defs) {
    int d = pq_present(&S, &C[c], c, 0, pos), k = 0;
    for (int i = 0; i < n; i++) {
        if (CO[c]) SYMX_ASSERT(defs[i] == C[c].def[pos + i], "same null positions");
        if (!C[c].def[pos + i]) continue;
        if (CT[c] == 5) {
            const carquet_byte_array_t* got = (const carquet_byte_array_t*)vals + k;
            SYMX_ASSERT(got->length == C[c].ba[d + k].length, "same byte-array length");
            for (int j = 0; j < 3; j++) if (j < C[c].ba[d + k].length) SYMX_ASSERT(got->data[j] == C[c].ba[d + k].data[j], "same byte-array bytes, readable right after the read call");
        } else {
            SYMX_ASSERT(memcmp(vals + (size_t)k * vsize(c), C[c].vals + (size_t)(d + k) * vsize(c), vsize(c)) == 0, "bit-identical non-null value");
        }
        k++;
    }
}

static int nonempty_expected(int* out) { int n = 0; for (int g = 0; g < NRG; g++) if (RGS[g] > 0) out[n++] = RGS[g]; return n; }

static void read_back(int mode, size_t len) {
    carquet_error_t err; memset(&err, 0, sizeof err);
    carquet_reader_options_t ro; carquet_reader_options_init(&ro);
    carquet_reader_t* r = NULL;
    if (mode == 1) r = carquet_reader_open_buffer(filebuf, len, &ro, &err);
    else { ro.use_mmap = (mode == 4); r = carquet_reader_open(PATH, &ro, &err); }
    SYMX_ASSERT(r != NULL, "a file whose writer calls all returned OK re-opens");
    SYMX_ASSERT(carquet_reader_num_rows(r) == VT_R, "same row count");
    SYMX_ASSERT(carquet_reader_num_columns(r) == VT_NC, "same column count");
    const carquet_schema_t* sc2 = carquet_reader_schema(r);
    SYMX_ASSERT(carquet_schema_num_columns(sc2) == VT_NC, "same number of schema columns");
    for (int c = 0; c < VT_NC; c++) {
        SYMX_ASSERT(carquet_schema_find_column(sc2, CNAME[c]) == c, "same column names");
        const carquet_schema_node_t* nd = carquet_schema_get_element(sc2, 1 + c);
        SYMX_ASSERT(nd && carquet_schema_node_physical_type(nd) == TYPES[CT[c]], "same physical type");
        SYMX_ASSERT(carquet_schema_node_repetition(nd) == S.rep[c], "same repetition");
        SYMX_ASSERT(CT[c] != 6 || carquet_schema_node_type_length(nd) == CL[c], "same type length");
    }
    int ngroups = carquet_reader_num_row_groups(r);
    int want[NRG + 1], nwant = nonempty_expected(want), seen = 0;
#ifndef VT_RGSIZE
    SYMX_ASSERT(ngroups >= nwant && ngroups <= NRG, "row groups");
#else
    (void)nwant;
#endif
    SYMX_ASSERT(ngroups >= 0 && ngroups <= VT_R + NRG, "row group count");
    int row0 = 0;
    for (int g = 0; g < ngroups; g++) {
        carquet_row_group_metadata_t gm;
        SYMX_ASSERT(carquet_reader_row_group_metadata(r, g, &gm) == CARQUET_OK, "row group metadata");
        int nr = (int)gm.num_rows;
        SYMX_ASSERT(nr >= 0 && row0 + nr <= VT_R, "row group rows within the file");
#ifndef VT_RGSIZE
        if (nr > 0) { SYMX_ASSERT(seen < nwant && nr == want[seen], "same partition of the rows into (non-empty) row groups"); seen++; }
#endif
        for (int c = 0; c < VT_NC; c++) {
            _Alignas(16) uint8_t vals[(VT_R + 1) * 16]; int16_t defs[VT_R + 1];
            if (VT_VIA & 1) {
                carquet_column_reader_t* cr = carquet_reader_get_column(r, g, c, &err);
                SYMX_ASSERT(cr != NULL, "column reader");
                memset(vals, 0xEE, sizeof vals);
                int64_t n = carquet_column_read_batch(cr, vals, VT_R + 1, defs, NULL);
                SYMX_ASSERT(n == nr, "all rows of the row group are delivered");
                check_read(c, row0, n, vals, defs);
                carquet_column_reader_free(cr);
            }
            if (VT_VIA & 2) {
                carquet_column_reader_t* cr = carquet_reader_get_column(r, g, c, &err);
                SYMX_ASSERT(cr != NULL, "column reader");
                int pos = 0;
                for (int it = 0; it < VT_R + 2 && pos < nr; it++) {
                    int64_t n = carquet_column_read_batch(cr, vals, VT_K, defs, NULL);
                    SYMX_ASSERT(n == (nr - pos < VT_K ? nr - pos : VT_K), "a read of k rows delivers min(k, remaining) rows");
                    check_read(c, row0 + pos, n, vals, defs);
                    pos += (int)n;
                }
                SYMX_ASSERT(pos == nr, "all rows of the row group are delivered in pieces");
                carquet_column_reader_free(cr);
            }
        }
        row0 += nr;
    }
    SYMX_ASSERT(row0 == VT_R, "row groups add up to the file");
#ifndef VT_RGSIZE
    SYMX_ASSERT(seen == nwant, "every non-empty row group of the writer is there");
#endif
    if (VT_VIA & 4) {
        carquet_batch_reader_config_t bc; carquet_batch_reader_config_init(&bc);
        bc.batch_size = VT_K;
        carquet_batch_reader_t* br = carquet_batch_reader_create(r, &bc, &err);
        SYMX_ASSERT(br != NULL, "batch reader");
        int pos = 0, polarity[3] = {-1, -1, -1};      /* which bit value means "null" is C02's subject: any one polarity per column is accepted here */
        for (int it = 0; it < VT_R + NRG + 2; it++) {
            carquet_row_batch_t* b = NULL;
            if (carquet_batch_reader_next(br, &b) != CARQUET_OK || !b) break;
            int64_t rows = carquet_row_batch_num_rows(b);
            SYMX_ASSERT(rows >= 0 && rows <= VT_K && pos + rows <= VT_R && carquet_row_batch_num_columns(b) == VT_NC, "batch shape");
            for (int c = 0; c < VT_NC; c++) {
                const void* data; const uint8_t* nulls; int64_t nv;
                SYMX_ASSERT(carquet_row_batch_column(b, c, &data, &nulls, &nv) == CARQUET_OK && nv == rows, "batch column");
                int d = pq_present(&S, &C[c], c, 0, pos), k = 0;
                for (int i = 0; i < rows; i++) {
                    int isnull = !C[c].def[pos + i];
                    if (CO[c] && nulls) {
                        int bit = (nulls[i / 8] >> (i % 8)) & 1;
                        if (polarity[c] < 0) polarity[c] = isnull ? bit : !bit;
                        SYMX_ASSERT(bit == (polarity[c] ? isnull : !isnull), "same null positions (batch reader bitmap)");
                    } else if (CO[c]) {
                        SYMX_ASSERT(!isnull, "same null positions (batch reader: no bitmap means no nulls)");
                    }
                    if (isnull) continue;
                    if (CT[c] == 5) {
                        const carquet_byte_array_t* got = (const carquet_byte_array_t*)data + k;
                        SYMX_ASSERT(got->length == C[c].ba[d + k].length, "same byte-array length (batch reader)");
                        for (int j = 0; j < 3; j++) if (j < C[c].ba[d + k].length) SYMX_ASSERT(got->data[j] == C[c].ba[d + k].data[j], "same byte-array bytes (batch reader)");
                    } else {
                        SYMX_ASSERT(memcmp((const uint8_t*)data + (size_t)k * vsize(c), C[c].vals + (size_t)(d + k) * vsize(c), vsize(c)) == 0, "bit-identical non-null value (batch reader)");
                    }
                    k++;
                }
            }
            pos += (int)rows;
            carquet_row_batch_free(b);
        }
        SYMX_ASSERT(pos == VT_R, "batch reader delivers every row");
        carquet_batch_reader_free(br);
    }
    carquet_reader_close(r);
}

#ifdef REFCHECK
static ref_pq_file rf; static ref_pq_column_data cd; static uint8_t arena[2048];
#ifdef VT_STATCHECK
/* a <= b for the physical type's order (signed integers; IEEE order for floats, never called with NaN) */
static int le_val(int ct, const uint8_t* a, const uint8_t* b) {
    if (ct == 1) { int32_t x, y; memcpy(&x, a, 4); memcpy(&y, b, 4); return x <= y; }
    if (ct == 2) { int64_t x, y; memcpy(&x, a, 8); memcpy(&y, b, 8); return x <= y; }
    if (ct == 3) { float x, y; memcpy(&x, a, 4); memcpy(&y, b, 4); return x <= y; }
    if (ct == 4) { double x, y; memcpy(&x, a, 8); memcpy(&y, b, 8); return x <= y; }
    return a[0] <= b[0];
}
static int is_nan(int ct, const uint8_t* a) {
    if (ct == 3) { uint32_t x; memcpy(&x, a, 4); return (x & 0x7F800000u) == 0x7F800000u && (x & 0x007FFFFFu) != 0; }
    if (ct == 4) { uint64_t x; memcpy(&x, a, 8); return (x & 0x7FF0000000000000ull) == 0x7FF0000000000000ull && (x & 0x000FFFFFFFFFFFFFull) != 0; }
    return 0;
}
#endif
static void ref_check(size_t len, carquet_compression_t codec) {
    ref_pq_open_opts ropts; memset(&ropts, 0, sizeof ropts);
    ropts.require_tiling = 1;          /* chunks tile [4, footer_start) without gap or overlap */
    ropts.crc_hard = 1;                /* stored CRC == CRC-32 of the stored page bytes */
    ropts.usize_hard = 1;              /* chunk total_uncompressed_size per parquet.thrift (headers included) */
    int rc = ref_pq_open_ex(filebuf, len, &ropts, &rf);
    symx_observe_int((uint64_t)(int64_t)rc, "ref_pq_open");
    SYMX_ASSERT(rc == 0, "independent reference reader accepts the file (structure, sizes, counts, CRC)");
    SYMX_ASSERT(rf.meta.num_rows == VT_R, "reference reader: file row count");
    SYMX_ASSERT(rf.n_leaves == VT_NC, "reference reader: number of columns");
    SYMX_ASSERT(rf.tiles_exactly, "reference reader: column chunks tile the data region");
    SYMX_ASSERT(rf.rg_total_byte_size_ok, "reference reader: RowGroup.total_byte_size is the uncompressed size of the column data");
    int want_codec = codec == CARQUET_COMPRESSION_SNAPPY ? REF_CODEC_SNAPPY : codec == CARQUET_COMPRESSION_LZ4 ? REF_CODEC_LZ4_RAW : REF_CODEC_UNCOMPRESSED;
    int row0 = 0;
    for (int g = 0; g < (int)rf.meta.n_row_groups; g++) {
        int nr = (int)rf.meta.row_groups[g].num_rows;
        SYMX_ASSERT(nr >= 0 && row0 + nr <= VT_R, "reference reader: row group rows within the file");
        for (int c = 0; c < VT_NC; c++) {
            const ref_pq_chunk* ch = &rf.chunk[g][c];
            const ref_column_meta* cm = &rf.meta.row_groups[g].columns[c].meta;
            SYMX_ASSERT(cm->codec == want_codec, "reference reader: codec tag is the codec the pages were compressed with");
            SYMX_ASSERT(ch->encodings_listed, "reference reader: every encoding used by a page is listed in ColumnMetaData.encodings");
            SYMX_ASSERT(ch->crc_all_ok && ch->usize_matches_spec, "reference reader: page CRCs and chunk uncompressed size");
            SYMX_ASSERT(cm->num_values == nr, "reference reader: chunk num_values == row group rows");
            cd.arena = arena; cd.arena_cap = sizeof arena;
            int rc2 = ref_pq_read_column(&rf, g, c, &cd);
            SYMX_ASSERT(rc2 == 0, "reference reader decodes the column chunk");
            SYMX_ASSERT((int)cd.n_levels == nr, "reference reader: levels per chunk");
            int k = 0, d = pq_present(&S, &C[c], c, 0, row0);
            for (int i = 0; i < nr; i++) {
                if (CO[c]) SYMX_ASSERT(cd.def[i] == C[c].def[row0 + i], "reference reader: same null positions");
                if (!C[c].def[row0 + i]) continue;
                if (CT[c] == 5) {
                    SYMX_ASSERT(cd.span[k].len == (uint32_t)C[c].ba[d + k].length, "reference reader: same byte-array length");
                    for (int j = 0; j < 3; j++) if (j < C[c].ba[d + k].length) SYMX_ASSERT(arena[cd.span[k].off + j] == C[c].ba[d + k].data[j], "reference reader: same bytes");
                } else if (CT[c] == 6) {
                    SYMX_ASSERT(cd.span[k].len == (uint32_t)CL[c] && memcmp(arena + cd.span[k].off, C[c].vals + (size_t)CL[c] * (d + k), CL[c]) == 0, "reference reader: same fixed-length value");
                } else {
                    uint64_t wantv = 0; memcpy(&wantv, C[c].vals + (size_t)(d + k) * vsize(c), vsize(c)); SYMX_ASSERT(cd.val[k] == wantv, "reference reader: same value bits");
                }
                k++;
            }
            SYMX_ASSERT((int)cd.n_values == k, "reference reader: number of non-null values");
#ifdef VT_STATCHECK
            /* page statistics, where the writer emitted them: null_count is the number of nulls of the page, min_value / max_value
               bound every non-null, non-NaN value of the page */
            int prow = row0;
            for (int p = 0; p < ch->n_pages; p++) {
                const ref_pq_page* pg = &ch->pages[p];
                if (pg->type != REF_PAGE_DATA) continue;
                int pn = pg->num_values;
                if (pg->has_stats) {
                    static ref_page_header ph; ref_tc_reader tr; ref_tc_reader_init(&tr, filebuf, len, pg->hdr_off);
                    SYMX_ASSERT(ref_parse_page_header(&tr, &ph) == 0, "reference parser: page header");
                    const ref_statistics* st = &ph.data.statistics;
                    int nulls = 0; for (int i = 0; i < pn; i++) nulls += !C[c].def[prow + i];
                    if (st->present & REF_BIT(REF_ST_NULL_COUNT)) SYMX_ASSERT(st->null_count == nulls, "page statistics: null_count is the number of nulls of the page");
                    /* min/max of FLOAT/DOUBLE columns are checked on CONCRETE content only (special values: NaN, -0.0, infinities,
                       denormals): the engine's solver is created for QF_ABV, which leaves floating-point comparisons of SYMBOLIC
                       values uninterpreted, so a bound check on symbolic floats would compare against orderings the real code
                       never produces (such counterexamples do not reproduce natively) */
                    if (CT[c] >= 1 && CT[c] <= 4 && !(CT[c] >= 3 && (CSYM[c] & 2))) {
                        int dd = pq_present(&S, &C[c], c, 0, prow), kk = 0;
                        for (int i = 0; i < pn; i++) {
                            if (!C[c].def[prow + i]) continue;
                            const uint8_t* v = C[c].vals + (size_t)(dd + kk) * vsize(c); kk++;
                            if (is_nan(CT[c], v)) continue;
                            if (st->present & REF_BIT(REF_ST_MIN_VALUE)) SYMX_ASSERT(st->min_value.len == vsize(c) && le_val(CT[c], filebuf + st->min_value.off, v), "page statistics: min_value <= every non-null value of the page");
                            if (st->present & REF_BIT(REF_ST_MAX_VALUE)) SYMX_ASSERT(st->max_value.len == vsize(c) && le_val(CT[c], v, filebuf + st->max_value.off), "page statistics: max_value >= every non-null value of the page");
                        }
                    }
                }
                prow += pn;
            }
#endif
        }
        row0 += nr;
    }
    SYMX_ASSERT(row0 == VT_R, "reference reader: row groups add up to the file");
}
#endif

void harness(void) {
    memset(&S, 0, sizeof S); memset(C, 0, sizeof C);
    S.ncols = VT_NC;
    for (int c = 0; c < VT_NC; c++) make_column(c);
    int npsl = (int)(sizeof PSL / sizeof PSL[0]), ncod = (int)(sizeof CODL / sizeof CODL[0]);
    int64_t ps = PSL[npsl > 1 ? symx_choice(npsl, "page_size") : 0];
    carquet_compression_t codec = CODL[ncod > 1 ? symx_choice(ncod, "codec") : 0];
    write_table(ps, codec);
    size_t len = symx_file_get(PATH, filebuf, sizeof filebuf);
    SYMX_ASSERT(len != (size_t)-1 && len >= 12 && len < sizeof filebuf, "a file exists after close");
#ifdef VT_TWICE
    /* determinism: the same table with the same options written again gives byte-identical files */
    {
        static uint8_t filebuf2[16384];
        write_table(ps, codec);
        size_t len2 = symx_file_get(PATH, filebuf2, sizeof filebuf2);
        SYMX_ASSERT(len2 == len, "writing the same table twice gives files of the same length");
        SYMX_ASSERT(len2 != len || memcmp(filebuf, filebuf2, len) == 0, "writing the same table twice gives byte-identical files");
    }
#endif
    for (int m = 1; m <= 4; m <<= 1) if (VT_READ & m) read_back(m, len);
#ifdef REFCHECK
    ref_check(len, codec);
#endif
}
