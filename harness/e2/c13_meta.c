/* C13 (E2 half) — Thrift metadata round-trips and is genuine compact protocol (src/thrift/parquet_types.c).
 * One neutral description D of a FileMetaData / PageHeader value is built first: its SHAPE is concrete (schema size VNS, row
 * groups VNRG x columns VNCOL, key/value count VNKV, list lengths VLONG, presence variant VPV of the optional fields, logical
 * type kind by symx_choice) and the scalars / string bytes of ONE field group VG are symbolic over their whole range (the others
 * carry fixed non-trivial values: every symbolic varint forks by its length, so groups are enumerated by the driver).
 *   VMODE 1  FileMetaData: D -> carquet struct -> parquet_write_file_metadata -> (a) parquet_parse_file_metadata: every field
 *            carquet serialises equals D, bytes consumed == produced (checked with the reference walker: the parser reports no
 *            count); (b) the independent reference parser/walker reads the same field ids, wire types and values.
 *   VMODE 2  PageHeader, the same with parquet_write_page_header / parquet_parse_page_header (bytes_read == produced).
 *   VMODE 3  FileMetaData written by the REFERENCE writer with options VOPT (long-form headers, long list sizes, injected unknown
 *            fields of every wire type incl. nested containers, fields carquet skips: sorting_columns, column_orders) ->
 *            parquet_parse_file_metadata == D.
 *   VMODE 4  PageHeader written by the reference writer with options -> parquet_parse_page_header == D, bytes_read == produced. */
#include "symx.h"
#include <stdint.h>
#include <stdlib.h>
#include <string.h>
#include <stdbool.h>
#include <carquet/carquet.h>
#include "core/arena.h"
#include "core/buffer.h"
#include "thrift/parquet_types.h"
#include "ref_parquet_meta.h"

#ifndef VMODE
#define VMODE 1
#endif
#ifndef VG
#define VG 0
#endif
#ifndef VNS
#define VNS 2              /* schema elements (root + leaves) */
#endif
#ifndef VNRG
#define VNRG 1
#endif
#ifndef VNCOL
#define VNCOL 1
#endif
#ifndef VNKV
#define VNKV 1
#endif
#ifndef VPV
#define VPV 1              /* presence variant of optional fields: 0 none, 1 all, 2 / 3 alternating */
#endif
#ifndef VLONG
#define VLONG 0            /* which list is long: 1 encodings = VLL, 2 path_in_schema = VLL, 3 key/value = VLL */
#endif
#ifndef VLL
#define VLL 15
#endif
#ifndef VLONGSTR
#define VLONGSTR 0         /* 1 created_by, 2 schema name, 3 key/value value, 4 statistics max_value: ~300 concrete bytes */
#endif
#ifndef VOPT
#define VOPT 0
#endif
#ifndef VPT
#define VPT -1             /* page type: -1 = symx_choice among DATA, DICTIONARY, DATA_V2 */
#endif
#ifdef VERIF_SYMX
/* The engine's built-in strlen model concretises every symbolic string byte (a 255-way fork per byte).  Under the engine the C
 * definition below is executed instead (functions defined in the program take precedence over models); with the string bytes
 * assumed non-NUL each loop test has one feasible outcome, so the bytes stay symbolic.  The native replay uses libc's strlen. */
size_t strlen(const char* s) { size_t n = 0; while (s[n] != 0) n++; return n; }
#endif
#if VOPT == 4 && VMODE >= 3
#define C13TAG " [unknown list<bool> field in the bytes]"       /* lets the known finding F-THRIFT-SKIP-BOOL be recognised */
#else
#define C13TAG ""
#endif
#undef SYMX_ASSERT
#define SYMX_ASSERT(c, msg) symx_assert((c) ? 1 : 0, msg C13TAG)
#define MAXS 17
#define MAXL 16
#define OPTP(bit) (VPV == 1 || (VPV == 2 && ((bit) & 1)) || (VPV == 3 && !((bit) & 1)))

/* ---------------------------------------------------------------- symbolic-or-default field values */
static int32_t S32(int g, const char* nm, int32_t d) { if (g != VG) return d; int32_t v; symx_make_symbolic(&v, 4, nm); return v; }
static int64_t S64(int g, const char* nm, int64_t d) { if (g != VG) return d; int64_t v; symx_make_symbolic(&v, 8, nm); return v; }
static int16_t S16(int g, const char* nm, int16_t d) { if (g != VG) return d; int16_t v; symx_make_symbolic(&v, 2, nm); return v; }
static int SB(int g, const char* nm, int d) { if (g != VG) return d; uint8_t v; symx_make_symbolic(&v, 1, nm); symx_assume(v <= 1); return v; }
static int32_t SE(int g, const char* nm, int lo, int hi, int d) { if (g != VG) return d; uint8_t v; symx_make_symbolic(&v, 1, nm); symx_assume(v <= hi - lo); return lo + (int32_t)v; }

typedef struct { int present; int len; char* p; } dstr;       /* NUL-terminated, no interior NUL (carquet keeps C strings) */
typedef struct { int len; uint8_t* p; } dbin;                  /* len 0 = absent */
static char strpool[2048]; static size_t strpool_used;
static char* pool_take(size_t n) { char* p = strpool + strpool_used; strpool_used += n; symx_assume(strpool_used <= sizeof strpool); return p; }
static char LONGS[301];
static void long_init(void) { for (int i = 0; i < 300; i++) LONGS[i] = (char)(1 + (i * 37 + (i >> 3)) % 255); LONGS[300] = 0; }

/* string of length 0..3: symbolic bytes (any value but NUL) when the group is selected */
static void SSTR(int g, const char* nm, dstr* s, const char* dflt) {
    s->present = 1;
    if (g != VG) { s->len = (int)strlen(dflt); s->p = pool_take(s->len + 1); memcpy(s->p, dflt, s->len + 1); return; }
    s->len = symx_choice(4, nm);
    s->p = pool_take(4);
    symx_make_symbolic(s->p, 3, nm);
    for (int i = 0; i < s->len; i++) symx_assume(s->p[i] != 0);
    s->p[s->len] = 0;
}
static void SBIN(int g, const char* nm, dbin* b, int dlen) {
    b->p = (uint8_t*)pool_take(4);
    if (g != VG) { b->len = dlen; for (int i = 0; i < dlen; i++) b->p[i] = (uint8_t)(0xF0 + i * 0x11); if (dlen) b->p[0] = 0; return; }   /* binary may hold NUL bytes */
    b->len = symx_choice(4, nm);
    symx_make_symbolic(b->p, 3, nm);
}

/* ---------------------------------------------------------------- the neutral description */
typedef struct {
    int has_type, type, type_length, has_rep, rep; dstr name; int num_children, has_conv, conv, scale, precision, has_field_id, field_id;
    int lkind;                                   /* carquet_logical_type_id_t, 0 = none */
    int l_scale, l_precision, l_utc, l_unit, l_width, l_signed;
} d_selem;
typedef struct { dbin max_dep, min_dep; int has_null; int64_t null_count; int has_distinct; int64_t distinct_count; dbin max_value, min_value; } d_stats;
typedef struct { int page_type, encoding, count; } d_encstat;
typedef struct { dstr key, value; } d_kv;
typedef struct {
    int type, nenc, enc[MAXL], npath; dstr path[MAXL]; int codec; int64_t num_values, tus, tcs, dpo;
    int has_ipo; int64_t ipo; int has_dicto; int64_t dicto; int has_stats; d_stats st; int has_bfo; int64_t bfo; int has_bfl; int32_t bfl;
    int nkv; d_kv kv[2]; int nes; d_encstat es[2];     /* parsed by carquet, never written by it: reference-writer modes only */
} d_colmeta;
typedef struct { dstr file_path; int64_t file_offset; int has_meta; d_colmeta m; int has_oio; int64_t oio; int has_oil; int32_t oil; int has_cio; int64_t cio; int has_cil; int32_t cil; } d_chunk;
typedef struct { int ncol; d_chunk c[2]; int64_t tbs, num_rows; int has_fo; int64_t fo; int has_tcs; int64_t tcs; int has_ord; int16_t ord; } d_rg;
typedef struct { int32_t version; int ns; d_selem s[MAXS]; int64_t num_rows; int nrg; d_rg rg[2]; int nkv; d_kv kv[MAXL]; dstr created_by; } d_file;
typedef struct {
    int type; int32_t usize, csize; int has_crc; int32_t crc;
    int32_t num_values, encoding, def_enc, rep_enc; int has_stats; d_stats st;        /* DATA */
    int32_t num_nulls, num_rows, dl_len, rl_len; int is_compressed;                    /* DATA_V2 (+ num_values, encoding) */
    int is_sorted;                                                                     /* DICTIONARY (+ num_values, encoding) */
} d_page;

static char* mkname(const char* tag, const char* sfx) {
    char* n = pool_take(24); size_t k = 0;
    for (const char* q = tag; *q; q++) n[k++] = *q;
    for (const char* q = sfx; *q; q++) n[k++] = *q;
    n[k] = 0; return n;
}
static void build_stats(d_stats* st, int gb, int gn, const char* tag) {
    /* names must be unique per instance: tag distinguishes column / page statistics */
    #define NM(sfx) mkname(tag, sfx)
    SBIN(gb, NM("maxd"), &st->max_dep, OPTP(1) ? 2 : 0); SBIN(gb, NM("mind"), &st->min_dep, OPTP(2) ? 1 : 0);
    st->has_null = OPTP(3); st->null_count = S64(gn, NM("nullc"), 7);
    st->has_distinct = OPTP(4); st->distinct_count = S64(gn + 1, NM("distc"), -3);
    SBIN(gn + 1, NM("maxv"), &st->max_value, OPTP(5) ? 3 : 0); SBIN(gn + 1, NM("minv"), &st->min_value, OPTP(6) ? 3 : 0);
    #undef NM
#if VLONGSTR == 4
    st->max_value.p = (uint8_t*)LONGS; st->max_value.len = 300;
#endif
}

static void build_file(d_file* D) {
    memset(D, 0, sizeof *D);
    long_init();
    D->version = S32(1, "version", 2); D->num_rows = S64(1, "num_rows", 1234567);
    if (OPTP(6)) SSTR(2, "created_by", &D->created_by, "cq");
#if VLONGSTR == 1
    D->created_by.present = 1; D->created_by.p = LONGS; D->created_by.len = 300;
#endif
    D->nkv = VLONG == 3 ? VLL : VNKV;
    for (int i = 0; i < D->nkv; i++) {
        if (i == 0) { SSTR(2, "kv_key", &D->kv[i].key, "k"); if (OPTP(2)) SSTR(2, "kv_val", &D->kv[i].value, "v\xc3\xa9"); }
        else { SSTR(-1, "", &D->kv[i].key, i & 1 ? "key" : ""); if (i & 1) SSTR(-1, "", &D->kv[i].value, ""); }
    }
#if VLONGSTR == 3
    if (D->nkv) { D->kv[0].value.present = 1; D->kv[0].value.p = LONGS; D->kv[0].value.len = 300; }
#endif
    /* schema: root group + VNS-1 leaves; element K = 1 (or the root when VNS == 1) carries the symbolic groups 3..5 */
    D->ns = VNS;
    for (int i = 0; i < VNS; i++) {
        d_selem* e = &D->s[i];
        int K = (i == (VNS > 1 ? 1 : 0));
        if (i == 0) {
            SSTR(K ? 5 : -1, "name", &e->name, "schema"); e->num_children = VNS > 1 ? S32(3, "root_children", VNS - 1) : 0;
            if (VG == 3 && VNS > 1) symx_assume(e->num_children >= 0);      /* 0 and absent are the same value for carquet; negative counts are not written at all */
            if (VNS > 1) continue;
        }
        if (i > 0) SSTR(K ? 5 : -1, "name", &e->name, i % 3 == 0 ? "" : i % 3 == 1 ? "c\xff" : "col");
        e->has_type = 1; e->type = K ? SE(3, "type", 0, 7, 7) : i % 8;
        e->type_length = OPTP(2) ? (K ? S32(3, "type_length", 12) : 3) : 0; if (K && VG == 3 && OPTP(2)) symx_assume(e->type_length >= 0);
        e->has_rep = 1; e->rep = K ? SE(3, "rep", 0, 2, 1) : i % 3;
        e->has_conv = OPTP(6); e->conv = K ? SE(4, "conv", 0, 21, 5) : 0;
        e->scale = OPTP(7) ? (K ? S32(4, "scale", -2) : 1) : 0;
        e->precision = OPTP(8) ? (K ? S32(4, "precision", 9) : 2) : 0;
        e->has_field_id = OPTP(9); e->field_id = K ? S32(4, "field_id", -77) : i;
        if (OPTP(10) && K) {
            e->lkind = VG == 5 ? 1 + symx_choice(14, "logical kind") : CARQUET_LOGICAL_DECIMAL;
            e->l_scale = S32(5, "l_scale", 3); e->l_precision = S32(5, "l_precision", 10);
            e->l_utc = SB(5, "l_utc", 1); e->l_unit = SE(5, "l_unit", 0, 2, 1);
            e->l_width = (int8_t)SE(5, "l_width", 0, 255, 32); e->l_signed = SB(5, "l_signed", 0);
        } else if (OPTP(10)) e->lkind = 1 + i % 4;            /* parameterless kinds on the other elements */
    }
#if VLONGSTR == 2
    D->s[VNS > 1 ? 1 : 0].name.p = LONGS; D->s[VNS > 1 ? 1 : 0].name.len = 300;
#endif
    D->nrg = VNRG;
    for (int g = 0; g < VNRG; g++) {
        d_rg* R = &D->rg[g]; int G = (g == VNRG - 1);
        R->ncol = VNCOL;
        R->tbs = G ? S64(6, "tbs", 4096) : 1; R->num_rows = G ? S64(6, "rg_rows", 100) : 0;
        R->has_fo = OPTP(5); R->fo = G ? S64(7, "rg_fo", 4) : 4;
        R->has_tcs = OPTP(6); R->tcs = G ? S64(7, "rg_tcs", INT64_MAX) : 9;
        R->has_ord = OPTP(7); R->ord = G ? S16(8, "ordinal", (int16_t)g) : (int16_t)g;
        for (int c = 0; c < VNCOL; c++) {
            d_chunk* C = &R->c[c]; int L = G && (c == VNCOL - 1);
            if (OPTP(1)) SSTR(L ? 10 : -1, "file_path", &C->file_path, "f");
            C->file_offset = L ? S64(8, "c_fo", 0) : 4;
            C->has_meta = 1;
            C->has_oio = OPTP(4); C->oio = L ? S64(9, "oio", 1000) : 1; C->has_oil = OPTP(5); C->oil = L ? S32(8, "oil", 20) : 2;
            C->has_cio = OPTP(6); C->cio = L ? S64(9, "cio", INT64_MIN) : 3; C->has_cil = OPTP(7); C->cil = L ? S32(10, "cil", -1) : 4;
            d_colmeta* M = &C->m;
            M->type = L ? SE(10, "m_type", 0, 7, 1) : 2;
            M->nenc = VLONG == 1 ? VLL : 2;
            for (int i = 0; i < M->nenc; i++) M->enc[i] = (L && i == 0) ? SE(10, "enc0", 0, 9, 8) : (i * 3) % 10;
            M->npath = VLONG == 2 ? VLL : 1;
            for (int i = 0; i < M->npath; i++) SSTR((L && i == 0) ? 16 : -1, "path0", &M->path[i], i ? "" : "col");
            M->codec = L ? SE(10, "codec", 0, 7, 1) : 0;
            M->num_values = L ? S64(11, "m_nv", 100) : 5; M->tus = L ? S64(11, "m_tus", 1 << 20) : 6;
            M->tcs = L ? S64(12, "m_tcs", 77) : 7; M->dpo = L ? S64(12, "m_dpo", 4) : 4;
            M->has_ipo = OPTP(10); M->ipo = L ? S64(13, "m_ipo", -1) : 0; M->has_dicto = OPTP(11); M->dicto = L ? S64(13, "m_dicto", 4) : 4;
            M->has_stats = OPTP(12);
            if (M->has_stats) { char* t = pool_take(8); t[0] = 'g'; t[1] = (char)('0' + g); t[2] = 'c'; t[3] = (char)('0' + c); t[4] = '_'; t[5] = 0; build_stats(&M->st, L ? 16 : -1, L ? 14 : -2, t); }
            M->has_bfo = OPTP(14); M->bfo = L ? S64(14, "m_bfo", 1 << 30) : 8; M->has_bfl = OPTP(15); M->bfl = L ? S32(10, "m_bfl", 1024) : 32;
#if VMODE == 3
            /* fields the reference writer emits and carquet parses (carquet's own writer never emits them) */
            M->nkv = OPTP(8) ? 1 : 0; if (M->nkv) { SSTR(L ? 17 : -1, "ckv_key", &M->kv[0].key, "ck"); SSTR(L ? 17 : -1, "ckv_val", &M->kv[0].value, "cv"); }
            M->nes = OPTP(13) ? 2 : 0;
            for (int i = 0; i < M->nes; i++) { M->es[i].page_type = (L && !i) ? SE(17, "es_pt", 0, 3, 2) : 0; M->es[i].encoding = (L && !i) ? SE(17, "es_enc", 0, 9, 8) : 0; M->es[i].count = (L && !i) ? S32(17, "es_cnt", 5) : 1; }
#endif
        }
    }
}

static void build_page(d_page* P) {
    memset(P, 0, sizeof *P);
    long_init();
    static const int PT[3] = {CARQUET_PAGE_DATA, CARQUET_PAGE_DICTIONARY, CARQUET_PAGE_DATA_V2};
    P->type = VPT >= 0 ? VPT : PT[symx_choice(3, "page type")];
    P->usize = S32(1, "usize", 4096); P->csize = S32(1, "csize", 1000);
    P->has_crc = OPTP(4); P->crc = S32(2, "crc", (int32_t)0xDEADBEEF);
    P->num_values = S32(2, "num_values", 100); P->encoding = SE(2, "encoding", 0, 9, 8);
    P->def_enc = SE(2, "def_enc", 0, 9, 3); P->rep_enc = SE(2, "rep_enc", 0, 9, 3);
    P->num_nulls = S32(3, "num_nulls", 3); P->num_rows = S32(3, "p_num_rows", 90);
    P->dl_len = S32(4, "dl_len", 11); P->rl_len = S32(4, "rl_len", 0); P->is_compressed = SB(4, "is_compressed", 0);
    P->is_sorted = SB(3, "is_sorted", 1);
    P->has_stats = OPTP(5) && P->type == CARQUET_PAGE_DATA;
    if (P->has_stats) build_stats(&P->st, 5, 6, "pg_");
}

/* ---------------------------------------------------------------- D -> carquet structures (heap / static storage) */
static void to_cq_stats(parquet_statistics_t* s, const d_stats* d) {
    memset(s, 0, sizeof *s);
    if (d->max_dep.len) { s->max_deprecated = d->max_dep.p; s->max_deprecated_len = d->max_dep.len; }
    if (d->min_dep.len) { s->min_deprecated = d->min_dep.p; s->min_deprecated_len = d->min_dep.len; }
    s->has_null_count = d->has_null; s->null_count = d->null_count;
    s->has_distinct_count = d->has_distinct; s->distinct_count = d->distinct_count;
    if (d->max_value.len) { s->max_value = d->max_value.p; s->max_value_len = d->max_value.len; }
    if (d->min_value.len) { s->min_value = d->min_value.p; s->min_value_len = d->min_value.len; }
}
static parquet_schema_element_t cq_schema[MAXS]; static parquet_row_group_t cq_rg[2]; static parquet_column_chunk_t cq_col[2][2];
static parquet_key_value_t cq_kv[MAXL]; static carquet_encoding_t cq_enc[2][2][MAXL]; static char* cq_path[2][2][MAXL];
static void to_cq_file(parquet_file_metadata_t* M, const d_file* D) {
    memset(M, 0, sizeof *M);
    M->version = D->version; M->num_rows = D->num_rows; M->created_by = D->created_by.present ? D->created_by.p : NULL;
    M->num_schema_elements = D->ns; M->schema = cq_schema;
    for (int i = 0; i < D->ns; i++) {
        parquet_schema_element_t* e = &cq_schema[i]; const d_selem* d = &D->s[i];
        memset(e, 0, sizeof *e);
        e->has_type = d->has_type; e->type = (carquet_physical_type_t)d->type; e->type_length = d->type_length;
        e->has_repetition = d->has_rep; e->repetition_type = (carquet_field_repetition_t)d->rep; e->name = d->name.p; e->num_children = d->num_children;
        e->has_converted_type = d->has_conv; e->converted_type = (carquet_converted_type_t)d->conv; e->scale = d->scale; e->precision = d->precision;
        e->has_field_id = d->has_field_id; e->field_id = d->field_id;
        if (d->lkind) {
            e->has_logical_type = true; e->logical_type.id = (carquet_logical_type_id_t)d->lkind;
            if (d->lkind == CARQUET_LOGICAL_DECIMAL) { e->logical_type.params.decimal.scale = d->l_scale; e->logical_type.params.decimal.precision = d->l_precision; }
            else if (d->lkind == CARQUET_LOGICAL_TIME) { e->logical_type.params.time.is_adjusted_to_utc = d->l_utc; e->logical_type.params.time.unit = (carquet_time_unit_t)d->l_unit; }
            else if (d->lkind == CARQUET_LOGICAL_TIMESTAMP) { e->logical_type.params.timestamp.is_adjusted_to_utc = d->l_utc; e->logical_type.params.timestamp.unit = (carquet_time_unit_t)d->l_unit; }
            else if (d->lkind == CARQUET_LOGICAL_INTEGER) { e->logical_type.params.integer.bit_width = (int8_t)d->l_width; e->logical_type.params.integer.is_signed = d->l_signed; }
        }
    }
    M->num_row_groups = D->nrg; M->row_groups = cq_rg;
    for (int g = 0; g < D->nrg; g++) {
        parquet_row_group_t* r = &cq_rg[g]; const d_rg* R = &D->rg[g];
        memset(r, 0, sizeof *r);
        r->num_columns = R->ncol; r->columns = cq_col[g]; r->total_byte_size = R->tbs; r->num_rows = R->num_rows;
        r->has_file_offset = R->has_fo; r->file_offset = R->fo; r->has_total_compressed_size = R->has_tcs; r->total_compressed_size = R->tcs;
        r->has_ordinal = R->has_ord; r->ordinal = R->ord;
        for (int c = 0; c < R->ncol; c++) {
            parquet_column_chunk_t* k = &cq_col[g][c]; const d_chunk* C = &R->c[c];
            memset(k, 0, sizeof *k);
            k->file_path = C->file_path.present ? C->file_path.p : NULL; k->file_offset = C->file_offset; k->has_metadata = C->has_meta;
            k->has_offset_index_offset = C->has_oio; k->offset_index_offset = C->oio; k->has_offset_index_length = C->has_oil; k->offset_index_length = C->oil;
            k->has_column_index_offset = C->has_cio; k->column_index_offset = C->cio; k->has_column_index_length = C->has_cil; k->column_index_length = C->cil;
            parquet_column_metadata_t* m = &k->metadata; const d_colmeta* Dm = &C->m;
            m->type = (carquet_physical_type_t)Dm->type; m->num_encodings = Dm->nenc; m->encodings = cq_enc[g][c];
            for (int i = 0; i < Dm->nenc; i++) cq_enc[g][c][i] = (carquet_encoding_t)Dm->enc[i];
            m->path_len = Dm->npath; m->path_in_schema = cq_path[g][c];
            for (int i = 0; i < Dm->npath; i++) cq_path[g][c][i] = Dm->path[i].p;
            m->codec = (carquet_compression_t)Dm->codec; m->num_values = Dm->num_values; m->total_uncompressed_size = Dm->tus; m->total_compressed_size = Dm->tcs;
            m->data_page_offset = Dm->dpo; m->has_index_page_offset = Dm->has_ipo; m->index_page_offset = Dm->ipo;
            m->has_dictionary_page_offset = Dm->has_dicto; m->dictionary_page_offset = Dm->dicto;
            m->has_statistics = Dm->has_stats; if (Dm->has_stats) to_cq_stats(&m->statistics, &Dm->st);
            m->has_bloom_filter_offset = Dm->has_bfo; m->bloom_filter_offset = Dm->bfo; m->has_bloom_filter_length = Dm->has_bfl; m->bloom_filter_length = Dm->bfl;
        }
    }
    M->num_key_value = D->nkv; M->key_value_metadata = D->nkv ? cq_kv : NULL;
    for (int i = 0; i < D->nkv; i++) { cq_kv[i].key = D->kv[i].key.p; cq_kv[i].value = D->kv[i].value.present ? D->kv[i].value.p : NULL; }
}
static void to_cq_page(parquet_page_header_t* H, const d_page* P) {
    memset(H, 0, sizeof *H);
    H->type = (carquet_page_type_t)P->type; H->uncompressed_page_size = P->usize; H->compressed_page_size = P->csize; H->has_crc = P->has_crc; H->crc = P->crc;
    if (P->type == CARQUET_PAGE_DATA) {
        H->data_page_header.num_values = P->num_values; H->data_page_header.encoding = (carquet_encoding_t)P->encoding;
        H->data_page_header.definition_level_encoding = (carquet_encoding_t)P->def_enc; H->data_page_header.repetition_level_encoding = (carquet_encoding_t)P->rep_enc;
        H->data_page_header.has_statistics = P->has_stats; if (P->has_stats) to_cq_stats(&H->data_page_header.statistics, &P->st);
    } else if (P->type == CARQUET_PAGE_DATA_V2) {
        H->data_page_header_v2.num_values = P->num_values; H->data_page_header_v2.num_nulls = P->num_nulls; H->data_page_header_v2.num_rows = P->num_rows;
        H->data_page_header_v2.encoding = (carquet_encoding_t)P->encoding; H->data_page_header_v2.definition_levels_byte_length = P->dl_len;
        H->data_page_header_v2.repetition_levels_byte_length = P->rl_len; H->data_page_header_v2.is_compressed = P->is_compressed;
    } else {
        H->dictionary_page_header.num_values = P->num_values; H->dictionary_page_header.encoding = (carquet_encoding_t)P->encoding; H->dictionary_page_header.is_sorted = P->is_sorted;
    }
}

/* ---------------------------------------------------------------- comparisons against D */
/* branch-free comparisons: a byte-wise memcmp / strlen on symbolic bytes would fork per byte */
static int bytes_eq(const void* a, const void* b, int n) { unsigned diff = 0; for (int i = 0; i < n; i++) diff |= (unsigned)(((const uint8_t*)a)[i] ^ ((const uint8_t*)b)[i]); return diff == 0; }
static int cstr_is(const char* got, const char* want, int len) { unsigned bad = 0; for (int i = 0; i < len; i++) bad |= (unsigned)(got[i] == 0) | (unsigned)((uint8_t)got[i] ^ (uint8_t)want[i]); return bad == 0 && got[len] == 0; }
#define STR_EQ(got, d, what) do { if ((d).present) { SYMX_ASSERT((got) != NULL, what ": string present"); SYMX_ASSERT(cstr_is((got), (d).p, (d).len), what ": same string bytes and length"); } \
                                  else SYMX_ASSERT((got) == NULL, what ": absent stays absent"); } while (0)
#define BIN_EQ(gp, gl, d, what) do { SYMX_ASSERT((gl) == (d).len, what ": same binary length"); if ((d).len) SYMX_ASSERT((gp) != NULL && bytes_eq((gp), (d).p, (d).len), what ": same binary bytes"); } while (0)
static void cmp_cq_stats(const parquet_statistics_t* s, const d_stats* d, int with_exact) {
    BIN_EQ(s->max_deprecated, s->max_deprecated_len, d->max_dep, "Statistics.max"); BIN_EQ(s->min_deprecated, s->min_deprecated_len, d->min_dep, "Statistics.min");
    SYMX_ASSERT(s->has_null_count == d->has_null && (!d->has_null || s->null_count == d->null_count), "Statistics.null_count");
    SYMX_ASSERT(s->has_distinct_count == d->has_distinct && (!d->has_distinct || s->distinct_count == d->distinct_count), "Statistics.distinct_count");
    BIN_EQ(s->max_value, s->max_value_len, d->max_value, "Statistics.max_value"); BIN_EQ(s->min_value, s->min_value_len, d->min_value, "Statistics.min_value");
    (void)with_exact;
}
static void cmp_cq_file(const parquet_file_metadata_t* M, const d_file* D, int refmode) {
    SYMX_ASSERT(M->version == D->version, "FileMetaData.version"); SYMX_ASSERT(M->num_rows == D->num_rows, "FileMetaData.num_rows");
    STR_EQ(M->created_by, D->created_by, "FileMetaData.created_by");
    SYMX_ASSERT(M->num_schema_elements == D->ns, "FileMetaData.schema length");
    for (int i = 0; i < D->ns; i++) {
        const parquet_schema_element_t* e = &M->schema[i]; const d_selem* d = &D->s[i];
        SYMX_ASSERT(e->has_type == d->has_type && (!d->has_type || (int)e->type == d->type), "SchemaElement.type");
        SYMX_ASSERT(e->type_length == d->type_length, "SchemaElement.type_length");
        SYMX_ASSERT(e->has_repetition == d->has_rep && (!d->has_rep || (int)e->repetition_type == d->rep), "SchemaElement.repetition_type");
        STR_EQ(e->name, d->name, "SchemaElement.name");
        SYMX_ASSERT(e->num_children == d->num_children, "SchemaElement.num_children");
        SYMX_ASSERT(e->has_converted_type == d->has_conv && (!d->has_conv || (int)e->converted_type == d->conv), "SchemaElement.converted_type");
        SYMX_ASSERT(e->scale == d->scale && e->precision == d->precision, "SchemaElement.scale/precision");
        SYMX_ASSERT(e->has_field_id == d->has_field_id && (!d->has_field_id || e->field_id == d->field_id), "SchemaElement.field_id");
        SYMX_ASSERT(e->has_logical_type == (d->lkind != 0), "SchemaElement.logicalType presence");
        if (d->lkind) {
            SYMX_ASSERT((int)e->logical_type.id == d->lkind, "LogicalType member");
            if (d->lkind == CARQUET_LOGICAL_DECIMAL) SYMX_ASSERT(e->logical_type.params.decimal.scale == d->l_scale && e->logical_type.params.decimal.precision == d->l_precision, "DecimalType scale/precision");
            if (d->lkind == CARQUET_LOGICAL_TIME) SYMX_ASSERT(e->logical_type.params.time.is_adjusted_to_utc == (bool)d->l_utc && (int)e->logical_type.params.time.unit == d->l_unit, "TimeType utc/unit");
            if (d->lkind == CARQUET_LOGICAL_TIMESTAMP) SYMX_ASSERT(e->logical_type.params.timestamp.is_adjusted_to_utc == (bool)d->l_utc && (int)e->logical_type.params.timestamp.unit == d->l_unit, "TimestampType utc/unit");
            if (d->lkind == CARQUET_LOGICAL_INTEGER) SYMX_ASSERT(e->logical_type.params.integer.bit_width == (int8_t)d->l_width && e->logical_type.params.integer.is_signed == (bool)d->l_signed, "IntType bitWidth/isSigned");
        }
    }
    SYMX_ASSERT(M->num_row_groups == D->nrg, "FileMetaData.row_groups length");
    for (int g = 0; g < D->nrg; g++) {
        const parquet_row_group_t* r = &M->row_groups[g]; const d_rg* R = &D->rg[g];
        SYMX_ASSERT(r->total_byte_size == R->tbs && r->num_rows == R->num_rows, "RowGroup.total_byte_size/num_rows");
        SYMX_ASSERT(r->has_file_offset == R->has_fo && (!R->has_fo || r->file_offset == R->fo), "RowGroup.file_offset");
        SYMX_ASSERT(r->has_total_compressed_size == R->has_tcs && (!R->has_tcs || r->total_compressed_size == R->tcs), "RowGroup.total_compressed_size");
        SYMX_ASSERT(r->has_ordinal == R->has_ord && (!R->has_ord || r->ordinal == R->ord), "RowGroup.ordinal");
        SYMX_ASSERT(r->num_columns == R->ncol, "RowGroup.columns length");
        for (int c = 0; c < R->ncol; c++) {
            const parquet_column_chunk_t* k = &r->columns[c]; const d_chunk* C = &R->c[c];
            STR_EQ(k->file_path, C->file_path, "ColumnChunk.file_path");
            SYMX_ASSERT(k->file_offset == C->file_offset, "ColumnChunk.file_offset"); SYMX_ASSERT(k->has_metadata == C->has_meta, "ColumnChunk.meta_data presence");
            SYMX_ASSERT(k->has_offset_index_offset == C->has_oio && (!C->has_oio || k->offset_index_offset == C->oio), "ColumnChunk.offset_index_offset");
            SYMX_ASSERT(k->has_offset_index_length == C->has_oil && (!C->has_oil || k->offset_index_length == C->oil), "ColumnChunk.offset_index_length");
            SYMX_ASSERT(k->has_column_index_offset == C->has_cio && (!C->has_cio || k->column_index_offset == C->cio), "ColumnChunk.column_index_offset");
            SYMX_ASSERT(k->has_column_index_length == C->has_cil && (!C->has_cil || k->column_index_length == C->cil), "ColumnChunk.column_index_length");
            const parquet_column_metadata_t* m = &k->metadata; const d_colmeta* Dm = &C->m;
            SYMX_ASSERT((int)m->type == Dm->type && (int)m->codec == Dm->codec, "ColumnMetaData.type/codec");
            SYMX_ASSERT(m->num_encodings == Dm->nenc, "ColumnMetaData.encodings length");
            for (int i = 0; i < Dm->nenc; i++) SYMX_ASSERT((int)m->encodings[i] == Dm->enc[i], "ColumnMetaData.encodings[i]");
            SYMX_ASSERT(m->path_len == Dm->npath, "ColumnMetaData.path_in_schema length");
            for (int i = 0; i < Dm->npath; i++) STR_EQ(m->path_in_schema[i], Dm->path[i], "ColumnMetaData.path_in_schema[i]");
            SYMX_ASSERT(m->num_values == Dm->num_values && m->total_uncompressed_size == Dm->tus, "ColumnMetaData.num_values/total_uncompressed_size");
            SYMX_ASSERT(m->total_compressed_size == Dm->tcs && m->data_page_offset == Dm->dpo, "ColumnMetaData.total_compressed_size/data_page_offset");
            SYMX_ASSERT(m->has_index_page_offset == Dm->has_ipo && (!Dm->has_ipo || m->index_page_offset == Dm->ipo), "ColumnMetaData.index_page_offset");
            SYMX_ASSERT(m->has_dictionary_page_offset == Dm->has_dicto && (!Dm->has_dicto || m->dictionary_page_offset == Dm->dicto), "ColumnMetaData.dictionary_page_offset");
            SYMX_ASSERT(m->has_statistics == Dm->has_stats, "ColumnMetaData.statistics presence");
            if (Dm->has_stats) cmp_cq_stats(&m->statistics, &Dm->st, refmode);
            SYMX_ASSERT(m->has_bloom_filter_offset == Dm->has_bfo && (!Dm->has_bfo || m->bloom_filter_offset == Dm->bfo), "ColumnMetaData.bloom_filter_offset");
            SYMX_ASSERT(m->has_bloom_filter_length == Dm->has_bfl && (!Dm->has_bfl || m->bloom_filter_length == Dm->bfl), "ColumnMetaData.bloom_filter_length");
            if (refmode) {
                SYMX_ASSERT(m->num_key_value == Dm->nkv, "ColumnMetaData.key_value_metadata length");
                for (int i = 0; i < Dm->nkv; i++) { STR_EQ(m->key_value_metadata[i].key, Dm->kv[i].key, "ColumnMetaData KeyValue.key"); STR_EQ(m->key_value_metadata[i].value, Dm->kv[i].value, "ColumnMetaData KeyValue.value"); }
                SYMX_ASSERT(m->num_encoding_stats == Dm->nes, "ColumnMetaData.encoding_stats length");
                for (int i = 0; i < Dm->nes; i++) SYMX_ASSERT((int)m->encoding_stats[i].page_type == Dm->es[i].page_type && (int)m->encoding_stats[i].encoding == Dm->es[i].encoding && m->encoding_stats[i].count == Dm->es[i].count, "PageEncodingStats fields");
            }
        }
    }
    SYMX_ASSERT(M->num_key_value == D->nkv, "FileMetaData.key_value_metadata length");
    for (int i = 0; i < D->nkv; i++) { STR_EQ(M->key_value_metadata[i].key, D->kv[i].key, "KeyValue.key"); STR_EQ(M->key_value_metadata[i].value, D->kv[i].value, "KeyValue.value"); }
}
static void cmp_cq_page(const parquet_page_header_t* H, const d_page* P) {
    SYMX_ASSERT((int)H->type == P->type, "PageHeader.type");
    SYMX_ASSERT(H->uncompressed_page_size == P->usize && H->compressed_page_size == P->csize, "PageHeader page sizes");
    SYMX_ASSERT(H->has_crc == P->has_crc && (!P->has_crc || H->crc == P->crc), "PageHeader.crc");
    if (P->type == CARQUET_PAGE_DATA) {
        SYMX_ASSERT(H->data_page_header.num_values == P->num_values && (int)H->data_page_header.encoding == P->encoding, "DataPageHeader.num_values/encoding");
        SYMX_ASSERT((int)H->data_page_header.definition_level_encoding == P->def_enc && (int)H->data_page_header.repetition_level_encoding == P->rep_enc, "DataPageHeader level encodings");
        SYMX_ASSERT(H->data_page_header.has_statistics == P->has_stats, "DataPageHeader.statistics presence");
        if (P->has_stats) {
            const parquet_statistics_t* s = &H->data_page_header.statistics; const d_stats* d = &P->st;
            SYMX_ASSERT(s->has_null_count == d->has_null && (!d->has_null || s->null_count == d->null_count), "DataPageHeader.statistics.null_count [page statistics]");
            SYMX_ASSERT(s->has_distinct_count == d->has_distinct && (!d->has_distinct || s->distinct_count == d->distinct_count), "DataPageHeader.statistics.distinct_count [page statistics]");
            SYMX_ASSERT(s->max_value_len == d->max_value.len && s->min_value_len == d->min_value.len && s->max_deprecated_len == d->max_dep.len && s->min_deprecated_len == d->min_dep.len, "DataPageHeader.statistics min/max lengths [page statistics]");
            if (d->max_value.len) SYMX_ASSERT(s->max_value != NULL && bytes_eq(s->max_value, d->max_value.p, d->max_value.len), "DataPageHeader.statistics.max_value [page statistics]");
            if (d->min_value.len) SYMX_ASSERT(s->min_value != NULL && bytes_eq(s->min_value, d->min_value.p, d->min_value.len), "DataPageHeader.statistics.min_value [page statistics]");
        }
    } else if (P->type == CARQUET_PAGE_DATA_V2) {
        SYMX_ASSERT(H->data_page_header_v2.num_values == P->num_values && H->data_page_header_v2.num_nulls == P->num_nulls && H->data_page_header_v2.num_rows == P->num_rows, "DataPageHeaderV2 counts");
        SYMX_ASSERT((int)H->data_page_header_v2.encoding == P->encoding && H->data_page_header_v2.definition_levels_byte_length == P->dl_len && H->data_page_header_v2.repetition_levels_byte_length == P->rl_len, "DataPageHeaderV2 encoding / level lengths");
        SYMX_ASSERT(H->data_page_header_v2.is_compressed == (bool)P->is_compressed, "DataPageHeaderV2.is_compressed");
    } else {
        SYMX_ASSERT(H->dictionary_page_header.num_values == P->num_values && (int)H->dictionary_page_header.encoding == P->encoding, "DictionaryPageHeader.num_values/encoding");
        SYMX_ASSERT(H->dictionary_page_header.is_sorted == (bool)P->is_sorted, "DictionaryPageHeader.is_sorted");
    }
}
#include "c13_ref.inc"
