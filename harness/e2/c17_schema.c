/* C17 — schema trees map to the right leaf columns and definition / repetition levels (engine E2).
 *
 * VS_MODE 1 (reader): a flat list of VS_N schema elements (element 0 = root) whose num_children and repetition_type are
 *   SYMBOLIC under the well-formedness predicate "depth-first encoding of a tree covering all VS_N elements" (decided by the
 *   reference's ref_pq_analyze_schema; the tree shapes fork), physical types symbolic 0..7 (VS_ROWS 0) or a fixed mix by
 *   position (VS_ROWS 1), type_length symbolic 1..60, a STRING and a DECIMAL logical type at fixed positions.  The reference
 *   writer serialises it (VS_ROWS 0: no row group; VS_ROWS 1: one row group of 2 records whose chunks hold one page of 2..3 levels written with
 *   the TEXTBOOK maximum levels), carquet_reader_open_buffer opens it.  Asserted against the textbook rule
 *   (ref_pq_leaf_levels, cross-checked by a recursion in this file): number and order of leaves, find_column, the element
 *   accessors, the level accessors, and (VS_ROWS 1) that every column reader returns the stored levels and values, i.e.
 *   decodes with exactly the textbook maxima.
 * VS_MODE 2 (builder): carquet_schema_create + VS_NCOLS x carquet_schema_add_column (names c0.., repetition symbolic at up to
 *   VS_NSYMREP positions, physical type symbolic at one position): counts, names, types, repetition, type length, levels
 *   reported by the builder's schema, then written by the REAL writer with zero rows and re-opened: the reader's schema
 *   reports the same; both equal the textbook rule for a flat schema.
 * VS_MODE 3 (builder, levels as used): a flat schema with one column of symbolic repetition, two rows written with levels
 *   through the real writer and read back: levels and values as written (the writer and the reader agree on the maxima).
 * VS_MODE 4 (builder): carquet_schema_add_group at the root and with an unsupported parent.
 * With -DEXCLUDE_F_SCHEMA_NODE_LEVELS (open finding) the comparisons of carquet_schema_node_max_def_level/_max_rep_level with
 * the textbook maxima are left out (the accessors return the node's own contribution only). */
#include "pq_common.h"
#include "ref_parquet_write.h"

#ifndef VS_MODE
#define VS_MODE 1
#endif
#ifndef VS_N
#define VS_N 4
#endif
#ifndef VS_ROWS
#define VS_ROWS 0
#endif
#ifndef VS_THRIFT
#define VS_THRIFT 0
#endif
#ifndef VS_NCOLS
#define VS_NCOLS 2
#endif
#ifndef VS_NSYMREP
#define VS_NSYMREP 3
#endif
#ifndef VS_ROOTKIDS
#define VS_ROOTKIDS 0             /* k > 0: only trees whose root has exactly k children; k < 0: at least -k children (splits a family over obligations) */
#endif
#ifndef VS_KID1_MIN
#define VS_KID1_MIN 0             /* only trees whose element 1 has VS_KID1_MIN..VS_KID1_MAX children (second split key) */
#endif
#ifndef VS_KID1_MAX
#define VS_KID1_MAX 255
#endif
#ifndef VS_SYMTYPES
#define VS_SYMTYPES (!VS_ROWS)    /* physical type of every leaf symbolic 0..7 (else a fixed mix by position) */
#endif
#ifndef VS_LEVELS_ONLY
#define VS_LEVELS_ONLY 0          /* 1: only the level accessors are compared (dedicated obligation of the open finding) */
#endif
#define PATH "/mem/schema.parquet"

static int streq(const char* a, const char* b) { return a && b && strcmp(a, b) == 0; }

#if VS_MODE == 1
/* ============================================================================================ reader side */
static uint8_t pool[512]; static size_t pool_used;
static ref_span_t pool_put(const void* p, size_t n) { ref_span_t s; s.off = (uint32_t)pool_used; s.len = (uint32_t)n; if (n) memcpy(pool + pool_used, p, n); pool_used += n; return s; }
static ref_span_t pool_str(const char* s) { return pool_put(s, strlen(s)); }
static const char* const NAMES[8] = {"schema", "n1", "x.n1", "n3", "a.b.n3", "n5", "n6.", "n7"};     /* names may contain dots; a lookup is by the whole stored name */
static const int MIX[8] = {REF_TYPE_INT32, REF_TYPE_INT64, REF_TYPE_BYTE_ARRAY, REF_TYPE_DOUBLE, REF_TYPE_INT32, REF_TYPE_FIXED_LEN_BYTE_ARRAY, REF_TYPE_INT96, REF_TYPE_BOOLEAN};

static ref_w_file D; static ref_pq_file F; static ref_meta_wopts WO;
static uint8_t filebuf[4096];
static int16_t parent[REF_MAX_SCHEMA], leaf_of_schema[REF_MAX_SCHEMA], schema_of_leaf[REF_MAX_COLUMNS];
static uint8_t lmd[REF_MAX_COLUMNS], lmr[REF_MAX_COLUMNS];

/* the textbook recursion, written here independently of the reference: node i with the levels accumulated above it;
 * returns the index behind the subtree */
static int own_def[VS_N + 1], own_rep[VS_N + 1], own_leaf_elem[VS_N + 1], own_nleaves;
static int walk(int i, int d, int r) {
    if (i >= VS_N) return VS_N + 1;
    const ref_schema_element* e = &D.schema[i];
    if (i > 0) { if (e->repetition_type != REF_REP_REQUIRED) d++; if (e->repetition_type == REF_REP_REPEATED) r++; }
    if (i > 0 && (e->present & REF_BIT(REF_SE_TYPE))) { own_def[own_nleaves] = d; own_rep[own_nleaves] = r; own_leaf_elem[own_nleaves] = i; own_nleaves++; return i + 1; }
    int next = i + 1;
    for (int c = 0; c < e->num_children; c++) next = walk(next, d, r);
    return next;
}

/* page content of leaf L (VS_ROWS 1): three levels (max,0) (max-1 or 0, 0) (max, max_rep) and the values of the defined ones */
static uint16_t Pdef[REF_MAX_COLUMNS][3], Prep[REF_MAX_COLUMNS][3]; static int Pnlv[REF_MAX_COLUMNS];
static uint64_t Pval[REF_MAX_COLUMNS][3]; static ref_span_t Pspan[REF_MAX_COLUMNS][3];
static size_t type_size(int t, int tl) {
    switch (t) {
    case REF_TYPE_BOOLEAN: return 1;
    case REF_TYPE_INT32: case REF_TYPE_FLOAT: return 4;
    case REF_TYPE_INT64: case REF_TYPE_DOUBLE: return 8;
    case REF_TYPE_INT96: return 12;
    case REF_TYPE_FIXED_LEN_BYTE_ARRAY: return (size_t)tl;
    default: return sizeof(carquet_byte_array_t);
    }
}

void harness(void) {
    memset(&D, 0, sizeof D); memset(&F, 0, sizeof F);
    pool_used = 0; pool_str("~");
    static uint8_t nc[VS_N], rp[VS_N], ty[VS_N], tl[VS_N];
    symx_make_symbolic(nc, VS_N, "num_children"); symx_make_symbolic(rp, VS_N, "repetition");
    symx_make_symbolic(ty, VS_N, "type"); symx_make_symbolic(tl, VS_N, "type_length");
    /* ---- the element list */
    {
        ref_schema_element* root = &D.schema[0];
        root->present = REF_BIT(REF_SE_NAME) | REF_BIT(REF_SE_NUM_CHILDREN);
        root->name = pool_str(NAMES[0]);
        symx_assume(nc[0] < VS_N);
        if (VS_ROOTKIDS > 0) symx_assume(nc[0] == VS_ROOTKIDS);
        if (VS_ROOTKIDS < 0) symx_assume(nc[0] >= -(VS_ROOTKIDS));
        root->num_children = nc[0];
        /* the root (message) is not a field: whatever repetition a writer states for it (absent, REQUIRED; parquet-mr's MessageType is
           REPEATED, older writers emit that or OPTIONAL) it contributes to no column's levels */
        if (VS_N > 1 && VS_N < 6) {
            /* all four labels up to 4 nodes; with 5 nodes absent / REQUIRED only (the 5-node families are the longest obligations) */
            int rr = symx_choice(VS_N <= 4 ? 4 : 2, "root repetition");
            if (rr) { root->present |= REF_BIT(REF_SE_REPETITION_TYPE); root->repetition_type = rr == 1 ? REF_REP_REQUIRED : rr == 2 ? REF_REP_OPTIONAL : REF_REP_REPEATED; }
        }
    }
    for (int i = 1; i < VS_N; i++) {
        ref_schema_element* e = &D.schema[i];
        e->present = REF_BIT(REF_SE_NAME) | REF_BIT(REF_SE_REPETITION_TYPE);
        e->name = pool_str(NAMES[i]);
        symx_assume(rp[i] <= 2); e->repetition_type = rp[i];
        symx_assume(nc[i] < VS_N);
        if (i == 1) symx_assume(nc[1] >= VS_KID1_MIN && nc[1] <= VS_KID1_MAX);
        if (nc[i] == 0) {                 /* leaf (fork) */
            e->present |= REF_BIT(REF_SE_TYPE) | REF_BIT(REF_SE_TYPE_LENGTH);
            symx_assume(tl[i] >= 1 && tl[i] <= 60); e->type_length = tl[i];
#if !VS_SYMTYPES
            e->type = MIX[i]; if (e->type == REF_TYPE_FIXED_LEN_BYTE_ARRAY) e->type_length = 3;
#else
            symx_assume(ty[i] <= 7); e->type = ty[i];
#endif
            if (i % 2) { e->present |= REF_BIT(REF_SE_NUM_CHILDREN); e->num_children = 0; }      /* legal noise */
            if (i == 2) { e->type = REF_TYPE_BYTE_ARRAY; e->present |= REF_BIT(REF_SE_CONVERTED_TYPE) | REF_BIT(REF_SE_LOGICAL_TYPE); e->converted_type = 0; e->logical_kind = 1; }
            if (i == 4) {
                static const uint8_t raw[] = { 0x5C, 0x15, 0x04, 0x15, 0x12, 0x00, 0x00 };      /* LogicalType{5: DECIMAL{scale 2, precision 9}} */
                e->type = REF_TYPE_INT32;
                e->present |= REF_BIT(REF_SE_CONVERTED_TYPE) | REF_BIT(REF_SE_SCALE) | REF_BIT(REF_SE_PRECISION) | REF_BIT(REF_SE_LOGICAL_TYPE) | REF_BIT(REF_SE_FIELD_ID);
                e->converted_type = 5; e->scale = 2; e->precision = 9; e->logical_kind = 5; e->logical_raw = pool_put(raw, sizeof raw); e->field_id = 77;
            }
        } else {
            e->present |= REF_BIT(REF_SE_NUM_CHILDREN); e->num_children = nc[i];
            if (i == 3) { e->present |= REF_BIT(REF_SE_CONVERTED_TYPE); e->converted_type = 3; }   /* LIST annotation on a group */
        }
    }
    D.n_schema = VS_N;
    /* ---- well-formedness: a depth-first encoding of one tree covering all elements (the reference decides) */
    int32_t nl = 0;
    int arc = ref_pq_analyze_schema(D.schema, VS_N, parent, leaf_of_schema, schema_of_leaf, lmd, lmr, &nl);
    symx_assume(arc == 0);
    /* oracle: textbook rule, from the reference and from the recursion above */
    F.meta.n_schema = VS_N; for (int i = 0; i < VS_N; i++) { F.meta.schema[i] = D.schema[i]; F.parent[i] = parent[i]; F.leaf_of_schema[i] = leaf_of_schema[i]; }
    F.n_leaves = nl; for (int l = 0; l < nl; l++) F.schema_of_leaf[l] = schema_of_leaf[l];
    own_nleaves = 0;
    int end = walk(0, 0, 0);
    SYMX_ASSERT(end == VS_N && own_nleaves == nl, "oracle self-check: the recursion in the harness covers exactly the elements and finds the same leaves as the reference");
    int MD[REF_MAX_COLUMNS], MR[REF_MAX_COLUMNS];
    for (int l = 0; l < nl; l++) {
        symx_assume(ref_pq_leaf_levels(&F, l, &MD[l], &MR[l]) == 0);
        SYMX_ASSERT(MD[l] == own_def[l] && MR[l] == own_rep[l] && own_leaf_elem[l] == schema_of_leaf[l] && MD[l] == lmd[l] && MR[l] == lmr[l], "oracle self-check: reference level rule == recursion in the harness");
    }
    /* ---- file */
    D.version = 2; D.n_row_groups = VS_ROWS ? 1 : 0;
#if VS_ROWS
    /* every chunk holds 2 records.  Flat leaf: (max_def, 0) (max_def - 1 or 0, 0).  Repeated leaf: (max_def, 0) (max_def, max_rep) (max_def - 1, 0). */
    D.rg[0].num_rows = 2;
    for (int l = 0; l < nl; l++) {
        const ref_schema_element* e = &D.schema[schema_of_leaf[l]];
        ref_w_chunk* ch = &D.rg[0].chunks[l]; ch->codec = REF_CODEC_UNCOMPRESSED; ch->n_pages = 1;
        ref_w_page* pg = &ch->pages[0];
        int md = MD[l], mr = MR[l], n = 0;
        Pdef[l][n] = (uint16_t)md; Prep[l][n] = 0; n++;
        if (mr > 0) { Pdef[l][n] = (uint16_t)md; Prep[l][n] = (uint16_t)mr; n++; }
        Pdef[l][n] = (uint16_t)(md ? md - 1 : 0); Prep[l][n] = 0; n++;
        Pnlv[l] = n;
        int nv = 0;
        for (int k = 0; k < n; k++) {
            if (Pdef[l][k] != md) continue;
            uint8_t bytes[12]; for (int b = 0; b < 12; b++) bytes[b] = (uint8_t)(0x31 + 16 * l + 3 * k + b);
            Pval[l][nv] = 0; Pspan[l][nv].off = 0; Pspan[l][nv].len = 0;
            switch (e->type) {
            case REF_TYPE_BOOLEAN: Pval[l][nv] = (uint64_t)((k + l) & 1); break;
            case REF_TYPE_INT32: case REF_TYPE_FLOAT: { uint32_t x; memcpy(&x, bytes, 4); Pval[l][nv] = x; break; }
            case REF_TYPE_INT64: case REF_TYPE_DOUBLE: { uint64_t x; memcpy(&x, bytes, 8); Pval[l][nv] = x; break; }
            case REF_TYPE_INT96: Pspan[l][nv] = pool_put(bytes, 12); break;
            case REF_TYPE_FIXED_LEN_BYTE_ARRAY: Pspan[l][nv] = pool_put(bytes, (size_t)e->type_length); break;
            default: Pspan[l][nv] = pool_put(bytes, (size_t)(1 + k)); break;
            }
            nv++;
        }
        pg->page_type = REF_PAGE_DATA; pg->encoding = REF_ENC_PLAIN; pg->n_levels = (uint32_t)n; pg->n_values = (uint32_t)nv;
        pg->def = Pdef[l]; pg->rep = Prep[l]; pg->val = Pval[l]; pg->span = Pspan[l];
    }
#endif
    D.with_created_by = 1; D.created_by = pool_str("ref-writer (schema check)");
    D.pool = pool; D.thrift_opts = NULL;
#if VS_THRIFT
    memset(&WO, 0, sizeof WO);
    WO.sk[REF_SK_SCHEMA_ELEMENT].long_form_mask = 0x07FEu; WO.sk[REF_SK_FILE_META].long_list_size = 1;
    WO.sk[REF_SK_SCHEMA_ELEMENT].n_inject = 2;
    WO.sk[REF_SK_SCHEMA_ELEMENT].inject[0] = (ref_inject){ .field_id = 16, .anchor_id = 0, .where = REF_INJ_END, .wire_type = REF_TC_STRUCT, .variant = 1, .force_long = 0 };
    WO.sk[REF_SK_SCHEMA_ELEMENT].inject[1] = (ref_inject){ .field_id = 11, .anchor_id = 4, .where = REF_INJ_BEFORE, .wire_type = REF_TC_I32, .variant = 1, .force_long = 1 };
    D.thrift_opts = &WO;
#endif
    D.pool_len = pool_used;
    size_t flen = 0;
    int wrc = ref_pq_write(&D, filebuf, sizeof filebuf, &flen, NULL);
    symx_assume(wrc == 0);
    symx_observe_int((uint64_t)nl, "leaves");
    uint8_t* f = malloc(flen); symx_assume(f != NULL);
    memcpy(f, filebuf, flen);
    carquet_error_t err; memset(&err, 0, sizeof err);
    carquet_reader_t* r = carquet_reader_open_buffer(f, flen, NULL, &err);
    SYMX_ASSERT(r != NULL, "a file with a well-formed schema tree opens");
    const carquet_schema_t* sc = carquet_reader_schema(r);
    SYMX_ASSERT(sc != NULL, "the reader has a schema");
#if !VS_LEVELS_ONLY
    /* ---- number and order of leaves */
    SYMX_ASSERT(carquet_reader_num_columns(r) == nl, VS_N == 1 ? "carquet_reader_num_columns == number of leaves of the tree [root-only schema: 0]" : "carquet_reader_num_columns == number of leaves of the tree");
    SYMX_ASSERT(carquet_schema_num_columns(sc) == nl, VS_N == 1 ? "carquet_schema_num_columns == number of leaves of the tree [root-only schema: 0]" : "carquet_schema_num_columns == number of leaves of the tree");
    SYMX_ASSERT(carquet_schema_num_elements(sc) == VS_N, "carquet_schema_num_elements == number of stored elements");
    SYMX_ASSERT(carquet_schema_get_element(sc, VS_N) == NULL && carquet_schema_get_element(sc, -1) == NULL, "element index out of range yields NULL");
    SYMX_ASSERT(carquet_schema_find_column(sc, "absent") == -1, "an unknown column name is not found");
    for (int i = 0; i < VS_N; i++) {
        const carquet_schema_node_t* nd = carquet_schema_get_element(sc, i);
        const ref_schema_element* e = &D.schema[i];
        SYMX_ASSERT(nd != NULL, "every stored element is accessible");
        SYMX_ASSERT(streq(carquet_schema_node_name(nd), NAMES[i]), "element name as stored");
        int is_leaf = i > 0 && (e->present & REF_BIT(REF_SE_TYPE)) != 0;
        if (i > 0) SYMX_ASSERT(carquet_schema_node_is_leaf(nd) == (is_leaf != 0), "is_leaf <=> the element has a type");
        if (i > 0) SYMX_ASSERT((int)carquet_schema_node_repetition(nd) == e->repetition_type, "repetition as stored");
        if (is_leaf) {
            SYMX_ASSERT((int)carquet_schema_node_physical_type(nd) == e->type, "physical type as stored");
            SYMX_ASSERT(carquet_schema_node_type_length(nd) == e->type_length, "type length as stored");
            const carquet_logical_type_t* lt = carquet_schema_node_logical_type(nd);
            if (e->present & REF_BIT(REF_SE_LOGICAL_TYPE)) {
                SYMX_ASSERT(lt != NULL, "logical type present where the file states one");
                SYMX_ASSERT(lt->id == (e->logical_kind == 1 ? CARQUET_LOGICAL_STRING : CARQUET_LOGICAL_DECIMAL), "logical type kind as stored");
                if (e->logical_kind == 5) SYMX_ASSERT(lt->params.decimal.scale == 2 && lt->params.decimal.precision == 9, "DECIMAL parameters as stored");
            } else {
                SYMX_ASSERT(lt == NULL, "no logical type where the file states none");
            }
            /* lookup by name gives the LEAF ordinal in depth-first order */
            SYMX_ASSERT(carquet_schema_find_column(sc, NAMES[i]) == leaf_of_schema[i], "find_column(name of a leaf) == its depth-first leaf ordinal");
        } else if (i > 0) {
            SYMX_ASSERT(carquet_schema_find_column(sc, NAMES[i]) == -1, "a group name is not a column");
            SYMX_ASSERT(carquet_schema_node_logical_type(nd) == NULL, "no logical type where the file states none");
        }
    }
#endif
#if VS_ROWS
    /* ---- maximum levels AS THE READER USES THEM: the chunk of every leaf was written with the textbook maxima */
    for (int l = 0; l < nl; l++) {
        const ref_schema_element* e = &D.schema[schema_of_leaf[l]];
        carquet_column_reader_t* cr = carquet_reader_get_column(r, 0, l, &err);
        SYMX_ASSERT(cr != NULL, "column reader of leaf l");
        size_t vs = type_size(e->type, e->type_length);
        uint8_t* vals = malloc(4 * vs); int16_t defs[4], reps[4];
        symx_assume(vals != NULL);
        int64_t n = carquet_column_read_batch(cr, vals, 4, defs, reps);
        SYMX_ASSERT(n == Pnlv[l], "all stored levels are delivered");
        int k = 0;
        for (int i = 0; i < Pnlv[l]; i++) {
            SYMX_ASSERT(defs[i] == (int16_t)Pdef[l][i], "definition level as stored (reader decodes with the textbook maximum)");
            SYMX_ASSERT(reps[i] == (int16_t)Prep[l][i], "repetition level as stored (reader decodes with the textbook maximum)");
            if (Pdef[l][i] != MD[l]) continue;
            const uint8_t* p = vals + (size_t)k * vs;
            int ok;
            switch (e->type) {
            case REF_TYPE_BOOLEAN: ok = p[0] == (uint8_t)Pval[l][k]; break;
            case REF_TYPE_INT32: case REF_TYPE_FLOAT: { uint32_t x; memcpy(&x, p, 4); ok = x == (uint32_t)Pval[l][k]; break; }
            case REF_TYPE_INT64: case REF_TYPE_DOUBLE: { uint64_t x; memcpy(&x, p, 8); ok = x == Pval[l][k]; break; }
            case REF_TYPE_INT96: case REF_TYPE_FIXED_LEN_BYTE_ARRAY: ok = memcmp(p, pool + Pspan[l][k].off, vs) == 0; break;
            default: { carquet_byte_array_t ba; memcpy(&ba, p, sizeof ba); ok = ba.length == (int32_t)Pspan[l][k].len && memcmp(ba.data, pool + Pspan[l][k].off, Pspan[l][k].len) == 0; break; }
            }
            SYMX_ASSERT(ok, "value of a defined level as stored (dense packing)");
            k++;
        }
        free(vals);
        carquet_column_reader_free(cr);
    }
#endif
#if !defined(EXCLUDE_F_SCHEMA_NODE_LEVELS) || VS_LEVELS_ONLY
    /* ---- the public level accessors of a LEAF: "maximum definition / repetition level for a column" */
    for (int l = 0; l < nl; l++) {
        const carquet_schema_node_t* nd = carquet_schema_get_element(sc, schema_of_leaf[l]);
        SYMX_ASSERT(nd != NULL, "leaf element accessible");
        SYMX_ASSERT(carquet_schema_node_max_def_level(nd) == MD[l], "carquet_schema_node_max_def_level(leaf) == number of optional or repeated nodes on its path");
        SYMX_ASSERT(carquet_schema_node_max_rep_level(nd) == MR[l], "carquet_schema_node_max_rep_level(leaf) == number of repeated nodes on its path");
    }
#endif
    carquet_reader_close(r);
    free(f);
}

#elif VS_MODE == 2
/* ============================================================================================ builder side */
static char NAME[VS_NCOLS + 1][8];
static uint8_t filebuf[32768];
static const carquet_physical_type_t TYPES[8] = {CARQUET_PHYSICAL_INT32, CARQUET_PHYSICAL_INT64, CARQUET_PHYSICAL_BYTE_ARRAY, CARQUET_PHYSICAL_DOUBLE,
    CARQUET_PHYSICAL_BOOLEAN, CARQUET_PHYSICAL_FIXED_LEN_BYTE_ARRAY, CARQUET_PHYSICAL_INT96, CARQUET_PHYSICAL_FLOAT};
static carquet_physical_type_t ctype[VS_NCOLS + 1]; static carquet_field_repetition_t crep[VS_NCOLS + 1]; static int ctl[VS_NCOLS + 1];

static void mkname(char* out, int i) { int n = 0; out[n++] = 'c'; if (i >= 100) out[n++] = (char)('0' + i / 100); if (i >= 10) out[n++] = (char)('0' + (i / 10) % 10); out[n++] = (char)('0' + i % 10); out[n] = 0; }

/* what a schema object (the builder's or the reader's) reports, against the flat description */
static void check_schema(const carquet_schema_t* sc, int from_reader) {
    SYMX_ASSERT(carquet_schema_num_columns(sc) == VS_NCOLS, from_reader ? (VS_NCOLS == 0 ? "reader: number of columns [root-only schema: 0]" : "reader: number of columns") : "builder: number of columns");
    SYMX_ASSERT(carquet_schema_num_elements(sc) == VS_NCOLS + 1, from_reader ? "reader: number of elements" : "builder: number of elements");
    SYMX_ASSERT(carquet_schema_find_column(sc, "absent") == -1, "an unknown column name is not found");
    for (int i = 0; i < VS_NCOLS; i++) {
        const carquet_schema_node_t* nd = carquet_schema_get_element(sc, i + 1);
        SYMX_ASSERT(nd != NULL, "element of column i");
        SYMX_ASSERT(streq(carquet_schema_node_name(nd), NAME[i]), from_reader ? "reader: column name" : "builder: column name");
        SYMX_ASSERT(carquet_schema_find_column(sc, NAME[i]) == i, from_reader ? "reader: find_column(name) == column index" : "builder: find_column(name) == column index");
        SYMX_ASSERT(carquet_schema_node_is_leaf(nd), "a column is a leaf");
        SYMX_ASSERT(carquet_schema_node_physical_type(nd) == ctype[i], from_reader ? "reader: physical type" : "builder: physical type");
        SYMX_ASSERT(carquet_schema_node_repetition(nd) == crep[i], from_reader ? "reader: repetition" : "builder: repetition");
        SYMX_ASSERT(carquet_schema_node_type_length(nd) == ctl[i], from_reader ? "reader: type length" : "builder: type length");
#if !defined(EXCLUDE_F_SCHEMA_NODE_LEVELS)
        /* textbook rule for a flat schema: def = (not REQUIRED), rep = (REPEATED) */
        SYMX_ASSERT(carquet_schema_node_max_def_level(nd) == (crep[i] != CARQUET_REPETITION_REQUIRED), "carquet_schema_node_max_def_level(leaf) == number of optional or repeated nodes on its path");
        SYMX_ASSERT(carquet_schema_node_max_rep_level(nd) == (crep[i] == CARQUET_REPETITION_REPEATED), "carquet_schema_node_max_rep_level(leaf) == number of repeated nodes on its path");
#endif
    }
    SYMX_ASSERT(carquet_schema_get_element(sc, VS_NCOLS + 1) == NULL, "element index out of range yields NULL");
}

void harness(void) {
    /* symbolic repetition at up to VS_NSYMREP positions (first, middle, last), symbolic type at the last position */
    int sympos[3] = {0, VS_NCOLS / 2, VS_NCOLS - 1};
    static uint8_t srep[3], sty[1];
    symx_make_symbolic(srep, 3, "repetition"); symx_make_symbolic(sty, 1, "type");
    for (int i = 0; i < VS_NCOLS; i++) {
        mkname(NAME[i], i);
        ctype[i] = TYPES[i % 8]; crep[i] = (carquet_field_repetition_t)(i % 3 == 1 ? CARQUET_REPETITION_OPTIONAL : CARQUET_REPETITION_REQUIRED);
        ctl[i] = 0;
    }
    for (int k = 0; k < 3 && k < VS_NSYMREP; k++) {
        if (VS_NCOLS == 0) break;
        int i = sympos[k];
        symx_assume(srep[k] <= 2);
        crep[i] = (carquet_field_repetition_t)srep[k];
    }
    if (VS_NCOLS > 0) { symx_assume(sty[0] <= 7); ctype[VS_NCOLS - 1] = (carquet_physical_type_t)sty[0]; }
    for (int i = 0; i < VS_NCOLS; i++) if (ctype[i] == CARQUET_PHYSICAL_FIXED_LEN_BYTE_ARRAY) ctl[i] = 3 + i % 5;
    /* ---- build */
    carquet_error_t err; memset(&err, 0, sizeof err);
    carquet_schema_t* sc = carquet_schema_create(&err);
    symx_assume(sc != NULL);
    SYMX_ASSERT(carquet_schema_num_columns(sc) == 0 && carquet_schema_num_elements(sc) == 1, "a fresh schema has the root and no column");
    for (int i = 0; i < VS_NCOLS; i++) {
        carquet_status_t st = carquet_schema_add_column(sc, NAME[i], ctype[i], NULL, crep[i], ctl[i]);
        SYMX_ASSERT(st == CARQUET_OK, "carquet_schema_add_column succeeds (no allocation failure on this path)");
        SYMX_ASSERT(carquet_schema_num_columns(sc) == i + 1, "every add_column adds one column");
    }
    check_schema(sc, 0);
    /* ---- writer -> reader trip with zero rows */
    carquet_writer_options_t wo; carquet_writer_options_init(&wo);
    carquet_writer_t* w = carquet_writer_create(PATH, sc, &wo, &err);
#if VS_NCOLS == 0
    if (w) {
#else
    SYMX_ASSERT(w != NULL, "a writer for a schema built through the builder");
    {
#endif
        carquet_status_t cs = carquet_writer_close(w);
        SYMX_ASSERT(cs == CARQUET_OK, "closing a writer without rows succeeds");
        size_t flen = symx_file_get(PATH, filebuf, sizeof filebuf);
        SYMX_ASSERT(flen != (size_t)-1 && flen >= 12 && flen <= sizeof filebuf, "a file exists after close");
        uint8_t* f = malloc(flen); symx_assume(f != NULL); memcpy(f, filebuf, flen);
        carquet_reader_t* r = carquet_reader_open_buffer(f, flen, NULL, &err);
        SYMX_ASSERT(r != NULL, "the file re-opens");
        SYMX_ASSERT(carquet_reader_num_columns(r) == VS_NCOLS, VS_NCOLS == 0 ? "reader: carquet_reader_num_columns == columns added through the builder [root-only schema: 0]" : "reader: carquet_reader_num_columns == columns added through the builder");
        SYMX_ASSERT(carquet_reader_num_rows(r) == 0, "no rows");
        check_schema(carquet_reader_schema(r), 1);
        carquet_reader_close(r);
        free(f);
    }
    carquet_schema_free(sc);
    symx_check_leaks();
}

#elif VS_MODE == 3
/* ============================================================================================ builder: levels as used by writer and reader */
static uint8_t filebuf[4096];
void harness(void) {
    uint8_t srep; symx_make_symbolic(&srep, 1, "repetition"); symx_assume(srep <= 2);
    carquet_field_repetition_t rep = (carquet_field_repetition_t)srep;
    carquet_error_t err; memset(&err, 0, sizeof err);
    carquet_schema_t* sc = carquet_schema_create(&err); symx_assume(sc != NULL);
    symx_assume(carquet_schema_add_column(sc, "x", CARQUET_PHYSICAL_INT32, NULL, rep, 0) == CARQUET_OK);
    symx_assume(carquet_schema_add_column(sc, "id", CARQUET_PHYSICAL_INT32, NULL, CARQUET_REPETITION_REQUIRED, 0) == CARQUET_OK);
    carquet_writer_options_t wo; carquet_writer_options_init(&wo);
    carquet_writer_t* w = carquet_writer_create(PATH, sc, &wo, &err); symx_assume(w != NULL);
    /* textbook maxima of a flat column */
    const int md = rep != CARQUET_REPETITION_REQUIRED, mr = rep == CARQUET_REPETITION_REPEATED;
    /* three entries, all defined: (def md, rep 0) (def md, rep mr) (def md, rep 0) — for REPEATED: record 1 = [10, 20], record 2 = [30] */
    int32_t x[3] = {10, 20, 30}; int16_t def[3] = {(int16_t)md, (int16_t)md, (int16_t)md}; int16_t rpl[3] = {0, (int16_t)mr, 0};
    int32_t id[3] = {1, 2, 3};
    symx_assume(carquet_writer_write_batch(w, 0, x, 3, md ? def : NULL, mr ? rpl : NULL) == CARQUET_OK);
    symx_assume(carquet_writer_write_batch(w, 1, id, mr ? 2 : 3, NULL, NULL) == CARQUET_OK);       /* same number of records in both columns */
    symx_assume(carquet_writer_close(w) == CARQUET_OK);
    carquet_schema_free(sc);
    size_t flen = symx_file_get(PATH, filebuf, sizeof filebuf);
    symx_assume(flen != (size_t)-1 && flen <= sizeof filebuf);
    uint8_t* f = malloc(flen); symx_assume(f != NULL); memcpy(f, filebuf, flen);
    carquet_reader_t* r = carquet_reader_open_buffer(f, flen, NULL, &err);
    SYMX_ASSERT(r != NULL, "the file re-opens");
    carquet_column_reader_t* cr = carquet_reader_get_column(r, 0, 0, &err);
    SYMX_ASSERT(cr != NULL, "column reader");
    int32_t got[4] = {0, 0, 0, 0}; int16_t gd[4] = {-1, -1, -1, -1}, gr[4] = {-1, -1, -1, -1};
    int64_t n = carquet_column_read_batch(cr, got, 4, gd, gr);
    const int rpt = rep == CARQUET_REPETITION_REPEATED;
    SYMX_ASSERT(n == 3, rpt ? "flat REPEATED column written through builder + writer: the three entries are read back (writer and reader agree on the maximum levels)"
                            : "flat column written through builder + writer: the three entries are read back (writer and reader agree on the maximum levels)");
    for (int i = 0; i < 3; i++) {
        SYMX_ASSERT(gd[i] == def[i], rpt ? "flat REPEATED column written through builder + writer: definition levels as written (maximum 1)" : "flat column written through builder + writer: definition levels as written");
        SYMX_ASSERT(gr[i] == rpl[i], rpt ? "flat REPEATED column written through builder + writer: repetition levels as written" : "flat column written through builder + writer: repetition levels as written");
        SYMX_ASSERT(got[i] == x[i], rpt ? "flat REPEATED column written through builder + writer: values as written" : "flat column written through builder + writer: values as written");
    }
    carquet_column_reader_free(cr);
    carquet_reader_close(r);
    free(f);
}

#else
/* ============================================================================================ builder: groups */
void harness(void) {
    carquet_error_t err; memset(&err, 0, sizeof err);
    carquet_schema_t* sc = carquet_schema_create(&err); symx_assume(sc != NULL);
    symx_assume(carquet_schema_add_column(sc, "a", CARQUET_PHYSICAL_INT32, NULL, CARQUET_REPETITION_REQUIRED, 0) == CARQUET_OK);
    int8_t parent; symx_make_symbolic(&parent, 1, "parent"); symx_assume(parent >= -2 && parent <= 3);
    uint8_t srep; symx_make_symbolic(&srep, 1, "repetition"); symx_assume(srep <= 2);
    int32_t g = carquet_schema_add_group(sc, "g", (carquet_field_repetition_t)srep, parent);
    if (parent == 0 || parent == -1) {
        SYMX_ASSERT(g == 2, "add_group at the root returns the index of the new element");
        SYMX_ASSERT(carquet_schema_num_elements(sc) == 3 && carquet_schema_num_columns(sc) == 1, "a group is an element, not a column");
        const carquet_schema_node_t* nd = carquet_schema_get_element(sc, g);
        SYMX_ASSERT(nd && streq(carquet_schema_node_name(nd), "g") && !carquet_schema_node_is_leaf(nd) && (int)carquet_schema_node_repetition(nd) == srep, "group element: name, not a leaf, repetition");
        SYMX_ASSERT(carquet_schema_find_column(sc, "g") == -1 && carquet_schema_find_column(sc, "a") == 0, "column lookup ignores groups");
    } else {
        SYMX_ASSERT(g == -1, "add_group below a parent the builder does not support is refused");
        SYMX_ASSERT(carquet_schema_num_elements(sc) == 2 && carquet_schema_num_columns(sc) == 1, "a refused add_group leaves the schema unchanged");
    }
    carquet_schema_free(sc);
    symx_check_leaks();
}
#endif
