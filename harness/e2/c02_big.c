/* C02 / C03 — reader behaviour across the reader's INTERNAL chunk sizes (engine E2), on files of a few thousand rows with
 * CONCRETE content written in the same run by the real writer (several pages per chunk, optionally several row groups):
 *   - carquet_column_skip works in chunks of 1024 values (src/reader/column_reader.c): skip(n) for n around 1024 / 2048 and
 *     around the chunk end, from aligned and unaligned positions
 *   - the batch reader's default batch_size (65536 rows, config == NULL) and batch sizes around page / chunk sizes; the null
 *     bitmap is built 8 rows at a time
 *   - the stdio path reads page headers through a 256-byte window (page bodies here are larger than the window; headers
 *     larger than 256 bytes cannot be produced by carquet's writer: C06 covers them with the reference writer)
 * HB_MODE 1: skip    HB_MODE 2: batch reader    OPENMODE 0 buffer, 1 stdio, 2 mmap, 4 one of the three per path,
 * 3 (HB_MODE 2 only) all three in one path, transcripts compared byte-for-byte (C03).
 * Columns: 0 "x" HB_CT (1 INT32, 2 INT64) REQUIRED or OPTIONAL (concrete null pattern with long runs and alternations),
 * HB_NCOLS 2: 1 "id" INT32 REQUIRED. */
#include "pq_common.h"

#ifndef HB_ROWS
#define HB_ROWS 2300
#endif
#ifndef HB_BATCH
#define HB_BATCH 250            /* rows per write_batch call */
#endif
#ifndef HB_PS
#define HB_PS 2000              /* page_size option: a page ends after the write_batch call that reaches it */
#endif
#ifndef HB_CT
#define HB_CT 1
#endif
#ifndef HB_OPT
#define HB_OPT 0
#endif
#ifndef HB_NCOLS
#define HB_NCOLS 1
#endif
#ifndef HB_MODE
#define HB_MODE 1
#endif
#ifndef OPENMODE
#define OPENMODE 0
#endif
#ifdef HB_RGS
static const int RGS[] = { HB_RGS };
#else
static const int RGS[] = { HB_ROWS };
#endif
#define NRG ((int)(sizeof RGS / sizeof RGS[0]))
#define PATH "/mem/big.parquet"
#define VS (HB_CT == 1 ? 4 : 8)

static int16_t DEF[HB_ROWS + 1];
_Alignas(16) static uint8_t XV[(HB_ROWS + 1) * 8];          /* dense non-null values of x */
static int32_t IDV[HB_ROWS + 1];
static int DENSE[HB_ROWS + 2];                               /* DENSE[r] = number of non-null x among rows [0, r) */
static uint8_t filebuf[HB_ROWS * (VS + 4 * (HB_NCOLS - 1)) + 4096 + HB_ROWS]; static size_t filelen;

static int present(int i) {
#if HB_OPT
    if (i < 600) return i % 7 != 3;                          /* mixed: bit-packed level groups */
    if (i < 1500) return 1;                                  /* 900 present rows: one long RLE run (2-byte run header) */
    if (i < 1600) return 0;                                  /* 100 null rows */
    return i & 1;                                            /* alternating */
#else
    (void)i; return 1;
#endif
}
static void put_x(int dense, int row) {
#if HB_CT == 1
    int32_t v = 7 * row + 3; memcpy(XV + 4 * dense, &v, 4);
#else
    int64_t v = 10000000000LL * row - 5; memcpy(XV + 8 * dense, &v, 8);
#endif
}
static void table(void) {
    int nv = 0;
    for (int i = 0; i < HB_ROWS; i++) {
        DENSE[i] = nv; DEF[i] = (int16_t)present(i); IDV[i] = 1000 + i;
        if (DEF[i]) put_x(nv++, i);
    }
    DENSE[HB_ROWS] = nv;
}
static int rg_start(int g) { int r = 0; for (int i = 0; i < g; i++) r += RGS[i]; return r; }

static void write_file(void) {
    pq_schema_t S; memset(&S, 0, sizeof S);
    S.ncols = HB_NCOLS; S.name[0] = "x"; S.name[1] = "id";
    S.type[0] = HB_CT == 1 ? CARQUET_PHYSICAL_INT32 : CARQUET_PHYSICAL_INT64; S.rep[0] = HB_OPT ? CARQUET_REPETITION_OPTIONAL : CARQUET_REPETITION_REQUIRED;
    S.type[1] = CARQUET_PHYSICAL_INT32; S.rep[1] = CARQUET_REPETITION_REQUIRED;
    carquet_writer_options_t wo; carquet_writer_options_init(&wo);
    wo.compression = CARQUET_COMPRESSION_UNCOMPRESSED; wo.page_size = HB_PS;
    carquet_error_t err; memset(&err, 0, sizeof err);
    carquet_schema_t* sc = pq_make_schema(&S); symx_assume(sc != NULL);
    carquet_writer_t* w = carquet_writer_create(PATH, sc, &wo, &err); symx_assume(w != NULL);
    for (int g = 0; g < NRG; g++) {
        int r0 = rg_start(g), r1 = r0 + RGS[g];
        if (g > 0) symx_assume(carquet_writer_new_row_group(w) == CARQUET_OK);
        for (int r = r0; r < r1; r += HB_BATCH) {
            int take = r + HB_BATCH <= r1 ? HB_BATCH : r1 - r;
            symx_assume(carquet_writer_write_batch(w, 0, XV + (size_t)DENSE[r] * VS, take, HB_OPT ? DEF + r : NULL, NULL) == CARQUET_OK);
        }
        if (HB_NCOLS > 1) for (int r = r0; r < r1; r += HB_BATCH) {
            int take = r + HB_BATCH <= r1 ? HB_BATCH : r1 - r;
            symx_assume(carquet_writer_write_batch(w, 1, IDV + r, take, NULL, NULL) == CARQUET_OK);
        }
    }
    symx_assume(carquet_writer_close(w) == CARQUET_OK);
    carquet_schema_free(sc);
    filelen = symx_file_get(PATH, filebuf, sizeof filebuf);
    symx_assume(filelen != (size_t)-1 && filelen < sizeof filebuf);
}

static carquet_reader_t* open_mode(int mode) {
    carquet_reader_options_t ro; carquet_reader_options_init(&ro);
    carquet_error_t err; memset(&err, 0, sizeof err);
    if (mode == 0) return carquet_reader_open_buffer(filebuf, filelen, &ro, &err);
    ro.use_mmap = (mode == 2);
    return carquet_reader_open(PATH, &ro, &err);
}

/* rows [pos, pos+n) of column x as delivered by a read: n levels, dense non-null values */
static void check_x(int pos, int64_t n, const uint8_t* vals, const int16_t* defs) {
    int ok = 1;
    if (HB_OPT && defs) for (int i = 0; i < n; i++) ok &= (defs[i] == DEF[pos + i]);
    SYMX_ASSERT(ok, "definition levels equal the stored ones");
    int nn = DENSE[pos + n] - DENSE[pos];
    SYMX_ASSERT(nn == 0 || memcmp(vals, XV + (size_t)DENSE[pos] * VS, (size_t)nn * VS) == 0, "non-null values equal the stored ones (dense packing)");
}

_Alignas(16) static uint8_t rbuf[(HB_ROWS + 8) * 8]; static int16_t rdef[HB_ROWS + 8];
#define TRMAX (HB_ROWS * 13 * 2 + 4096)
#if HB_MODE == 2 && OPENMODE == 3
static uint8_t TR[3][TRMAX];
#else
static uint8_t TR[1][8];
#endif
static int TRN[3];
static void tr_put(int m, const void* p, size_t n) {
#if HB_MODE == 2 && OPENMODE == 3
    SYMX_ASSERT(TRN[m] + (int)n <= TRMAX, "harness: transcript capacity"); memcpy(TR[m] + TRN[m], p, n); TRN[m] += (int)n;
#else
    (void)m; (void)p; (void)n;
#endif
}

void harness(void) {
    table();
    write_file();
    carquet_error_t err; memset(&err, 0, sizeof err);
#if OPENMODE == 4
    int openmode = symx_choice(3, "openmode");
#else
    int openmode = OPENMODE;
#endif
    (void)openmode;
#if HB_MODE == 1
    carquet_reader_t* r = open_mode(openmode);
    SYMX_ASSERT(r != NULL, "file written by carquet opens");
    SYMX_ASSERT(carquet_reader_num_rows(r) == HB_ROWS && carquet_reader_num_row_groups(r) == NRG, "row and row-group counts");
    int g = NRG > 1 ? symx_choice(NRG, "row_group") : 0;
    int base = rg_start(g), rows = RGS[g];
    carquet_column_reader_t* cr = carquet_reader_get_column(r, g, 0, &err);
    SYMX_ASSERT(cr != NULL, "column reader");
    int pos = 0;
    /* optional small read first: the skip then starts at a position that is not a multiple of anything */
    static const int PRE[3] = {0, 3, 1021};
    int pre = PRE[symx_choice(3, "read_before")];
    if (pre) {
        int64_t n = carquet_column_read_batch(cr, rbuf, pre, rdef, NULL);
        SYMX_ASSERT(n == (pre < rows ? pre : rows), "read before the skip");
        check_x(base, n, rbuf, rdef); pos += (int)n;
    }
    for (int round = 0; round < 2; round++) {
        int rem = rows - pos;
        int64_t nskip;
        const int64_t T[16] = {1, 1023, 1024, 1025, 2047, 2048, 2049, rows - 1, rows, rows + 5, 0, 2, 1022, 1026, 2046, 2050};
  #ifdef HB_SYMN
        int sel = symx_choice(round == 0 ? 17 : 3, round == 0 ? "skip_n" : "skip_n2");
  #else
        int sel = symx_choice(round == 0 ? 16 : 3, round == 0 ? "skip_n" : "skip_n2");
  #endif
        if (round == 1) { if (sel == 0) break; nskip = sel == 1 ? 1025 : 1024; }
        else if (sel < 16) nskip = T[sel];
        else { uint8_t nb[2]; symx_make_symbolic(nb, 2, "n"); nskip = nb[0] | (nb[1] << 8); symx_assume(nskip <= rows + 10); }     /* any n: the engine follows representative values */
        int64_t got = carquet_column_skip(cr, nskip);
        int64_t want = nskip < rem ? nskip : rem;
        SYMX_ASSERT(got == want, "skip(n) returns min(n, remaining)");
        pos += (int)want;
        SYMX_ASSERT(carquet_column_remaining(cr) == rows - pos, "remaining() after skip equals rows not yet delivered");
        SYMX_ASSERT(carquet_column_has_next(cr) == (rows - pos > 0), "has_next after skip");
        int64_t n = carquet_column_read_batch(cr, rbuf, 9, rdef, NULL);
        int64_t wn = rows - pos < 9 ? rows - pos : 9;
        SYMX_ASSERT(n == wn, "the read after a skip delivers min(9, remaining) rows");
        if (n > 0) check_x(base + pos, n, rbuf, rdef);
        pos += (int)wn;
    }
    /* the rest of the chunk is unchanged */
    int64_t n = carquet_column_read_batch(cr, rbuf, HB_ROWS + 1, rdef, NULL);
    SYMX_ASSERT(n == rows - pos, "the rest of the chunk is delivered");
    if (n > 0) check_x(base + pos, n, rbuf, rdef);
    SYMX_ASSERT(carquet_column_remaining(cr) == 0 && !carquet_column_has_next(cr), "nothing remains");
    carquet_column_reader_free(cr);
    carquet_reader_close(r);
#else
    /* batch reader: batch sizes around the reader's internal sizes, incl. the default configuration */
  #ifdef HB_BSLIST
    static const int BS[] = { HB_BSLIST };
  #else
    static const int BS[] = { 0 /* config == NULL: default 65536 */, -1 /* config_init default */, 7, 8, 64, 1000, 1023, 1024, 1025, HB_ROWS - 1, HB_ROWS, HB_ROWS + 1 };
  #endif
    int bs = BS[symx_choice((int)(sizeof BS / sizeof BS[0]), "batch_size")];
    int64_t eff = bs <= 0 ? 65536 : bs;
  #if OPENMODE == 3
    int nmodes = 3;
  #else
    int nmodes = 1;
  #endif
    int polarity = -1, reqbit = -1;
    for (int m = 0; m < nmodes; m++) {
        carquet_reader_t* r = open_mode(nmodes == 3 ? m : openmode);
        SYMX_ASSERT(r != NULL, "file opens");
        carquet_batch_reader_config_t bc; carquet_batch_reader_config_init(&bc);
        if (bs > 0) bc.batch_size = bs;
        carquet_batch_reader_t* br = carquet_batch_reader_create(r, bs == 0 ? NULL : &bc, &err);
        SYMX_ASSERT(br != NULL, "batch reader created");
        int pos = 0, g = 0, nb = 0;
        for (int it = 0; it < HB_ROWS + NRG + 2; it++) {
            carquet_row_batch_t* b = NULL;
            carquet_status_t st = carquet_batch_reader_next(br, &b);
            if (st != CARQUET_OK || b == NULL) break;
            int64_t rows = carquet_row_batch_num_rows(b);
            while (g < NRG && pos >= rg_start(g) + RGS[g]) g++;
            SYMX_ASSERT(rows >= 0 && rows <= eff && pos + rows <= HB_ROWS, "batch row count within batch_size and file");
            SYMX_ASSERT(carquet_row_batch_num_columns(b) == HB_NCOLS, "batch has all columns");
            tr_put(m, &rows, 8);
            for (int c = 0; c < HB_NCOLS; c++) {
                const void* data; const uint8_t* nulls; int64_t nv;
                SYMX_ASSERT(carquet_row_batch_column(b, c, &data, &nulls, &nv) == CARQUET_OK, "column of a batch");
                SYMX_ASSERT(nv == rows, "every column of a batch has the same number of rows");
                int ok = 1, okreq = 1;
                if (nulls) for (int i = 0; i < rows; i++) {
                    int bit = (nulls[i / 8] >> (i % 8)) & 1;
                    if (c == 0 && HB_OPT) { if (polarity < 0) polarity = DEF[pos + i] ? !bit : bit; ok &= (bit == (polarity ? !DEF[pos + i] : DEF[pos + i])); }
                    else { if (reqbit < 0) reqbit = bit; okreq &= (bit == reqbit); }
                }
                else SYMX_ASSERT(!(c == 0 && HB_OPT), "a nullable column of a batch carries a null bitmap");
                SYMX_ASSERT(ok, "null bitmap separates null from non-null rows as the definition levels do, with one fixed polarity");
                SYMX_ASSERT(okreq, "null bitmap of a REQUIRED column marks every row the same way");
                if (nulls) tr_put(m, nulls, (size_t)(rows + 7) / 8);
                if (c == 0) {
                    int nn = DENSE[pos + rows] - DENSE[pos];
                    SYMX_ASSERT(nn == 0 || memcmp(data, XV + (size_t)DENSE[pos] * VS, (size_t)nn * VS) == 0, "batch values equal the stored ones");
                    if (nn) tr_put(m, data, (size_t)nn * VS);
                } else {
                    SYMX_ASSERT(rows == 0 || memcmp(data, IDV + pos, (size_t)rows * 4) == 0, "id column rows are aligned with the batch position");
                    if (rows) tr_put(m, data, (size_t)rows * 4);
                }
            }
            nb++; pos += (int)rows;
            carquet_row_batch_free(b);
        }
        SYMX_ASSERT(pos == HB_ROWS, "the concatenation of batches delivers every row exactly once");
        tr_put(m, &nb, sizeof nb);
        carquet_batch_reader_free(br);
        carquet_reader_close(r);
    }
    if (polarity >= 0 && reqbit >= 0) SYMX_ASSERT(reqbit == (polarity ? 0 : 1), "bitmap of a REQUIRED column marks its rows non-null in the same polarity as the nullable columns");
    for (int m = 1; m < nmodes; m++)
        SYMX_ASSERT(TRN[m] == TRN[0] && memcmp(TR[m], TR[0], (size_t)TRN[0]) == 0, "same batch boundaries, values and null bitmaps in every I/O mode (byte-for-byte)");
#endif
}
