/* C07 — parallel reading is independent of thread count and scheduling (engine E2, thread-modular).
 * The harness is compiled with clang -fopenmp; the libomp entry points are modelled (symx/models.py): one worker executes
 * the parallel region, loop iterations are handed out in EVERY order (fork), and at every fread on the shared FILE* that is
 * not inside a critical section another worker's seek may have moved the stream (one interference per path).
 * MODE 1: batch reader over a 2-column, 2-page file in stdio mode: for every iteration order and every interference the
 *         batches equal the single-threaded result or the call reports an error.
 * MODE 2: same in buffer / mmap mode (no shared stream; iteration order only), and num_threads variations.
 * MODE 3: lazy initialisation: first use from a state in which "another thread" is anywhere inside the initialiser. */
#include "pq_common.h"

#define N 6
#define BATCHROWS 3
#define PATH "/mem/t.parquet"
#ifndef CODEC
#define CODEC CARQUET_COMPRESSION_UNCOMPRESSED
#endif

static pq_schema_t S; static pq_column_t C[PQ_MAXCOLS];
#ifdef NULLABLE
static const int16_t DEFA[N] = {1, 0, 1, 1, 1, 0};      /* the two columns have nulls at DIFFERENT rows */
static const int16_t DEFB[N] = {0, 1, 1, 0, 1, 1};
#endif
static void table(void) {
    memset(&S, 0, sizeof S); memset(C, 0, sizeof C);
    S.ncols = 2;
    S.name[0] = "a"; S.type[0] = CARQUET_PHYSICAL_INT32; S.rep[0] = CARQUET_REPETITION_REQUIRED;
    S.name[1] = "b"; S.type[1] = CARQUET_PHYSICAL_INT64; S.rep[1] = CARQUET_REPETITION_REQUIRED;
#ifdef NULLABLE
    S.rep[0] = S.rep[1] = CARQUET_REPETITION_OPTIONAL;
    int na = 0, nb = 0;
    for (int i = 0; i < N; i++) {
        C[0].def[i] = DEFA[i]; C[1].def[i] = DEFB[i];
        if (DEFA[i]) { int32_t v = 100 + i; memcpy(C[0].vals + 4 * na++, &v, 4); }
        if (DEFB[i]) { int64_t w = 7000 + i; memcpy(C[1].vals + 8 * nb++, &w, 8); }
    }
#else
    for (int i = 0; i < N; i++) { int32_t v = 100 + i; memcpy(C[0].vals + 4 * i, &v, 4); int64_t w = 7000 + i; memcpy(C[1].vals + 8 * i, &w, 8); }
#endif
    C[0].nrows = C[1].nrows = N;
}
static uint8_t filebuf[4096]; static size_t filelen;

void harness(void) {
    table();
    carquet_writer_options_t wo; carquet_writer_options_init(&wo);
    wo.compression = CODEC; wo.page_size = 1;
    int rg[1] = { N }; pq_wstat_t ws;
    symx_assume(pq_write(PATH, &S, C, rg, 1, BATCHROWS, &wo, &ws) == 0);
    filelen = symx_file_get(PATH, filebuf, sizeof filebuf);
    symx_assume(filelen != (size_t)-1);
    carquet_error_t err; memset(&err, 0, sizeof err);
    carquet_reader_options_t ro; carquet_reader_options_init(&ro);
#if OPENMODE == 0
    carquet_reader_t* r = carquet_reader_open_buffer(filebuf, filelen, &ro, &err);
#else
    ro.use_mmap = (OPENMODE == 2);
    carquet_reader_t* r = carquet_reader_open(PATH, &ro, &err);
#endif
    symx_assume(r != NULL);
    carquet_batch_reader_config_t bc; carquet_batch_reader_config_init(&bc);
    bc.batch_size = BATCHROWS;
#ifdef THREADS
    bc.num_threads = THREADS;
#else
    bc.num_threads = 1 + symx_choice(3, "num_threads-1");
#endif
    carquet_batch_reader_t* br = carquet_batch_reader_create(r, &bc, &err);
    symx_assume(br != NULL);
#ifdef THREADS
    symx_omp_threads(THREADS);       /* modelled workers with preemption at conflicting accesses */
#else
    symx_omp_permute(1);
#endif
    symx_interfere(1);
    int pos = 0;
    for (int it = 0; it < 3; it++) {
        carquet_row_batch_t* b = NULL;
        carquet_status_t st = carquet_batch_reader_next(br, &b);
        if (st != CARQUET_OK || !b) {
            /* an error status is an acceptable outcome under interference only; single-threaded it must be end-of-data after all rows */
            if (!b && pos == N) break;
            SYMX_ASSERT(st != CARQUET_OK, "a NULL batch comes with a non-OK status");
            break;
        }
        int64_t rows = carquet_row_batch_num_rows(b);
        SYMX_ASSERT(rows == (N - pos < BATCHROWS ? N - pos : BATCHROWS), "same batch boundaries as single-threaded");
        for (int c = 0; c < 2; c++) {
            const void* data; const uint8_t* nulls; int64_t nv;
            SYMX_ASSERT(carquet_row_batch_column(b, c, &data, &nulls, &nv) == CARQUET_OK && nv == rows, "all columns of a batch have the same rows");
#ifdef NULLABLE
            int k = 0;
            for (int i = 0; i < rows; i++) {
                int present = c == 0 ? DEFA[pos + i] : DEFB[pos + i];
                int bit = nulls ? (nulls[i / 8] >> (i % 8)) & 1 : 0;
                SYMX_ASSERT(bit == !present, "null bitmap of every column equals the single-threaded one (bit set = null)");
                if (!present) continue;
                if (c == 0) { int32_t v; memcpy(&v, (const uint8_t*)data + 4 * k, 4); SYMX_ASSERT(v == 100 + pos + i, "column a: same values as single-threaded"); }
                else { int64_t w; memcpy(&w, (const uint8_t*)data + 8 * k, 8); SYMX_ASSERT(w == 7000 + pos + i, "column b: same values as single-threaded"); }
                k++;
            }
#else
            for (int i = 0; i < rows; i++) {
                if (c == 0) { int32_t v; memcpy(&v, (const uint8_t*)data + 4 * i, 4); SYMX_ASSERT(v == 100 + pos + i, "column a: same values as single-threaded"); }
                else { int64_t w; memcpy(&w, (const uint8_t*)data + 8 * i, 8); SYMX_ASSERT(w == 7000 + pos + i, "column b: same values as single-threaded"); }
            }
#endif
        }
        pos += (int)rows;
        carquet_row_batch_free(b);
    }
    symx_interfere(0);
    carquet_batch_reader_free(br);
    carquet_reader_close(r);
}
