/* C07 — parallel reading is independent of thread count and scheduling (engine E2, thread-modular).
 * The harness is compiled with clang -fopenmp; the libomp entry points are modelled (symx/models.py).
 * Every obligation first runs the batch reader SINGLE-THREADED (num_threads 1, no scheduling model) over the file and records every
 * carquet_batch_reader_next call: status, batch shape, null flags, values.  Then a second reader on the same file runs with the
 * configured num_threads under a scheduling model, and every call must return the recorded status and the recorded batch.
 * VP_MODEL 1: one worker executes the parallel regions, the iterations (= projected columns) of both OpenMP loops are handed out in
 *             EVERY order (symx_omp_permute; loops of 2..3 iterations), and at every fread on the shared FILE* that is not inside a
 *             critical section another worker's seek may have moved the stream (symx_interfere; one interference per path).
 * VP_MODEL 2: two modelled workers with dynamic hand-out of iterations, preemption at iteration boundaries and before accesses to
 *             bytes on which two iterations conflict (symx_omp_threads(2); at most one preemption per parallel region).
 * VP_MODEL 3: two independent readers on the same file, their carquet_batch_reader_next calls interleaved in every order
 *             (call granularity): each returns what it returns when used alone.
 * Table shapes come from c18_tables.h (VP_SPEC columns, VP_ROWS rows in VP_NRG row groups, VP_BATCH rows per page). */
#include "c18_tables.h"

#ifndef CODEC
#define CODEC CARQUET_COMPRESSION_UNCOMPRESSED
#endif
#ifndef VP_SPEC
#define VP_SPEC "IL"
#endif
#ifndef VP_ROWS
#define VP_ROWS 6
#endif
#ifndef VP_NRG
#define VP_NRG 1
#endif
#ifndef VP_BATCH
#define VP_BATCH 3
#endif
#ifndef VP_FLAVOUR
#define VP_FLAVOUR 0
#endif
#ifndef VP_OPEN
#define VP_OPEN 1
#endif
#ifndef VP_BS
#define VP_BS 3
#endif
#ifndef VP_PROJ
#define VP_PROJ 0
#endif
#ifndef VP_THREADS
#define VP_THREADS 0               /* 0: symx_choice over num_threads 1..4 */
#endif
#ifndef VP_MODEL
#define VP_MODEL 1
#endif
#define PATH "/mem/t.parquet"
#define FILECAP 8192
#define MAXCALLS 14

static pq_schema_t S; static pq_column_t C[PQ_MAXCOLS];
static uint8_t filebuf[FILECAP]; static size_t filelen;
static int proj_cols[PQ_MAXCOLS], proj_n; static const char* proj_names[PQ_MAXCOLS]; static int32_t proj_idx[PQ_MAXCOLS];

/* one carquet_batch_reader_next call */
typedef struct { int status; int has_batch; int nrows; int ncols; int nv[PQ_MAXCOLS]; uint32_t nulls[PQ_MAXCOLS]; int nbytes[PQ_MAXCOLS];
                 uint8_t vals[PQ_MAXCOLS][PQ_MAXROWS * 8]; int32_t balen[PQ_MAXCOLS][PQ_MAXROWS]; } call_t;
static call_t REF[MAXCALLS]; static int nref;

static carquet_reader_t* open_reader(void) {
    carquet_error_t err; memset(&err, 0, sizeof err);
    carquet_reader_options_t ro; carquet_reader_options_init(&ro);
#if VP_OPEN == 0
    return carquet_reader_open_buffer(filebuf, filelen, &ro, &err);
#else
    ro.use_mmap = (VP_OPEN == 2);
    return carquet_reader_open(PATH, &ro, &err);
#endif
}
static carquet_batch_reader_t* make_batch_reader(carquet_reader_t* r, int threads) {
    carquet_error_t err; memset(&err, 0, sizeof err);
    carquet_batch_reader_config_t bc; carquet_batch_reader_config_init(&bc);
    bc.batch_size = VP_BS; bc.num_threads = threads;
#if VP_PROJ == 1
    bc.column_indices = proj_idx; bc.num_columns = proj_n;
#elif VP_PROJ == 2
    bc.column_names = proj_names; bc.num_column_names = proj_n;
#endif
    return carquet_batch_reader_create(r, &bc, &err);
}

/* performs one next() call and records it; returns 0 when the reader is finished (no batch) */
static int one_call(carquet_batch_reader_t* br, call_t* o) {
    memset(o, 0, sizeof *o);
    carquet_row_batch_t* b = NULL;
    o->status = (int)carquet_batch_reader_next(br, &b);
    o->has_batch = b != NULL;
    if (!b) return 0;
    o->nrows = (int)carquet_row_batch_num_rows(b); o->ncols = carquet_row_batch_num_columns(b);
    for (int k = 0; k < o->ncols && k < PQ_MAXCOLS; k++) {
        const void* data = NULL; const uint8_t* nulls = NULL; int64_t nv = -1;
        if (carquet_row_batch_column(b, k, &data, &nulls, &nv) != CARQUET_OK || nv < 0 || nv > PQ_MAXROWS) { o->nv[k] = -1; continue; }
        o->nv[k] = (int)nv;
        int c = proj_cols[k], nn = 0;
        for (int i = 0; i < nv; i++) { int isnull = nulls ? (nulls[i / 8] >> (i % 8)) & 1 : 0; if (isnull) o->nulls[k] |= 1u << i; else nn++; }
        if (nn > 0 && !data) { o->nv[k] = -2; continue; }
        if (S.type[c] == CARQUET_PHYSICAL_BYTE_ARRAY) {
            const carquet_byte_array_t* ba = (const carquet_byte_array_t*)data;
            for (int i = 0; i < nn; i++) { o->balen[k][i] = ba[i].length; for (int j = 0; j < ba[i].length && o->nbytes[k] < PQ_MAXROWS * 8; j++) o->vals[k][o->nbytes[k]++] = ba[i].data[j]; }
        } else if (nn > 0) {
            size_t esz = pq_type_size(S.type[c], S.type_len[c]);
            memcpy(o->vals[k], data, esz * (size_t)nn); o->nbytes[k] = (int)(esz * (size_t)nn);
        }
    }
    carquet_row_batch_free(b);
    return o->status == CARQUET_OK;
}

static void same_call(const call_t* got, const call_t* ref) {
    SYMX_ASSERT(got->status == ref->status, "same status code as single-threaded");
    SYMX_ASSERT(got->has_batch == ref->has_batch, "a batch is delivered exactly when the single-threaded run delivers one");
    SYMX_ASSERT(got->nrows == ref->nrows && got->ncols == ref->ncols, "same batch boundaries as single-threaded");
    for (int k = 0; k < got->ncols && k < PQ_MAXCOLS; k++) {
        SYMX_ASSERT(got->nv[k] == ref->nv[k], "every column of the batch has the rows it has single-threaded");
        SYMX_ASSERT(got->nulls[k] == ref->nulls[k], "null bitmap of every column equals the single-threaded one");
        SYMX_ASSERT(got->nbytes[k] == ref->nbytes[k] && memcmp(got->balen[k], ref->balen[k], sizeof got->balen[k]) == 0 && memcmp(got->vals[k], ref->vals[k], sizeof got->vals[k]) == 0,
                    "same values as single-threaded");
    }
}

/* the single-threaded reference run (num_threads 1, no scheduling model): records every call into REF[] */
static void reference_run(void) {
    carquet_reader_t* r0 = open_reader();
    SYMX_ASSERT(r0 != NULL, "harness precondition: the file opens");
    carquet_batch_reader_t* br0 = make_batch_reader(r0, 1);
    SYMX_ASSERT(br0 != NULL, "harness precondition: the batch reader is created");
    nref = 0;
    int rows0 = 0;
    while (nref < MAXCALLS) { int more = one_call(br0, &REF[nref]); rows0 += REF[nref].nrows; nref++; if (!more) break; }
    carquet_batch_reader_free(br0);
    carquet_reader_close(r0);
    SYMX_ASSERT(nref < MAXCALLS && REF[nref - 1].status == CARQUET_ERROR_END_OF_DATA && rows0 == VP_ROWS, "harness precondition: the single-threaded run delivers all rows and ends with END_OF_DATA");
    symx_observe_int((uint64_t)nref, "single-threaded calls");
}

void harness(void) {
    int nc = vt_table(&S, C, VP_SPEC, VP_ROWS, VP_FLAVOUR);
    SYMX_ASSERT(nc > 0, "harness: bad table spec");
    carquet_writer_options_t wo; carquet_writer_options_init(&wo);
    wo.compression = CODEC; wo.page_size = 1;
    int rg[4]; vt_split(VP_ROWS, VP_NRG, rg);
    pq_wstat_t ws; FILE* fp = NULL;
    SYMX_ASSERT(vt_write(PATH, 0, &S, C, rg, VP_NRG, VP_BATCH, &wo, &ws, &fp) == 0, "harness precondition: the table is written");
    filelen = symx_file_get(PATH, filebuf, sizeof filebuf);
    SYMX_ASSERT(filelen != (size_t)-1, "harness precondition: the written file exists");
    proj_n = 0;
#if VP_PROJ == 0
    for (int c = 0; c < nc; c++) proj_cols[proj_n++] = c;
#else
    proj_cols[proj_n++] = nc - 1; if (nc > 2) proj_cols[proj_n++] = 1; if (nc > 1) proj_cols[proj_n++] = 0;     /* reversed, without column 2.. of wider tables */
#endif
    for (int k = 0; k < proj_n; k++) { proj_idx[k] = proj_cols[k]; proj_names[k] = S.name[proj_cols[k]]; }

#if VP_MODEL == 3
    reference_run();
    /* ---- two independent readers, calls interleaved in every order */
    carquet_reader_t* ra = open_reader(); carquet_reader_t* rb = open_reader();
    SYMX_ASSERT(ra != NULL && rb != NULL, "both readers open");
    carquet_batch_reader_t* ba_ = make_batch_reader(ra, VP_THREADS ? VP_THREADS : 1); carquet_batch_reader_t* bb_ = make_batch_reader(rb, 1);
    SYMX_ASSERT(ba_ != NULL && bb_ != NULL, "both batch readers are created");
    int ia = 0, ib = 0; static call_t got;
    while (ia < nref || ib < nref) {
        int who = (ia < nref && ib < nref) ? symx_choice(2, "which reader advances") : (ia < nref ? 0 : 1);
        if (who == 0) { one_call(ba_, &got); same_call(&got, &REF[ia]); ia++; }
        else { one_call(bb_, &got); same_call(&got, &REF[ib]); ib++; }
    }
    carquet_batch_reader_free(ba_); carquet_batch_reader_free(bb_);
    carquet_reader_close(ra); carquet_reader_close(rb);
#else
    /* ---- the run under the scheduling model; its calls are recorded and compared with the reference afterwards.  In the worker
     * model it comes BEFORE the reference run: the forced-schedule native replay counts arrivals at a source line from the start
     * of the process, so nothing may pass through the reader code before it. */
  #if VP_THREADS
    int threads = VP_THREADS;
  #else
    int threads = 1 + symx_choice(4, "num_threads-1");
  #endif
  #if VP_MODEL != 2
    reference_run();                 /* iteration-order model: reference first (it then runs once, before the paths fork) */
  #endif
    carquet_reader_t* r = open_reader();
    SYMX_ASSERT(r != NULL, "harness precondition: the file opens");
    carquet_batch_reader_t* br = make_batch_reader(r, threads);
    SYMX_ASSERT(br != NULL, "harness precondition: the batch reader is created");
  #if VP_MODEL == 2
    symx_omp_threads(2);             /* modelled workers with preemption at conflicting accesses */
  #else
    symx_omp_permute(1);
  #endif
    if (threads >= 2) symx_interfere(1);
    static call_t GOT[MAXCALLS]; int ngot = 0;
    while (ngot < MAXCALLS) { int more = one_call(br, &GOT[ngot]); ngot++; if (!more) break; }
    symx_interfere(0);
    symx_omp_permute(0);
    symx_omp_threads(0);
    carquet_batch_reader_free(br);
    carquet_reader_close(r);
  #if VP_MODEL == 2
    reference_run();
  #endif
    SYMX_ASSERT(ngot == nref, "same number of carquet_batch_reader_next calls until the end of the data as single-threaded");
    for (int i = 0; i < ngot; i++) same_call(&GOT[i], &REF[i]);
#endif
    symx_check_leaks();
}
