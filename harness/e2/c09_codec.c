/* C09 / C10 — codecs round-trip every input and honour their size bounds; compressor output is a valid stream of the
 * standard format (engine E2).  -DN = concrete input length (all N bytes symbolic), -DCODEC 0 Snappy 1 LZ4 2 ZSTD-wrapper 3 GZIP-wrapper.
 * The destination has EXACTLY compress_bound(N) bytes (heap object): any write beyond the bound is a bounds violation.
 * MODE 1: compress -> carquet decompress == x.   MODE 2: compress -> independent reference decoder == x (C10).
 * MODE 3: destination smaller than the bound (symbolic capacity): refused or no overflow; OK => decodes back. */
#include "symx.h"
#include <stdint.h>
#include <stdlib.h>
#include <string.h>
#include <carquet/carquet.h>
#include "ref_codecs.h"

carquet_status_t carquet_snappy_compress(const uint8_t*, size_t, uint8_t*, size_t, size_t*);
carquet_status_t carquet_snappy_decompress(const uint8_t*, size_t, uint8_t*, size_t, size_t*);
size_t carquet_snappy_compress_bound(size_t);
carquet_status_t carquet_lz4_compress(const uint8_t*, size_t, uint8_t*, size_t, size_t*);
carquet_status_t carquet_lz4_decompress(const uint8_t*, size_t, uint8_t*, size_t, size_t*);
size_t carquet_lz4_compress_bound(size_t);

#ifndef N
#define N 8
#endif
#ifndef ALPHA
#define ALPHA 256          /* symbolic bytes are restricted to values < ALPHA (small alphabets make matches likely) */
#endif

#if CODEC == 0
#define COMPRESS carquet_snappy_compress
#define DECOMPRESS carquet_snappy_decompress
#define BOUND carquet_snappy_compress_bound
#else
#define COMPRESS carquet_lz4_compress
#define DECOMPRESS carquet_lz4_decompress
#define BOUND carquet_lz4_compress_bound
#endif

void harness(void) {
    uint8_t* x = malloc(N ? N : 1); symx_assume(x != 0);
#ifdef CONCX
    /* incompressible concrete content (all bytes distinct for N <= 256): the capacity is the symbolic dimension */
    for (int i = 0; i < N; i++) x[i] = (uint8_t)(i * 73 + 11);
#else
    if (N) symx_make_symbolic(x, N, "x");
#endif
#if ALPHA < 256
    for (int i = 0; i < N; i++) symx_assume(x[i] < ALPHA);
#endif
    size_t bound = BOUND(N);
#if MODE == 3 && defined(CONCX)
    /* concrete content: the true compressed length is known from a run into the full bound; the capacities explored are the 16
       values just below it (where an estimate that is a few bytes short would overrun) and 0..3 */
    size_t cap;
    {
        uint8_t* c0 = malloc(bound ? bound : 1); symx_assume(c0 != 0);
        size_t l0 = 0;
        symx_assume(COMPRESS(x, N, c0, bound, &l0) == CARQUET_OK && l0 <= bound);
        free(c0);
        int k = symx_choice(20, "capacity");
        cap = k < 16 ? (l0 > (size_t)(k + 1) ? l0 - 1 - (size_t)k : 0) : (size_t)(k - 16);
    }
#elif MODE == 3
    uint8_t cb; symx_make_symbolic(&cb, 1, "cap"); symx_assume(cb < bound);
    size_t cap = cb;
#else
    size_t cap = bound;
#endif
    uint8_t* c = malloc(cap ? cap : 1); symx_assume(c != 0);
    size_t clen = 0;
    carquet_status_t s = COMPRESS(x, N, c, cap, &clen);
#if MODE != 3
    SYMX_ASSERT(s == CARQUET_OK, "compressing into a buffer of the advertised bound succeeds");
#endif
    if (s == CARQUET_OK) {
        SYMX_ASSERT(clen <= cap, "reported compressed length within the destination");
        uint8_t* y = malloc(N ? N : 1); symx_assume(y != 0);
        size_t ylen = 0;
#if MODE == 2
  #if CODEC == 0
        int rc = ref_snappy_decode(c, clen, y, N, &ylen);
  #else
        int rc = ref_lz4_block_decode(c, clen, y, N, &ylen, 1 /* enforce the end-of-block rules on compressor output */);
  #endif
        SYMX_ASSERT(rc == 0, "independent decoder written from the format document accepts the compressor's output");
#else
        carquet_status_t d = DECOMPRESS(c, clen, y, N, &ylen);
        SYMX_ASSERT(d == CARQUET_OK, "decompressing into a buffer of exactly len(x) succeeds");
#endif
        SYMX_ASSERT(ylen == N, "decompressed length equals the input length");
        for (int i = 0; i < N; i++) SYMX_ASSERT(y[i] == x[i], "round trip returns the input bytes");
        free(y);
    }
    free(c); free(x);
}
