/* C08 / C04 — recursion depth of the Thrift skipper (engine E2): an unknown field that is a list of lists of lists ... costs one byte
 * per nesting level.  The input is LONG (NBYTES of 0x19 behind an unknown-field header) so that the native replay of a counterexample
 * really exhausts the stack; the engine itself reports the violation as soon as the call depth exceeds its bound (120 frames) — i.e.
 * "the recursion depth grows with the input".  The last TAIL bytes are symbolic.  Element types LIST (0x19), SET (0x1A) and MAP-in-LIST
 * are forks. */
#include "symx.h"
#include <stdint.h>
#include <stdlib.h>
#include <string.h>
#include "thrift/parquet_types.h"
#ifndef NBYTES
#define NBYTES (4u << 20)
#endif
#define TAIL 2
void harness(void) {
    uint8_t* b = malloc(NBYTES); symx_assume(b != NULL);
    static const uint8_t fill[3] = {0x19, 0x1A, 0x19};
    int kind = symx_choice(3, "container kind");
    memset(b, fill[kind], NBYTES);
    b[0] = (uint8_t)(0xF0 | (kind == 1 ? 0x0A : 0x09));       /* field id 15 (unknown to both structs), wire type LIST / SET */
    if (kind == 2) { b[1] = 0x1B; b[2] = 0x01; b[3] = 0x59; } /* list(1 x MAP) -> map(1 entry: i32 key, LIST value) -> lists ... */
    symx_make_symbolic(b + NBYTES - TAIL, TAIL, "tail");
    carquet_error_t err; memset(&err, 0, sizeof err);
    int which = symx_choice(2, "parser");
    if (which == 0) {
        parquet_page_header_t h; size_t used = 0;
        carquet_status_t s = parquet_parse_page_header(b, NBYTES, &h, &used, &err);
        (void)s;      /* any status: only memory safety and the call depth are judged */
    } else {
        carquet_arena_t arena; symx_assume(carquet_arena_init(&arena) == CARQUET_OK);
        parquet_file_metadata_t m; memset(&m, 0, sizeof m);
        carquet_status_t s = parquet_parse_file_metadata(b, NBYTES, &arena, &m, &err);
        (void)s;
        carquet_arena_destroy(&arena);
    }
    free(b);
}
