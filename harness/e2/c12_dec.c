/* C12 (E2 half) — carquet's decoders return the original values for streams produced by an independent SPECIFICATION
 * encoder (/verif/ref), including legal forms carquet's own encoders never emit.
 *   VMODE 1  RLE / bit-packing hybrid: ref_rle_hybrid_encode_layout with a run layout chosen by symx_choice among the
 *            concrete layouts of set VLAYSET (single / multi-group bit-packed runs, padded final groups, short and long RLE
 *            runs, zero-length runs, non-minimal header varints), VN_MAX symbolic values of VBW bits; decoder VDEC:
 *            0 carquet_rle_decode_all, 1 carquet_rle_decode_levels, 2 carquet_rle_decode_levels_prefixed (consumed == 4 + L),
 *            3 streaming decoder value by value, 4..7 dictionary index decode int32/int64/float/double (width byte + runs,
 *            symbolic dictionary)
 *   VMODE 2  DELTA_BINARY_PACKED: ref_delta_encode_i32/i64_widths (dictated widths: the stream layout does not depend on the
 *            values; padded zig-zag varints or minimal ones), VCNT symbolic values, block shape VBS x VMB, the width byte of
 *            unused mini-blocks symbolic; decoded values == original and bytes consumed == encoded size.
 *            VSTRICT 0: a shape carquet's decoder does not document (anything but 128 x 4) must give an ERROR or the right
 *            values, never wrong values; 1: it must decode.
 *   VMODE 3  DELTA_LENGTH_BYTE_ARRAY, VMODE 4 DELTA_BYTE_ARRAY: VCNT strings of symbolic length 0..VSL and symbolic bytes.
 * Shapes (counts, layouts, widths) are concrete per path, every value bit is symbolic. */
#include "symx.h"
#include <stdint.h>
#include <stdlib.h>
#include <string.h>
#include <stdbool.h>
#include <carquet/carquet.h>
#include "encoding/rle.h"
#include "ref_codecs.h"

carquet_status_t carquet_delta_decode_int32(const uint8_t*, size_t, int32_t*, int32_t, size_t*);
carquet_status_t carquet_delta_decode_int64(const uint8_t*, size_t, int64_t*, int32_t, size_t*);
carquet_status_t carquet_delta_length_decode(const uint8_t*, size_t, carquet_byte_array_t*, int32_t, size_t*);
carquet_status_t carquet_delta_strings_decode(const uint8_t*, size_t, carquet_byte_array_t*, int32_t, uint8_t*, size_t, size_t*);
carquet_status_t carquet_dictionary_decode_int32(const uint8_t*, size_t, int32_t, const uint8_t*, size_t, int32_t*, int64_t);
carquet_status_t carquet_dictionary_decode_int64(const uint8_t*, size_t, int32_t, const uint8_t*, size_t, int64_t*, int64_t);
carquet_status_t carquet_dictionary_decode_float(const uint8_t*, size_t, int32_t, const uint8_t*, size_t, float*, int64_t);
carquet_status_t carquet_dictionary_decode_double(const uint8_t*, size_t, int32_t, const uint8_t*, size_t, double*, int64_t);

#ifndef VMODE
#define VMODE 1
#endif
#ifndef VBW
#define VBW 3
#endif
#ifndef VDEC
#define VDEC 0
#endif
#ifndef VLAYSET
#define VLAYSET 0
#endif
#ifndef VPADHDR
#define VPADHDR 0          /* 1: every run header is written as a non-minimal varint (one redundant continuation group) */
#endif
#ifndef VCNT
#define VCNT 3
#endif
#ifndef VWIDE
#define VWIDE 0
#endif
#ifndef VBS
#define VBS 128
#endif
#ifndef VMB
#define VMB 4
#endif
#ifndef VSTRICT
#define VSTRICT 1
#endif
#ifndef VZZ
#define VZZ -1             /* zig-zag varint length: -1 = padded to the maximum (5 / 10), 0 = minimal (layout depends on the values) */
#endif
#ifndef VWSEL
#define VWSEL -1
#endif
#ifndef VSRC
#define VSRC 1             /* 0: stream from the reference encoder (symbolic values); 1: every stream of the layout, reference decoder as oracle */
#endif
#ifndef VSL
#define VSL 2
#endif
#ifndef VDN
#define VDN 3
#endif

/* exact-size heap copy of a stream: any read outside is a bounds violation */
static uint8_t* exact(const uint8_t* p, size_t n) {
    uint8_t* q = malloc(n ? n : 1); symx_assume(q != NULL);
    if (n) memcpy(q, p, n);
    return q;
}

#if VMODE == 1
#define VN_MAX 24
typedef struct { uint8_t len; uint8_t d[6]; } lay_t;
/* 0x00|k: ONE bit-packed run of k values (ceil(k/8) groups, last one padded); 0x80|k: ONE RLE run of k values */
#if VLAYSET == 0        /* forms without zero-length RLE runs */
static const lay_t LAYS[] = {
    {1, {0x08}},                    /* one full group */
    {1, {0x03}},                    /* padded final group */
    {1, {0x09}},                    /* two groups in ONE run, the second padded */
    {2, {0x10, 0x01}},              /* multi-group run (16), then a run with a padded group */
    {1, {0x18}},                    /* three groups in one run */
    {2, {0x89, 0x08}},              /* RLE run, then literals */
    {3, {0x81, 0x83, 0x82}},        /* RLE runs shorter than 8 (legal, never emitted by carquet) */
    {3, {0x08, 0x88, 0x01}},        /* group, RLE, padded group */
    {3, {0x00, 0x08, 0x00}},        /* zero-length BIT-PACKED runs (header 0x01, no body) around a group */
    {2, {0x97, 0x01}},              /* long RLE run (23), then one value */
    {1, {0x81}},                    /* a single value as an RLE run */
    {1, {0x00}},                    /* nothing but an empty bit-packed run (n = 0) */
};
#elif VLAYSET == 1      /* zero-length RLE runs: `header 0x00, value bytes` produce nothing */
static const lay_t LAYS[] = {
    {2, {0x80, 0x08}},
    {3, {0x83, 0x80, 0x82}},
    {3, {0x08, 0x80, 0x81}},
    {2, {0x80, 0x85}},
};
#elif VLAYSET == 2      /* short streams for the dictionary lookups (every symbolic index forks the lookup) */
static const lay_t LAYS[] = {
    {1, {0x04}},                    /* padded group */
    {2, {0x82, 0x02}},              /* short RLE run, padded group */
    {2, {0x00, 0x83}},              /* empty bit-packed run, RLE run */
    {3, {0x81, 0x81, 0x01}},
};
#elif VLAYSET == 3      /* the same with zero-length RLE runs */
static const lay_t LAYS[] = {
    {2, {0x80, 0x03}},
    {3, {0x81, 0x80, 0x82}},
};
#endif
#define NLAYS ((int)(sizeof LAYS / sizeof LAYS[0]))
#if VLAYSET == 1 || VLAYSET == 3
#define ZT " [stream with zero-length RLE runs]"       /* finding F-RLE-ZERORUN (fixed by /repo 37176cd): its signature matches this tag */
#else
#define ZT ""
#endif
#define VMASK ((VBW) >= 32 ? 0xFFFFFFFFu : ((1u << (VBW)) - 1u))
#endif

void harness(void) {
#if VMODE == 1
    _Alignas(16) uint32_t v[VN_MAX];
    symx_make_symbolic(v, sizeof v, "v");
    int li = symx_choice(NLAYS, "layout");
    const lay_t* L = &LAYS[li];
    int n = 0;
    for (int i = 0; i < L->len; i++) {
        int k = L->d[i] & 0x7f;
        if (L->d[i] & 0x80) for (int j = 1; j < k; j++) v[n + j] = v[n];      /* an RLE run repeats ONE value */
        n += k;
    }
  #if VDEC >= 4
    for (int i = 0; i < n; i++) symx_assume(v[i] < VDN && v[i] <= VMASK);       /* dictionary indices */
  #elif VDEC == 1 || VDEC == 2
    /* levels are delivered as int16_t: values above INT16_MAX are not levels (at bit width 16 the SSE2 path of the decoder
       saturates them to 32767 while its scalar path wraps them: neither is a level) */
    for (int i = 0; i < n; i++) symx_assume(v[i] <= VMASK && v[i] <= 0x7FFF);
  #else
    for (int i = 0; i < n; i++) symx_assume(v[i] <= VMASK);
  #endif
    uint8_t raw[160]; size_t rawlen = 0;
    int rc = ref_rle_hybrid_encode_layout(v, (size_t)n, VBW, L->d, L->len, raw, sizeof raw, &rawlen);
    symx_assume(rc == REF_OK);
    uint8_t st[200]; size_t slen = 0;
  #if VDEC == 2
    slen = 4;                                  /* room for the length prefix */
  #elif VDEC >= 4
    st[0] = VBW; slen = 1;                     /* dictionary-encoded data page body: bit width byte, then the runs */
  #endif
    size_t body0 = slen;
  #if VPADHDR
    {   /* re-emit every run header as a non-minimal varint; layout and header values are concrete */
        size_t p = 0;
        for (int i = 0; i < L->len; i++) {
            int k = L->d[i] & 0x7f; int rle = L->d[i] & 0x80;
            uint32_t h = rle ? (uint32_t)k << 1 : ((uint32_t)((k + 7) / 8) << 1) | 1u;
            size_t hs = ref_uleb_size(h), payload = rle ? (size_t)((VBW + 7) / 8) : (size_t)((k + 7) / 8) * VBW;
            symx_assume(ref_uleb_write_padded(h, (int)hs + 1, st, sizeof st, &slen) == REF_OK);
            memcpy(st + slen, raw + p + hs, payload); slen += payload; p += hs + payload;
        }
        SYMX_ASSERT(p == rawlen, "harness: header rewriting covered the whole reference stream");
    }
  #else
    memcpy(st + slen, raw, rawlen); slen += rawlen;
  #endif
  #if VDEC == 2
    { uint32_t bl = (uint32_t)(slen - body0); st[0] = (uint8_t)bl; st[1] = (uint8_t)(bl >> 8); st[2] = (uint8_t)(bl >> 16); st[3] = (uint8_t)(bl >> 24); }
  #endif
    uint8_t* in = exact(st, slen);
    symx_observe_int((uint64_t)n, "n"); symx_observe(in, slen, "stream");
  #if VDEC == 0
    uint32_t* out = malloc(n ? (size_t)n * 4 : 1); symx_assume(out != NULL);
    int64_t got = carquet_rle_decode_all(in, slen, VBW, out, n);
    SYMX_ASSERT(got == n, "carquet_rle_decode_all delivers every value of the reference stream" ZT);
    for (int i = 0; i < n; i++) SYMX_ASSERT(out[i] == v[i], "carquet_rle_decode_all returns the original values" ZT);
    free(out);
  #elif VDEC == 1 || VDEC == 2
    int16_t* out = malloc(n ? (size_t)n * 2 : 2); symx_assume(out != NULL);
    #if VDEC == 1
    int64_t got = carquet_rle_decode_levels(in, slen, VBW, out, n);
    #else
    size_t consumed = 0;
    int64_t got = carquet_rle_decode_levels_prefixed(in, slen, VBW, out, n, &consumed);
    SYMX_ASSERT(got < 0 || consumed == slen, "length-prefixed levels: bytes consumed == 4 + block length" ZT);
    #endif
    SYMX_ASSERT(got == n, "level decoder delivers every value of the reference stream" ZT);
    for (int i = 0; i < n; i++) SYMX_ASSERT((uint16_t)out[i] == v[i], "level decoder returns the original levels" ZT);
    free(out);
  #elif VDEC == 3
    carquet_rle_decoder_t dec;
    carquet_rle_decoder_init(&dec, in, slen, VBW);
    for (int i = 0; i < n; i++) {
        SYMX_ASSERT(carquet_rle_decoder_has_next(&dec), "streaming decoder has a next value while values remain" ZT);
        uint32_t x = carquet_rle_decoder_get(&dec);
        SYMX_ASSERT(carquet_rle_decoder_status(&dec) == CARQUET_OK, "streaming decoder reports no error on a reference stream" ZT);
        SYMX_ASSERT(x == v[i], "streaming decoder returns the original values" ZT);
    }
  #else
    {
    #if VDEC == 4 || VDEC == 6
        enum { ES = 4 };
    #else
        enum { ES = 8 };
    #endif
        uint8_t* dict = malloc(VDN * ES); symx_assume(dict != NULL);
        symx_make_symbolic(dict, VDN * ES, "dict");
        _Alignas(16) uint8_t out[VN_MAX * 8];
        memset(out, 0xEE, sizeof out);
        carquet_status_t s;
    #if VDEC == 4
        s = carquet_dictionary_decode_int32(dict, VDN * ES, VDN, in, slen, (int32_t*)out, n);
    #elif VDEC == 5
        s = carquet_dictionary_decode_int64(dict, VDN * ES, VDN, in, slen, (int64_t*)out, n);
    #elif VDEC == 6
        s = carquet_dictionary_decode_float(dict, VDN * ES, VDN, in, slen, (float*)out, n);
    #else
        s = carquet_dictionary_decode_double(dict, VDN * ES, VDN, in, slen, (double*)out, n);
    #endif
        SYMX_ASSERT(s == CARQUET_OK, "dictionary index decode accepts the reference stream" ZT);
        for (int i = 0; i < n; i++)
            SYMX_ASSERT(memcmp(out + (size_t)i * ES, dict + (size_t)v[i] * ES, ES) == 0, "dictionary decode returns dict[index] bit for bit" ZT);
        free(dict);
    }
  #endif
    free(in);

#elif VMODE == 2
  #if VWIDE
    typedef int64_t val_t;
    #define MAXW 64
    #define ZZMAX 10
  #else
    typedef int32_t val_t;
    #define MAXW 32
    #define ZZMAX 5
  #endif
    /* dictated widths (one per mini-block that holds a value): VWSEL picks the vector {first mini-block, later ones} */
    static const uint8_t WSETS[][2] = {
        {MAXW, MAXW},              /* every value fits: wrap-around included */
        {0, 0},                    /* constant deltas */
        {1, 3},
        {7, 8},
        {9, 17},
        {31, 32},
  #if VWIDE
        {40, 64},                  /* byte multiples above 32 */
        {33, 47},                  /* widths above 32 that are not byte multiples (known finding F-DELTA-WIDE) */
        {63, 63},
  #endif
    };
  #if VWSEL >= 0
    int ws = VWSEL;
  #else
    int ws = symx_choice(VWIDE ? 7 : 6, "widths");       /* the vectors carquet is expected to handle */
  #endif
  #if VWIDE && VWSEL >= 7
    #define WT " [mini-block width 33..63, not a byte multiple]"      /* lets the known finding F-DELTA-WIDE be recognised */
  #elif VBS != 128 || VMB != 4
    #define WT " [block shape other than 128 x 4]"                    /* lets the known finding F-DELTA-BLOCKSHAPE be recognised */
  #else
    #define WT ""
  #endif
    int zz = VZZ < 0 ? ZZMAX : VZZ;
    _Alignas(16) val_t v[VCNT ? VCNT : 1];         /* the ORIGINAL values */
    uint8_t st[4400]; size_t slen = 0;
  #if VSRC == 0
    /* (a) through the reference ENCODER: symbolic values, dictated widths */
    if (VCNT) symx_make_symbolic(v, sizeof(val_t) * VCNT, "v");
    uint8_t garbage; symx_make_symbolic(&garbage, 1, "unused_width");
    uint8_t widths[8];
    for (int i = 0; i < 8; i++) widths[i] = WSETS[ws][i == 0 ? 0 : 1];
    #if VWIDE
    int rc = ref_delta_encode_i64_widths(v, VCNT, VBS, VMB, widths, 8, zz, garbage, st, sizeof st, &slen);
    #else
    int rc = ref_delta_encode_i32_widths(v, VCNT, VBS, VMB, widths, 8, zz, garbage, st, sizeof st, &slen);
    #endif
    symx_assume(rc == REF_OK);                 /* the dictated widths are large enough for these values */
  #else
    /* (b) EVERY stream of the layout: header and width bytes of used mini-blocks concrete, the zig-zag payload of first value and
       min deltas, every mini-block body bit (padding positions of the last mini-block included) and the width bytes of unused
       mini-blocks symbolic.  The original values are what the reference (specification) decoder reads from the stream: for any
       values V and any legal widths, the specification encoder's output is one of these streams and decodes to V. */
    {
        symx_assume(ref_uleb_write(VBS, st, sizeof st, &slen) == REF_OK);
        symx_assume(ref_uleb_write(VMB, st, sizeof st, &slen) == REF_OK);
        symx_assume(ref_uleb_write(VCNT, st, sizeof st, &slen) == REF_OK);
        static uint8_t pool[sizeof st]; symx_make_symbolic(pool, sizeof pool, "s");      /* pool[k] is the symbolic content of stream byte k */
        uint64_t zzs[1 + (VCNT + VBS) / VBS]; symx_make_symbolic(zzs, sizeof zzs, "zz");
        int nz = 0;
      #if !VWIDE
        for (size_t i = 0; i < sizeof zzs / sizeof zzs[0]; i++) zzs[i] &= 0xFFFFFFFFu;
      #endif
        if (zz) symx_assume(ref_uleb_write_padded(zzs[nz++], zz, st, sizeof st, &slen) == REF_OK);
        else    symx_assume(ref_uleb_write(zzs[nz++], st, sizeof st, &slen) == REF_OK);
        int per_mb = VBS / VMB, left = VCNT > 1 ? VCNT - 1 : 0, used = 0;
        while (left > 0) {
            int in_block = left < VBS ? left : VBS;
            if (zz) symx_assume(ref_uleb_write_padded(zzs[nz++], zz, st, sizeof st, &slen) == REF_OK);
            else    symx_assume(ref_uleb_write(zzs[nz++], st, sizeof st, &slen) == REF_OK);
            size_t wpos = slen; slen += VMB;
            for (int m = 0; m < VMB; m++) {
                if (m * per_mb >= in_block) { st[wpos + m] = pool[wpos + m]; continue; }
                int bw = WSETS[ws][used == 0 ? 0 : 1]; used++;
                st[wpos + m] = (uint8_t)bw;
                size_t nb = (size_t)(per_mb / 8) * (size_t)bw;
                memcpy(st + slen, pool + slen, nb);
                slen += nb;
            }
            left -= in_block;
        }
        size_t nv = 0, rcons = 0;
      #if VWIDE
        int rc = ref_delta_decode_i64(st, slen, v, VCNT, &nv, &rcons);
      #else
        int rc = ref_delta_decode_i32(st, slen, v, VCNT, &nv, &rcons);
      #endif
        SYMX_ASSERT(rc == REF_OK && nv == VCNT && rcons == slen, "harness: the specification decoder reads the constructed stream in full");
    }
  #endif
  #ifdef VCUT
    /* C08: the specification stream cut at EVERY length k < slen (exact-size object: any read behind the cut is a bounds violation);
       the decoder may report an error or values, it must not read outside and must not claim to have consumed more than it was given */
    {
        uint16_t k; symx_make_symbolic(&k, 2, "cut"); symx_assume(k <= slen);      /* k == slen: the complete stream in an exact-size object */
        uint8_t* cin = exact(st, k);
        val_t* cout = malloc(VCNT ? sizeof(val_t) * VCNT : 1); symx_assume(cout != NULL);
        size_t ccons = 0;
      #if VWIDE
        carquet_status_t cs = carquet_delta_decode_int64(cin, k, cout, VCNT, &ccons);
      #else
        carquet_status_t cs = carquet_delta_decode_int32(cin, k, cout, VCNT, &ccons);
      #endif
        if (cs == CARQUET_OK) SYMX_ASSERT(ccons <= k, "delta decoder on a cut stream: bytes consumed <= bytes given");
        free(cout); free(cin);
        return;
    }
  #endif
    uint8_t* in = exact(st, slen);
    symx_observe(in, slen, "stream");
    val_t* out = malloc(VCNT ? sizeof(val_t) * VCNT : 1); symx_assume(out != NULL);
    size_t consumed = (size_t)-1;
  #if VWIDE
    carquet_status_t s = carquet_delta_decode_int64(in, slen, out, VCNT, &consumed);
  #else
    carquet_status_t s = carquet_delta_decode_int32(in, slen, out, VCNT, &consumed);
  #endif
  #if VSTRICT
    SYMX_ASSERT(s == CARQUET_OK, "delta decoder accepts the specification stream" WT);
  #endif
    if (s == CARQUET_OK) {
        for (int i = 0; i < VCNT; i++) SYMX_ASSERT(out[i] == v[i], "delta decoder returns the original values (or reports an error)" WT);
        SYMX_ASSERT(consumed == slen, "delta decoder: bytes consumed == encoded size" WT);
    }
    free(out); free(in);

#elif VMODE == 3 || VMODE == 4
    uint8_t lens[VCNT]; symx_make_symbolic(lens, VCNT, "len");
    uint8_t data[VCNT * VSL + 1]; symx_make_symbolic(data, VCNT * VSL, "bytes");
    ref_span_t sp[VCNT];
    for (int i = 0; i < VCNT; i++) { symx_assume(lens[i] <= VSL); sp[i].off = (uint32_t)(i * VSL); sp[i].len = lens[i]; }
    int32_t scratch[2 * VCNT + 2];
    uint8_t st[400]; size_t slen = 0;
  #if VMODE == 3
    int rc = ref_delta_length_encode(data, VCNT * VSL, sp, VCNT, 128, 4, scratch, 2 * VCNT + 2, st, sizeof st, &slen);
  #else
    /* prefix lengths: 0 = the longest common prefix (data dependent), 1 = no sharing at all (legal: the prefix need not be maximal) */
    uint32_t zero_prefix[VCNT]; memset(zero_prefix, 0, sizeof zero_prefix);
    int pm = symx_choice(2, "prefix mode");
    int rc = ref_delta_byte_array_encode(data, VCNT * VSL, sp, VCNT, pm ? zero_prefix : NULL, 128, 4, scratch, 2 * VCNT + 2, st, sizeof st, &slen);
  #endif
    symx_assume(rc == REF_OK);
    uint8_t* in = exact(st, slen);
    symx_observe(in, slen, "stream");
    carquet_byte_array_t* out = malloc(sizeof(carquet_byte_array_t) * VCNT); symx_assume(out != NULL);
    size_t consumed = (size_t)-1, total = 0;
    for (int i = 0; i < VCNT; i++) total += lens[i];
  #if VMODE == 3
    carquet_status_t s = carquet_delta_length_decode(in, slen, out, VCNT, &consumed);
  #else
    uint8_t* work = malloc(total ? total : 1); symx_assume(work != NULL);     /* exactly the size carquet_delta_strings_work_buffer_size documents */
    carquet_status_t s = carquet_delta_strings_decode(in, slen, out, VCNT, work, total, &consumed);
  #endif
    SYMX_ASSERT(s == CARQUET_OK, "byte-array delta decoder accepts the specification stream");
    SYMX_ASSERT(consumed == slen, "byte-array delta decoder: bytes consumed == encoded size");
    for (int i = 0; i < VCNT; i++) {
        SYMX_ASSERT(out[i].length == (int32_t)lens[i], "same string length");
        for (int j = 0; j < VSL; j++) if (j < lens[i]) SYMX_ASSERT(out[i].data[j] == data[i * VSL + j], "same string bytes");
    }
  #if VMODE == 4
    free(work);
  #endif
    free(out); free(in);
#endif
}
