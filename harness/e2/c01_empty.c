/* C01 — the empty table: a writer that is created and closed without any write_batch / new_row_group call (no row group at all)
 * produces a file that re-opens through every open path with the same schema, 0 rows and 0 row groups; also the variant with one
 * explicit empty row group.  Codec, column count (1..3) and variant are forks; nothing else is symbolic (the table has no content). */
#include "pq_common.h"
#define PATH "/mem/e.parquet"
static uint8_t filebuf[2048];
void harness(void) {
    pq_schema_t s; memset(&s, 0, sizeof s);
    static const char* const names[3] = {"a", "bb", "c_3"};
    static const carquet_physical_type_t types[3] = {CARQUET_PHYSICAL_INT32, CARQUET_PHYSICAL_BYTE_ARRAY, CARQUET_PHYSICAL_DOUBLE};
    s.ncols = 1 + symx_choice(3, "columns-1");
    for (int i = 0; i < s.ncols; i++) { s.name[i] = names[i]; s.type[i] = types[i]; s.rep[i] = i % 2 ? CARQUET_REPETITION_OPTIONAL : CARQUET_REPETITION_REQUIRED; }
    carquet_writer_options_t wo; carquet_writer_options_init(&wo);
    static const carquet_compression_t codecs[3] = {CARQUET_COMPRESSION_UNCOMPRESSED, CARQUET_COMPRESSION_SNAPPY, CARQUET_COMPRESSION_LZ4};
    wo.compression = codecs[symx_choice(3, "codec")];
    carquet_error_t err; memset(&err, 0, sizeof err);
    carquet_schema_t* sc = pq_make_schema(&s);
    symx_assume(sc != NULL);
    carquet_writer_t* w = carquet_writer_create(PATH, sc, &wo, &err);
    symx_assume(w != NULL);
    int variant = symx_choice(2, "explicit empty row group");
    if (variant) { carquet_status_t rs = carquet_writer_new_row_group(w); (void)rs; }
    carquet_status_t cs = carquet_writer_close(w);
    carquet_schema_free(sc);
    if (cs != CARQUET_OK) return;                      /* C01 speaks about files whose writer calls all returned OK */
    size_t len = symx_file_get(PATH, filebuf, sizeof filebuf);
    SYMX_ASSERT(len != (size_t)-1 && len >= 12, "close returned OK: the file exists");
    int om = symx_choice(3, "open mode");
    carquet_reader_options_t ro; carquet_reader_options_init(&ro);
    carquet_reader_t* r;
    uint8_t* f = NULL;
    if (om == 0) { f = malloc(len); symx_assume(f != NULL); memcpy(f, filebuf, len); r = carquet_reader_open_buffer(f, len, &ro, &err); }
    else { ro.use_mmap = (om == 2); r = carquet_reader_open(PATH, &ro, &err); }
    SYMX_ASSERT(r != NULL, "a file whose writer calls all returned OK re-opens (empty table)");
    SYMX_ASSERT(carquet_reader_num_rows(r) == 0, "empty table: 0 rows");
    SYMX_ASSERT(carquet_reader_num_columns(r) == s.ncols, "empty table: same number of columns");
    const carquet_schema_t* rs = carquet_reader_schema(r);
    for (int i = 0; i < s.ncols; i++) SYMX_ASSERT(carquet_schema_find_column(rs, names[i]) == i, "empty table: same column names in the same order");
    carquet_reader_close(r);
    free(f);
}
