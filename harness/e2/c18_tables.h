/* Concrete table shapes and a call-history writer driver shared by the C18 / C19 / C07 file-level harnesses (engine E2 and its
 * native replay).  Everything is deterministic: the same (spec, rows, flavour) always gives the same table, so a harness can
 * write the table twice (fault-free reference run + run under faults) and compare.
 *
 * column spec: one character per column (at most PQ_MAXCOLS); UPPER case = REQUIRED, lower case = OPTIONAL
 *      B/b BOOLEAN   I/i INT32   L/l INT64   F/f FLOAT   D/d DOUBLE   S/s BYTE_ARRAY   X/x FIXED_LEN_BYTE_ARRAY
 *      (INT96 is not offered: carquet's writer returns NOT_IMPLEMENTED for it)
 * flavour = content * 8 + null pattern
 *      content 0: ordinary values;  content 1: values whose PLAIN bytes look like file tails  <footer length> "PAR1"
 *      content 2: tails whose "footer" is a tiny well-formed Thrift struct:  00 | 01 00 00 00 | "PAR1"  (a lone STOP byte),
 *                 15 00 00 | 03 ..  (version = 0, STOP),  00 00 | 02 ..,  15 02 00 00 | 04 ..  (types I L F D S; others as content 1)
 *      null pattern (OPTIONAL columns) 0: (i + 2c) % 3 == 1   1: pairs of rows ((i / 2 + c) even)   2: no nulls   3: all NULL */
#ifndef VT_TABLES_H
#define VT_TABLES_H
#include "pq_common.h"
#include <stdio.h>

#define VT_CONTENT(fl) ((fl) >> 3)
#define VT_NULLPAT(fl) ((fl) & 7)
#define VT_MAGIC32 0x31524150              /* "PAR1" read as a little-endian int32 */

static const char* const VT_NAMES[PQ_MAXCOLS] = {"c0", "col_b", "k", "dddd"};
static uint8_t vt_pool[PQ_MAXCOLS][PQ_MAXROWS * 8];          /* bytes of BYTE_ARRAY values */
/* plausible and implausible footer lengths placed in front of "PAR1" by the tail-like content */
static const uint32_t VT_TAILS[12] = {0, 1, 2, 5, 8, 12, 20, 33, 64, 0x00ffffffu, 0x7ffffff0u, 0xfffffffcu};
static const uint32_t VT_TAILS_FP[8] = {0, 1, 2, 8, 12, 33, 64, 0x00ffffffu};      /* as float/double bit patterns: no NaN */
/* content 2: triples  <bytes ending in a tiny struct> <its length> "PAR1"  as 32-bit words */
static const uint32_t VT_STOPTAIL[12] = {0x00000000u, 1, VT_MAGIC32, 0x00001500u, 3, VT_MAGIC32, 0x00000000u, 2, VT_MAGIC32, 0x00000215u, 4, VT_MAGIC32};
static const float VT_F[8] = {0.0f, -1.5f, 2.25f, 1.0e10f, -3.0e-5f, 7.0f, 0.5f, -0.0f};
static const double VT_D[8] = {0.0, -1.5, 2.25, 1.0e100, -3.0e-50, 7.0, 0.5, -0.0};

static int vt_flba_len(int flavour) { return VT_CONTENT(flavour) >= 1 ? 8 : 5; }

static int vt_is_null(int flavour, int c, int i) {
    switch (VT_NULLPAT(flavour)) {
        case 0: return (i + 2 * c) % 3 == 1;
        case 1: return ((i / 2 + c) % 2) == 0;
        case 2: return 0;
        default: return 1;
    }
}

/* fills s / cols; returns the number of columns (0 for a bad spec) */
static int vt_table(pq_schema_t* s, pq_column_t* cols, const char* spec, int rows, int flavour) {
    memset(s, 0, sizeof *s); memset(cols, 0, sizeof(pq_column_t) * PQ_MAXCOLS);
    int nc = 0; while (spec[nc] && spec[nc] != ',' && nc < PQ_MAXCOLS) nc++;
    if (rows > PQ_MAXROWS) return 0;
    int tail = VT_CONTENT(flavour) >= 1, stop = VT_CONTENT(flavour) == 2;
    s->ncols = nc;
    for (int c = 0; c < nc; c++) {
        char ch = spec[c]; int opt = (ch >= 'a' && ch <= 'z'); char up = opt ? (char)(ch - 32) : ch;
        s->name[c] = VT_NAMES[c];
        s->rep[c] = opt ? CARQUET_REPETITION_OPTIONAL : CARQUET_REPETITION_REQUIRED;
        s->type_len[c] = 0;
        switch (up) {
            case 'B': s->type[c] = CARQUET_PHYSICAL_BOOLEAN; break;
            case 'I': s->type[c] = CARQUET_PHYSICAL_INT32; break;
            case 'L': s->type[c] = CARQUET_PHYSICAL_INT64; break;
            case 'F': s->type[c] = CARQUET_PHYSICAL_FLOAT; break;
            case 'D': s->type[c] = CARQUET_PHYSICAL_DOUBLE; break;
            case 'S': s->type[c] = CARQUET_PHYSICAL_BYTE_ARRAY; break;
            case 'X': s->type[c] = CARQUET_PHYSICAL_FIXED_LEN_BYTE_ARRAY; s->type_len[c] = vt_flba_len(flavour); break;
            default: return 0;
        }
        pq_column_t* col = &cols[c];
        col->nrows = rows;
        int nv = 0, pool = 0;
        for (int i = 0; i < rows; i++) {
            int present = !(opt && vt_is_null(flavour, c, i));
            col->def[i] = (int16_t)present;
            if (!present) continue;
            uint32_t tl = VT_TAILS[(i / 2 + c) % 12], tlf = VT_TAILS_FP[(i / 2 + c) % 8];
            switch (up) {
                case 'B': col->vals[nv] = (uint8_t)(((i * 5 + c) % 3) == 0); break;
                case 'I': { int32_t v = stop ? (int32_t)VT_STOPTAIL[(nv + 3 * c) % 12] : tail ? (int32_t)(((nv + c) & 1) ? VT_MAGIC32 : tl) : 1000 * (c + 1) + 37 * i - 1050; memcpy(col->vals + 4 * nv, &v, 4); break; }
                case 'L': {     /* content 2: (struct bytes in the HIGH half) then (length | "PAR1" << 32) */
                    int t3 = ((nv + c) / 2) % 4; uint64_t sv = (nv + c) & 1 ? (((uint64_t)VT_MAGIC32 << 32) | VT_STOPTAIL[3 * t3 + 1]) : ((uint64_t)VT_STOPTAIL[3 * t3] << 32);
                    int64_t v = stop ? (int64_t)sv : tail ? (int64_t)(((uint64_t)VT_MAGIC32 << 32) | tl) : (int64_t)(((uint64_t)(c + 1)) << 33) - 7 + 1000003LL * i; memcpy(col->vals + 8 * nv, &v, 8); break; }
                case 'F': { if (tail) { uint32_t b = stop ? VT_STOPTAIL[(nv + 3 * c) % 12] : ((nv + c) & 1) ? (uint32_t)VT_MAGIC32 : tlf; memcpy(col->vals + 4 * nv, &b, 4); } else { float v = VT_F[(i + c) % 8]; memcpy(col->vals + 4 * nv, &v, 4); } break; }
                case 'D': { if (tail) { int t3 = ((nv + c) / 2) % 4; uint64_t b = !stop ? (((uint64_t)VT_MAGIC32 << 32) | tlf) : (nv + c) & 1 ? (((uint64_t)VT_MAGIC32 << 32) | VT_STOPTAIL[3 * t3 + 1]) : ((uint64_t)VT_STOPTAIL[3 * t3] << 32); memcpy(col->vals + 8 * nv, &b, 8); } else { double v = VT_D[(i + 3 * c) % 8]; memcpy(col->vals + 8 * nv, &v, 8); } break; }
                case 'S': {
                    int len = stop ? 12 : tail ? 8 : (i + c) % 4;
                    if (stop && pool + len > PQ_MAXROWS * 8) { stop = 0; len = 8; }
                    col->ba[nv].data = vt_pool[c] + pool; col->ba[nv].length = len;
                    if (stop) memcpy(vt_pool[c] + pool, &VT_STOPTAIL[3 * ((nv + c) % 4)], 12);
                    else if (tail) { memcpy(vt_pool[c] + pool, &tl, 4); memcpy(vt_pool[c] + pool + 4, "PAR1", 4); }
                    else for (int j = 0; j < len; j++) vt_pool[c][pool + j] = (uint8_t)('a' + (i * 3 + j + c) % 26);
                    pool += len; break;
                }
                case 'X': {
                    uint8_t* p = col->vals + (size_t)s->type_len[c] * nv;
                    if (tail) { memcpy(p, &tl, 4); memcpy(p + 4, "PAR1", 4); }
                    else { p[0] = (uint8_t)c; p[1] = (uint8_t)i; p[2] = 0x50; p[3] = 0x41; p[4] = (uint8_t)(i ^ 0x5a); }
                    break;
                }
            }
            nv++;
        }
    }
    return nc;
}

/* the k-th entry of a comma-separated list of column specs ("Il,Sd,b") */
static const char* vt_spec_at(const char* list, int k) {
    const char* p = list;
    while (k > 0 && *p) { if (*p == ',') k--; p++; }
    return p;
}
static int vt_spec_count(const char* list) { int n = 1; for (const char* p = list; *p; p++) if (*p == ',') n++; return n; }

/* ---- the writer call history of a table: per row group  [new_row_group]  then per column its write_batch calls ---- */
typedef struct { int kind; int col; int row; int n; } vt_op_t;       /* kind 0: write_batch(col, rows [row, row+n))   1: new_row_group */
#define VT_MAXOPS 64
static int vt_history(const pq_schema_t* s, const int* rg_rows, int nrg, int batch, vt_op_t* ops) {
    int n = 0, row0 = 0;
    for (int g = 0; g < nrg; g++) {
        if (g > 0 && n < VT_MAXOPS) { ops[n].kind = 1; ops[n].col = ops[n].row = ops[n].n = 0; n++; }
        for (int c = 0; c < s->ncols; c++) {
            int r = row0;
            do {
                int take = batch > 0 ? batch : rg_rows[g];
                if (r + take > row0 + rg_rows[g]) take = row0 + rg_rows[g] - r;
                if (n < VT_MAXOPS) { ops[n].kind = 0; ops[n].col = c; ops[n].row = r; ops[n].n = take; n++; }
                r += take;
            } while (r < row0 + rg_rows[g]);
        }
        row0 += rg_rows[g];
    }
    return n;
}
static carquet_status_t vt_apply(carquet_writer_t* w, const pq_schema_t* s, const pq_column_t* cols, const vt_op_t* op) {
    if (op->kind == 1) return carquet_writer_new_row_group(w);
    int c = op->col;
    size_t esz = pq_type_size(s->type[c], s->type_len[c]);
    int voff = pq_present(s, &cols[c], c, 0, op->row);
    const void* vp = s->type[c] == CARQUET_PHYSICAL_BYTE_ARRAY ? (const void*)(cols[c].ba + voff) : (const void*)(cols[c].vals + (size_t)voff * esz);
    const int16_t* dl = s->rep[c] == CARQUET_REPETITION_REQUIRED ? NULL : cols[c].def + op->row;
    return carquet_writer_write_batch(w, c, vp, op->n, dl, NULL);
}

/* creates the writer by path (fileapi 0) or on a FILE* opened by the harness (fileapi 1; *fp receives the stream, which the
 * CALLER closes after carquet_writer_close / carquet_writer_abort: the library does not own it) */
static carquet_writer_t* vt_create(const char* path, int fileapi, const carquet_schema_t* sc, const carquet_writer_options_t* opts, FILE** fp, carquet_error_t* err) {
    *fp = NULL;
    if (!fileapi) return carquet_writer_create(path, sc, opts, err);
    FILE* f = fopen(path, "wb");
    if (!f) return NULL;
    carquet_writer_t* w = carquet_writer_create_file(f, sc, opts, err);
    if (!w) { fclose(f); return NULL; }
    *fp = f;
    return w;
}

/* whole history + close; like pq_write (returns 0 when every call including close returned OK, -1 when the writer could not be
 * created), every call is made even after a failure (a careless caller), statuses in *ws.  With fileapi 1 the stream is left
 * open in *fp for the caller. */
static int vt_write(const char* path, int fileapi, const pq_schema_t* s, const pq_column_t* cols, const int* rg_rows, int nrg, int batch,
                    const carquet_writer_options_t* opts, pq_wstat_t* ws, FILE** fp) {
    memset(ws, 0, sizeof *ws); *fp = NULL;
    carquet_error_t err; memset(&err, 0, sizeof err);
    carquet_schema_t* sc = pq_make_schema(s);
    if (!sc) return -1;
    carquet_writer_t* w = vt_create(path, fileapi, sc, opts, fp, &err);
    if (!w) { carquet_schema_free(sc); return -1; }
    ws->create_ok = 1;
    static vt_op_t ops[VT_MAXOPS];
    int nops = vt_history(s, rg_rows, nrg, batch, ops);
    for (int k = 0; k < nops; k++) {
        carquet_status_t st = vt_apply(w, s, cols, &ops[k]);
        ws->n_calls++; if (st != CARQUET_OK && ws->worst == CARQUET_OK) ws->worst = st;
    }
    ws->close_status = carquet_writer_close(w);
    ws->n_calls++;
    if (ws->close_status != CARQUET_OK && ws->worst == CARQUET_OK) ws->worst = ws->close_status;
    carquet_schema_free(sc);
    return ws->worst == CARQUET_OK ? 0 : -2;
}

/* rows of each of nrg row groups for a table of `rows` rows (first groups take the remainder) */
static void vt_split(int rows, int nrg, int* rg_rows) {
    for (int g = 0; g < nrg; g++) rg_rows[g] = rows / nrg + (g < rows % nrg ? 1 : 0);
}
#endif
