/* C07 — concurrent FIRST use of the library (lazy initialisation), engine E2.
 * Thread-modular: the stores a lazy initialiser makes to globals are recorded in program order during a sequential first use
 * (symx_store_log_*).  Then, for EVERY prefix length k of that store sequence (fork), the globals are put into the state
 * "another thread is k stores into the initialiser" (on x86-TSO stores become visible in program order) and this thread makes
 * its first use from there — possibly running the initialiser itself on top of the partial state.  The result must equal the
 * sequential result.  A flag that becomes visible before the data it guards makes the assertion fail.
 * WHICH: 0 carquet_crc32 (8 tables, flag)  1 SIMD dispatch table via carquet_dispatch_*  2 carquet_get_cpu_info / carquet_init */
#include "symx.h"
#include <stdint.h>
#include <string.h>
#include <carquet/carquet.h>
uint32_t carquet_crc32(const uint8_t* data, size_t length);
void carquet_dispatch_prefix_sum_i32(int32_t* values, int64_t count, int32_t initial);
int64_t carquet_dispatch_count_non_nulls(const int16_t* def_levels, int64_t count, int16_t max_def_level);
/* CPU detection: a CPU without SIMD extensions (the kernels themselves are C15's subject) */
unsigned verif_cpuid_reg(unsigned leaf, unsigned subleaf, int reg) { (void)leaf; (void)subleaf; (void)reg; return 0; }
unsigned long long verif_xgetbv(unsigned x) { (void)x; return 0; }

#ifndef WHICH
#define WHICH 0
#endif
#ifndef KSTEP
#define KSTEP 1
#endif
#ifndef KBASE
#define KBASE 0
#endif
#ifndef NK
#define NK 64
#endif

static uint64_t first_use(void) {
#if WHICH == 0
    static const uint8_t data[11] = {0x31, 0x32, 0x33, 0x34, 0x35, 0x36, 0x37, 0x38, 0x39, 0xfe, 0x00};
    return carquet_crc32(data, sizeof data);
#elif WHICH == 1
    int32_t v[5] = {3, -1, 7, 100, 5};
    carquet_dispatch_prefix_sum_i32(v, 5, 10);
    int16_t lv[6] = {1, 0, 1, 1, 0, 1};
    int64_t nn = carquet_dispatch_count_non_nulls(lv, 6, 1);
    return ((uint64_t)(uint32_t)v[4] << 8) ^ (uint64_t)(uint32_t)v[1] ^ ((uint64_t)nn << 40);
#else
    const carquet_cpu_info_t* ci = carquet_get_cpu_info();
    uint64_t r = carquet_init() == CARQUET_OK;
    r = r * 2 + (ci != 0);          /* feature bits themselves depend on the host CPU in the native replay */
    r = r * 2 + (carquet_get_cpu_info() == ci);
    return r;
#endif
}

void harness(void) {
    symx_store_log_begin();
    uint64_t want = first_use();                 /* sequential first use: runs the initialiser, its global stores are logged */
    int n = symx_store_log_end();
    symx_observe_int(want, "sequential result");
    SYMX_ASSERT(n > 0, "the first use initialises something");
    int w = symx_choice(NK, "prefix");
    int k = KBASE + w * KSTEP;
    if (k > n) k = n;
    symx_store_prefix(k);                        /* another thread is k stores into the initialiser */
    uint64_t got = first_use();
    SYMX_ASSERT(got == want, "first use while another thread is inside the initialiser returns the sequential result");
    /* and a later use sees a consistent state as well */
    SYMX_ASSERT(first_use() == want, "subsequent use returns the sequential result");
}
