#!/bin/bash
# seed_eval.sh <seed-id> <worktree> <property> [check.py args...]
# 1. archives the change (patch.diff, demo) under /verif/seeded/<seed-id>/
# 2. confirms it in the scratch worktree: demo fails with the change, passes without, test suite passes with it
# 3. runs the property's check against a scratch COPY of /repo with the patch applied (VERIF_REPO), never /repo itself
set -u
id=$1; wt=$2; prop=$3; shift 3
out=/verif/seeded/$id; mkdir -p $out
git -C $wt diff -- src include > $out/patch.diff
cp -r $wt/demo $out/ 2>/dev/null
res=$out/confirm.log; : > $res
( cd $wt && cmake -G Ninja -B _build -S . -DCMAKE_BUILD_TYPE=Release >/dev/null 2>&1; cmake --build _build >/dev/null 2>&1
  bash demo/build_and_run.sh >/dev/null 2>&1; echo "demo_with_change_rc=$?" >> $res
  ctest --test-dir _build -j4 --timeout 900 2>&1 | grep "tests passed" >> $res
  # NOT git stash: the stash is shared between all worktrees of a repository
  git apply -R $out/patch.diff; cmake --build _build >/dev/null 2>&1
  bash demo/build_and_run.sh >/dev/null 2>&1; echo "demo_without_change_rc=$?" >> $res
  git apply $out/patch.diff; cmake --build _build >/dev/null 2>&1 )
cat $res
# patched copy of the current /repo tree
cp=$(mktemp -d /tmp/seedrepo-XXXX); cp -r /repo/src /repo/include $cp/
if ! (cd $cp && patch -p1 -s < $out/patch.diff); then echo "PATCH DOES NOT APPLY to current /repo" | tee -a $res; fi
t0=$(date +%s)
VERIF_EVIDENCE_DIR=$out/evidence VERIF_REPLAY_DIR=$out/replay VERIF_REPO=$cp python3 /verif/bin/check.py $prop "$@" > $out/check.log 2>&1; rc=$?
echo "check_rc=$rc secs=$(( $(date +%s) - t0 )) cmd=check.py $prop $*" | tee -a $res
grep -E "^VIOLATION|KNOWN-FINDING" $out/check.log | head -5
tail -1 $out/check.log
rm -rf $cp
