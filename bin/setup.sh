#!/bin/bash
# Framework setup after a fresh restore (offline): nothing is downloaded; checks rebuild every
# encoding from /repo at run time.  Validates the trusted base (intrinsic models vs the host CPU,
# reference codecs' self-tests) and fails loudly if a tool is missing.
set -e
cd "$(dirname "$0")/.."
for t in cbmc goto-cc clang-14 opt-14 llvm-link-14 cvc5 z3 kissat gcc python3 python3-vt; do
  command -v $t >/dev/null || { echo "missing tool: $t"; exit 1; }
done
python3-vt -c "import z3; print('z3 python', z3.get_version_string())"
[ -x models/validate.sh ] && (bash models/validate.sh | tail -1)
[ -x ref/selftest.sh ] && (bash ref/selftest.sh | tail -1)
[ -x ref/selftest_pq.sh ] && (bash ref/selftest_pq.sh | tail -1)
echo "setup ok"
