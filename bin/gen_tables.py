#!/usr/bin/env python3
"""Regenerates the tables of DESIGN.md section 8.5 (from known_findings.json) and section 8.6 (from seeded/*/meta.json).
The tables sit between the marker lines <!-- BEGIN findings-table --> / <!-- END findings-table --> and
<!-- BEGIN seeded-table --> / <!-- END seeded-table -->; nothing else in DESIGN.md is touched."""
import json, glob, os, re
V = os.path.dirname(os.path.dirname(os.path.abspath(__file__)))

def cell(s, n):
    s = ' '.join(str(s).split()).replace('|', '/')
    return s if len(s) <= n else s[:n - 1].rstrip() + '…'

def findings():
    d = json.load(open(V + '/known_findings.json'))['findings']
    rows = ['| finding | properties | status / commit | what failed |', '|---|---|---|---|']
    for f in d:
        st = f['status'] + (' ' + f['commit'] if f.get('commit') else '')
        if f['status'] == 'open':
            st = '**open** (' + ('exclusion ' + f['exclude'] if f.get('exclude') else 'call-site signature') + ')'
        rows.append('| %s | %s | %s | %s |' % (f['id'], ','.join(p for p in f['properties'] if '_' not in p), st, cell(f['summary'], 230)))
    return rows

def seeded():
    rows = ['| seeded change | property | needs, to manifest | result | check(s) |', '|---|---|---|---|---|']
    for p in sorted(glob.glob(V + '/seeded/*/meta.json')):
        m = json.load(open(p))
        rows.append('| %s | %s | %s | %s | %s |' % (m['id'], m.get('property', ''), cell(m.get('needs_to_manifest', ''), 200),
                                                   m.get('status', ''), cell(m.get('check_result', ''), 420)))
    return rows

def tiers():
    import sys, importlib
    sys.path.insert(0, V); sys.path.insert(0, V + '/lib')
    rows = ['| property | quick: obligations (CBMC / symx) | thorough: obligations (CBMC / symx) | last quick run | last thorough run |', '|---|---|---|---|---|']
    for i in range(1, 21):
        pid = 'C%02d' % i
        m = importlib.import_module('props.' + pid)
        def cnt(tier):
            L = m.obligations(tier)
            return '%d (%d / %d)' % (len(L), sum(1 for o in L if o.engine.startswith('E1')), sum(1 for o in L if o.engine.startswith('E2')))
        runs = {'quick': 'not run', 'thorough': 'not run'}
        try:
            e = json.load(open(V + '/evidence/%s.json' % pid)); c = e['coverage']
            def fmt(ob, dis, inc, kn, wall, part):
                s = '%s/%s pass' % (dis, ob)
                if kn: s += ', %d known-finding' % kn
                if inc: s += ', %d inconclusive' % inc
                s += ', %.0f s' % (wall or 0)
                return s + (' (partial run: --only %s)' % part if part else '')
            runs[e['tier']] = fmt(c.get('obligations'), c.get('discharged'), len(c.get('inconclusive', [])), len({x['obligation'] for x in c.get('known_findings', [])}), e.get('wall_s'), c.get('partial_run_filter'))
            o = c.get('other_tier_last_run')
            if o and o.get('tier'):
                runs[o['tier']] = fmt(o.get('obligations'), o.get('discharged'), o.get('inconclusive_count', len(o.get('inconclusive') or [])), 0, o.get('wall_s'), o.get('partial_run_filter'))
        except Exception:
            pass
        rows.append('| %s | %s | %s | %s | %s |' % (pid, cnt('quick'), cnt('thorough'), runs['quick'], runs['thorough']))
    return rows


def splice(text, tag, rows):
    b, e = '<!-- BEGIN %s -->' % tag, '<!-- END %s -->' % tag
    i, j = text.index(b), text.index(e)
    return text[:i] + b + '\n' + '\n'.join(rows) + '\n' + text[j:]

if __name__ == '__main__':
    t = open(V + '/DESIGN.md').read()
    t = splice(t, 'findings-table', findings())
    t = splice(t, 'seeded-table', seeded())
    if '<!-- BEGIN tiers-table -->' in t:
        t = splice(t, 'tiers-table', tiers())
    open(V + '/DESIGN.md', 'w').write(t)
    print('tables regenerated')
