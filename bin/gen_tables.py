#!/usr/bin/env python3
"""Regenerates the tables of DESIGN.md section 8.5 (from known_findings.json) and section 8.6 (from seeded/*/meta.json).
The tables sit between the marker lines <!-- BEGIN findings-table --> / <!-- END findings-table --> and
<!-- BEGIN seeded-table --> / <!-- END seeded-table -->; nothing else in DESIGN.md is touched."""
import json, glob, os, re
V = os.path.dirname(os.path.dirname(os.path.abspath(__file__)))

def cell(s, n):
    s = ' '.join(str(s).split()).replace('|', '/')
    return s if len(s) <= n else s[:n - 1].rstrip() + '…'

def findings():
    d = json.load(open(V + '/known_findings.json'))['findings']
    rows = ['| finding | properties | status / commit | what failed |', '|---|---|---|---|']
    for f in d:
        st = f['status'] + (' ' + f['commit'] if f.get('commit') else '')
        if f['status'] == 'open':
            st = '**open** (' + ('exclusion ' + f['exclude'] if f.get('exclude') else 'call-site signature') + ')'
        rows.append('| %s | %s | %s | %s |' % (f['id'], ','.join(p for p in f['properties'] if '_' not in p), st, cell(f['summary'], 230)))
    return rows

def seeded():
    rows = ['| seeded change | property | needs, to manifest | result | check(s) |', '|---|---|---|---|---|']
    for p in sorted(glob.glob(V + '/seeded/*/meta.json')):
        m = json.load(open(p))
        rows.append('| %s | %s | %s | %s | %s |' % (m['id'], m.get('property', ''), cell(m.get('needs_to_manifest', ''), 200),
                                                   m.get('status', ''), cell(m.get('check_result', ''), 420)))
    return rows

def splice(text, tag, rows):
    b, e = '<!-- BEGIN %s -->' % tag, '<!-- END %s -->' % tag
    i, j = text.index(b), text.index(e)
    return text[:i] + b + '\n' + '\n'.join(rows) + '\n' + text[j:]

if __name__ == '__main__':
    t = open(V + '/DESIGN.md').read()
    t = splice(t, 'findings-table', findings())
    t = splice(t, 'seeded-table', seeded())
    open(V + '/DESIGN.md', 'w').write(t)
    print('tables regenerated')
