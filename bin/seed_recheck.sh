#!/bin/bash
# seed_recheck.sh <seed-id> <property> [check.py args...] — re-run a check against a patched COPY of the current /repo tree
set -u
id=$1; prop=$2; shift 2
out=/verif/seeded/$id
cp=$(mktemp -d /tmp/seedrepo-XXXX); cp -r /repo/src /repo/include $cp/
(cd $cp && patch -p1 -s < $out/patch.diff) || echo "PATCH DOES NOT APPLY"
VERIF_EVIDENCE_DIR=$out/evidence VERIF_REPLAY_DIR=$out/replay VERIF_REPO=$cp python3 /verif/bin/check.py $prop "$@" > $out/check-$prop.log 2>&1; rc=$?
echo "recheck $id $prop rc=$rc"; grep -E "^VIOLATION|KNOWN-FINDING" $out/check-$prop.log | head -3; tail -1 $out/check-$prop.log
rm -rf $cp
