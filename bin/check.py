#!/usr/bin/env python3
"""Entry point of every registered check:  check.py <PROPERTY-ID> [--tier quick|thorough] [--only substr] [--replay path]

Rebuilds every encoding from /repo's current working tree, runs the property's obligations
(solver-decided, see lib/e1.py and lib/e2.py) in parallel under a wall budget, rewrites
/verif/evidence/<ID>.json, prints `VIOLATION property=<ID> replay=<path>` for each confirmed violation
that is not a listed known finding (exit 1), `KNOWN-FINDING: property=<ID> ...` for listed open
findings that still reproduce (exit 0)."""
import argparse, atexit, importlib, json, os, sys, threading, time, traceback
sys.path.insert(0, os.path.join(os.path.dirname(os.path.abspath(__file__)), '..', 'lib'))
sys.path.insert(0, os.path.join(os.path.dirname(os.path.abspath(__file__)), '..'))
import common
from common import *


def run_findings(pid):
    """For each open known finding of this property: replay its witness against the current tree."""
    lines = []
    open_ids = []
    for f in load_findings():
        props = f.get('properties', [])
        if pid not in props or f.get('status') != 'open':
            continue
        open_ids.append(f['id'])
        w = f.get('witness_program')
        if not w:
            lines.append('KNOWN-FINDING: property=%s %s: %s' % (pid, f['id'], f['summary']))
            continue
        r = native_build_and_run([os.path.join(VERIF, w)], 'witness', timeout=60)
        if not r.get('built'):
            lines.append('KNOWN-FINDING: property=%s %s: %s (witness program could not be built: %s)' % (pid, f['id'], f['summary'], r.get('error', '')[-200:].replace('\n', ' ')))
        elif r['rc'] != 0 or 'ERROR: AddressSanitizer' in r['stderr']:
            lines.append('KNOWN-FINDING: property=%s %s: %s' % (pid, f['id'], f['summary']))
        else:
            # witness no longer fails on this tree: nothing is suppressed for it any more
            lines.append('NOTE: listed finding %s no longer reproduces on this tree (witness passes); its exclusion is still applied only while status=open' % f['id'])
    return open_ids, lines


def main():
    ap = argparse.ArgumentParser()
    ap.add_argument('pid')
    ap.add_argument('--tier', default=os.environ.get('VERIF_TIER', 'quick'), choices=['quick', 'thorough'])
    ap.add_argument('--only', default=None)
    ap.add_argument('--budget', type=float, default=None)
    ap.add_argument('--replay', default=None)
    ap.add_argument('--jobs', type=int, default=NCPU)
    a = ap.parse_args()
    atexit.register(cleanup)
    import signal
    def _term(signum, frame):
        cleanup(); os._exit(124)
    signal.signal(signal.SIGTERM, _term); signal.signal(signal.SIGINT, _term)
    t0 = time.time()
    pid = a.pid
    if a.replay:
        with open(a.replay) as f:
            print(json.dumps(json.load(f), indent=1)[:6000])
        return 0
    mod = importlib.import_module('props.' + pid)
    obls = mod.obligations(a.tier)
    if a.only:
        obls = [o for o in obls if a.only in o.name]
    budget = a.budget or getattr(mod, 'BUDGET', {}).get(a.tier, 800 if a.tier == 'quick' else 3000)
    deadline = t0 + budget
    open_ids, klines = run_findings(pid)
    for l in klines:
        log(l)
    log('[%s] %d obligations, tier=%s, budget=%ds, jobs=%d' % (pid, len(obls), a.tier, budget, a.jobs))
    results = []
    lock = threading.Lock()
    sem = threading.Semaphore(0)
    cap = a.jobs
    state = {'used': 0}
    cv = threading.Condition()

    def worker(o):
        w = min(getattr(o, 'weight', 1), cap)
        with cv:
            while state['used'] + w > cap:
                cv.wait()
            state['used'] += w
        try:
            if time.time() > deadline:
                r = Result(o.name, 'inconclusive', o.engine, 'not started: check budget of %ds exhausted' % budget, o.bounds)
            else:
                # never let an obligation run past the check deadline
                o.timeout = max(5, min(o.timeout, deadline - time.time()))
                try:
                    r = o.run(pid, open_ids)
                except Exception as e:
                    r = Result(o.name, 'inconclusive', o.engine, 'engine exception: %s' % traceback.format_exc()[-1500:], o.bounds)
        finally:
            common.release_thread_scratch()
            with cv:
                state['used'] -= w
                cv.notify_all()
        with lock:
            results.append(r)
            log('  %-44s %-12s %6.1fs  %s' % (r.name, r.status.upper(), r.secs, (r.detail or '')[:160].replace('\n', ' ')))

    # heaviest first
    ths = []
    for o in sorted(obls, key=lambda o: -getattr(o, 'timeout', 0)):
        t = threading.Thread(target=worker, args=(o,), daemon=True)
        t.start(); ths.append(t)
    for t in ths:
        t.join()
    order = {o.name: i for i, o in enumerate(obls)}
    results.sort(key=lambda r: order.get(r.name, 0))
    wall = time.time() - t0
    extra = getattr(mod, 'evidence_extra', lambda tier: {})(a.tier)
    extra = dict(extra or {})
    extra['source_digest'] = source_digest(getattr(mod, 'FILES', []))
    extra['open_known_findings'] = open_ids
    if a.only:
        extra['partial_run_filter'] = a.only      # a run restricted with --only is marked as partial in its evidence
    write_evidence(pid, a.tier, results, wall, extra=extra)
    viol = [r for r in results if r.status == 'violation']
    decided = [r for r in results if r.status in ('pass', 'violation', 'known')]
    inconc = [r for r in results if r.status == 'inconclusive']
    seen_known = set()
    for r in results:
        if r.status == 'known' and r.known not in seen_known:
            seen_known.add(r.known)
            print('KNOWN-FINDING: property=%s %s %s' % (pid, r.known, (r.detail or '')[:300].replace('\n', ' ')), flush=True)
    for r in inconc:
        log('INCONCLUSIVE obligation=%s %s' % (r.name, (r.detail or '')[:300].replace('\n', ' ')))
    for r in viol:
        print('VIOLATION property=%s replay=%s' % (pid, r.replay), flush=True)
        log('   %s: %s' % (r.name, r.detail[:500]))
    log('[%s] %d pass, %d violation, %d inconclusive of %d obligations in %.0fs' % (
        pid, len([r for r in results if r.status == 'pass']), len(viol), len(inconc), len(results), wall))
    if viol:
        return 1
    if not decided:
        log('no obligation reached a verdict: check could not run')
        return 2
    return 0


if __name__ == '__main__':
    rc = main()
    cleanup()
    sys.exit(rc)
