#!/usr/bin/env python3
"""merge_tier.py <evidence-dir-of-other-tier-runs>
Records, in /verif/evidence/<ID>.json, the compact summary of the last run of the OTHER tier when that run wrote its evidence
elsewhere (VERIF_EVIDENCE_DIR=... check.py <ID> --tier thorough, used to run a thorough tier without overwriting the quick
evidence). Exactly the record lib/common.write_evidence keeps when both tiers write to the same file: measured numbers of
that run, nothing else."""
import json, os, sys
V = os.path.dirname(os.path.dirname(os.path.abspath(__file__)))
src = sys.argv[1]
for fn in sorted(os.listdir(src)):
    if not fn.endswith('.json') or '_' in fn:
        continue
    dst = os.path.join(V, 'evidence', fn)
    if not os.path.exists(dst):
        continue
    old = json.load(open(os.path.join(src, fn))); cur = json.load(open(dst))
    if old.get('tier') == cur.get('tier'):
        continue
    oc = old.get('coverage', {})
    cur['coverage']['other_tier_last_run'] = {
        'tier': old.get('tier'), 'finished_utc': oc.get('finished_utc'), 'wall_s': old.get('wall_s'), 'violations': old.get('violations'),
        'obligations': oc.get('obligations'), 'discharged': oc.get('discharged'), 'decided': oc.get('decided'),
        'inconclusive': [x.get('obligation') for x in oc.get('inconclusive', [])][:40], 'inconclusive_count': len(oc.get('inconclusive', [])),
        'known_findings': sorted({x.get('finding') for x in oc.get('known_findings', []) if x.get('finding')}),
        'states': oc.get('states'), 'transitions': oc.get('transitions'), 'queries': oc.get('queries'), 'solver_time_s': oc.get('solver_time_s'),
        'source_digest': oc.get('source_digest'), 'partial_run_filter': oc.get('partial_run_filter'),
        'note': 'run with VERIF_EVIDENCE_DIR set (evidence written outside /verif/evidence), summary merged by bin/merge_tier.py'}
    json.dump(cur, open(dst, 'w'), indent=1)
    print('merged', fn, old.get('tier'), oc.get('discharged'), '/', oc.get('obligations'))
