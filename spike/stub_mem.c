#include <stddef.h>
/* verification models of libc byte copies: plain loops, so that small symbolic-length copies stay cheap */
void *memcpy(void *d, const void *s, size_t n) {
  unsigned char *dd = d; const unsigned char *ss = s;
  for (size_t i = 0; i < n; i++) dd[i] = ss[i];
  return d;
}
void *memset(void *d, int c, size_t n) {
  unsigned char *dd = d;
  for (size_t i = 0; i < n; i++) dd[i] = (unsigned char)c;
  return d;
}
