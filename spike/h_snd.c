#include <assert.h>
#include <stdint.h>
#include <stdlib.h>
#include <carquet/error.h>
#ifndef L
#define L 6
#endif
#ifndef CAP
#define CAP 16
#endif
carquet_status_t carquet_snappy_decompress(const uint8_t*, size_t, uint8_t*, size_t, size_t*);
uint8_t nondet_u8(void); size_t nondet_size(void);
void harness_snd(void) {
  size_t len = nondet_size(); __CPROVER_assume(len <= L);
  size_t cap = nondet_size(); __CPROVER_assume(cap <= CAP);
  uint8_t *src = malloc(len); __CPROVER_assume(src != 0);
  uint8_t *dst = malloc(cap); __CPROVER_assume(dst != 0);
  size_t out = 0;
  carquet_status_t st = carquet_snappy_decompress(src, len, dst, cap, &out);
  if (st == CARQUET_OK) assert(out <= cap);
}
