#include <assert.h>
#include <stdint.h>
#include <stdlib.h>
#include <carquet/error.h>
#ifndef N
#define N 16
#endif
carquet_status_t carquet_snappy_compress(const uint8_t*, size_t, uint8_t*, size_t, size_t*);
carquet_status_t carquet_snappy_decompress(const uint8_t*, size_t, uint8_t*, size_t, size_t*);
size_t carquet_snappy_compress_bound(size_t);
carquet_status_t carquet_lz4_compress(const uint8_t*, size_t, uint8_t*, size_t, size_t*);
carquet_status_t carquet_lz4_decompress(const uint8_t*, size_t, uint8_t*, size_t, size_t*);
size_t carquet_lz4_compress_bound(size_t);
uint8_t nondet_u8(void);
#ifdef LZ4
#define COMP carquet_lz4_compress
#define DECOMP carquet_lz4_decompress
#define BOUND carquet_lz4_compress_bound
#else
#define COMP carquet_snappy_compress
#define DECOMP carquet_snappy_decompress
#define BOUND carquet_snappy_compress_bound
#endif
void harness_c(void) {
  uint8_t x[N]; for (int i = 0; i < N; i++) x[i] = nondet_u8();
  size_t b = BOUND(N);
  uint8_t *dst = malloc(b); __CPROVER_assume(dst != 0);
  size_t dn = 0;
  carquet_status_t st = COMP(x, N, dst, b, &dn);
  assert(st == CARQUET_OK); assert(dn <= b);
  uint8_t y[N]; size_t yn = 0;
  st = DECOMP(dst, dn, y, N, &yn);
  assert(st == CARQUET_OK); assert(yn == N);
  for (int i = 0; i < N; i++) assert(y[i] == x[i]);
}
