#include "symx.h"
#include <stdint.h>
#include <stdlib.h>
#include "encoding/rle.h"
#ifndef L
#define L 5
#endif
#define M 12
void harness(void) {
  uint8_t *src = malloc(L);
  symx_make_symbolic(src, L, "in");
  uint32_t *out = malloc(M * 4);
  int64_t got = carquet_rle_decode_all(src, L, 1, out, M);
  symx_assert(got >= 0 && got <= M, "count within capacity");
  free(src); free(out);
}
