#!/usr/bin/env python3
"""symx spike: path-forking symbolic executor for clang-14 LLVM IR (typed pointers) with z3.
Feasibility prototype only."""
import re, sys, time, itertools
import z3

# ----------------------------------------------------------------------------- types
class Ty: pass
class IntTy(Ty):
    def __init__(s, bits): s.bits = bits
    def __repr__(s): return f"i{s.bits}"
class FloatTy(Ty):
    def __init__(s, bits): s.bits = bits
    def __repr__(s): return "float" if s.bits == 32 else "double"
class VoidTy(Ty):
    def __repr__(s): return "void"
class PtrTy(Ty):
    def __init__(s, to): s.to = to
    def __repr__(s): return f"{s.to}*"
class ArrTy(Ty):
    def __init__(s, n, el): s.n = n; s.el = el
    def __repr__(s): return f"[{s.n} x {s.el}]"
class StructTy(Ty):
    def __init__(s, els, packed=False, name=None): s.els = els; s.packed = packed; s.name = name
    def __repr__(s): return s.name or ("{" + ", ".join(map(repr, s.els)) + "}")
class FuncTy(Ty):
    def __init__(s, ret, params, vararg): s.ret = ret; s.params = params; s.vararg = vararg
    def __repr__(s): return f"{s.ret} (...)"
class NamedTy(Ty):
    def __init__(s, name): s.name = name
    def __repr__(s): return s.name
class VecTy(Ty):
    def __init__(s, n, el): s.n = n; s.el = el

TOK = re.compile(r'''\s*(?:(c"(?:[^"\\]|\\[0-9A-Fa-f]{2}|\\\\)*")|("(?:[^"\\]|\\.)*")|([%@][-a-zA-Z$._0-9]+|[%@]"[^"]*")|(-?\d+\.\d+(?:e[+-]?\d+)?)|(0x[0-9A-Fa-f]+)|(-?\d+)|(\.\.\.)|([a-zA-Z_][a-zA-Z_0-9.]*)|(!\d+|![a-zA-Z_.0-9]+)|(#\d+)|(.))''')

def tokenize(line):
    out = []
    pos = 0
    n = len(line)
    while pos < n:
        m = TOK.match(line, pos)
        if not m: break
        pos = m.end()
        if m.group(1) is not None: out.append(('cstr', m.group(1)))
        elif m.group(2) is not None: out.append(('str', m.group(2)))
        elif m.group(3) is not None: out.append(('id', m.group(3).replace('"', '')))
        elif m.group(4) is not None: out.append(('flt', m.group(4)))
        elif m.group(5) is not None: out.append(('hex', m.group(5)))
        elif m.group(6) is not None: out.append(('int', int(m.group(6))))
        elif m.group(7) is not None: out.append(('sym', '...'))
        elif m.group(8) is not None: out.append(('kw', m.group(8)))
        elif m.group(9) is not None: out.append(('md', m.group(9)))
        elif m.group(10) is not None: out.append(('attr', m.group(10)))
        elif m.group(11) is not None:
            if m.group(11) == ';': break
            out.append(('sym', m.group(11)))
    return out

class P:
    """token cursor"""
    def __init__(s, toks): s.t = toks; s.i = 0
    def peek(s, k=0): return s.t[s.i + k] if s.i + k < len(s.t) else ('eof', None)
    def next(s): x = s.peek(); s.i += 1; return x
    def accept(s, kind, val=None):
        k, v = s.peek()
        if k == kind and (val is None or v == val): s.i += 1; return True
        return False
    def expect(s, kind, val=None):
        k, v = s.next()
        assert k == kind and (val is None or v == val), f"expected {kind} {val} got {k} {v} in {s.t}"
        return v
    def eof(s): return s.i >= len(s.t)

PARAM_ATTRS = {'noundef', 'nocapture', 'readonly', 'writeonly', 'noalias', 'nonnull', 'signext', 'zeroext', 'immarg',
               'returned', 'inreg', 'nofree', 'readnone', 'nest', 'swiftself'}

class Module:
    def __init__(s):
        s.structs = {}
        s.globals = {}   # name -> (ty, init_tokens or None, const)
        s.funcs = {}     # name -> Func
        s.decls = {}
    def parse_type(s, p):
        k, v = p.next()
        if k == 'kw' and re.fullmatch(r'i\d+', v): t = IntTy(int(v[1:]))
        elif k == 'kw' and v == 'float': t = FloatTy(32)
        elif k == 'kw' and v == 'double': t = FloatTy(64)
        elif k == 'kw' and v == 'void': t = VoidTy()
        elif k == 'kw' and v == 'opaque': t = StructTy([], name='opaque')
        elif k == 'kw' and v == 'x86_fp80': t = FloatTy(80)
        elif k == 'id' and v.startswith('%'): t = NamedTy(v)
        elif k == 'sym' and v == '[':
            n = p.expect('int'); p.expect('kw', 'x'); el = s.parse_type(p); p.expect('sym', ']'); t = ArrTy(n, el)
        elif k == 'sym' and v == '{':
            els = []
            if not p.accept('sym', '}'):
                while True:
                    els.append(s.parse_type(p))
                    if p.accept('sym', '}'): break
                    p.expect('sym', ',')
            t = StructTy(els)
        elif k == 'sym' and v == '<':
            if p.peek() == ('sym', '{'):
                p.next(); els = []
                if not p.accept('sym', '}'):
                    while True:
                        els.append(s.parse_type(p))
                        if p.accept('sym', '}'): break
                        p.expect('sym', ',')
                p.expect('sym', '>'); t = StructTy(els, packed=True)
            else:
                n = p.expect('int'); p.expect('kw', 'x'); el = s.parse_type(p); p.expect('sym', '>'); t = VecTy(n, el)
        else:
            raise ValueError(f"type? {k} {v} :: {p.t}")
        while True:
            if p.accept('sym', '*'): t = PtrTy(t)
            elif p.peek() == ('sym', '('):
                p.next(); params = []; va = False
                if not p.accept('sym', ')'):
                    while True:
                        if p.accept('sym', '...'): va = True
                        else:
                            params.append(s.parse_type(p))
                            while p.peek()[0] == 'kw' and p.peek()[1] in PARAM_ATTRS: p.next()
                        if p.accept('sym', ')'): break
                        p.expect('sym', ',')
                t = FuncTy(t, params, va)
            else: break
        return t
    def resolve(s, t):
        while isinstance(t, NamedTy): t = s.structs[t.name]
        return t
    def sizeof(s, t):
        t = s.resolve(t)
        if isinstance(t, IntTy): return (t.bits + 7) // 8
        if isinstance(t, FloatTy): return t.bits // 8 if t.bits != 80 else 16
        if isinstance(t, PtrTy): return 8
        if isinstance(t, ArrTy): return t.n * s.sizeof(t.el)
        if isinstance(t, StructTy): return s.layout(t)[1]
        if isinstance(t, VecTy): return t.n * s.sizeof(t.el)
        raise ValueError(f"sizeof {t}")
    def alignof(s, t):
        t = s.resolve(t)
        if isinstance(t, IntTy): return min(8, max(1, 1 << ((t.bits + 7) // 8 - 1).bit_length()))
        if isinstance(t, FloatTy): return 16 if t.bits == 80 else t.bits // 8
        if isinstance(t, PtrTy): return 8
        if isinstance(t, ArrTy): return s.alignof(t.el)
        if isinstance(t, StructTy): return 1 if t.packed else max([s.alignof(e) for e in t.els] or [1])
        if isinstance(t, VecTy): return s.sizeof(t)
        raise ValueError
    def layout(s, t):
        if hasattr(t, '_lay'): return t._lay
        off = 0; offs = []
        for e in t.els:
            a = 1 if t.packed else s.alignof(e)
            off = (off + a - 1) // a * a
            offs.append(off); off += s.sizeof(e)
        a = 1 if t.packed else max([s.alignof(e) for e in t.els] or [1])
        size = (off + a - 1) // a * a
        t._lay = (offs, size)
        return t._lay

class Func:
    def __init__(s, name, ret, params): s.name = name; s.ret = ret; s.params = params; s.blocks = {}; s.order = []

class Inst:
    __slots__ = ('dst', 'op', 'a', 'line')
    def __init__(s, dst, op, a, line): s.dst = dst; s.op = op; s.a = a; s.line = line

def parse_module(path):
    m = Module()
    lines = open(path).read().split('\n')
    i = 0
    cur = None; curblk = None
    while i < len(lines):
        line = lines[i]; i += 1
        st = line.strip()
        if not st or st.startswith(';') or st.startswith('source_filename') or st.startswith('target ') or st.startswith('attributes ') or st.startswith('!'):
            continue
        if cur is None:
            if st.startswith('%') and ' = type ' in st:
                name, rest = st.split(' = type ', 1)
                p = P(tokenize(rest))
                t = m.parse_type(p)
                if isinstance(t, StructTy): t.name = name
                m.structs[name] = t
                continue
            if st.startswith('@'):
                toks = tokenize(st); p = P(toks)
                name = p.expect('id'); p.expect('sym', '=')
                const = False
                while True:
                    k, v = p.peek()
                    if k == 'kw' and v in ('global', 'constant'): const = (v == 'constant'); p.next(); break
                    if k == 'sym' and v == '(':  # e.g. dso_local(..)? skip
                        p.next(); continue
                    p.next()
                ty = m.parse_type(p)
                # initializer tokens until ', align' at depth 0 — keep cursor-based parse lazy
                init = p.t[p.i:]
                m.globals[name] = (ty, init, const)
                continue
            if st.startswith('declare '):
                toks = tokenize(st); p = P(toks); p.next()
                while not (p.peek()[0] == 'id' and p.peek()[1].startswith('@')):
                    # return type is just before @name; parse attrs loosely
                    save = p.i
                    try:
                        ret = m.parse_type(p)
                        if p.peek()[0] == 'id' and p.peek()[1].startswith('@'): break
                        p.i = save; p.next()
                    except Exception:
                        p.i = save; p.next()
                name = p.expect('id')
                m.decls[name] = True
                continue
            if st.startswith('define '):
                toks = tokenize(st); p = P(toks); p.next()
                ret = None
                while True:
                    save = p.i
                    try:
                        ret = m.parse_type(p)
                        if p.peek()[0] == 'id' and p.peek()[1].startswith('@'): break
                        p.i = save; p.next()
                    except Exception:
                        p.i = save; p.next()
                name = p.expect('id'); p.expect('sym', '(')
                params = []
                if not p.accept('sym', ')'):
                    while True:
                        if p.accept('sym', '...'):
                            pass
                        else:
                            pt = m.parse_type(p)
                            while p.peek()[0] == 'kw' or (p.peek()[0] == 'sym' and p.peek()[1] == '('):
                                # attrs like align 8, sret(%struct.x), byval(...)
                                k, v = p.next()
                                if (k, v) == ('sym', '('):
                                    depth = 1
                                    while depth:
                                        kk, vv = p.next()
                                        if (kk, vv) == ('sym', '('): depth += 1
                                        if (kk, vv) == ('sym', ')'): depth -= 1
                                elif v in ('align', 'dereferenceable', 'dereferenceable_or_null'):
                                    if p.peek()[0] == 'int': p.next()
                            pn = p.expect('id')
                            params.append((pt, pn))
                        if p.accept('sym', ')'): break
                        p.expect('sym', ',')
                cur = Func(name, ret, params); m.funcs[name] = cur
                curblk = None
                continue
            continue
        # inside function
        if st == '}':
            cur = None; continue
        mlab = re.match(r'^([-a-zA-Z$._0-9]+):', st)
        if mlab:
            curblk = '%' + mlab.group(1); cur.blocks[curblk] = []; cur.order.append(curblk); continue
        if curblk is None:
            # entry block implicit label = number of params (unnamed) -> compute lazily
            curblk = '%' + str(sum(1 for (_t, _n) in cur.params if re.fullmatch(r'%\d+', _n))); cur.blocks[curblk] = []; cur.order.append(curblk)
        # switch spans multiple lines
        if st.startswith('switch ') and not st.rstrip().endswith(']'):
            while True:
                nxt = lines[i].strip(); i += 1
                st += ' ' + nxt
                if nxt.endswith(']'): break
        cur.blocks[curblk].append((st, tokenize(st)))
    return m

# ----------------------------------------------------------------------------- values
class Ptr:
    __slots__ = ('obj', 'off')
    def __init__(s, obj, off): s.obj = obj; s.off = off
    def __repr__(s): return f"Ptr({s.obj},{s.off})"
NULL = Ptr(0, 0)

def is_conc(v): return isinstance(v, int)
def mask(bits): return (1 << bits) - 1
def to_signed(v, bits): return v - (1 << bits) if v >> (bits - 1) else v
def bv(v, bits):
    return z3.BitVecVal(v, bits) if isinstance(v, int) else v

class Obj:
    __slots__ = ('size', 'data', 'freed', 'kind', 'name', 'ro', 'shared')
    def __init__(s, size, kind, name, fill=0):
        s.size = size; s.data = [fill] * size; s.freed = False; s.kind = kind; s.name = name; s.ro = False; s.shared = False
    def clone(s):
        o = Obj.__new__(Obj); o.size = s.size; o.data = list(s.data); o.freed = s.freed; o.kind = s.kind; o.name = s.name; o.ro = s.ro; o.shared = False
        return o

class Violation(Exception):
    def __init__(s, kind, msg, model=None): s.kind = kind; s.msg = msg; s.model = model

class PathEnd(Exception): pass

class State:
    def __init__(s):
        s.mem = {}        # objid -> Obj (copy-on-write via owned set)
        s.owned = set()
        s.pc = []         # path constraints (z3 Bool)
        s.frames = []
        s.next_obj = 1
        s.steps = 0
        s.syms = []
        s.nallocs = 0
        s.failed_alloc = None
    def fork(s):
        t = State.__new__(State)
        t.mem = dict(s.mem); t.owned = set(); s.owned = set()
        t.pc = list(s.pc); t.frames = [f.clone() for f in s.frames]
        t.next_obj = s.next_obj; t.steps = s.steps; t.syms = list(s.syms)
        t.nallocs = s.nallocs; t.failed_alloc = s.failed_alloc
        t.files = dict(getattr(s, 'files', {}))
        return t
    def wobj(s, oid):
        if oid not in s.owned:
            s.mem[oid] = s.mem[oid].clone(); s.owned.add(oid)
        return s.mem[oid]
    def alloc(s, size, kind, name, fill=0):
        oid = s.next_obj; s.next_obj += 1
        s.mem[oid] = Obj(size, kind, name, fill); s.owned.add(oid)
        return oid

class Frame:
    def __init__(s, fn): s.fn = fn; s.regs = {}; s.blk = None; s.prev = None; s.ip = 0; s.allocas = []; s.retdst = None
    def clone(s):
        f = Frame.__new__(Frame); f.fn = s.fn; f.regs = dict(s.regs); f.blk = s.blk; f.prev = s.prev; f.ip = s.ip
        f.allocas = list(s.allocas); f.retdst = s.retdst
        return f

class Engine:
    def __init__(s, mod, max_steps=2_000_000, max_paths=100000, malloc_fail=False):
        s.m = mod; s.solver = z3.Solver(); s.max_steps = max_steps; s.max_paths = max_paths
        s.malloc_fail = malloc_fail
        s.gaddr = {}
        s.violations = []; s.paths = 0; s.queries = 0; s.qtime = 0.0
        s.parsed = {}
        s.ginit_state = None
        s.fnptr = {}; s.fnobj = {}; s.crc_summary = True; s.crc_memo = {}; Engine.overrides = {'@carquet_crc32'}
        s.total_steps = 0
    # ---- solver helpers
    def check(s, st, extra):
        s.queries += 1
        t0 = time.time()
        r = s.solver.check(*(st.pc + list(extra)))
        s.qtime += time.time() - t0
        return r == z3.sat
    def model(s, st, extra=()):
        if s.solver.check(*(st.pc + list(extra))) == z3.sat:
            mdl = s.solver.model()
            return {str(v): mdl.eval(v, model_completion=True).as_long() for v in st.syms}
        return None
    # ---- globals
    def init_globals(s, st):
        for name, (ty, init, const) in s.m.globals.items():
            oid = st.alloc(s.m.sizeof(ty), 'global', name)
            s.gaddr[name] = oid
        for name in s.m.funcs:
            oid = st.alloc(1, 'func', name); s.gaddr[name] = oid; s.fnobj[oid] = name
        for name in s.m.decls:
            if name not in s.gaddr:
                oid = st.alloc(1, 'func', name); s.gaddr[name] = oid; s.fnobj[oid] = name
        for name, (ty, init, const) in s.m.globals.items():
            p = P(init)
            if p.peek()[0] == 'eof' or (p.peek() == ('sym', ',')): continue
            val = s.parse_const(p, ty)
            s.store_const(st, s.gaddr[name], 0, ty, val)
            if const: st.mem[s.gaddr[name]].ro = True
    def parse_const(s, p, ty):
        """returns python structure: int | Ptr | list | ('zero',) | ('undef',)"""
        rt = s.m.resolve(ty)
        k, v = p.peek()
        if k == 'kw' and v in ('zeroinitializer',): p.next(); return ('zero',)
        if k == 'kw' and v in ('undef', 'poison'): p.next(); return ('zero',)
        if k == 'kw' and v == 'null': p.next(); return NULL
        if k == 'kw' and v == 'true': p.next(); return 1
        if k == 'kw' and v == 'false': p.next(); return 0
        if k == 'int': p.next(); return v & mask(rt.bits) if isinstance(rt, IntTy) else v
        if k == 'flt' or k == 'hex':
            p.next()
            import struct
            if k == 'hex': bits = int(v, 16)
            else: bits = struct.unpack('<Q', struct.pack('<d', float(v)))[0]
            if isinstance(rt, FloatTy) and rt.bits == 32:
                d = struct.unpack('<d', struct.pack('<Q', bits))[0]
                return struct.unpack('<I', struct.pack('<f', d))[0]
            return bits
        if k == 'cstr':
            p.next(); raw = v[2:-1]; out = []; i = 0
            while i < len(raw):
                if raw[i] == '\\':
                    if raw[i + 1] == '\\': out.append(92); i += 2
                    else: out.append(int(raw[i + 1:i + 3], 16)); i += 3
                else: out.append(ord(raw[i])); i += 1
            return out
        if k == 'sym' and v == '[':
            p.next(); els = []
            if not p.accept('sym', ']'):
                while True:
                    et = s.m.parse_type(p); els.append(s.parse_const(p, et))
                    if p.accept('sym', ']'): break
                    p.expect('sym', ',')
            return els
        if k == 'sym' and v in ('{', '<'):
            packed = False
            if v == '<': p.next(); packed = True
            p.expect('sym', '{'); els = []
            if not p.accept('sym', '}'):
                while True:
                    et = s.m.parse_type(p); els.append(s.parse_const(p, et))
                    if p.accept('sym', '}'): break
                    p.expect('sym', ',')
            if packed: p.expect('sym', '>')
            return els
        if k == 'id' and v.startswith('@'):
            p.next(); return Ptr(s.gaddr[v], 0)
        if k == 'kw' and v in ('getelementptr', 'bitcast', 'inttoptr', 'ptrtoint'):
            return s.const_expr(p)
        raise ValueError(f"const? {k} {v} for {ty}")
    def const_expr(s, p):
        k, v = p.next()
        if v == 'getelementptr':
            p.accept('kw', 'inbounds'); p.expect('sym', '(')
            bt = s.m.parse_type(p); p.expect('sym', ',')
            pt = s.m.parse_type(p); base = s.parse_const(p, pt)
            idx = []
            while p.accept('sym', ','):
                p.accept('kw', 'inrange')
                it = s.m.parse_type(p); idx.append(s.parse_const(p, it))
            p.expect('sym', ')')
            off = s.gep_off(bt, [to_signed(i, 64) if i >> 63 else i for i in idx], None)
            return Ptr(base.obj, base.off + off)
        if v in ('bitcast', 'inttoptr', 'ptrtoint'):
            p.expect('sym', '('); ft = s.m.parse_type(p); val = s.parse_const(p, ft); p.expect('kw', 'to'); tt = s.m.parse_type(p); p.expect('sym', ')')
            return val
        raise ValueError(v)
    def store_const(s, st, oid, off, ty, val):
        rt = s.m.resolve(ty)
        if val == ('zero',): return
        if isinstance(rt, ArrTy):
            es = s.m.sizeof(rt.el)
            for i, e in enumerate(val):
                if isinstance(e, int) and isinstance(s.m.resolve(rt.el), IntTy) and es == 1: st.mem[oid].data[off + i] = e
                else: s.store_const(st, oid, off + i * es, rt.el, e)
        elif isinstance(rt, StructTy):
            offs, _ = s.m.layout(rt)
            for e, o, et in zip(val, offs, rt.els): s.store_const(st, oid, off + o, et, e)
        else:
            s.store_val(st, Ptr(oid, off), val, s.m.sizeof(rt), check=False)
    # ---- memory
    def gep_off(s, bt, idx, st):
        """idx: list of python ints or z3; returns int or z3 BV64 offset"""
        off = 0
        t = bt
        first = True
        for i in idx:
            if first:
                sz = s.m.sizeof(t); first = False
                off = s.addmul(off, i, sz)
            else:
                rt = s.m.resolve(t)
                if isinstance(rt, StructTy):
                    assert is_conc(i)
                    offs, _ = s.m.layout(rt); off = s.addmul(off, offs[i], 1); t = rt.els[i]
                elif isinstance(rt, (ArrTy, VecTy)):
                    off = s.addmul(off, i, s.m.sizeof(rt.el)); t = rt.el
                else: raise ValueError(f"gep into {rt}")
        return off
    def addmul(s, off, i, sz):
        if is_conc(off) and is_conc(i): return off + i * sz
        a = bv(off & mask(64) if is_conc(off) else off, 64)
        b = bv(i & mask(64) if is_conc(i) else i, 64)
        return z3.simplify(a + b * z3.BitVecVal(sz, 64))
    def resolve_off(s, st, ptr, n, what):
        """bounds check; returns list of candidate concrete offsets (forks handled by caller via ITE)"""
        if ptr.obj == 0: raise Violation('null-deref', f"{what} through NULL pointer", s.model(st))
        o = st.mem.get(ptr.obj)
        if o is None: raise Violation('bad-pointer', f"{what} via invalid object {ptr.obj}", s.model(st))
        if o.freed: raise Violation('use-after-free', f"{what} of freed object {o.name}", s.model(st))
        if o.kind == 'func': raise Violation('bad-pointer', f"{what} of function object", s.model(st))
        off = ptr.off
        if is_conc(off):
            off = to_signed(off & mask(64), 64)
            if off < 0 or off + n > o.size:
                raise Violation('out-of-bounds', f"{what} of {n} bytes at offset {off} of object '{o.name}' size {o.size}", s.model(st))
            return [off]
        # symbolic offset
        oob = z3.Or(z3.ULT(z3.BitVecVal(o.size - n if o.size >= n else 0, 64), off)) if o.size >= n else z3.BoolVal(True)
        if s.check(st, [oob]):
            raise Violation('out-of-bounds', f"{what} of {n} bytes at symbolic offset of object '{o.name}' size {o.size}", s.model(st, [oob]))
        # enumerate feasible offsets (bounded)
        cands = []
        for c in range(0, o.size - n + 1):
            if len(cands) > 300: raise Violation('engine-limit', 'too many symbolic offsets')
            cands.append(c)
        return cands
    def load_val(s, st, ptr, n):
        cands = s.resolve_off(st, ptr, n, 'read')
        o = st.mem[ptr.obj]
        if len(cands) == 1: return s.load_at(o, cands[0], n)
        # symbolic: ITE over feasible offsets; prune infeasible with solver lazily (cheap approx: no pruning)
        res = None
        for c in reversed(cands):
            v = s.load_at(o, c, n)
            if isinstance(v, Ptr): raise Violation('engine-limit', 'symbolic-offset load of pointer')
            v = bv(v, 8 * n)
            res = v if res is None else z3.If(ptr.off == c, v, res)
        return z3.simplify(res)
    def load_at(s, o, off, n):
        d = o.data
        cells = d[off:off + n]
        c0 = cells[0]
        if isinstance(c0, tuple):
            if n == 8 and all(isinstance(c, tuple) and c[0] is c0[0] and c[1] == i for i, c in enumerate(cells)):
                return c0[0]
            # partial pointer read -> convert to address ints
            cells = [s.ptr_byte(c) if isinstance(c, tuple) else c for c in cells]
        elif any(isinstance(c, tuple) for c in cells):
            cells = [s.ptr_byte(c) if isinstance(c, tuple) else c for c in cells]
        if all(isinstance(c, int) for c in cells):
            v = 0
            for i, c in enumerate(cells): v |= c << (8 * i)
            return v
        parts = [bv(c, 8) for c in reversed(cells)]
        return z3.simplify(z3.Concat(*parts)) if len(parts) > 1 else parts[0]
    def ptr_byte(s, cell):
        p, k = cell
        a = s.ptr_addr(p)
        if is_conc(a): return (a >> (8 * k)) & 0xFF
        return z3.Extract(8 * k + 7, 8 * k, a)
    def ptr_addr(s, p):
        if is_conc(p.off): return ((p.obj << 32) + p.off) & mask(64)
        return z3.BitVecVal(p.obj << 32, 64) + p.off
    def store_val(s, st, ptr, val, n, check=True):
        if check:
            cands = s.resolve_off(st, ptr, n, 'write')
            if st.mem[ptr.obj].ro: raise Violation('write-to-const', f"write to constant object {st.mem[ptr.obj].name}", s.model(st))
        else: cands = [ptr.off]
        o = st.wobj(ptr.obj)
        if isinstance(val, Ptr):
            assert n == 8
            if len(cands) != 1: raise Violation('engine-limit', 'symbolic-offset store of pointer')
            for i in range(8): o.data[cands[0] + i] = (val, i)
            return
        if len(cands) == 1:
            s.store_at(o, cands[0], val, n); return
        for c in cands:
            cond = ptr.off == c
            for i in range(n):
                old = o.data[c + i]
                if isinstance(old, tuple): old = s.ptr_byte(old)
                newb = (val >> (8 * i)) & 0xFF if is_conc(val) else z3.Extract(8 * i + 7, 8 * i, val)
                o.data[c + i] = z3.simplify(z3.If(cond, bv(newb, 8), bv(old, 8)))
    def store_at(s, o, off, val, n):
        if is_conc(val):
            for i in range(n): o.data[off + i] = (val >> (8 * i)) & 0xFF
        else:
            if n == 1: o.data[off] = val; return
            for i in range(n): o.data[off + i] = z3.simplify(z3.Extract(8 * i + 7, 8 * i, val))
    def int_to_ptr(s, st, v):
        if isinstance(v, Ptr): return v
        if is_conc(v):
            return Ptr(v >> 32, v & mask(32)) if v else NULL
        # symbolic address: try to recover constant object id
        hi = z3.simplify(z3.Extract(63, 32, v))
        if z3.is_bv_value(hi):
            return Ptr(hi.as_long(), z3.simplify(z3.ZeroExt(32, z3.Extract(31, 0, v))))
        mdl = s.model(st)
        raise Violation('engine-limit', f'inttoptr of symbolic address {v}')

    # ---- operand evaluation
    def operand(s, st, fr, p, ty):
        k, v = p.next()
        rt = s.m.resolve(ty)
        if k == 'id':
            if v.startswith('%'): return fr.regs[v]
            return Ptr(s.gaddr[v], 0)
        if k == 'int':
            if isinstance(rt, IntTy): return v & mask(rt.bits)
            return v
        if k == 'kw':
            if v == 'null': return NULL
            if v == 'true': return 1
            if v == 'false': return 0
            if v in ('undef', 'poison', 'zeroinitializer'):
                return NULL if isinstance(rt, PtrTy) else 0
            if v in ('getelementptr', 'bitcast', 'inttoptr', 'ptrtoint'):
                p.i -= 1; return s.const_expr(p)
        if k in ('flt', 'hex'):
            p.i -= 1; return s.parse_const(p, ty)
        raise ValueError(f"operand {k} {v}")

    # ---- run
    def run(s, entry, setup=None):
        st = State()
        s.init_globals(st)
        fn = s.m.funcs[entry]
        fr = Frame(fn); fr.blk = fn.order[0]
        st.frames.append(fr)
        work = [st]
        t0 = time.time()
        while work:
            st = work.pop()
            try:
                s.exec_path(st, work)
            except Violation as v:
                s.violations.append((v.kind, v.msg, v.model, s.where(st)))
            except PathEnd:
                pass
            s.paths += 1
            if s.paths >= s.max_paths: print("max paths reached"); break
        return time.time() - t0
    def where(s, st):
        return " <- ".join(f"{f.fn.name}:{f.blk}" for f in reversed(st.frames[-4:]))

    def exec_path(s, st, work):
        while True:
            if not st.frames: raise PathEnd()
            fr = st.frames[-1]
            insts = fr.fn.blocks[fr.blk]
            if fr.ip >= len(insts): raise ValueError(f"fell off block {fr.fn.name} {fr.blk}")
            text, toks = insts[fr.ip]
            fr.ip += 1
            st.steps += 1; s.total_steps += 1
            if st.steps > s.max_steps: raise Violation('engine-limit', 'step bound exceeded (possible non-termination)', s.model(st))
            s.step(st, fr, text, toks, work)

    def jump(s, fr, target):
        fr.prev = fr.blk; fr.blk = target; fr.ip = 0
        # evaluate phis atomically
        insts = fr.fn.blocks[target]
        vals = {}
        n = 0
        for text, toks in insts:
            if len(toks) > 2 and toks[2] == ('kw', 'phi'):
                p = P(toks); dst = p.expect('id'); p.expect('sym', '='); p.expect('kw', 'phi')
                ty = s.m.parse_type(p)
                got = None
                while True:
                    p.expect('sym', '[')
                    save = p.i
                    # value then label
                    # find label first (after comma)
                    depth = 0; j = p.i
                    # parse value lazily only if label matches
                    # scan tokens to the matching ']' to get label
                    k = p.i
                    while p.t[k] != ('sym', ']'): k += 1
                    lab = p.t[k - 1][1]
                    if lab == fr.prev:
                        got = s.operand(None, fr, p, ty)
                    p.i = k + 1
                    if not p.accept('sym', ','): break
                assert got is not None, f"phi no incoming for {fr.prev} in {text}"
                vals[dst] = got; n += 1
            else: break
        fr.regs.update(vals); fr.ip = n

    def step(s, st, fr, text, toks, work):
        p = P(toks)
        dst = None
        if p.peek()[0] == 'id' and p.peek(1) == ('sym', '='):
            dst = p.next()[1]; p.next()
        k, op = p.next()
        while op in ('tail', 'notail', 'musttail'): k, op = p.next()
        m = s.m
        if op == 'br':
            if p.accept('kw', 'label'):
                s.jump(fr, p.expect('id')); return
            ty = m.parse_type(p); c = s.operand(st, fr, p, ty)
            p.expect('sym', ','); p.expect('kw', 'label'); t = p.expect('id'); p.expect('sym', ','); p.expect('kw', 'label'); f = p.expect('id')
            if is_conc(c): s.jump(fr, t if c & 1 else f); return
            cond = c == 1
            can_t = s.check(st, [cond]); can_f = s.check(st, [z3.Not(cond)])
            if can_t and can_f:
                st2 = st.fork(); st2.pc.append(z3.Not(cond)); s.jump(st2.frames[-1], f); work.append(st2)
                st.pc.append(cond); s.jump(fr, t)
            elif can_t: s.jump(fr, t)
            elif can_f: s.jump(fr, f)
            else: raise PathEnd()
            return
        if op == 'ret':
            ty = m.parse_type(p)
            rv = None
            if not isinstance(ty, VoidTy): rv = s.operand(st, fr, p, ty)
            for oid in fr.allocas:
                st.wobj(oid).freed = True
            st.frames.pop()
            if st.frames:
                caller = st.frames[-1]
                if fr.retdst is not None: caller.regs[fr.retdst] = rv
            return
        if op == 'unreachable':
            raise Violation('unreachable', 'reached unreachable', s.model(st))
        if op == 'switch':
            ty = m.parse_type(p); v = s.operand(st, fr, p, ty); p.expect('sym', ','); p.expect('kw', 'label'); dflt = p.expect('id')
            p.expect('sym', '[')
            cases = []
            while not p.accept('sym', ']'):
                ct = m.parse_type(p); cv = s.operand(st, fr, p, ct); p.expect('sym', ','); p.expect('kw', 'label'); cl = p.expect('id')
                cases.append((cv, cl))
            if is_conc(v):
                for cv, cl in cases:
                    if cv == v: s.jump(fr, cl); return
                s.jump(fr, dflt); return
            feas = []
            notany = []
            for cv, cl in cases:
                cond = v == cv
                notany.append(z3.Not(cond))
                if s.check(st, [cond]): feas.append((cond, cl))
            if s.check(st, notany): feas.append((z3.And(*notany) if notany else z3.BoolVal(True), dflt))
            if not feas: raise PathEnd()
            for cond, cl in feas[1:]:
                st2 = st.fork(); st2.pc.append(cond); s.jump(st2.frames[-1], cl); work.append(st2)
            st.pc.append(feas[0][0]); s.jump(fr, feas[0][1]); return
        if op == 'alloca':
            ty = m.parse_type(p)
            n = 1
            if p.accept('sym', ','):
                if p.peek() != ('kw', 'align'):
                    nt = m.parse_type(p); n = s.operand(st, fr, p, nt)
                    assert is_conc(n), "symbolic alloca"
            oid = st.alloc(m.sizeof(ty) * n, 'stack', f"{fr.fn.name}:{dst}", fill=0)
            fr.allocas.append(oid); fr.regs[dst] = Ptr(oid, 0); return
        if op == 'load':
            p.accept('kw', 'volatile')
            ty = m.parse_type(p); p.expect('sym', ','); pt = m.parse_type(p); ptr = s.operand(st, fr, p, pt)
            ptr = s.int_to_ptr(st, ptr)
            rt = m.resolve(ty)
            v = s.load_val(st, ptr, m.sizeof(rt))
            if isinstance(rt, PtrTy): v = s.int_to_ptr(st, v)
            elif isinstance(v, Ptr): v = s.ptr_addr(v)
            if isinstance(rt, IntTy) and rt.bits % 8:
                v = v & mask(rt.bits) if is_conc(v) else z3.Extract(rt.bits - 1, 0, v)
            fr.regs[dst] = v; return
        if op == 'store':
            p.accept('kw', 'volatile')
            ty = m.parse_type(p); v = s.operand(st, fr, p, ty); p.expect('sym', ','); pt = m.parse_type(p); ptr = s.operand(st, fr, p, pt)
            ptr = s.int_to_ptr(st, ptr)
            rt = m.resolve(ty); n = m.sizeof(rt)
            if isinstance(rt, IntTy) and rt.bits % 8 and not is_conc(v): v = z3.ZeroExt(8 * n - rt.bits, v)
            if isinstance(rt, PtrTy) and not isinstance(v, Ptr): v = s.int_to_ptr(st, v)
            s.store_val(st, ptr, v, n); return
        if op == 'getelementptr':
            p.accept('kw', 'inbounds')
            bt = m.parse_type(p); p.expect('sym', ','); pt = m.parse_type(p); base = s.operand(st, fr, p, pt)
            base = s.int_to_ptr(st, base)
            idx = []
            while p.accept('sym', ','):
                it = m.parse_type(p); iv = s.operand(st, fr, p, it)
                bits = m.resolve(it).bits
                if is_conc(iv): iv = to_signed(iv, bits)
                elif bits < 64: iv = z3.SignExt(64 - bits, iv)
                idx.append(iv)
            off = s.gep_off(bt, idx, st)
            if is_conc(off) and is_conc(base.off): fr.regs[dst] = Ptr(base.obj, base.off + off)
            else: fr.regs[dst] = Ptr(base.obj, z3.simplify(bv(base.off & mask(64) if is_conc(base.off) else base.off, 64) + bv(off & mask(64) if is_conc(off) else off, 64)))
            return
        if op in ('bitcast',):
            ty = m.parse_type(p); v = s.operand(st, fr, p, ty); fr.regs[dst] = v; return
        if op == 'ptrtoint':
            ty = m.parse_type(p); v = s.operand(st, fr, p, ty); p.expect('kw', 'to'); tt = m.parse_type(p)
            a = s.ptr_addr(v) if isinstance(v, Ptr) else v
            bits = m.resolve(tt).bits
            if bits < 64: a = a & mask(bits) if is_conc(a) else z3.Extract(bits - 1, 0, a)
            fr.regs[dst] = a; return
        if op == 'inttoptr':
            ty = m.parse_type(p); v = s.operand(st, fr, p, ty); fr.regs[dst] = s.int_to_ptr(st, v); return
        if op in ('trunc', 'zext', 'sext'):
            ty = m.parse_type(p); v = s.operand(st, fr, p, ty); p.expect('kw', 'to'); tt = m.parse_type(p)
            fb = m.resolve(ty).bits; tb = m.resolve(tt).bits
            if is_conc(v):
                if op == 'trunc': r = v & mask(tb)
                elif op == 'zext': r = v
                else: r = to_signed(v, fb) & mask(tb)
            else:
                if op == 'trunc': r = z3.Extract(tb - 1, 0, v)
                elif op == 'zext': r = z3.ZeroExt(tb - fb, v)
                else: r = z3.SignExt(tb - fb, v)
                r = z3.simplify(r)
            fr.regs[dst] = r; return
        if op in ('add', 'sub', 'mul', 'udiv', 'sdiv', 'urem', 'srem', 'and', 'or', 'xor', 'shl', 'lshr', 'ashr'):
            while p.peek()[0] == 'kw' and p.peek()[1] in ('nsw', 'nuw', 'exact'): p.next()
            ty = m.parse_type(p); a = s.operand(st, fr, p, ty); p.expect('sym', ','); b = s.operand(st, fr, p, ty)
            bits = m.resolve(ty).bits
            if isinstance(a, Ptr): a = s.ptr_addr(a)
            if isinstance(b, Ptr): b = s.ptr_addr(b)
            fr.regs[dst] = s.binop(st, op, a, b, bits); return
        if op == 'icmp':
            pred = p.next()[1]; ty = m.parse_type(p); a = s.operand(st, fr, p, ty); p.expect('sym', ','); b = s.operand(st, fr, p, ty)
            rt = m.resolve(ty)
            bits = 64 if isinstance(rt, PtrTy) else rt.bits
            if isinstance(a, Ptr) and isinstance(b, Ptr) and a.obj == b.obj and is_conc(a.off) and is_conc(b.off):
                a, b = a.off & mask(64), b.off & mask(64)
            else:
                if isinstance(a, Ptr): a = s.ptr_addr(a)
                if isinstance(b, Ptr): b = s.ptr_addr(b)
            fr.regs[dst] = s.icmp(pred, a, b, bits); return
        if op == 'select':
            ct = m.parse_type(p); c = s.operand(st, fr, p, ct); p.expect('sym', ','); ty = m.parse_type(p); a = s.operand(st, fr, p, ty); p.expect('sym', ','); ty2 = m.parse_type(p); b = s.operand(st, fr, p, ty2)
            if is_conc(c): fr.regs[dst] = a if c & 1 else b; return
            if isinstance(a, Ptr) or isinstance(b, Ptr):
                # fork
                cond = c == 1
                can_t = s.check(st, [cond]); can_f = s.check(st, [z3.Not(cond)])
                if can_t and can_f:
                    st2 = st.fork(); st2.pc.append(z3.Not(cond)); st2.frames[-1].regs[dst] = b; work.append(st2)
                    st.pc.append(cond); fr.regs[dst] = a
                else: fr.regs[dst] = a if can_t else b
                return
            bits = m.resolve(ty).bits
            fr.regs[dst] = z3.simplify(z3.If(c == 1, bv(a, bits), bv(b, bits))); return
        if op == 'call':
            return s.do_call(st, fr, p, dst, work, text)
        if op == 'extractvalue':
            ty = m.parse_type(p); v = s.operand(st, fr, p, ty); p.expect('sym', ','); i = p.expect('int'); fr.regs[dst] = v[i]; return
        if op == 'insertvalue':
            ty = m.parse_type(p); v = s.operand(st, fr, p, ty); p.expect('sym', ','); et = m.parse_type(p); e = s.operand(st, fr, p, et); p.expect('sym', ','); i = p.expect('int')
            rt = m.resolve(ty)
            cur = list(v) if isinstance(v, (list, tuple)) else [0] * len(rt.els)
            cur[i] = e; fr.regs[dst] = cur; return
        raise Violation('engine-limit', f"unsupported instruction: {text}")

    def binop(s, st, op, a, b, bits):
        if is_conc(a) and is_conc(b):
            M = mask(bits)
            if op == 'add': return (a + b) & M
            if op == 'sub': return (a - b) & M
            if op == 'mul': return (a * b) & M
            if op == 'and': return a & b
            if op == 'or': return a | b
            if op == 'xor': return a ^ b
            if op == 'shl': return (a << b) & M if b < bits else 0
            if op == 'lshr': return a >> b if b < bits else 0
            if op == 'ashr': return (to_signed(a, bits) >> min(b, bits - 1)) & M
            if op in ('udiv', 'urem', 'sdiv', 'srem') and b == 0: raise Violation('div-by-zero', 'division by zero', s.model(st))
            if op == 'udiv': return a // b
            if op == 'urem': return a % b
            sa, sb = to_signed(a, bits), to_signed(b, bits)
            q = abs(sa) // abs(sb); q = -q if (sa < 0) != (sb < 0) else q
            if op == 'sdiv': return q & M
            if op == 'srem': return (sa - q * sb) & M
        A, B = bv(a, bits), bv(b, bits)
        if op in ('udiv', 'urem', 'sdiv', 'srem'):
            if s.check(st, [B == 0]): raise Violation('div-by-zero', 'division by zero', s.model(st, [B == 0]))
        r = {'add': lambda: A + B, 'sub': lambda: A - B, 'mul': lambda: A * B, 'and': lambda: A & B, 'or': lambda: A | B,
             'xor': lambda: A ^ B, 'shl': lambda: A << B, 'lshr': lambda: z3.LShR(A, B), 'ashr': lambda: A >> B,
             'udiv': lambda: z3.UDiv(A, B), 'urem': lambda: z3.URem(A, B), 'sdiv': lambda: A / B, 'srem': lambda: z3.SRem(A, B)}[op]()
        return z3.simplify(r)
    def icmp(s, pred, a, b, bits):
        if is_conc(a) and is_conc(b):
            sa, sb = to_signed(a, bits), to_signed(b, bits)
            return int({'eq': a == b, 'ne': a != b, 'ugt': a > b, 'uge': a >= b, 'ult': a < b, 'ule': a <= b,
                        'sgt': sa > sb, 'sge': sa >= sb, 'slt': sa < sb, 'sle': sa <= sb}[pred])
        A, B = bv(a, bits), bv(b, bits)
        c = {'eq': lambda: A == B, 'ne': lambda: A != B, 'ugt': lambda: z3.UGT(A, B), 'uge': lambda: z3.UGE(A, B),
             'ult': lambda: z3.ULT(A, B), 'ule': lambda: z3.ULE(A, B), 'sgt': lambda: A > B, 'sge': lambda: A >= B,
             'slt': lambda: A < B, 'sle': lambda: A <= B}[pred]()
        c = z3.simplify(c)
        if z3.is_true(c): return 1
        if z3.is_false(c): return 0
        return z3.If(c, z3.BitVecVal(1, 1), z3.BitVecVal(0, 1))

    # ---- calls
    def do_call(s, st, fr, p, dst, work, text):
        m = s.m
        while p.peek()[0] == 'kw' and p.peek()[1] in ('fastcc', 'ccc', 'noundef', 'zeroext', 'signext', 'noalias', 'nonnull', 'nnan', 'ninf', 'nsz', 'arcp', 'contract', 'afn', 'reassoc', 'fast'): p.next()
        rty = m.parse_type(p)
        if isinstance(rty, FuncTy) or (isinstance(rty, PtrTy) and isinstance(rty.to, FuncTy)):
            rty = rty.ret if isinstance(rty, FuncTy) else rty.to.ret
        k, callee = p.next()
        if k == 'id' and callee.startswith('%'):
            fp = fr.regs[callee]
            fp = s.int_to_ptr(st, fp)
            if fp.obj not in s.fnobj: raise Violation('bad-call', f'indirect call through non-function pointer {fp}', s.model(st))
            callee = s.fnobj[fp.obj]
        p.expect('sym', '(')
        args = []
        if not p.accept('sym', ')'):
            while True:
                at = m.parse_type(p)
                while p.peek()[0] == 'kw' and p.peek()[1] in PARAM_ATTRS | {'align', 'dereferenceable', 'byval', 'sret'}:
                    kk, vv = p.next()
                    if vv in ('align', 'dereferenceable') and p.peek()[0] == 'int': p.next()
                    if p.peek() == ('sym', '(') and vv in ('byval', 'sret'):
                        depth = 0
                        while True:
                            a, b = p.next()
                            if (a, b) == ('sym', '('): depth += 1
                            if (a, b) == ('sym', ')'):
                                depth -= 1
                                if depth == 0: break
                if p.peek()[0] == 'md':
                    p.next(); args.append(None)
                else:
                    args.append(s.operand(st, fr, p, at))
                if p.accept('sym', ')'): break
                p.expect('sym', ',')
        if callee in m.funcs and callee not in s.overrides:
            fn = m.funcs[callee]
            nf = Frame(fn); nf.blk = fn.order[0]; nf.retdst = dst
            for (pt, pn), a in zip(fn.params, args): nf.regs[pn] = a
            if len(st.frames) > 200: raise Violation('stack-depth', 'call depth > 200 (unbounded recursion?)', s.model(st))
            st.frames.append(nf); return
        r = s.external(st, fr, callee, args, work, dst)
        if dst is not None and r is not Ellipsis: fr.regs[dst] = r

    overrides = set()
    def external(s, st, fr, name, a, work, dst):
        n = name[1:]
        if n.startswith('llvm.dbg') or n.startswith('llvm.lifetime') or n in ('llvm.stackrestore',) or n.startswith('llvm.prefetch'): return 0
        if n == 'llvm.stacksave': return NULL
        if n in ('llvm.va_start', 'llvm.va_end', 'llvm.va_copy'): return 0
        if n.startswith('llvm.memcpy') or n.startswith('llvm.memmove') or n in ('memcpy', 'memmove'):
            s.memcpy(st, a[0], a[1], a[2]); return a[0]
        if n.startswith('llvm.memset') or n == 'memset':
            s.memset(st, a[0], a[1], a[2]); return a[0]
        if n in ('malloc', 'calloc'):
            size = a[0] if n == 'malloc' else s.binop(st, 'mul', a[0], a[1], 64)
            return s.malloc(st, size, work, dst, zero=(n == 'calloc'))
        if n == 'realloc':
            old = a[0]; size = a[1]
            if old.obj == 0: return s.malloc(st, size, work, dst)
            newp = s.malloc(st, size, work, dst)
            if newp.obj == 0: return newp
            oo = st.mem[old.obj]
            cp = min(oo.size, st.mem[newp.obj].size)
            no = st.wobj(newp.obj); no.data[:cp] = oo.data[:cp]
            st.wobj(old.obj).freed = True
            return newp
        if n == 'free':
            ptr = a[0]
            if ptr.obj == 0: return 0
            o = st.mem.get(ptr.obj)
            if o is None or o.kind != 'heap' or ptr.off != 0: raise Violation('bad-free', f'free of non-heap/interior pointer {ptr}', s.model(st))
            if o.freed: raise Violation('double-free', f'double free of {o.name}', s.model(st))
            st.wobj(ptr.obj).freed = True; return 0
        if n == 'symx_make_symbolic':
            ptr, size = a[0], a[1]
            nm = s.cstring(st, a[2])
            o = st.wobj(ptr.obj)
            for i in range(size):
                v = z3.BitVec(f"{nm}[{i}]", 8); st.syms.append(v); o.data[ptr.off + i] = v
            return 0
        if n == 'symx_assume':
            c = a[0]
            if is_conc(c):
                if not c: raise PathEnd()
                return 0
            cond = c != 0
            if not s.check(st, [cond]): raise PathEnd()
            st.pc.append(cond); return 0
        if n == 'symx_assert':
            c = a[0]; msg = s.cstring(st, a[1])
            if is_conc(c):
                if not c: raise Violation('assert', msg, s.model(st))
                return 0
            bad = c == 0
            if s.check(st, [bad]): raise Violation('assert', msg, s.model(st, [bad]))
            return 0
        if n == 'symx_fopen_mem':
            oid = st.alloc(8, 'file', 'FILE'); st.mem[oid].data = []; st.mem[oid].size = 8
            if not hasattr(st, 'files'): st.files = {}
            st.files = dict(getattr(st, 'files', {})); st.files[oid] = []
            return Ptr(oid, 0)
        if n == 'fwrite':
            ptr, sz, cnt, fp = a
            assert is_conc(sz) and is_conc(cnt)
            nbytes = sz * cnt
            if nbytes:
                so = s.resolve_off(st, s.int_to_ptr(st, ptr), nbytes, 'fwrite read')
                data = st.mem[ptr.obj].data[so[0]:so[0] + nbytes]
                st.files = dict(st.files); st.files[fp.obj] = st.files[fp.obj] + data
            return cnt
        if n in ('fflush', 'fclose'): return 0
        if n == 'symx_file_size': return len(st.files[a[0].obj])
        if n == 'symx_file_read':
            fp, dstp, cap = a
            data = st.files[fp.obj]
            assert len(data) <= cap
            o = st.wobj(dstp.obj); o.data[dstp.off:dstp.off + len(data)] = data
            return len(data)
        if n == 'strdup':
            ln = s.external(st, fr, '@strlen', [a[0]], work, None)
            p = s.malloc(st, ln + 1, work, dst)
            if p.obj: s.memcpy(st, p, a[0], ln + 1)
            return p
        if n == 'strcmp':
            pa, pb = a; i = 0
            while True:
                x = s.load_val(st, Ptr(pa.obj, pa.off + i), 1); y = s.load_val(st, Ptr(pb.obj, pb.off + i), 1)
                if not (is_conc(x) and is_conc(y)): raise Violation('engine-limit', 'symbolic strcmp')
                if x != y: return 0xFFFFFFFF if x < y else 1
                if x == 0: return 0
                i += 1
        if n == 'carquet_crc32' and s.crc_summary:
            ptr, ln = a
            assert is_conc(ln)
            if ln == 0: return 0
            so = s.resolve_off(st, ptr, ln, 'crc read')
            data = st.mem[ptr.obj].data[so[0]:so[0] + ln]
            if all(isinstance(b, int) for b in data):
                import zlib; return zlib.crc32(bytes(data)) & 0xFFFFFFFF
            key = tuple(b if isinstance(b, int) else b.get_id() for b in data)
            if key not in s.crc_memo:
                v = z3.BitVec(f"crc#{len(s.crc_memo)}", 32); s.crc_memo[key] = v
            return s.crc_memo[key]
        if n in ('memcmp', 'bcmp'):
            pa, pb, cnt = s.int_to_ptr(st, a[0]), s.int_to_ptr(st, a[1]), a[2]
            if not is_conc(cnt): raise Violation('engine-limit', 'symbolic memcmp length')
            res = 0
            for i in reversed(range(cnt)):
                x = s.load_val(st, Ptr(pa.obj, s.addmul(pa.off, i, 1)), 1); y = s.load_val(st, Ptr(pb.obj, s.addmul(pb.off, i, 1)), 1)
                if is_conc(x) and is_conc(y):
                    if x != y: res = (0xFFFFFFFF if x < y else 1)
                else:
                    X, Y = bv(x, 8), bv(y, 8)
                    res = z3.If(X == Y, bv(res, 32), z3.If(z3.ULT(X, Y), z3.BitVecVal(0xFFFFFFFF, 32), z3.BitVecVal(1, 32)))
            return res if is_conc(res) else z3.simplify(res)
        if n == 'strlen':
            ptr = a[0]; o = st.mem[ptr.obj]; i = ptr.off
            while True:
                if i >= o.size: raise Violation('out-of-bounds', 'strlen past object', s.model(st))
                c = o.data[i]
                if is_conc(c):
                    if c == 0: break
                else:
                    if s.check(st, [c == 0]):
                        if s.check(st, [c != 0]):
                            st2 = st.fork(); st2.pc.append(c != 0); st2.frames[-1].ip -= 1; work.append(st2)
                        st.pc.append(c == 0); break
                i += 1
            return i - ptr.off
        if n in ('strncpy',):
            dstp, src, cnt = a; so = st.mem[src.obj]; assert is_conc(cnt)
            done = False
            for i in range(cnt):
                if done: c = 0
                else:
                    c = s.load_val(st, Ptr(src.obj, src.off + i), 1)
                    if not is_conc(c): raise Violation('engine-limit', 'strncpy of symbolic string')
                    if c == 0: done = True
                s.store_val(st, Ptr(dstp.obj, dstp.off + i), c, 1)
            return dstp
        if n in ('snprintf', 'vsnprintf', 'fprintf', 'printf'):
            if n in ('snprintf', 'vsnprintf') and a[0].obj and (is_conc(a[1]) and a[1] > 0):
                s.store_val(st, a[0], 0, 1)
            return 0
        if n in ('abort', '__assert_fail'):
            raise Violation('abort', f'{n} called', s.model(st))
        raise Violation('engine-limit', f"unmodelled external {name}")
    def cstring(s, st, ptr):
        o = st.mem[ptr.obj]; out = []
        i = ptr.off
        while o.data[i] != 0: out.append(chr(o.data[i])); i += 1
        return "".join(out)
    def malloc(s, st, size, work, dst, zero=False):
        if not is_conc(size):
            # concretize to max feasible small value
            mdl = s.model(st)
            raise Violation('engine-limit', f'symbolic malloc size {size}')
        st.nallocs += 1
        if size > (1 << 28): return NULL
        if s.malloc_fail and st.failed_alloc is None:
            st2 = st.fork(); st2.failed_alloc = st.nallocs
            if dst is not None: st2.frames[-1].regs[dst] = NULL
            work.append(st2)
        oid = st.alloc(size, 'heap', f"heap#{st.nallocs}", fill=0 if zero else 0)
        return Ptr(oid, 0)
    def memcpy(s, st, d, sp, n):
        d = s.int_to_ptr(st, d); sp = s.int_to_ptr(st, sp)
        if not is_conc(n):
            # fork on each feasible n up to a bound
            raise Violation('engine-limit', f'symbolic memcpy length')
        if n == 0: return
        so = s.resolve_off(st, sp, n, 'memcpy read'); do = s.resolve_off(st, d, n, 'memcpy write')
        if len(so) != 1 or len(do) != 1: raise Violation('engine-limit', 'symbolic-offset memcpy')
        src = st.mem[sp.obj].data[so[0]:so[0] + n]
        o = st.wobj(d.obj)
        if o.ro: raise Violation('write-to-const', 'memcpy to const', s.model(st))
        o.data[do[0]:do[0] + n] = src
    def memset(s, st, d, c, n):
        d = s.int_to_ptr(st, d)
        if not is_conc(n): raise Violation('engine-limit', 'symbolic memset length')
        if n == 0: return
        do = s.resolve_off(st, d, n, 'memset')
        if len(do) != 1: raise Violation('engine-limit', 'symbolic-offset memset')
        o = st.wobj(d.obj)
        cb = (c & 0xFF) if is_conc(c) else z3.Extract(7, 0, c)
        o.data[do[0]:do[0] + n] = [cb] * n

if __name__ == '__main__':
    path, entry = sys.argv[1], sys.argv[2]
    t0 = time.time()
    mod = parse_module(path)
    eng = Engine(mod, malloc_fail=('--malloc-fail' in sys.argv))
    print(f"parsed {len(mod.funcs)} functions in {time.time()-t0:.2f}s")
    dt = eng.run('@' + entry)
    print(f"paths={eng.paths} steps={eng.total_steps} queries={eng.queries} solver_time={eng.qtime:.1f}s wall={dt:.1f}s violations={len(eng.violations)}")
    seen = set()
    for kind, msg, model, where in eng.violations:
        key = (kind, msg, where)
        if key in seen: continue
        seen.add(key)
        print("VIOLATION", kind, msg, "@", where)
        if model: print("   input:", {k: v for k, v in sorted(model.items())})
