#include "symx.h"
#include <stdint.h>
#include <stdlib.h>
#include <string.h>
#include <carquet/carquet.h>
#ifndef ROWS
#define ROWS 4
#endif
#ifndef SPLIT
#define SPLIT 4   /* rows in first batch of column 1 */
#endif
void harness(void) {
  carquet_error_t e = CARQUET_ERROR_INIT;
  carquet_schema_t* s = carquet_schema_create(&e);
  symx_assume(s != 0);
  (void)carquet_schema_add_column(s, "a", CARQUET_PHYSICAL_INT32, NULL, CARQUET_REPETITION_REQUIRED, 0);
  (void)carquet_schema_add_column(s, "b", CARQUET_PHYSICAL_INT64, NULL, CARQUET_REPETITION_OPTIONAL, 0);
  FILE* f = symx_fopen_mem();
  carquet_writer_t* w = carquet_writer_create_file(f, s, NULL, &e);
  symx_assume(w != 0);
  int32_t a[ROWS]; int64_t b[ROWS]; int16_t d[ROWS];
  symx_make_symbolic(a, sizeof a, "a"); symx_make_symbolic(b, sizeof b, "b"); symx_make_symbolic(d, sizeof d, "d");
  int nn = 0, n1 = 0;
  for (int i = 0; i < ROWS; i++) { symx_assume(d[i] == 0 || d[i] == 1); if (d[i]) { nn++; if (i < SPLIT) n1++; } }
  carquet_status_t st = carquet_writer_write_batch(w, 0, a, ROWS, NULL, NULL);
  symx_assert(st == CARQUET_OK, "write a");
  st = carquet_writer_write_batch(w, 1, b, SPLIT, d, NULL);
  symx_assert(st == CARQUET_OK, "write b1");
  if (SPLIT < ROWS) { st = carquet_writer_write_batch(w, 1, b + n1, ROWS - SPLIT, d + SPLIT, NULL); symx_assert(st == CARQUET_OK, "write b2"); }
  st = carquet_writer_close(w);
  symx_assert(st == CARQUET_OK, "close");
  size_t n = symx_file_size(f);
  uint8_t* buf = malloc(n);
  symx_file_read(f, buf, n);
  carquet_reader_options_t ro; carquet_reader_options_init(&ro);
  carquet_reader_t* r = carquet_reader_open_buffer(buf, n, &ro, &e);
  symx_assert(r != 0, "reopen");
  symx_assert(carquet_reader_num_rows(r) == ROWS, "row count");
  carquet_column_reader_t* c0 = carquet_reader_get_column(r, 0, 0, &e);
  symx_assert(c0 != 0, "col0");
  int32_t ra[ROWS]; int64_t got = carquet_column_read_batch(c0, ra, ROWS, NULL, NULL);
  symx_assert(got == ROWS, "col0 rows");
  for (int i = 0; i < ROWS; i++) symx_assert(ra[i] == a[i], "col0 value");
  carquet_column_reader_t* c1 = carquet_reader_get_column(r, 0, 1, &e);
  symx_assert(c1 != 0, "col1");
  int64_t rb[ROWS]; int16_t rd[ROWS];
  got = carquet_column_read_batch(c1, rb, ROWS, rd, NULL);
  symx_assert(got == ROWS, "col1 rows");
  for (int i = 0; i < ROWS; i++) symx_assert(rd[i] == d[i], "col1 def level");
  int k = 0;
  for (int i = 0; i < ROWS; i++) if (d[i]) { symx_assert(rb[k] == b[k], "col1 value"); k++; }
  carquet_column_reader_free(c0); carquet_column_reader_free(c1);
  carquet_reader_close(r); free(buf); carquet_schema_free(s);
}
