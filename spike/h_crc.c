#include <assert.h>
#include <stdint.h>
#include <stdlib.h>
#ifndef L
#define L 9
#endif
uint32_t carquet_crc32(const uint8_t* data, size_t length);
static uint32_t ref_crc32(const uint8_t* d, size_t n) {
  uint32_t c = 0xFFFFFFFFu;
  for (size_t i = 0; i < n; i++) { c ^= d[i]; for (int k = 0; k < 8; k++) c = (c >> 1) ^ (0xEDB88320u & (0u - (c & 1u))); }
  return ~c;
}
uint8_t nondet_u8(void); size_t nondet_size(void);
void harness_crc(void) {
  uint8_t buf[L]; for (int i = 0; i < L; i++) buf[i] = nondet_u8();
  assert(carquet_crc32(buf, L) == ref_crc32(buf, L));
}
