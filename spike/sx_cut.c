#include "symx.h"
#include <stdint.h>
#include <stdlib.h>
#include <string.h>
#include <carquet/carquet.h>
#include "filebytes.h"
void harness(void) {
  size_t full = sizeof FILEBYTES;
  uint32_t k; symx_make_symbolic(&k, sizeof k, "cut");
  symx_assume(k < full);
  uint8_t *buf = malloc(full);
  memcpy(buf, FILEBYTES, full);
  carquet_error_t err = CARQUET_ERROR_INIT;
  carquet_reader_t* r = carquet_reader_open_buffer(buf, k, NULL, &err);
  symx_assert(r == 0, "proper prefix must be rejected");
  if (r) carquet_reader_close(r);
  free(buf);
}
