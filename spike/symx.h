#include <stddef.h>
void symx_make_symbolic(void* p, size_t n, const char* name);
void symx_assume(int c);
void symx_assert(int c, const char* msg);
#include <stdio.h>
FILE* symx_fopen_mem(void);
size_t symx_file_size(FILE*);
size_t symx_file_read(FILE*, void* dst, size_t cap);
