#include <stddef.h>
void symx_make_symbolic(void* p, size_t n, const char* name);
void symx_assume(int c);
void symx_assert(int c, const char* msg);
