#include <assert.h>
#include <stdint.h>
#include <stddef.h>
#ifndef N
#define N 13
#endif
uint64_t carquet_xxhash64(const void* data, size_t length, uint64_t seed);
#define P1 0x9E3779B185EBCA87ULL
#define P2 0xC2B2AE3D27D4EB4FULL
#define P3 0x165667B19E3779F9ULL
#define P4 0x85EBCA77C2B2AE63ULL
#define P5 0x27D4EB2F165667C5ULL
static uint64_t rotl(uint64_t x, int r){ return (x<<r)|(x>>(64-r)); }
static uint64_t rd64(const uint8_t*p){ uint64_t v=0; for(int i=7;i>=0;i--) v=(v<<8)|p[i]; return v; }
static uint32_t rd32(const uint8_t*p){ uint32_t v=0; for(int i=3;i>=0;i--) v=(v<<8)|p[i]; return v; }
static uint64_t rnd(uint64_t a, uint64_t in){ a += in*P2; a = rotl(a,31); return a*P1; }
static uint64_t mrg(uint64_t h, uint64_t v){ h ^= rnd(0,v); return h*P1+P4; }
static uint64_t ref_xxh64(const uint8_t* p, size_t len, uint64_t seed){
  size_t i=0; uint64_t h;
  if (len>=32){ uint64_t v1=seed+P1+P2,v2=seed+P2,v3=seed,v4=seed-P1;
    while (i+32<=len){ v1=rnd(v1,rd64(p+i)); v2=rnd(v2,rd64(p+i+8)); v3=rnd(v3,rd64(p+i+16)); v4=rnd(v4,rd64(p+i+24)); i+=32; }
    h=rotl(v1,1)+rotl(v2,7)+rotl(v3,12)+rotl(v4,18); h=mrg(h,v1);h=mrg(h,v2);h=mrg(h,v3);h=mrg(h,v4);
  } else h=seed+P5;
  h+=len;
  while(i+8<=len){ h^=rnd(0,rd64(p+i)); h=rotl(h,27)*P1+P4; i+=8; }
  if(i+4<=len){ h^=(uint64_t)rd32(p+i)*P1; h=rotl(h,23)*P2+P3; i+=4; }
  while(i<len){ h^=p[i]*P5; h=rotl(h,11)*P1; i++; }
  h^=h>>33; h*=P2; h^=h>>29; h*=P3; h^=h>>32; return h; }
uint8_t nondet_u8(void); uint64_t nondet_u64(void);
void harness_x(void){ uint8_t b[N?N:1]; for(int i=0;i<N;i++) b[i]=nondet_u8(); uint64_t s=nondet_u64();
  assert(carquet_xxhash64(b,N,s)==ref_xxh64(b,N,s)); }
