#include <assert.h>
#include <stdint.h>
#include <stdlib.h>
#include "thrift/parquet_types.h"
#ifndef L
#define L 8
#endif
uint8_t nondet_u8(void); size_t nondet_size(void);
void harness_ph(void) {
  size_t len = nondet_size(); __CPROVER_assume(len <= L);
  uint8_t *src = malloc(len); __CPROVER_assume(src != 0);
  parquet_page_header_t h; size_t used = 0; carquet_error_t err;
  carquet_status_t st = parquet_parse_page_header(src, len, &h, &used, &err);
  if (st == CARQUET_OK) assert(used <= len);
}
