#include <assert.h>
#include <stdint.h>
#include <stdlib.h>
#include "encoding/rle.h"
#ifndef N
#define N 12
#endif
#ifndef BW
#define BW 1
#endif
uint32_t nondet_u32(void);
void harness_rtc(void) {
  uint32_t in[N]; uint32_t out[N];
  for (int i = 0; i < N; i++) { in[i] = nondet_u32(); __CPROVER_assume(in[i] < (1u<<BW)); }
  carquet_buffer_t buf; carquet_buffer_init_capacity(&buf, 64);
  carquet_status_t st = carquet_rle_encode_all(in, N, BW, &buf);
  assert(st == CARQUET_OK);
  assert(buf.size <= 64);
  int64_t got = carquet_rle_decode_all(buf.data, buf.size, BW, out, N);
  assert(got == N);
  for (int i = 0; i < N; i++) assert(out[i] == in[i]);
#ifdef WITNESS
  assert(0);
#endif
}
