#include "symx.h"
#include <stdint.h>
#include <stdlib.h>
#include "thrift/parquet_types.h"
#ifndef L
#define L 8
#endif
void harness(void) {
  uint8_t *src = malloc(L);
  symx_make_symbolic(src, L, "in");
  parquet_page_header_t h; size_t used = 0; carquet_error_t err;
  carquet_status_t st = parquet_parse_page_header(src, L, &h, &used, &err);
  if (st == CARQUET_OK) symx_assert(used <= L, "bytes_read <= size");
  free(src);
}
